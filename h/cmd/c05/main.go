// C05 chain database consistency after any history of block arrivals.
package main

import (
	"bytes"
	"fmt"
	"math/rand"
	"os"
	"regexp"
	"sort"
	"strings"
	"sync"

	"github.com/aergoio/aergo/v2/types"

	"verif/h/rig"
	"verif/h/vf"
)

type caseDesc struct {
	Tree    string   `json:"tree"`
	Shape   []int    `json:"shape"`
	Blocks  []string `json:"blocks"`
	Order   []int    `json:"order"`
	Arrival int      `json:"failed_at_arrival"`
	Results []string `json:"add_results"`
	Problems []string `json:"problems,omitempty"`
}

var reNum = regexp.MustCompile(`[0-9a-f]{8,}|\d+`)

func norm(s string) string { return reNum.ReplaceAllString(s, "#") }

// shapes enumerates parent arrays of rooted trees with n blocks above genesis and <= maxLeaves leaves.
func shapes(n, maxLeaves int) [][]int {
	var out [][]int
	cur := make([]int, n)
	var rec func(i int)
	rec = func(i int) {
		if i == n {
			child := map[int]bool{}
			for _, p := range cur {
				child[p] = true
			}
			leaves := 0
			for j := 0; j < n; j++ {
				if !child[j] {
					leaves++
				}
			}
			if leaves <= maxLeaves {
				out = append(out, append([]int(nil), cur...))
			}
			return
		}
		for p := -1; p < i; p++ {
			cur[i] = p
			rec(i + 1)
		}
	}
	rec(0)
	return out
}

func main() {
	if len(os.Args) > 1 && os.Args[1] == "node" {
		rig.ChildMain()
		return
	}
	c := vf.Start("C05", "exploration")
	r := c.Rand("shapes")
	var todo [][]int
	if c.Quick() {
		all := append(shapes(4, 3), shapes(5, 3)...)
		r.Shuffle(len(all), func(i, j int) { all[i], all[j] = all[j], all[i] })
		todo = all[:5]
		// two larger random trees
		for k := 0; k < 2; k++ {
			todo = append(todo, randomShape(r, 7+r.Intn(3), 3))
		}
	} else {
		for n := 1; n <= 5; n++ {
			todo = append(todo, shapes(n, 3)...)
		}
		all6 := shapes(6, 3)
		r.Shuffle(len(all6), func(i, j int) { all6[i], all6[j] = all6[j], all6[i] })
		todo = append(todo, all6[:40]...)
		for k := 0; k < 12; k++ {
			todo = append(todo, randomShape(r, 8+r.Intn(12), 4))
		}
	}
	c.Set("shapes", len(todo))
	var wg sync.WaitGroup
	sem := make(chan struct{}, c.Pick(4, 6))
	for ti, sh := range todo {
		wg.Add(1)
		sem <- struct{}{}
		go func(ti int, sh []int) {
			defer wg.Done()
			defer func() { <-sem }()
			runTree(c, ti, sh)
		}(ti, sh)
	}
	wg.Wait()
	c.Finish("block trees (every branch really executed by builder processes; siblings share, split or conflict on transactions; invalid siblings and descendants of invalid blocks added) are delivered to a fresh node in many orders (topological, reverse, random permutations, with duplicates); after EVERY arrival the coherence predicate is evaluated through the query surface and the raw chain store (linked path to genesis, height index, tx index incl. off-branch txs not confirmed, receipts + merkle root, state root). A case = one arrival; non-trivial = arrival after which the main chain had >=1 block with txs; distinct = hash(tree, order prefix)",
		c.Pick(150, 5000),
		"relaxed DPoS (signatures/slots accepted, real status bookkeeping); LIB never advances in these runs (single signer)",
		"receipts of abandoned blocks may physically remain under their own key: only what the query surface reports for the main chain is judged")
}

func randomShape(r *rand.Rand, n, maxLeaves int) []int {
	for {
		sh := make([]int, n)
		for i := range sh {
			if i == 0 || r.Intn(4) > 0 {
				sh[i] = i - 1 // mostly extend
			} else {
				sh[i] = r.Intn(i+1) - 1
			}
		}
		child := map[int]bool{}
		for _, p := range sh {
			child[p] = true
		}
		leaves := 0
		for j := 0; j < n; j++ {
			if !child[j] {
				leaves++
			}
		}
		if leaves <= maxLeaves && leaves >= 2 {
			return sh
		}
	}
}

func runTree(c *vf.Ctx, ti int, shape []int) {
	name := fmt.Sprintf("t%d", ti)
	w := rig.NewWorld(name, c.Scratch(), rig.WorldOpts{Public: true, NAccts: 10, Mempool: "recorder"})
	cb := rig.NewAcct(name+"/cb", 0)
	w.Tmpl.Coinbase = cb.B58()
	defer w.CloseAll()
	r := c.Rand("tree/" + fmt.Sprint(shape))
	t := rig.NewTree(w)
	modes := []string{"fresh", "shared", "conflict", "mixed", "fresh", "empty"}
	for i, p := range shape {
		mode := "fresh"
		// younger siblings pick a relation to the elder one
		for j := 0; j < i; j++ {
			if shape[j] == p {
				mode = modes[r.Intn(len(modes))]
				break
			}
		}
		if _, err := t.Add(p, r, mode); err != nil {
			c.Inconclusive(fmt.Sprintf("tree %v: building block %d failed: %v", shape, i, err))
			return
		}
	}
	nValid := len(t.Blocks)
	// invalid decorations
	nInv := 1 + r.Intn(2)
	for k := 0; k < nInv; k++ {
		v := r.Intn(nValid)
		var iv *rig.TBlock
		switch r.Intn(4) {
		case 0:
			iv = t.AddInvalid(v, "state-root-flipped", func(b *types.Block) bool { b.Header.BlocksRootHash = rig.FlipBytes(b.Header.BlocksRootHash); return true })
		case 1:
			iv = t.AddInvalid(v, "receipts-root-flipped", func(b *types.Block) bool {
				b.Header.ReceiptsRootHash = rig.FlipBytes(b.Header.ReceiptsRootHash)
				return true
			})
		case 2:
			iv = t.AddInvalid(v, "tx-bad-signature", func(b *types.Block) bool {
				if len(b.Body.Txs) == 0 {
					return false
				}
				tx := b.Body.Txs[r.Intn(len(b.Body.Txs))]
				tx.Body.Sign = rig.FlipBytes(tx.Body.Sign)
				rig.Rehash(tx)
				b.Header.TxsRootHash = types.CalculateTxsRootHash(b.Body.Txs)
				return true
			})
		case 3:
			iv = t.AddInvalid(v, "tx-dropped-keeping-roots", func(b *types.Block) bool {
				if len(b.Body.Txs) < 2 {
					return false
				}
				b.Body.Txs = b.Body.Txs[1:]
				b.Header.TxsRootHash = types.CalculateTxsRootHash(b.Body.Txs)
				return true
			})
		}
		if iv != nil {
			// a (copied) child under the invalid block, when the valid original has one
			for j := 0; j < nValid; j++ {
				if t.Blocks[j].Parent == v {
					t.AddReparented(j, iv.Idx)
					break
				}
			}
		}
	}
	t.Close()
	known := t.AllTx()
	var bdesc []string
	for _, b := range t.Blocks {
		bdesc = append(bdesc, fmt.Sprintf("#%d parent=%d h=%d %s txs=%d %s", b.Idx, b.Parent, b.Height, b.Mode, len(b.TxHash), b.Invalid))
	}
	// orders
	n := len(t.Blocks)
	topo := make([]int, n)
	for i := range topo {
		topo[i] = i
	}
	sort.SliceStable(topo, func(a, b int) bool { return t.Blocks[topo[a]].Height < t.Blocks[topo[b]].Height })
	rev := make([]int, n)
	for i := range topo {
		rev[n-1-i] = topo[i]
	}
	orders := [][]int{topo, rev}
	nperm := c.Pick(4, 24)
	if n <= 4 && c.Thorough() {
		nperm = 24
	}
	for k := 0; k < nperm; k++ {
		o := r.Perm(n)
		if r.Intn(2) == 0 { // duplicates
			o = append(o, o[r.Intn(n)], o[r.Intn(n)])
		}
		orders = append(orders, o)
	}
	seenOrder := map[string]bool{}
	for oi, order := range orders {
		key := fmt.Sprint(order)
		if seenOrder[key] {
			continue
		}
		seenOrder[key] = true
		nut, _, err := w.Node(fmt.Sprintf("nut%d", oi), nil)
		if err != nil {
			c.Inconclusive("start NUT: " + err.Error())
			return
		}
		cd := caseDesc{Tree: name, Shape: shape, Blocks: bdesc, Order: order}
		deliver := func(seq []int, phase string) bool {
			for ai, bi := range seq {
				res, err := nut.AddBlock(t.Blocks[bi].Bytes)
				c.Eval(1)
				if err != nil {
					cd.Arrival = ai
					c.Violation("node-died-on-arrival", fmt.Sprintf("tree %v order %v %s arrival %d (block #%d): %v", shape, order, phase, ai, bi, err), cd)
					return false
				}
				cd.Results = append(cd.Results, fmt.Sprintf("#%d:%s", bi, short(res)))
				c.Count("arrivals", 1)
				if res == "" {
					c.Count("arrivals_accepted", 1)
				} else {
					c.Count("arrivals_refused/"+norm(short(res)), 1)
				}
				co, err := nut.Coherent(known)
				if err != nil {
					cd.Arrival = ai
					c.Violation("node-died-on-query", fmt.Sprintf("tree %v order %v %s arrival %d: %v", shape, order, phase, ai, err), cd)
					return false
				}
				// the main chain must consist of valid blocks only
				problems := co.Problems
				if bidx := find(t, co.BestHash); bidx >= 0 && !t.Valid(bidx) {
					problems = append(problems, fmt.Sprintf("best block #%d is invalid (%s) or descends from an invalid block", bidx, t.Blocks[bidx].Invalid))
				} else if bidx < 0 && co.BestNo != 0 {
					problems = append(problems, "best block is not a block of the tree")
				}
				if len(problems) > 0 {
					cd.Arrival = ai
					cd.Problems = problems
					c.Violation("incoherent/"+norm(problems[0]), fmt.Sprintf("tree %v (%v)\norder %v, %s arrival %d = block #%d (%s): %s\nadd results so far: %v", shape, bdesc, order, phase, ai, bi, short(res), strings.Join(problems, "; "), cd.Results), cd)
					return false
				}
				if co.WithRcpt > 0 {
					c.Nontrivial(fmt.Sprintf("%v|%v|%s|%d", shape, order, phase, ai))
				}
				c.Count("offmain_txs_checked", co.OffMainChecked)
				c.Count("main_blocks_walked", co.Blocks)
			}
			return true
		}
		ok := deliver(order, "first-delivery")
		if ok {
			// what a syncer would do: fetch everything again parents first
			ok = deliver(topo, "redelivery")
		}
		if ok {
			fin, _ := nut.Best()
			c.Count(fmt.Sprintf("final_height_%d", fin.No), 1)
			if oi < 3 {
				c.Sample(map[string]interface{}{"shape": shape, "order": order, "results": cd.Results, "final_best_height": fin.No, "blocks": bdesc})
			}
		}
		nut.Kill()
		c.Count("orders", 1)
	}
	c.Count("trees", 1)
}

func find(t *rig.Tree, h []byte) int {
	for _, b := range t.Blocks {
		if bytes.Equal(b.Hash, h) {
			return b.Idx
		}
	}
	return -1
}

func short(s string) string {
	if s == "" {
		return "ok"
	}
	if len(s) > 70 {
		return s[:70]
	}
	return s
}
