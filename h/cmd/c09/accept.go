package main

import (
	"bytes"
	"encoding/hex"
	"fmt"
	"reflect"
	"strings"
	"time"

	"github.com/aergoio/aergo/v2/types"
	"github.com/btcsuite/btcd/btcec/v2"
	"github.com/btcsuite/btcd/btcec/v2/ecdsa"
	"google.golang.org/protobuf/proto"
)

// ---------- oracle ----------

type verdict struct {
	C1         triState // signature verifies over the complete header with the header's key
	C2, C3, C4 bool     // key in BP set; that index owns the slot; slot < now+2
	idx        int
	slotNo     int64
}

func (v verdict) allows() bool { return v.C1 == yes && v.C2 && v.C3 && v.C4 }
func (v verdict) fails() string {
	var f []string
	if v.C1 == no {
		f = append(f, "sig")
	}
	if v.C1 == unknown {
		f = append(f, "sig?")
	}
	if !v.C2 {
		f = append(f, "member")
	}
	if v.C2 && !v.C3 {
		f = append(f, "slot-owner")
	}
	if !v.C4 {
		f = append(f, "future")
	}
	if len(f) == 0 {
		return "none"
	}
	return strings.Join(f, "+")
}

func (nd *node) oracle(h *types.BlockHeader, nowSlot int64) verdict {
	var v verdict
	var err error
	v.C1, err = indepVerify(h)
	if err != nil {
		nd.r.inconclusive("independent digest cannot encode the header: " + err.Error())
	}
	v.idx = -1
	if id, ok := indepPeerID(h.PubKey); ok {
		v.idx = indexOf(nd.bpIDs, id)
	}
	v.C2 = v.idx >= 0
	ms := nsToMsModel(h.Timestamp)
	v.slotNo = nd.cv.SlotNo(ms, nd.I)
	v.C3 = v.C2 && ms >= 1 && nd.cv.Owner(ms, nd.I, nd.n) == v.idx
	v.C4 = v.slotNo < nowSlot+2
	return v
}

func (nd *node) nowSlot() int64 { return nd.cv.SlotNo(nsToMsModel(time.Now().UnixNano()), nd.I) }

func hdrDump(h *types.BlockHeader) map[string]interface{} {
	m := map[string]interface{}{}
	v := reflect.ValueOf(h).Elem()
	for i := 0; i < v.NumField(); i++ {
		f := v.Type().Field(i)
		if !f.IsExported() {
			continue
		}
		if f.Type.Kind() == reflect.Slice {
			m[f.Name] = hex.EncodeToString(v.Field(i).Bytes())
		} else {
			m[f.Name] = fmt.Sprint(v.Field(i).Interface())
		}
	}
	return m
}

// direct reads the three consensus decisions of the real *DPoS for blk.  The clock is read before
// and after; ok=false when the current slot changed in between (case must be discarded when it
// depends on the clock).
func (nd *node) direct(blk *types.Block, best *types.Block) (accepted bool, detail string, nowSlot int64, ok bool) {
	kb := nd.nowSlot()
	es := nd.d.VerifySign(blk)
	ev := nd.d.IsBlockValid(blk, best)
	vt := nd.d.VerifyTimestamp(blk)
	ka := nd.nowSlot()
	return es == nil && ev == nil && vt, fmt.Sprintf("VerifySign=%v IsBlockValid=%v VerifyTimestamp=%v", es == nil, ev == nil, vt), kb, kb == ka
}

type tcase struct {
	class     string // stable class of the case
	by        *signer
	blk       *types.Block
	tampered  bool // header differs from the header that was signed (or signature was not made for it)
	unjudged  bool // workload only: the outcome is counted, not judged
	clockCase bool
}

// judge applies the oracle to one observed decision.
func (nd *node) judge(path string, tc *tcase, accepted bool, detail string, v verdict) {
	r := nd.r
	r.Evals++
	h := tc.blk.Header
	outcome := "rejected"
	if accepted {
		outcome = "accepted"
	}
	r.count("accept."+path+"."+outcome, 1)
	r.nontrivial(fmt.Sprintf("accept/%s/%s/%s/fails=%s/%s", path, nd.tag, tc.class, v.fails(), outcome))
	cs := func() map[string]interface{} {
		return map[string]interface{}{"part": "accept", "path": path, "class": tc.class, "bp_count": nd.n, "interval_s": nd.sec,
			"header": hdrDump(h), "decisions": detail, "oracle_fails": v.fails()}
	}
	switch {
	case tc.unjudged:
		// adjacent-field-shift: two fields change at once and the code's own (and our) digest of the shifted
		// header equals the signed one; the statement is literally satisfied, so acceptance is only counted.
		if accepted {
			r.count("observed.adjacent_field_shift_accepted."+path+"."+strings.TrimPrefix(tc.class, "adjacent-field-shift/"), 1)
			r.count("observed.adjacent_field_shift_accepted."+path, 1)
		}
	case accepted && tc.tampered && v.C1 != no:
		// a single-field change (or foreign signature) that our own digest cannot tell from the signed header: cannot happen
		// unless the independent digest itself is wrong -> do not guess
		r.inconclusive("tampered header accepted although the independent digest still verifies: " + tc.class)
	case accepted && v.C1 == unknown && v.C2 && v.C3 && v.C4:
		r.count("accept.unjudged_key_type", 1)
	case accepted && !v.allows():
		r.violation(fmt.Sprintf("accepted-illegitimate/%s/%s/fails=%s", path, tc.class, v.fails()),
			fmt.Sprintf("[%s] block accepted (%s) although the independent oracle finds: %s; class %s, ts=%d slot=%d signer-idx=%d",
				nd.tag, detail, v.fails(), tc.class, h.Timestamp, v.slotNo, v.idx), cs())
	case !accepted && v.allows() && !tc.tampered && strings.HasPrefix(tc.class, "honest/"):
		r.violation("positive-control/honest-block-rejected/"+path+"/"+tc.class,
			fmt.Sprintf("[%s] fully honest block rejected (%s), class %s ts=%d", nd.tag, detail, tc.class, h.Timestamp), cs())
	}
	if accepted && v.allows() && !tc.tampered {
		r.count("accept."+path+".honest_accepted", 1)
	}
	if !accepted {
		r.count("accept.rejected.fails="+v.fails(), 1)
	}
}

func cloneBlk(b *types.Block) *types.Block {
	c := proto.Clone(b).(*types.Block)
	c.Hash = nil
	return c
}

// signOwn signs the header as it is (PubKey already set) with priv, using our own digest bytes.
func signRaw(b *types.Block, s *signer) {
	msg, _ := headerDigestMsg(b.Header)
	sig, err := s.priv.Sign(msg)
	if err != nil {
		panic(err)
	}
	b.Header.Sign = sig
	b.Hash = nil
}

// ---------- header mutations by reflection ----------

type mutation struct {
	field, kind string
	apply       func(h *types.BlockHeader)
}

func exportedFields() []reflect.StructField {
	var fs []reflect.StructField
	t := reflect.TypeOf(types.BlockHeader{})
	for i := 0; i < t.NumField(); i++ {
		if t.Field(i).IsExported() {
			fs = append(fs, t.Field(i))
		}
	}
	return fs
}

func (nd *node) fieldMutations(h *types.BlockHeader) []mutation {
	var ms []mutation
	hv := reflect.ValueOf(h).Elem()
	for _, f := range exportedFields() {
		name := f.Name
		idx := f.Index
		add := func(kind string, fn func(v reflect.Value)) {
			ms = append(ms, mutation{field: name, kind: kind, apply: func(x *types.BlockHeader) {
				fn(reflect.ValueOf(x).Elem().FieldByIndex(idx))
			}})
		}
		cur := hv.FieldByIndex(idx)
		switch {
		case f.Type.Kind() == reflect.Slice && f.Type.Elem().Kind() == reflect.Uint8:
			l := cur.Len()
			setB := func(v reflect.Value, b []byte) { v.SetBytes(b) }
			cp := func(v reflect.Value) []byte { return append([]byte{}, v.Bytes()...) }
			if l > 0 {
				rb := nd.rng.Intn(l * 8)
				add("flip-first-bit", func(v reflect.Value) { b := cp(v); b[0] ^= 0x80; setB(v, b) })
				add("flip-last-bit", func(v reflect.Value) { b := cp(v); b[len(b)-1] ^= 1; setB(v, b) })
				add("flip-random-bit", func(v reflect.Value) { b := cp(v); b[rb/8] ^= 1 << uint(rb%8); setB(v, b) })
				add("drop-last-byte", func(v reflect.Value) { b := cp(v); setB(v, b[:len(b)-1]) })
				add("empty", func(v reflect.Value) { setB(v, nil) })
			}
			rnd := byte(nd.rng.Intn(255) + 1)
			add("append-00", func(v reflect.Value) { setB(v, append(cp(v), 0)) })
			add("append-byte", func(v reflect.Value) { setB(v, append(cp(v), rnd)) })
			add("prepend-byte", func(v reflect.Value) { setB(v, append([]byte{rnd}, cp(v)...)) })
		case f.Type.Kind() == reflect.Uint64 || f.Type.Kind() == reflect.Uint32:
			bit := uint(nd.rng.Intn(f.Type.Bits()))
			add("+1", func(v reflect.Value) { v.SetUint(v.Uint() + 1) })
			add("-1", func(v reflect.Value) { v.SetUint(v.Uint() - 1) })
			add("xor-high-bit", func(v reflect.Value) { v.SetUint(v.Uint() ^ (1 << uint(f.Type.Bits()-1))) })
			add("xor-random-bit", func(v reflect.Value) { v.SetUint(v.Uint() ^ (1 << bit)) })
			add("xor-byte1", func(v reflect.Value) { v.SetUint(v.Uint() ^ 0x100) })
		case f.Type.Kind() == reflect.Int64 || f.Type.Kind() == reflect.Int32:
			bit := uint(nd.rng.Intn(f.Type.Bits() - 1))
			add("+1", func(v reflect.Value) { v.SetInt(v.Int() + 1) })
			add("-1", func(v reflect.Value) { v.SetInt(v.Int() - 1) })
			add("xor-random-bit", func(v reflect.Value) { v.SetInt(v.Int() ^ (1 << bit)) })
			add("negate", func(v reflect.Value) { v.SetInt(-v.Int()) })
			if name == "Timestamp" {
				round := nd.I * 1000000 * int64(nd.n)
				add("+one-producer-round", func(v reflect.Value) { v.SetInt(v.Int() + round) })
				add("-one-producer-round", func(v reflect.Value) { v.SetInt(v.Int() - round) })
				add("+one-slot", func(v reflect.Value) { v.SetInt(v.Int() + round/int64(nd.n)) })
			}
		case f.Type.Kind() == reflect.Bool:
			add("toggle", func(v reflect.Value) { v.SetBool(!v.Bool()) })
		case f.Type.Kind() == reflect.String:
			add("append-char", func(v reflect.Value) { v.SetString(v.String() + "x") })
		default:
			nd.r.inconclusive("BlockHeader field " + name + " has a kind the mutation generator does not handle: " + f.Type.String())
		}
	}
	return ms
}

// boundaryShifts moves one byte across the border of two byte-string fields that are neighbours
// in the signed serialization (Sign is not part of it).
func (nd *node) boundaryShifts() []mutation {
	var ms []mutation
	var fs []reflect.StructField
	for _, f := range exportedFields() {
		if f.Name != "Sign" {
			fs = append(fs, f)
		}
	}
	isB := func(f reflect.StructField) bool {
		return f.Type.Kind() == reflect.Slice && f.Type.Elem().Kind() == reflect.Uint8
	}
	for i := 0; i+1 < len(fs); i++ {
		a, b := fs[i], fs[i+1]
		if !isB(a) || !isB(b) {
			continue
		}
		ai, bi := a.Index, b.Index
		ms = append(ms, mutation{field: a.Name + "|" + b.Name, kind: "last-byte-right", apply: func(x *types.BlockHeader) {
			v := reflect.ValueOf(x).Elem()
			A, B := append([]byte{}, v.FieldByIndex(ai).Bytes()...), append([]byte{}, v.FieldByIndex(bi).Bytes()...)
			if len(A) == 0 {
				return
			}
			v.FieldByIndex(bi).SetBytes(append([]byte{A[len(A)-1]}, B...))
			v.FieldByIndex(ai).SetBytes(A[:len(A)-1])
		}})
		ms = append(ms, mutation{field: a.Name + "|" + b.Name, kind: "first-byte-left", apply: func(x *types.BlockHeader) {
			v := reflect.ValueOf(x).Elem()
			A, B := append([]byte{}, v.FieldByIndex(ai).Bytes()...), append([]byte{}, v.FieldByIndex(bi).Bytes()...)
			if len(B) == 0 {
				return
			}
			v.FieldByIndex(ai).SetBytes(append(A, B[0]))
			v.FieldByIndex(bi).SetBytes(B[1:])
		}})
	}
	return ms
}

func sameHeaderButSign(a, b *types.BlockHeader) bool {
	x, y := proto.Clone(a).(*types.BlockHeader), proto.Clone(b).(*types.BlockHeader)
	x.Sign, y.Sign = nil, nil
	return proto.Equal(x, y)
}

// ---------- the node child ----------

type tsPos struct {
	name string
	ms   int64
	nsof int64
}

func (nd *node) slotPositions(K int64) []tsPos {
	// find the first and last millisecond of model slot K without assuming a convention
	var E int64
	if nd.cv.CeilNumbering {
		E = K * nd.I
	} else {
		E = (K + 1) * nd.I
	}
	first, last := E-nd.I, E-1
	if nd.cv.SlotNo(first, nd.I) != K {
		first++
	}
	if nd.cv.SlotNo(last+1, nd.I) == K {
		last++
	}
	ps := []tsPos{
		{"prev-last", first - 1, 999999}, {"own-first", first, 0}, {"own-second", first + 1, nd.rng.Int63n(1000000)},
		{"own-mid", (first + last) / 2, nd.rng.Int63n(1000000)}, {"own-last-but-one", last - 1, nd.rng.Int63n(1000000)},
		{"own-last", last, 999999}, {"next-first", last + 1, 0}, {"next-second", last + 2, nd.rng.Int63n(1000000)},
	}
	for i := range ps {
		if ps[i].ms%nd.I == 0 {
			ps[i].name += "@boundary"
		}
	}
	return ps
}

func nodeChild(r *Result, nbp int, sec int64, stream string, quick bool, seed int64, cv Conv) {
	nd, err := newNode(r, nbp, sec, stream, seed, cv)
	if err != nil {
		r.inconclusive("rig could not be built: " + err.Error())
		return
	}
	defer nd.hub.Stop()
	steps := 230
	if quick {
		steps = 36
	}
	for s := 0; s < steps; s++ {
		if !nd.step(s, quick) {
			break
		}
	}
	nd.futurePhase(quick)
	nd.audit()
	r.Extra["final_height"] = nd.best().BlockNo()
	r.Extra["bp_ids"] = nd.bpIDs
}

func (nd *node) e2e(tc *tcase, v verdict) (accepted bool, ok bool) {
	rspErr, on, err := nd.deliver(tc.blk)
	if err != nil {
		nd.r.inconclusive("AddBlock got no response: " + err.Error())
		return false, false
	}
	if (rspErr == nil) != on {
		nd.r.count("accept.e2e.rsp_err_nil_but_not_on_main_chain_or_vice_versa", 1)
	}
	es := "<nil>"
	if rspErr != nil {
		es = rspErr.Error()
		if len(es) > 160 {
			es = es[:160]
		}
	}
	if tc.unjudged {
		nd.r.Extra["e2e_outcome_of/"+tc.class] = es
	}
	nd.judge("e2e", tc, on, "AddBlockRsp.Err="+es+fmt.Sprintf(" on-main-chain=%v", on), v)
	return on, true
}

// step crafts blocks for the next slot(s) after the best block, judges them, and finally appends one honest block.
func (nd *node) step(stepNo int, quick bool) bool {
	r := nd.r
	best := nd.best()
	if best.BlockNo() >= 280 {
		return false // stay below the first election so that the producer set is the genesis set
	}
	kBest := nd.cv.SlotNo(nsToMsModel(best.Header.Timestamp), nd.I)
	K := kBest + 1 + []int64{0, 0, 0, 1, 2, int64(nd.n) - 1, int64(nd.n)}[nd.rng.Intn(7)]
	owner := nd.bps[int(mathMod(K, int64(nd.n)))]
	withTx := stepNo%2 == 0
	poss := nd.slotPositions(K)
	tmpl := map[string]*types.Block{}
	for _, p := range poss {
		t, err := nd.template(best, p.ms*1000000+p.nsof, withTx)
		if err != nil {
			r.inconclusive("block generator failed: " + err.Error())
			return false
		}
		tmpl[p.name] = t
	}
	mk := func(pos string, s *signer) *types.Block {
		b := cloneBlk(tmpl[pos])
		b.SetConfirms(b.BlockNo() - nd.lpb[s.Name])
		if err := b.Sign(s.priv); err != nil { // the real signing code
			panic(err)
		}
		return b
	}
	var pending []*tcase // everything except the one honest block that will extend the chain
	var late []*tcase    // delivered after all other non-honest cases
	var honest []*tcase
	doDirect := func(tc *tcase) verdict {
		acc, detail, now, _ := nd.direct(tc.blk, best)
		v := nd.oracle(tc.blk.Header, now)
		nd.judge("direct", tc, acc, detail, v)
		return v
	}

	// A. signer x timestamp grid, signed by the real signing code
	for _, p := range poss {
		for _, s := range nd.all {
			b := mk(p.name, s)
			rel := "nonbp"
			if s.bpIdx >= 0 {
				rel = "bp-other"
				if s == owner {
					rel = "bp-owner-of-target-slot"
				}
			}
			tc := &tcase{class: fmt.Sprintf("grid/signer=%s(%s)/ts=%s", rel, s.Kind, p.name), blk: b, by: s}
			v := nd.oracle(b.Header, nd.nowSlot())
			if v.allows() {
				tc.class = "honest/" + tc.class
				honest = append(honest, tc)
			} else {
				pending = append(pending, tc)
			}
			doDirect(tc)
		}
	}
	if len(honest) == 0 {
		r.inconclusive("no honest block in the grid")
		return false
	}
	baseTc := honest[nd.rng.Intn(len(honest))]
	base := baseTc.blk
	basePos := base.Header.Timestamp
	owner = baseTc.by // the producer of the base block (owner of the slot of ITS timestamp)

	// B. every header field mutated after signing / signature made for a header differing in one field
	muts := nd.fieldMutations(base.Header)
	for _, m := range muts {
		// B1: mutate after signing
		b1 := cloneBlk(base)
		m.apply(b1.Header)
		if !sameHeaderButSign(b1.Header, base.Header) || !bytes.Equal(b1.Header.Sign, base.Header.Sign) {
			tc := &tcase{class: fmt.Sprintf("mutated-after-signing/field=%s/%s", m.field, m.kind), blk: b1, tampered: true}
			doDirect(tc)
			pending = append(pending, tc)
		}
		if m.field == "Sign" {
			continue
		}
		// B2: the producer signed a header differing in this field; the true (otherwise valid) header is delivered
		b2 := cloneBlk(base)
		m.apply(b2.Header)
		if sameHeaderButSign(b2.Header, base.Header) {
			continue
		}
		signRaw(b2, owner)
		sig := b2.Header.Sign
		b2 = cloneBlk(base)
		b2.Header.Sign = sig
		tc := &tcase{class: fmt.Sprintf("signature-of-variant-header/field=%s/%s", m.field, m.kind), blk: b2, tampered: true}
		doDirect(tc)
		pending = append(pending, tc)
	}
	// B3: one byte moved across the border of two neighbouring byte-string fields.  Such a header has
	// the same block hash as the block it was derived from (the hash has the same serialization), so
	// delivering it end-to-end would put the hash of the honest block into the bad-block cache: use an
	// honest block other than the one that will extend the chain.
	shiftBase := base
	for _, h := range honest {
		if h != baseTc && h.by == owner {
			shiftBase = h.blk
		}
	}
	for _, m := range nd.boundaryShifts() {
		if shiftBase == base {
			break
		}
		b := cloneBlk(shiftBase)
		m.apply(b.Header)
		if sameHeaderButSign(b.Header, shiftBase.Header) {
			continue
		}
		if bytes.Equal(b.BlockHash(), shiftBase.BlockHash()) {
			r.count("observed.adjacent_field_shift_has_same_block_hash_as_honest_block", 1)
		}
		tc := &tcase{class: fmt.Sprintf("adjacent-field-shift/%s/%s", m.field, m.kind), blk: b, tampered: true, unjudged: true}
		doDirect(tc)
		late = append(late, tc)
	}

	// C. signatures transplanted from other blocks
	{
		others := []*types.Block{}
		for _, h := range honest {
			if h.blk.Header.Timestamp != basePos {
				others = append(others, h.blk) // same producer, same slot, other instant
			}
		}
		for _, s := range nd.bps {
			if s != owner {
				x := cloneBlk(base)
				x.Sign(s.priv)
				others = append(others, x) // other producer's signature over (its own version of) this header
			}
		}
		for i, o := range others {
			b := cloneBlk(base)
			b.Header.Sign = append([]byte{}, o.Header.Sign...)
			kind := "same-producer"
			if !bytes.Equal(o.Header.PubKey, base.Header.PubKey) {
				kind = "other-producer"
			}
			if o.Header.Timestamp != basePos {
				kind += "-other-instant"
			} else {
				kind += "-same-header-fields"
			}
			tc := &tcase{class: "signature-transplanted/" + kind, blk: b, tampered: true}
			doDirect(tc)
			pending = append(pending, tc)
			if i > 6 {
				break
			}
		}
		// the genuine (r,s) with s replaced by N-s: still a signature of this header by this key
		if sig, err := ecdsa.ParseDERSignature(base.Header.Sign); err == nil {
			rr, ss := sig.R(), sig.S()
			ss.Negate()
			b := cloneBlk(base)
			b.Header.Sign = ecdsa.NewSignature(&rr, &ss).Serialize()
			tc := &tcase{class: "signature-malleated-high-s", blk: b}
			acc, _, now, _ := nd.direct(b, best)
			v := nd.oracle(b.Header, now)
			nd.judge("direct", tc, acc, "", v)
			if acc {
				r.count("observed.high_s_signature_accepted_direct", 1)
			}
		}
	}

	// D. public key swapped without re-signing / re-encoded / signed by X with Y's key in the header
	for _, s := range nd.all {
		if s == owner {
			continue
		}
		b := cloneBlk(base)
		b.Header.PubKey = append([]byte{}, s.pub...)
		tc := &tcase{class: fmt.Sprintf("pubkey-swapped-not-resigned/to=%s", s.Kind), blk: b, tampered: true}
		doDirect(tc)
		pending = append(pending, tc)
	}
	for _, p := range poss {
		// header names the producer that owns the slot of the timestamp, but the signature is by somebody else
		ms := p.ms
		own := nd.bps[nd.cv.Owner(ms, nd.I, nd.n)]
		for _, s := range nd.all {
			if s == own {
				continue
			}
			b := cloneBlk(tmpl[p.name])
			b.SetConfirms(1)
			b.Header.PubKey = append([]byte{}, own.pub...)
			signRaw(b, s)
			who := s.Kind
			if s.Name == "bp01" {
				who = "the-node-itself"
			}
			tc := &tcase{class: fmt.Sprintf("header-key-of-slot-owner/signed-by=%s/ts=%s", who, p.name), blk: b, tampered: true}
			doDirect(tc)
			pending = append(pending, tc)
		}
	}
	if _, data, ok := parsePubKeyProto(base.Header.PubKey); ok {
		if pk, err := btcec.ParsePubKey(data); err == nil {
			unc := pk.SerializeUncompressed()
			enc := append([]byte{0x08, 0x02, 0x12, byte(len(unc))}, unc...)
			b := cloneBlk(base)
			b.Header.PubKey = enc
			tc := &tcase{class: "pubkey-reencoded-uncompressed-after-signing", blk: b, tampered: true}
			doDirect(tc)
			pending = append(pending, tc)
			b2 := cloneBlk(base)
			b2.Header.PubKey = append(append([]byte{}, base.Header.PubKey...), 0x18, 0x01) // unknown protobuf field 3
			tc2 := &tcase{class: "pubkey-proto-extra-field-after-signing", blk: b2, tampered: true}
			doDirect(tc2)
			pending = append(pending, tc2)
			// the owner itself signs a header carrying the other encoding of its own key: all conditions hold, either outcome is fine
			b3 := cloneBlk(base)
			b3.Header.PubKey = enc
			signRaw(b3, owner)
			acc, _, _, _ := nd.direct(b3, best)
			r.count(fmt.Sprintf("observed.owner_signed_with_uncompressed_key_encoding.accepted=%v", acc), 1)
		}
	}

	// end-to-end: everything that must not be accepted first (parent = best for all of them) ...
	nE2E := len(pending)
	if quick && stepNo%3 != 0 {
		// quick tier: full end-to-end sweep every third step, a seeded third of the cases otherwise
		nd.rng.Shuffle(len(pending), func(i, j int) { pending[i], pending[j] = pending[j], pending[i] })
		nE2E = len(pending) / 3
	}
	for _, tc := range append(pending[:nE2E:nE2E], late...) {
		v := nd.oracle(tc.blk.Header, nd.nowSlot())
		on, ok := nd.e2e(tc, v)
		if !ok {
			return false
		}
		if on {
			// an illegitimate block extended the chain (already reported); continue from the new best block
			r.count("accept.e2e.chain_extended_by_non_honest_case", 1)
			if withTx {
				nd.nonce++
			}
			return true
		}
	}
	// ... then the honest one, which must be accepted and extends the chain
	v := nd.oracle(base.Header, nd.nowSlot())
	on, ok := nd.e2e(baseTc, v)
	if !ok {
		return false
	}
	if on {
		nd.lpb[owner.Name] = base.BlockNo()
		if withTx {
			nd.nonce++
		}
		r.count("accept.e2e.chain_blocks_appended", 1)
		r.sample(map[string]interface{}{"honest_block_appended": hdrDump(base.Header), "node": nd.tag})
		// replaying the very same block, and its high-s twin, on top: observed only
		return true
	}
	return false
}

// futurePhase: timestamps relative to the wall clock (the rule under test reads time.Now()).
func (nd *node) futurePhase(quick bool) {
	r := nd.r
	rounds := 60
	if quick {
		rounds = 12
	}
	for round := 0; round < rounds; round++ {
		best := nd.best()
		if best.BlockNo() >= 295 {
			return
		}
		// first the blocks that must be refused, then 0 and 1 slots ahead (may be accepted, then the round ends)
		for _, ahead := range []int64{3, 2, 7, 1000, 2, 1, 0, -1} {
			if ahead == 1 && round%2 == 0 || ahead == 0 && round%2 == 1 {
				continue
			}
			for _, edge := range []string{"first-ms", "last-ms"} {
				done := false
				for try := 0; try < 4 && !done; try++ {
					k0 := nd.nowSlot()
					ps := nd.slotPositions(k0 + ahead)
					var p tsPos
					for _, q := range ps {
						if edge == "first-ms" && strings.HasPrefix(q.name, "own-first") || edge == "last-ms" && strings.HasPrefix(q.name, "own-last") && !strings.HasPrefix(q.name, "own-last-but") {
							p = q
						}
					}
					own := nd.bps[nd.cv.Owner(p.ms, nd.I, nd.n)]
					t, err := nd.template(best, p.ms*1000000+p.nsof, false)
					if err != nil {
						r.inconclusive("block generator failed: " + err.Error())
						return
					}
					t.SetConfirms(t.BlockNo() - nd.lpb[own.Name])
					t.Sign(own.priv)
					tc := &tcase{class: fmt.Sprintf("honest/future/slots-ahead=%+d/%s", ahead, edge), blk: t, clockCase: true}
					if ahead >= 2 {
						tc.class = strings.TrimPrefix(tc.class, "honest/")
					}
					// direct
					acc, detail, now, ok := nd.direct(t, best)
					if !ok || now != k0 {
						r.count("accept.clock_case_discarded", 1)
						continue
					}
					v := nd.oracle(t.Header, now)
					if ahead == 1 && !acc {
						// one slot ahead is permitted by the statement but need not be accepted
						tc.class = strings.TrimPrefix(tc.class, "honest/")
					}
					nd.judge("direct", tc, acc, detail, v)
					// end to end
					kb := nd.nowSlot()
					rspErr, on, err := nd.deliver(t)
					ka := nd.nowSlot()
					if err != nil {
						r.inconclusive("AddBlock got no response: " + err.Error())
						return
					}
					if kb != ka || kb != k0 {
						r.count("accept.clock_case_discarded", 1)
						if on {
							best = nd.best()
							nd.lpb[own.Name] = t.BlockNo()
						}
						continue
					}
					if ahead == 1 && !on {
						tc.class = strings.TrimPrefix(tc.class, "honest/")
					}
					nd.judge("e2e", tc, on, fmt.Sprintf("AddBlockRsp.Err=%v on-main-chain=%v", rspErr, on), nd.oracle(t.Header, kb))
					done = true
					if on {
						nd.lpb[own.Name] = t.BlockNo()
						best = nd.best()
						r.count("accept.e2e.chain_blocks_appended", 1)
					}
				}
			}
		}
	}
}

// audit: every block of the final main chain satisfies the three clock-independent conditions.
func (nd *node) audit() {
	best := nd.best()
	for no := uint64(1); no <= best.BlockNo(); no++ {
		b, err := nd.cs.CDB().GetBlockByNo(no)
		if err != nil {
			nd.r.inconclusive(fmt.Sprintf("main chain block %d unreadable", no))
			return
		}
		v := nd.oracle(b.Header, 1<<62)
		nd.r.Evals++
		nd.r.count("audit.main_chain_blocks", 1)
		if !v.allows() {
			nd.r.violation("main-chain-audit/fails="+v.fails(), fmt.Sprintf("[%s] block %d of the final main chain: oracle finds %s", nd.tag, no, v.fails()),
				map[string]interface{}{"part": "audit", "header": hdrDump(b.Header)})
		}
	}
}
