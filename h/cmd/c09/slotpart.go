package main

import (
	"fmt"
	"math"
	"os"
	"strconv"
	"strings"
	"time"

	"github.com/aergoio/aergo/v2/consensus/impl/dpos/bp"
	"github.com/aergoio/aergo/v2/consensus/impl/dpos/slot"
)

func parseConv(s string) Conv {
	p := strings.Split(s, ",")
	return Conv{CeilNumbering: p[0] == "true", RightClosed: len(p) > 1 && p[1] == "true"}
}

func childMain(a []string) {
	out := a[0]
	args := a[1:]
	r := newResult(args)
	switch args[0] {
	case "slot":
		iv, _ := strconv.ParseInt(args[1], 10, 64)
		seed, _ := strconv.ParseInt(args[3], 10, 64)
		slotChild(r, iv, args[2] == "quick", seed, parseConv(args[4]))
	case "node":
		nbp, _ := strconv.Atoi(args[1])
		iv, _ := strconv.ParseInt(args[2], 10, 64)
		seed, _ := strconv.ParseInt(args[5], 10, 64)
		nodeChild(r, nbp, iv, args[3], args[4] == "quick", seed, parseConv(args[6]))
	default:
		fmt.Fprintln(os.Stderr, "unknown child kind")
		os.Exit(4)
	}
	r.write(out)
	os.Exit(0)
}

const maxN = 100

type slotCk struct {
	r   *Result
	I   int64 // ms
	sec int64
	cv  Conv
}

func (k *slotCk) region(ms int64) string {
	switch {
	case ms < 1:
		return "nonpositive"
	case ms < 400*k.I:
		return "first-boundaries"
	case ms > 4e12:
		return "far-future"
	}
	return "near-now"
}

// instant checks one nanosecond instant against the model for every n in [nLo,100].
func (k *slotCk) instant(ns int64, nLo int, tag string) {
	r := k.r
	ms := nsToMsModel(ns)
	s := slot.NewFromUnixNano(ns)
	reg := k.region(ms)
	cs := func(n int) map[string]interface{} {
		return map[string]interface{}{"part": "slot", "interval_s": k.sec, "ns": ns, "n": n}
	}
	if s.UnixNano() != ns {
		r.violation("slot/UnixNano-roundtrip/"+reg, fmt.Sprintf("NewFromUnixNano(%d).UnixNano()=%d", ns, s.UnixNano()), cs(0))
	}
	if ts := slot.Time(time.Unix(0, ns)); ts.UnixNano() != ns || !slot.Equal(ts, s) {
		r.violation("slot/Time-vs-NewFromUnixNano/"+reg, fmt.Sprintf("Time(Unix(0,%d)) differs from NewFromUnixNano", ns), cs(0))
	}
	for n := nLo; n <= maxN; n++ {
		who, cnt := -1, 0
		for i := 0; i < n; i++ {
			if s.IsFor(bp.Index(i), uint16(n)) {
				who = i
				cnt++
			}
		}
		r.Evals += int64(n)
		nb := s.NextBpIndex(uint16(n))
		if ms < 1 {
			// before/at the epoch: only "never two owners" is required
			if cnt > 1 {
				r.violation("slot/two-owners/"+reg, fmt.Sprintf("I=%ds n=%d t=%dns: %d owners", k.sec, n, ns, cnt), cs(n))
			}
			if cnt == 0 {
				r.count("slot.nonpositive_instant_without_owner", 1)
			}
			continue
		}
		if cnt != 1 {
			r.violation(fmt.Sprintf("slot/owner-count=%s/%s", map[bool]string{true: "0", false: "2+"}[cnt == 0], reg),
				fmt.Sprintf("I=%ds n=%d t=%dns (ms=%d): %d indices own this instant (NextBpIndex=%d)", k.sec, n, ns, ms, cnt, nb), cs(n))
			continue
		}
		if nb != int64(who) {
			r.violation("slot/IsFor-vs-NextBpIndex/"+reg, fmt.Sprintf("I=%ds n=%d t=%dns: IsFor true for %d but NextBpIndex=%d", k.sec, n, ns, who, nb), cs(n))
		}
		if exp := k.cv.Owner(ms, k.I, n); exp != who {
			r.violation("slot/owner-vs-model/"+reg+"/"+tag, fmt.Sprintf("I=%ds n=%d t=%dns (ms=%d, model slot %d): owner %d, model %d",
				k.sec, n, ns, ms, k.cv.SlotNo(ms, k.I), who, exp), cs(n))
		}
	}
}

// nsOf picks the nanosecond inside millisecond ms that is tested (all ns of a ms share the slot;
// boundary milliseconds are tested at both ends).
func nsVariants(ms int64, onBoundary bool) []int64 {
	base := ms * 1000000
	if onBoundary {
		return []int64{base, base + 999999, base + 500000}
	}
	return []int64{base + mathMod(ms*7919, 1000000)}
}

// window checks every ms in [b*I-3, b*I+3] for n>=nLo, and the pair relations inside the window
// and with the following window.
func (k *slotCk) window(b int64, nLo int, tag string, pairs bool) {
	B := b * k.I
	for ms := B - 3; ms <= B+3; ms++ {
		for _, ns := range nsVariants(ms, ms == B) {
			k.instant(ns, nLo, tag)
		}
	}
	k.r.nontrivial(fmt.Sprintf("slot/I=%d/b=%d/nLo=%d", k.sec, b, nLo))
	k.r.count("slot.windows", 1)
	if !pairs {
		return
	}
	var ts []int64
	for _, bb := range []int64{B, B + k.I} {
		for ms := bb - 3; ms <= bb+3; ms++ {
			if ms >= 1 {
				ts = append(ts, ms)
			}
		}
	}
	ts = append(ts, B+k.I/2, B+2*k.I, B+2*k.I+1)
	for _, x := range ts {
		if x < 1 {
			continue
		}
		sx := slot.NewFromUnixNano(x*1000000 + 17)
		kx := k.cv.SlotNo(x, k.I)
		for _, y := range ts {
			if y < 1 {
				continue
			}
			sy := slot.NewFromUnixNano(y*1000000 + 999983)
			ky := k.cv.SlotNo(y, k.I)
			k.r.Evals += 3
			reg := k.region(x)
			cs := map[string]interface{}{"part": "slot-pair", "interval_s": k.sec, "x_ms": x, "y_ms": y}
			if got := slot.Equal(sx, sy); got != (kx == ky) {
				k.r.violation("slot/Equal/"+reg, fmt.Sprintf("I=%ds Equal(%dms,%dms)=%v, model slots %d,%d", k.sec, x, y, got, kx, ky), cs)
			}
			if got := slot.LessEqual(sx, sy); got != (kx <= ky) {
				k.r.violation("slot/LessEqual/"+reg, fmt.Sprintf("I=%ds LessEqual(%dms,%dms)=%v, model slots %d,%d", k.sec, x, y, got, kx, ky), cs)
			}
			if got := slot.IsNextTo(sx, sy); got != (kx == ky+1) {
				k.r.violation("slot/IsNextTo/"+reg, fmt.Sprintf("I=%ds IsNextTo(%dms,%dms)=%v, model slots %d,%d", k.sec, x, y, got, kx, ky), cs)
			}
		}
	}
	k.r.count("slot.pair_relations", len(ts)*len(ts)*3)
}

func slotChild(r *Result, sec int64, quick bool, seed int64, cv Conv) {
	slot.Init(sec)
	k := &slotCk{r: r, I: sec * 1000, sec: sec, cv: cv}
	rng := seededRand(seed, fmt.Sprintf("slot/%d", sec))

	// (a) the first boundaries: boundary b is in the stated range of every n with mult*n+1 >= b
	mult := int64(3)
	if quick {
		mult = 1
	}
	for b := int64(0); b <= mult*maxN+1; b++ {
		nLo := int((b - 1 + mult - 1) / mult) // smallest n with mult*n+1 >= b
		if nLo < 1 {
			nLo = 1
		}
		k.window(b, nLo, "seq", true)
	}
	// sequential sanity inside whole slots near the origin (every ms of the first 3 slots)
	for ms := int64(1); ms <= 3*k.I; ms += 1 {
		if ms%k.I > 5 && ms%k.I < k.I-5 && ms%97 != 0 {
			continue
		}
		k.instant(ms*1000000, 97, "seq")
	}

	// (b) seeded instants: far future, near now, and producer-round wrap-arounds after them
	nInst := 12
	if quick {
		nInst = 3
	}
	var bases []int64
	maxB := int64(math.MaxInt64) / 1000000 / k.I
	for i := 0; i < nInst; i++ {
		switch i % 3 {
		case 0: // far future, up to the end of the representable range
			bases = append(bases, maxB/2+rng.Int63n(maxB/2-1000))
		case 1: // around "now" (2020..2030)
			bases = append(bases, (1600000000000+rng.Int63n(300000000000))/k.I)
		case 2: // anywhere
			bases = append(bases, 1000+rng.Int63n(maxB-2000))
		}
	}
	bases = append(bases, maxB-maxN-5) // the last representable round
	r.Extra["seeded_base_boundaries"] = bases
	for _, b0 := range bases {
		// all boundaries of one full round plus wrap for the largest n; for smaller n this covers several wraps
		span := int64(maxN + 2)
		if quick {
			span = 40
		}
		for b := b0; b < b0+span; b++ {
			nLo := 1
			if b-b0 > 12 { // beyond the first dozen boundaries only the n whose round has not wrapped yet add information
				nLo = int(b-b0) - 2
			}
			k.window(b, nLo, "seeded", b-b0 < 6)
		}
		// explicit wrap-around boundaries: for each n the boundary where the owner returns to 0
		for n := 1; n <= maxN; n += 1 {
			bw := (b0/int64(n) + 1) * int64(n)
			B := bw * k.I
			for ms := B - 3; ms <= B+3; ms++ {
				s := slot.NewFromUnixNano(ms * 1000000)
				who, cnt := -1, 0
				for i := 0; i < n; i++ {
					if s.IsFor(bp.Index(i), uint16(n)) {
						who, cnt = i, cnt+1
					}
				}
				r.Evals += int64(n)
				if cnt != 1 || who != cv.Owner(ms, k.I, n) {
					r.violation("slot/round-wrap", fmt.Sprintf("I=%ds n=%d ms=%d: owners=%d who=%d model=%d", sec, n, ms, cnt, who, cv.Owner(ms, k.I, n)),
						map[string]interface{}{"part": "slot", "interval_s": sec, "ns": ms * 1000000, "n": n})
				}
			}
			r.count("slot.round_wraps", 1)
		}
	}

	// (c) instants before the epoch: never two owners
	for _, ms := range []int64{0, -1, -2, -999, -1000, -1001, -k.I, -k.I - 1, -2 * k.I, -2*k.I - 1, -12345678, -(int64(1) << 62) / 1000000} {
		k.instant(ms*1000000, 1, "neg")
	}

	// (d) clock-dependent functions, bracketed by two clock readings
	k.clock(quick)
	r.Extra["interval_s"] = sec
}

// clock checks IsFuture / IsValidNow / RemainingTimeMS / TimesUp against the model. The current
// time is read before and after each call; the case is discarded when the current slot changed.
func (k *slotCk) clock(quick bool) {
	r := k.r
	rounds := 40
	if quick {
		rounds = 8
	}
	nowMs := func() int64 { return nsToMsModel(time.Now().UnixNano()) }
	for round := 0; round < rounds; round++ {
		for d := int64(-3); d <= 5; d++ {
			base := k.cv.EndMs(nowMs(), k.I) + (d-1)*k.I // a boundary d-1 slots after the end of the current slot
			for ms := base - 3; ms <= base+3; ms++ {
				s := slot.NewFromUnixNano(ms*1000000 + 1234)
				ks := k.cv.SlotNo(ms, k.I)
				for try := 0; try < 4; try++ {
					b := nowMs()
					fut := s.IsFuture()
					val := s.IsValidNow()
					rem := s.RemainingTimeMS()
					a := nowMs()
					kb, ka := k.cv.SlotNo(b, k.I), k.cv.SlotNo(a, k.I)
					if kb != ka || a < b {
						r.count("slot.clock_case_discarded", 1)
						continue
					}
					r.Evals += 3
					rel := ks - kb
					if rel < -4 || rel > 6 {
						break
					}
					relS := fmt.Sprintf("%+d", rel)
					r.nontrivial(fmt.Sprintf("slot-clock/I=%d/rel=%s/off=%d", k.sec, relS, ms-base))
					cs := map[string]interface{}{"part": "slot-clock", "interval_s": k.sec, "slots_ahead": rel}
					if fut != (rel >= 2) {
						r.violation("slot/IsFuture/ahead="+relS, fmt.Sprintf("I=%ds: slot %d slots ahead of the current one: IsFuture=%v", k.sec, rel, fut), cs)
					}
					if val != (rel == 0) {
						r.violation("slot/IsValidNow/ahead="+relS, fmt.Sprintf("I=%ds: slot %d slots ahead of the current one: IsValidNow=%v", k.sec, rel, val), cs)
					}
					end := k.cv.EndMs(ms, k.I)
					if rem < end-a || rem > end-b {
						r.violation("slot/RemainingTimeMS", fmt.Sprintf("I=%ds: remaining=%d not in [%d,%d] (slot end minus bracketing clock readings)", k.sec, rem, end-a, end-b), cs)
					}
					r.count("slot.clock_cases", 1)
					break
				}
			}
		}
	}
}
