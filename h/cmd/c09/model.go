package main

// Independent models used as oracles: integer slot model, header digest, signature
// verification, producer identity.  Nothing in this file calls into the slot / dpos packages.

import (
	"crypto/ed25519"
	"crypto/sha256"
	"encoding/binary"
	"fmt"
	"reflect"

	"github.com/aergoio/aergo/v2/types"
	"github.com/btcsuite/btcd/btcec/v2"
	"github.com/btcsuite/btcd/btcec/v2/ecdsa"
	"github.com/mr-tron/base58"
)

// ---------- slot model ----------

// Conv is the part of the model that is a convention and therefore learned from the code at
// ONE reference point (interval 1 s): how slots are numbered and which side of a boundary is closed.
type Conv struct {
	CeilNumbering bool `json:"ceil_numbering"` // slot named by the boundary that ends it (else by the one that starts it)
	RightClosed   bool `json:"right_closed"`   // instant exactly on boundary b belongs to the slot ending at b
}

func floorDiv(a, b int64) int64 {
	q := a / b
	if (a%b != 0) && ((a < 0) != (b < 0)) {
		q--
	}
	return q
}

func mathMod(a, n int64) int64 {
	r := a % n
	if r < 0 {
		r += n
	}
	return r
}

// nsToMsModel: the protocol's time resolution is the millisecond.
func nsToMsModel(ns int64) int64 { return floorDiv(ns, 1000000) }

// interval returns j such that ms lies in interval j = (j*I,(j+1)*I] or [j*I,(j+1)*I).
func (c Conv) interval(ms, I int64) int64 {
	j := floorDiv(ms, I)
	if c.RightClosed && ms-j*I == 0 {
		j--
	}
	return j
}

// SlotNo is the model's slot number of a millisecond instant.
func (c Conv) SlotNo(ms, I int64) int64 {
	j := c.interval(ms, I)
	if c.CeilNumbering {
		return j + 1
	}
	return j
}

// EndMs is the boundary (ms) ending the slot containing ms.
func (c Conv) EndMs(ms, I int64) int64 { return (c.interval(ms, I) + 1) * I }

// Owner is the model's owner index: slot k belongs to k mod n.
func (c Conv) Owner(ms, I int64, n int) int { return int(mathMod(c.SlotNo(ms, I), int64(n))) }

// ---------- header digest / signature ----------

// headerDigestMsg serializes every exported field of the header except Sign, in declaration
// order, fixed-width little endian for integers and raw bytes for byte strings (the wire
// convention of the signing code), enumerating the fields by reflection so that a field the
// signing code forgets is still covered here.
func headerDigestMsg(h *types.BlockHeader) ([]byte, error) {
	var out []byte
	v := reflect.ValueOf(h).Elem()
	t := v.Type()
	for i := 0; i < t.NumField(); i++ {
		f := t.Field(i)
		if !f.IsExported() || f.Name == "Sign" {
			continue
		}
		fv := v.Field(i)
		switch fv.Kind() {
		case reflect.Slice:
			if fv.Type().Elem().Kind() != reflect.Uint8 {
				return nil, fmt.Errorf("header field %s: unhandled slice kind", f.Name)
			}
			out = append(out, fv.Bytes()...)
		case reflect.Uint64:
			out = binary.LittleEndian.AppendUint64(out, fv.Uint())
		case reflect.Int64:
			out = binary.LittleEndian.AppendUint64(out, uint64(fv.Int()))
		case reflect.Uint32:
			out = binary.LittleEndian.AppendUint32(out, uint32(fv.Uint()))
		case reflect.Int32:
			out = binary.LittleEndian.AppendUint32(out, uint32(fv.Int()))
		case reflect.Bool:
			if fv.Bool() {
				out = append(out, 1)
			} else {
				out = append(out, 0)
			}
		default:
			return nil, fmt.Errorf("header field %s: unhandled kind %s", f.Name, fv.Kind())
		}
	}
	return out, nil
}

const (
	ktUnknown   = -1
	ktEd25519   = 1
	ktSecp256k1 = 2
)

// parsePubKeyProto is a minimal parser of the libp2p PublicKey protobuf {1: Type varint, 2: Data bytes}.
func parsePubKeyProto(b []byte) (kt int, data []byte, ok bool) {
	kt = ktUnknown
	seenT, seenD := false, false
	for len(b) > 0 {
		tag, n := binary.Uvarint(b)
		if n <= 0 {
			return ktUnknown, nil, false
		}
		b = b[n:]
		switch tag & 7 {
		case 0:
			v, n := binary.Uvarint(b)
			if n <= 0 {
				return ktUnknown, nil, false
			}
			b = b[n:]
			if tag>>3 == 1 {
				kt, seenT = int(v), true
			}
		case 2:
			l, n := binary.Uvarint(b)
			if n <= 0 || uint64(len(b)-n) < l {
				return ktUnknown, nil, false
			}
			if tag>>3 == 2 {
				data, seenD = b[n:n+int(l)], true
			}
			b = b[n+int(l):]
		default:
			return ktUnknown, nil, false
		}
	}
	return kt, data, seenT && seenD
}

type triState int

const (
	no triState = iota
	yes
	unknown
)

// indepVerify: does header.Sign verify over the complete header with the key in the header?
func indepVerify(h *types.BlockHeader) (triState, error) {
	msg, err := headerDigestMsg(h)
	if err != nil {
		return unknown, err
	}
	kt, data, ok := parsePubKeyProto(h.PubKey)
	if !ok {
		return no, nil
	}
	switch kt {
	case ktSecp256k1:
		pk, err := btcec.ParsePubKey(data)
		if err != nil {
			return no, nil
		}
		// strict DER framing (the btcec parser tolerates trailing bytes): 0x30 <len> must span the whole string
		if len(h.Sign) < 8 || h.Sign[0] != 0x30 || int(h.Sign[1]) != len(h.Sign)-2 {
			return no, nil
		}
		sig, err := ecdsa.ParseDERSignature(h.Sign)
		if err != nil {
			return no, nil
		}
		d := sha256.Sum256(msg)
		if sig.Verify(d[:], pk) {
			return yes, nil
		}
		return no, nil
	case ktEd25519:
		if len(data) != ed25519.PublicKeySize {
			return no, nil
		}
		if ed25519.Verify(ed25519.PublicKey(data), msg, h.Sign) {
			return yes, nil
		}
		return no, nil
	}
	return unknown, nil
}

// indepPeerID derives the base58 producer id from the header key: identity multihash of the
// canonical key protobuf when it is <= 42 bytes, sha2-256 multihash otherwise.
func indepPeerID(pub []byte) (string, bool) {
	kt, data, ok := parsePubKeyProto(pub)
	if !ok {
		return "", false
	}
	switch kt {
	case ktSecp256k1:
		pk, err := btcec.ParsePubKey(data)
		if err != nil {
			return "", false
		}
		data = pk.SerializeCompressed()
	case ktEd25519:
		if len(data) != ed25519.PublicKeySize {
			return "", false
		}
	default:
		return "", false
	}
	canon := append([]byte{0x08, byte(kt), 0x12, byte(len(data))}, data...)
	var mh []byte
	if len(canon) <= 42 {
		mh = append([]byte{0x00, byte(len(canon))}, canon...)
	} else {
		s := sha256.Sum256(canon)
		mh = append([]byte{0x12, 0x20}, s[:]...)
	}
	return base58.Encode(mh), true
}

func indexOf(list []string, s string) int {
	for i, x := range list {
		if x == s {
			return i
		}
	}
	return -1
}
