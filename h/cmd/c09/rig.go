package main

// The rig: ONE real node per process (chain service + real *dpos.DPoS + mempool on a component
// hub, in-memory DB), built the way the node start-up code wires them.

import (
	"context"
	"fmt"
	"math/big"
	"math/rand"
	"os"
	"path/filepath"
	"strings"
	"time"

	"github.com/aergoio/aergo-actor/actor"
	"github.com/aergoio/aergo-lib/log"
	"github.com/aergoio/aergo/v2/account/key"
	keycrypto "github.com/aergoio/aergo/v2/account/key/crypto"
	"github.com/aergoio/aergo/v2/chain"
	"github.com/aergoio/aergo/v2/config"
	"github.com/aergoio/aergo/v2/consensus"
	cchain "github.com/aergoio/aergo/v2/consensus/chain"
	"github.com/aergoio/aergo/v2/consensus/impl/dpos"
	"github.com/aergoio/aergo/v2/contract"
	"github.com/aergoio/aergo/v2/contract/system"
	"github.com/aergoio/aergo/v2/mempool"
	"github.com/aergoio/aergo/v2/p2p/p2pkey"
	"github.com/aergoio/aergo/v2/p2p/p2putil"
	"github.com/aergoio/aergo/v2/pkg/component"
	"github.com/aergoio/aergo/v2/state"
	"github.com/aergoio/aergo/v2/types"
	"github.com/aergoio/aergo/v2/types/message"
	"github.com/btcsuite/btcd/btcec/v2"
	"github.com/libp2p/go-libp2p/core/crypto"
	"google.golang.org/protobuf/proto"

	"verif/h/vf"
)

type rec struct {
	*component.BaseComponent
}

func newRec(name string) *rec {
	r := &rec{}
	r.BaseComponent = component.NewBaseComponent(name, r, log.NewLogger(name))
	return r
}
func (r *rec) BeforeStart()                        {}
func (r *rec) AfterStart()                         {}
func (r *rec) BeforeStop()                         {}
func (r *rec) Receive(c actor.Context)             {}
func (r *rec) Statistics() *map[string]interface{} { return nil }

type signer struct {
	Name  string
	Kind  string // bp | nonbp-secp | nonbp-ed25519
	priv  crypto.PrivKey
	pub   []byte // marshalled public key as block.Sign puts it in the header
	id    string
	bpIdx int // position in the genesis producer list, -1 if none
}

type node struct {
	r     *Result
	cfg   *config.Config
	cs    *chain.ChainService
	d     *dpos.DPoS
	hub   *component.ComponentHub
	bpIDs []string
	all   []*signer
	bps   []*signer
	n     int
	sec   int64
	I     int64 // ms
	cv    Conv
	rng   *rand.Rand

	genesisTs int64
	a1key     *btcec.PrivateKey
	a1, a2    []byte
	nonce     uint64
	lpb       map[string]uint64
	tag       string
}

func mkAcc(i byte) (*btcec.PrivateKey, []byte) {
	var b [32]byte
	b[31] = i
	b[0] = 1
	priv, pub := btcec.PrivKeyFromBytes(b[:])
	return priv, keycrypto.GenerateAddress(pub.ToECDSA())
}

type rngReader struct{ r *rand.Rand }

func (x rngReader) Read(p []byte) (int, error) { return x.r.Read(p) }

func newNode(r *Result, nbp int, sec int64, stream string, seed int64, cv Conv) (*node, error) {
	nd := &node{r: r, n: nbp, sec: sec, I: sec * 1000, cv: cv, lpb: map[string]uint64{}, tag: fmt.Sprintf("n=%d/I=%d", nbp, sec)}
	nd.rng = seededRand(seed, fmt.Sprintf("node/%d/%d/%s", nbp, sec, stream))
	base := os.Getenv("VERIF_SCRATCH_DIR")
	if base == "" {
		return nil, fmt.Errorf("no scratch dir")
	}
	dir := filepath.Join(base, "data")
	os.RemoveAll(dir)
	os.MkdirAll(dir, 0o755)

	consensus.InitBlockInterval(sec)

	serverCtx := config.NewServerContext("", "")
	cfg := serverCtx.GetDefaultConfig().(*config.Config)
	cfg.DbType = "memorydb"
	cfg.DataDir = dir
	cfg.AuthDir = filepath.Join(base, "auth")
	cfg.Hardfork = &config.HardforkConfig{V2: 2, V3: 3, V4: 4, V5: 100}
	_, cb := mkAcc(99)
	cfg.Blockchain.CoinbaseAccount = types.EncodeAddress(cb)
	cfg.Consensus.EnableBp = true
	cfg.Consensus.BlockInterval = sec
	nd.cfg = cfg

	tests := filepath.Join(vf.RepoDir(), "tests")
	for i := 1; i <= 5; i++ {
		name := fmt.Sprintf("bp%02d", i)
		priv, pub, err := p2putil.LoadKeyFile(filepath.Join(tests, name+".key"))
		if err != nil {
			return nil, err
		}
		pb, err := crypto.MarshalPublicKey(pub)
		if err != nil {
			return nil, err
		}
		idb, err := os.ReadFile(filepath.Join(tests, name+".id"))
		if err != nil {
			return nil, err
		}
		s := &signer{Name: name, Kind: "nonbp-secp", priv: priv, pub: pb, id: strings.TrimSpace(string(idb)), bpIdx: -1}
		if i <= nbp {
			s.Kind, s.bpIdx = "bp", i-1
			nd.bpIDs = append(nd.bpIDs, s.id)
			nd.bps = append(nd.bps, s)
		}
		// the id file and our independent derivation must name the same producer
		if id, ok := indepPeerID(pb); !ok || id != s.id {
			return nil, fmt.Errorf("independent producer-id derivation disagrees with %s.id: %s vs %s", name, id, s.id)
		}
		nd.all = append(nd.all, s)
	}
	// a fresh secp256k1 key and an ed25519 key, both outside the producer set
	var kb [32]byte
	nd.rng.Read(kb[:])
	kb[0] |= 1
	fp, err := crypto.UnmarshalSecp256k1PrivateKey(kb[:])
	if err != nil {
		return nil, err
	}
	fpb, _ := crypto.MarshalPublicKey(fp.GetPublic())
	fid, _ := indepPeerID(fpb)
	nd.all = append(nd.all, &signer{Name: "fresh-secp", Kind: "nonbp-secp", priv: fp, pub: fpb, id: fid, bpIdx: -1})
	ep, epub, err := crypto.GenerateEd25519Key(rngReader{nd.rng})
	if err != nil {
		return nil, err
	}
	epb, _ := crypto.MarshalPublicKey(epub)
	eid, _ := indepPeerID(epb)
	nd.all = append(nd.all, &signer{Name: "fresh-ed25519", Kind: "nonbp-ed25519", priv: ep, pub: epb, id: eid, bpIdx: -1})

	cfg.P2P.NPKey = filepath.Join(tests, "bp01.key")
	p2pkey.InitNodeInfo(&cfg.BaseConfig, cfg.P2P, "v2.0.0", log.NewLogger("p2pkey"))

	nd.a1key, nd.a1 = mkAcc(1)
	_, nd.a2 = mkAcc(2)
	nd.genesisTs = 1600000000000000000
	gen := &types.Genesis{
		ID:        types.ChainID{Version: 0, Magic: "verif.c09", PublicNet: true, MainNet: false, Consensus: "dpos"},
		Timestamp: nd.genesisTs,
		Balance:   map[string]string{types.EncodeAddress(nd.a1): "1000000000000000000000"},
		BPs:       nd.bpIDs,
	}
	core, err := chain.NewCore("memorydb", dir, false, 0, cfg.DB)
	if err != nil {
		return nil, err
	}
	if err := core.InitGenesisBlock(gen, false); err != nil {
		return nil, err
	}
	core.Close()

	nd.cs = chain.NewChainService(cfg)
	nd.hub = component.NewComponentHub()
	cons, err := dpos.New(cfg, nd.hub, nd.cs.CDB(), nd.cs.SDB())
	if err != nil {
		return nil, err
	}
	nd.d = cons.(*dpos.DPoS)
	nd.cs.SetChainConsensus(nd.d)
	mp := mempool.NewMemPoolService(cfg, nd.cs)
	nd.hub.Register(nd.cs, mp, newRec(message.P2PSvc), newRec(message.RPCSvc), newRec(message.SyncerSvc))
	nd.hub.Start()

	// The producer ORDER is state of the chain, not of the code under test: genesis processing stores
	// the list in vote order.  Read the stored genesis (not the dpos cluster's index map) and require
	// the same set as configured.
	stored := nd.cs.CDB().GetGenesisInfo().BPs
	if len(stored) != len(nd.bpIDs) {
		return nil, fmt.Errorf("stored genesis has %d producers, configured %d", len(stored), len(nd.bpIDs))
	}
	bps := make([]*signer, len(stored))
	for i, id := range stored {
		for _, s := range nd.all {
			if s.id == id && s.bpIdx >= 0 {
				s.bpIdx = i
				bps[i] = s
			}
		}
		if bps[i] == nil {
			return nil, fmt.Errorf("stored genesis producer %s is not a configured producer", id)
		}
	}
	nd.bpIDs = append([]string{}, stored...)
	nd.bps = bps
	return nd, nil
}

func (nd *node) best() *types.Block {
	b, err := nd.cs.GetBestBlock()
	if err != nil {
		panic(err)
	}
	return b
}

// template produces an otherwise valid block on top of par with timestamp ts using the real
// block generator (executes the transactions, block reward, computes all roots).
func (nd *node) template(par *types.Block, ts int64, withTx bool) (*types.Block, error) {
	bi := types.NewBlockHeaderInfoFromPrevBlock(par, ts, nd.cfg.Hardfork)
	var txs []types.Transaction
	if withTx {
		tx := &types.Tx{Body: &types.TxBody{
			Nonce: nd.nonce + 1, Account: nd.a1, Recipient: nd.a2, Amount: big.NewInt(1000).Bytes(),
			Type: types.TxType_TRANSFER, GasLimit: 0, GasPrice: big.NewInt(0).Bytes(),
			ChainIdHash: bi.ChainIdHash(),
		}}
		if err := key.SignTx(tx, nd.a1key); err != nil {
			return nil, err
		}
		txs = []types.Transaction{types.NewTransaction(tx)}
	}
	bs := nd.cs.SDB().NewBlockState(par.GetHeader().GetBlocksRootHash(), state.SetPrevBlockHash(par.BlockHash()))
	bs.SetGasPrice(system.GetGasPrice())
	bs.Receipts().SetHardFork(nd.cfg.Hardfork, bi.No)
	ctx := context.Background()
	txOp := cchain.TxOpFn(chain.NewTxExecutor(ctx, nil, nd.cs.CDB().(contract.ChainAccessor), bi, contract.BlockFactory))
	var blk *types.Block
	var err error
	for try := 0; try < 50; try++ {
		g := cchain.NewBlockGenerator(nd.hub, ctx, bi, bs, txOp, false).WithDeco(func(cchain.FetchFn) cchain.FetchFn {
			return func(component.ICompSyncRequester, uint32) []types.Transaction { return txs }
		})
		blk, err = g.GenerateBlock()
		if err != cchain.ErrBestBlock {
			break
		}
		time.Sleep(2 * time.Millisecond)
	}
	if err != nil {
		return nil, err
	}
	if withTx && len(blk.GetBody().GetTxs()) != 1 {
		return nil, fmt.Errorf("template: transaction was not included")
	}
	return blk, nil
}

// deliver sends the block through the hub exactly as a block received from a peer and reports
// (response error, whether the block is now on the main chain).
func (nd *node) deliver(blk *types.Block) (error, bool, error) {
	res, err := nd.hub.RequestFuture(message.ChainSvc, &message.AddBlock{PeerID: "", Block: blk, Bstate: nil},
		20*time.Second, "c09").Result()
	if err != nil {
		return nil, false, err
	}
	rsp, ok := res.(*message.AddBlockRsp)
	if !ok {
		return nil, false, fmt.Errorf("unexpected response %T", res)
	}
	on := false
	// on the main chain = the main-chain block of that height has exactly this header (comparing hashes
	// is not enough: the block hash is not injective, see the two-field byte-shift cases)
	if mb, e := nd.cs.CDB().GetBlockByNo(blk.BlockNo()); e == nil && proto.Equal(mb.Header, blk.Header) {
		on = true
	}
	return rsp.Err, on, nil
}
