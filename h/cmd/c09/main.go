// C09 — block producer legitimacy: one producer per slot, valid signature, not future.
//
// Part 1 (slot ownership, pure functions of package slot): one child process per block interval
// (slot.Init sets package globals); every millisecond in windows around slot boundaries and
// producer-round wrap-arounds, for every producer count 1..100, is compared with an independent
// integer model whose conventions were learned at ONE reference point.
// Part 2 (acceptance): children each run ONE real node (chain service + real *dpos.DPoS) and
// craft blocks; accept/reject decisions of VerifySign/IsBlockValid/VerifyTimestamp and of
// AddBlock through the hub are compared with an independent oracle (own digest, own signature
// verification, own producer-id derivation, own slot model).
package main

import (
	"bytes"
	"encoding/json"
	"fmt"
	"hash/fnv"
	"math/rand"
	"os"
	"os/exec"
	"path/filepath"
	"sort"
	"strconv"
	"strings"
	"sync"
	"time"
	noderig "verif/h/rig"

	"github.com/aergoio/aergo/v2/consensus/impl/dpos/bp"
	"github.com/aergoio/aergo/v2/consensus/impl/dpos/slot"

	"verif/h/vf"
)

// Viol is one violation found by a child.
type Viol struct {
	Key  string      `json:"key"`
	Desc string      `json:"desc"`
	Case interface{} `json:"case"`
	N    int         `json:"n"`
}

// Result is what a child reports to the parent.
type Result struct {
	Evals        int64                  `json:"evals"`
	Counters     map[string]int64       `json:"counters"`
	Nontrivial   []string               `json:"nontrivial"`
	Violations   []*Viol                `json:"violations"`
	Samples      []interface{}          `json:"samples"`
	Inconclusive []string               `json:"inconclusive"`
	Extra        map[string]interface{} `json:"extra"`

	nt    map[string]struct{}
	viols map[string]*Viol
	args  []string
}

func newResult(args []string) *Result {
	return &Result{Counters: map[string]int64{}, Extra: map[string]interface{}{}, nt: map[string]struct{}{},
		viols: map[string]*Viol{}, args: args}
}
func (r *Result) count(k string, n int) { r.Counters[k] += int64(n) }
func (r *Result) nontrivial(k string)   { r.nt[k] = struct{}{} }
func (r *Result) sample(v interface{}) {
	if len(r.Samples) < 3 {
		r.Samples = append(r.Samples, v)
	}
}
func (r *Result) violation(key, desc string, cs map[string]interface{}) {
	if v, ok := r.viols[key]; ok {
		v.N++
		return
	}
	if cs == nil {
		cs = map[string]interface{}{}
	}
	cs["child"] = r.args
	r.viols[key] = &Viol{Key: key, Desc: desc, Case: cs, N: 1}
}
func (r *Result) inconclusive(s string) { r.Inconclusive = append(r.Inconclusive, s) }
func (r *Result) write(path string) {
	for k := range r.nt {
		r.Nontrivial = append(r.Nontrivial, k)
	}
	sort.Strings(r.Nontrivial)
	keys := make([]string, 0, len(r.viols))
	for k := range r.viols {
		keys = append(keys, k)
	}
	sort.Strings(keys)
	for _, k := range keys {
		r.Violations = append(r.Violations, r.viols[k])
	}
	b, _ := json.Marshal(r)
	os.WriteFile(path+".tmp", b, 0o644)
	os.Rename(path+".tmp", path)
}

func seededRand(seed int64, stream string) *rand.Rand {
	h := fnv.New64a()
	fmt.Fprintf(h, "%d/C09/%s", seed, stream)
	return rand.New(rand.NewSource(int64(h.Sum64())))
}

// learnConv learns the two conventions of the slot model at ONE reference point (interval 1 s,
// 100 producers, reference boundary R): numbering from an instant strictly inside a slot,
// boundary side from the instant exactly on the boundary.
func learnConv() (Conv, string) {
	slot.Init(1)
	const n = 100
	owner := func(ms int64) int {
		s := slot.NewFromUnixNano(ms * 1000000)
		who, cnt := -1, 0
		for i := 0; i < n; i++ {
			if s.IsFor(bp.Index(i), n) {
				who = i
				cnt++
			}
		}
		if cnt != 1 {
			return -1 - cnt
		}
		return who
	}
	const R = int64(1700000042) // boundary index of the reference point (s)
	var cv Conv
	mid := owner(R*1000 + 500)
	switch mid {
	case int((R + 1) % n):
		cv.CeilNumbering = true
	case int(R % n):
		cv.CeilNumbering = false
	default:
		return cv, fmt.Sprintf("owner %d of reference instant %d.5s (n=100) is neither %d nor %d: slot numbering shifted", mid, R, R%n, (R+1)%n)
	}
	before, on, after := owner(R*1000-1), owner(R*1000), owner(R*1000+1)
	switch {
	case before == after:
		return cv, "no boundary at the reference boundary"
	case on == before:
		cv.RightClosed = true
	case on == after:
		cv.RightClosed = false
	default:
		return cv, "boundary instant belongs to neither neighbouring slot"
	}
	return cv, ""
}

type childSpec struct {
	args []string
	out  string
}

func main() {
	if len(os.Args) > 1 && os.Args[1] == "child" {
		childMain(os.Args[2:])
		return
	}
	if len(os.Args) > 1 && os.Args[1] == "node" {
		noderig.ChildMain()
		return
	}
	c := vf.Start("C09", "exploration")
	scratch := c.Scratch()
	tier := c.Tier
	seed := strconv.FormatInt(c.Seed, 10)

	cv, bad := learnConv()
	if bad != "" {
		c.Violation("slot/reference-point", bad, map[string]interface{}{"child": []string{}})
		c.Finish("reference point of the slot model could not be explained by a convention", 1)
		return
	}
	c.Set("learned_convention", cv)
	cvs := fmt.Sprintf("%t,%t", cv.CeilNumbering, cv.RightClosed)

	var specs []childSpec
	add := func(args ...string) {
		specs = append(specs, childSpec{args: args, out: filepath.Join(scratch, fmt.Sprintf("child-%d.json", len(specs)))})
	}
	if c.ReplayPath != "" {
		var rc struct {
			Child []string `json:"child"`
		}
		if err := c.LoadReplay(&rc); err != nil || len(rc.Child) == 0 {
			fmt.Println("REPLAY: cannot load case:", err)
			os.Exit(2)
		}
		add(rc.Child...)
	} else {
		for _, iv := range []string{"1", "2", "3", "5"} {
			add("slot", iv, tier, seed, cvs)
		}
		// node children: (bp count, block interval s, stream)
		nodes := [][3]string{{"3", "1", "a"}, {"4", "2", "a"}}
		if !c.Quick() {
			nodes = append(nodes, [3]string{"3", "1", "b"}, [3]string{"4", "1", "b"}, [3]string{"3", "3", "c"},
				[3]string{"4", "5", "c"}, [3]string{"3", "2", "d"}, [3]string{"4", "1", "d"})
		}
		for _, nd := range nodes {
			add("node", nd[0], nd[1], nd[2], tier, seed, cvs)
		}
	}

	exe := os.Getenv("VERIF_SELF")
	if exe == "" {
		exe, _ = os.Executable()
	}
	watchdog := time.Duration(c.Pick(150, 840)) * time.Second
	results := make([]*Result, len(specs))
	fails := make([]string, len(specs))
	var wg sync.WaitGroup
	sem := make(chan struct{}, 12)
	for i := range specs {
		wg.Add(1)
		go func(i int) {
			defer wg.Done()
			sem <- struct{}{}
			defer func() { <-sem }()
			sp := specs[i]
			args := append([]string{"child", sp.out}, sp.args...)
			cmd := exec.Command(exe, args...)
			var eb bytes.Buffer
			cmd.Stderr = &eb
			cmd.Stdout = &eb
			cmd.Env = append(os.Environ(), "ARGLIB_LEVEL=fatal", "VERIF_SCRATCH_DIR="+filepath.Join(scratch, fmt.Sprintf("d%d", i)))
			if err := cmd.Start(); err != nil {
				fails[i] = "cannot start child: " + err.Error()
				return
			}
			done := make(chan error, 1)
			go func() { done <- cmd.Wait() }()
			select {
			case <-done:
			case <-time.After(watchdog):
				cmd.Process.Kill()
				<-done
				fails[i] = fmt.Sprintf("watchdog: child %v did not finish in %v", sp.args, watchdog)
				return
			}
			b, err := os.ReadFile(sp.out)
			if err != nil {
				tail := eb.String()
				if len(tail) > 1500 {
					tail = tail[len(tail)-1500:]
				}
				fails[i] = fmt.Sprintf("child %v died without a result: %s", sp.args, strings.TrimSpace(tail))
				return
			}
			r := &Result{}
			if err := json.Unmarshal(b, r); err != nil {
				fails[i] = fmt.Sprintf("child %v: bad result: %v", sp.args, err)
				return
			}
			results[i] = r
		}(i)
	}
	wg.Wait()

	perChild := map[string]interface{}{}
	for i, r := range results {
		name := strings.Join(specs[i].args, " ")
		if fails[i] != "" {
			c.Inconclusive(fails[i])
			continue
		}
		c.Eval(int(r.Evals))
		for k, v := range r.Counters {
			c.Count(k, int(v))
		}
		for _, k := range r.Nontrivial {
			c.Nontrivial(k)
		}
		for _, s := range r.Samples {
			c.Sample(s)
		}
		for _, s := range r.Inconclusive {
			c.Inconclusive(name + ": " + s)
		}
		for _, v := range r.Violations {
			c.Violation(v.Key, fmt.Sprintf("%s (seen %d times in child %q)", v.Desc, v.N, name), v.Case)
		}
		perChild[name] = map[string]interface{}{"evaluations": r.Evals, "distinct": len(r.Nontrivial), "extra": r.Extra}
	}
	c.Set("children", perChild)
	// noted weakness outside the stated quantifier (two fields change at once): counted, not judged
	shift := map[string]int64{}
	for _, r := range results {
		if r == nil {
			continue
		}
		for k, v := range r.Counters {
			if strings.HasPrefix(k, "observed.adjacent_field_shift") {
				shift[strings.TrimPrefix(k, "observed.")] += v
			}
		}
	}
	if c.ReplayPath == "" {
		runElection(c)
	}
	c.Set("adjacent_field_shift", map[string]interface{}{
		"what": "one byte moved across the border of two byte-string fields that are neighbours in the signed serialization " +
			"(no length prefixes): digest, signature validity and block hash are unchanged; acceptance is counted, not judged",
		"counts": shift,
	})
	c.Set("slot_windows", map[string]interface{}{
		"exhaustive": true,
		"space": "every millisecond in [b*I-3ms, b*I+3ms] for boundaries b=0.." + map[bool]string{true: "n+1", false: "3n"}[c.Quick()] +
			" and around seeded far-future/near-now/round-wrap boundaries; for every producer count n=1..100 and every index i<n; intervals I in {1,2,3,5}s",
	})
	floor := c.Pick(1500, 6000)
	if c.ReplayPath != "" {
		floor = 0
	}
	c.Finish("owner count of every instant is exactly 1 and equals the integer model (slot k -> k mod n) under the learned convention; "+
		"a crafted block is accepted (VerifySign&IsBlockValid&VerifyTimestamp, and AddBlock end-to-end) only if the independent oracle finds "+
		"signature valid over the complete header with the header's key, key in BP set, BP index owns the timestamp's slot, slot < now+2; "+
		"every fully honest block is accepted (positive control)", floor,
		"producer set is the genesis set (chain kept below the first election at block 300)",
		"instants <= 0 ms (before 1970) are only required to have at most one owner",
		"wall clock is monotone between the two readings that bracket a clock-dependent call; cases where the current slot changed in between are discarded")
}
