package main

import (
	"fmt"
	"math/big"

	"github.com/aergoio/aergo/v2/types"

	noderig "verif/h/rig"
	"verif/h/vf"
)

// runElection: a history that crosses producer elections. Three genesis producers; stake and vote transactions in
// the first blocks rank them in an order different from the genesis order (a pure permutation of the same set), the
// chain is produced past the heights at which the elected lists take effect. The producer index of a slot is a
// function of the elected list, so a node that lived through the elections and the same node restarted on its own
// data (which rebuilds the list from the stored snapshots) must name the same owner for every instant. The elected
// list of the election at height 100 takes effect at height 300: the run goes to 320 and requires that the owner of
// at least one probed slot changed (otherwise the part is inconclusive).
func runElection(c *vf.Ctx) {
	w := noderig.NewWorld("elect", c.Scratch(), noderig.WorldOpts{Public: true, NAccts: 6, Mempool: "recorder", NBP: 3, Strict: true,
		HF: map[string]uint64{"V2": 1, "V3": 1, "V4": 1 << 40, "V5": 1 << 40}})
	defer w.CloseAll()
	p, _, err := w.Node("p", func(cfg *noderig.NodeConfig) { cfg.NodeKey = 0 })
	if err != nil {
		c.Inconclusive("election: start node: " + err.Error())
		return
	}
	r := c.Rand("election")
	gp := big.NewInt(50000000000)
	slot := 0
	ownersAt := func(n *noderig.Client, from, k int) ([]int, bool) {
		var out []int
		for i := 0; i < k; i++ {
			o, err := n.OwnerAt(w.Tmpl.GenesisTS + int64(from+i)*1e9 + 5e8)
			if err != nil {
				return nil, false
			}
			out = append(out, o)
		}
		return out, true
	}
	produce := func(txs ...*types.Tx) bool {
		slot++
		ts := w.Tmpl.GenesisTS + int64(slot)*1e9 + 5e8
		o, err := p.OwnerAt(ts)
		if err != nil || o < 0 {
			c.Inconclusive(fmt.Sprintf("election: no owner for slot %d: %v", slot, err))
			return false
		}
		var enc [][]byte
		for _, tx := range txs {
			enc = append(enc, noderig.EncTx(tx))
		}
		rsp, err := p.Produce(&noderig.ProduceReq{Txs: enc, TS: ts, Connect: true, Confirms: 1, SignKey: o})
		if err != nil || rsp.Panic != "" || rsp.GenErr != "" || rsp.AddErr != "" {
			c.Inconclusive(fmt.Sprintf("election: production failed in slot %d: %v %+v", slot, err, rsp))
			return false
		}
		if len(rsp.Included) != len(txs) {
			c.Inconclusive(fmt.Sprintf("election: %d of %d setup txs included: %v", len(rsp.Included), len(txs), rsp.SkipErrs))
			return false
		}
		return true
	}
	// stakes 30000/20000/10000 aergo; votes rank the producers in a seeded order that is not the genesis order
	perm := [][]int{{1, 0, 2}, {2, 1, 0}, {1, 2, 0}, {2, 0, 1}, {0, 2, 1}}[r.Intn(5)]
	var stakes, votes []*types.Tx
	for i := 0; i < 3; i++ {
		amt := new(big.Int).Mul(big.NewInt(int64(30000-10000*i)), noderig.Aergo)
		stakes = append(stakes, noderig.TxSpec{Type: types.TxType_GOVERNANCE, From: w.Accts[i], To: []byte(types.AergoSystem), Nonce: 1, Amount: amt, Payload: noderig.GovPayload("v1stake"), GasPrice: gp, ChainID: w.CIDHash(1)}.Build())
		votes = append(votes, noderig.TxSpec{Type: types.TxType_GOVERNANCE, From: w.Accts[i], To: []byte(types.AergoSystem), Nonce: 2, Amount: big.NewInt(0), Payload: noderig.GovPayload("v1voteBP", w.BPIDs[perm[i]]), GasPrice: gp, ChainID: w.CIDHash(2)}.Build())
	}
	before, ok := ownersAt(p, 1000, 9)
	if !ok || !produce(stakes...) || !produce(votes...) {
		return
	}
	for h := 3; h <= 320; h++ {
		if !produce() {
			return
		}
	}
	c.Count("election_blocks_produced", 320)
	// owners of instants far ahead, as seen by the node that lived through the elections and after a restart
	probeFrom := slot + 50
	lived, ok1 := ownersAt(p, probeFrom, 12)

	p.Close()
	p2, _, err := w.Node("p", func(cfg *noderig.NodeConfig) { cfg.NodeKey = 0 })
	if err != nil {
		c.Violation("election/restart-failed", "node does not restart after the election: "+err.Error(), nil)
		return
	}
	restarted, ok2 := ownersAt(p2, probeFrom, 12)
	// did the elected list take effect at all (height 300)? judged on the restarted node, which builds its list from
	// the stored snapshot
	same, ok0 := ownersAt(p2, 1000, 9)
	if !ok0 || fmt.Sprint(same) == fmt.Sprint(before) {
		c.Inconclusive("election: the elected ranking never took effect, the part observed nothing")
		return
	}
	c.Count("election_changed_the_owner_of_a_slot", 1)
	c.Eval(2)
	if !ok1 || !ok2 {
		c.Inconclusive("election: owner query failed")
		return
	}
	cd := map[string]interface{}{"part": "election", "vote_ranking": perm, "owners_before_election": before, "owners_lived_through": lived, "owners_after_restart": restarted, "first_probed_slot": probeFrom}
	if fmt.Sprint(lived) != fmt.Sprint(restarted) {
		c.Violation("election/slot-owner-differs-after-restart", fmt.Sprintf("after an election that ranks the producers %v, the node that lived through it names the owners %v for slots %d.., the same node restarted on its data names %v", perm, lived, probeFrom, restarted), cd)
		return
	}
	c.Count("election_owner_sequences_equal_after_restart", 1)
	c.Nontrivial(fmt.Sprintf("election|%v", perm))
	c.Sample(cd)
}
