// C15 governance accounting: stakes, votes, rankings and names stay consistent.
package main

import (
	"bytes"
	"encoding/hex"
	"fmt"
	"math/big"
	"math/rand"
	"os"
	"sort"
	"strings"
	"sync"
	"time"

	"github.com/aergoio/aergo/v2/types"
	"github.com/mr-tron/base58"

	"verif/h/rig"
	"verif/h/vf"
)

const lockPeriod = 60 * 60 * 24 // system.StakingDelay == system.VotingDelay (block numbers); cross-checked at run time

type caseDesc struct {
	Scenario string   `json:"scenario"`
	Height   uint64   `json:"height"`
	Txs      []string `json:"txs"`
	Statuses []string `json:"statuses"`
	What     string   `json:"what"`
}

func main() {
	if len(os.Args) > 1 && os.Args[1] == "node" {
		rig.ChildMain()
		return
	}
	c := vf.Start("C15", "exploration")
	var wg sync.WaitGroup
	sem := make(chan struct{}, c.Pick(4, 6))
	for i := 0; i < c.Pick(4, 12); i++ {
		wg.Add(1)
		sem <- struct{}{}
		go func(i int) { defer wg.Done(); defer func() { <-sem }(); run(c, i) }(i)
	}
	wg.Add(1)
	go func() { defer wg.Done(); witness(c) }()
	wg.Wait()
	c.Finish("per scenario 8 accounts issue seeded sequences of stake, unstake (partial/full), producer votes (overlapping candidate sets), parameter votes, name create/update and transfers; the chain is moved past the 86400-block lock period with empty blocks so that operations are tried right before, at and after the lock boundary. After EVERY block, through the node's query surface: total stake = sum of stakes = balance of the staking account; every tally = sum of the voting amounts of the accounts currently voting for the candidate; voting amount <= stake; ranking non-increasing with a strict tie-break; refusals inside the lock period / below minimum; unstake returns exactly the amount; name owner as in the reference model and only for the price; voting-power ranking observationally equal before and after a restart. A case = one block; non-trivial = block with >=1 successful governance tx; distinct = hash(scenario, height, txs)",
		c.Pick(40, 400),
		"refusal expectations use the lock period constant read from the code base (86400 blocks)",
		"relaxed DPoS; voting reward paid from a funded vault")
}

type acctModel struct {
	staked   *big.Int
	when     uint64 // block of the last stake/unstake/vote
	hasStake bool
	voted    map[string]bool // issue id -> has voted before
}

func run(c *vf.Ctx, si int) {
	name := fmt.Sprintf("gov%d", si)
	ver := []int{5, 2, 3, 4}[si%4]
	hf := map[string]uint64{}
	// every fourth scenario crosses the hardforks inside the history: the first blocks (stakes and producer votes)
	// run under version 0, the re-votes and unstakes after the lock period under the final version
	forkAt := uint64(1)
	if si%4 == 3 {
		forkAt = 12
	}
	for v := 2; v <= 5; v++ {
		if v <= ver {
			hf[fmt.Sprintf("V%d", v)] = forkAt
		} else {
			hf[fmt.Sprintf("V%d", v)] = 1 << 40
		}
	}
	w := rig.NewWorld(name, c.Scratch(), rig.WorldOpts{Public: true, NAccts: 9, Mempool: "recorder", HF: hf, Balance: new(big.Int).Mul(big.NewInt(6000000), rig.Aergo).String()})
	cb := rig.NewAcct(name+"/cb", 0)
	w.Tmpl.Coinbase = cb.B58()
	defer w.CloseAll()
	r := c.Rand("run/" + name)
	n, _, err := w.Node("n", nil)
	if err != nil {
		c.Inconclusive("start: " + err.Error())
		return
	}
	n.Timeout = 20 * time.Minute
	const NA = 8
	gp := big.NewInt(50000000000)
	model := make([]*acctModel, NA)
	for i := range model {
		model[i] = &acctModel{staked: new(big.Int), voted: map[string]bool{}}
	}
	nameOwner := map[string]int{}
	nameSeq := 0
	minStake := new(big.Int).Mul(big.NewInt(10000), rig.Aergo)
	namePrice := new(big.Int).Set(rig.Aergo)
	nonce := make([]uint64, NA+1)
	height := func() uint64 { b, _ := n.Best(); return b.No }
	type op struct {
		desc       string
		a          int
		tx         *types.Tx
		kind       string
		amount     *big.Int
		mustRefuse string // non-empty: the statement requires refusal, with the reason
		handover   bool   // second update of the former owner in a same-block handover
		aux        string
		auxI       int
	}
	mkGov := func(a int, to string, amount *big.Int, payload []byte, no uint64) *types.Tx {
		nonce[a]++
		return rig.TxSpec{Type: types.TxType_GOVERNANCE, From: w.Accts[a], To: []byte(to), Nonce: nonce[a], Amount: amount, Payload: payload, GasPrice: gp, ChainID: w.CIDHash(no)}.Build()
	}
	fail := func(key, msg string, cd caseDesc) {
		cd.What = msg
		c.Violation(key, fmt.Sprintf("%s height %d: %s\n  txs: %v\n  statuses: %v", name, cd.Height, msg, cd.Txs, cd.Statuses), cd)
	}
	// fund the vault (voting reward) in block 1
	{
		nonce[NA]++
		tx := rig.TxSpec{Type: types.TxType_TRANSFER, From: w.Accts[NA], To: []byte(types.AergoVault), Nonce: nonce[NA], Amount: new(big.Int).Mul(big.NewInt(3000), rig.Aergo), GasPrice: gp, ChainID: w.CIDHash(1)}.Build()
		rsp, err := n.Produce(&rig.ProduceReq{Txs: [][]byte{rig.EncTx(tx)}, Connect: true, Confirms: -1, SignKey: 0})
		if err != nil || rsp.GenErr != "" || rsp.AddErr != "" || len(rsp.Included) != 1 {
			c.Inconclusive(name + ": vault funding failed")
			return
		}
	}
	daoIDs := []string{"GASPRICE", "STAKINGMIN", "NAMEPRICE", "BPCOUNT"}
	daoVals := map[string][]string{"GASPRICE": {"50000000000", "60000000000"}, "STAKINGMIN": {"10000000000000000000000", "9000000000000000000000"},
		"NAMEPRICE": {"1000000000000000000", "20000000000000000000"}, "BPCOUNT": {"3", "4"}}
	phase2 := false
	genOps := func(no uint64, k int, boundary int) []op {
		var ops []op
		used := map[int]bool{}
		for tries := 0; len(ops) < k && tries < 300 && len(used) < NA; tries++ {
			a := r.Intn(NA)
			if boundary >= 0 && len(ops) == 0 {
				a = boundary
			}
			if used[a] {
				continue
			}
			used[a] = true
			m := model[a]
			locked := m.hasStake && m.when+lockPeriod > no
			pick := r.Intn(9)
			if phase2 && r.Intn(2) == 0 {
				pick = 2 // after the lock period: unstakes (partial ones shrink existing votes)
			}
			if forkAt > 1 && no < forkAt {
				// before the hardforks: stakes first, then producer votes (cast while no ranking is kept yet)
				pick = 0
				if no >= 4 {
					pick = 4
				}
			} else if forkAt > 1 && phase2 && r.Intn(3) == 0 {
				pick = 4 // re-votes of those accounts under the final version
			}
			if forkAt > 1 && si%8 == 3 && pick == 6 {
				pick = 4 // producer votes only (see known finding C15 .../pre-v2-vote-and-later-vote-on-another-issue)
			}
			switch pick {
			case 0, 1: // stake
				amt := new(big.Int).Mul(big.NewInt([]int64{10000, 10000, 12000, 500, 25000, 1300000, 70000}[r.Intn(7)]), rig.Aergo)
				o := op{desc: fmt.Sprintf("stake a%d %s", a, amt), a: a, kind: "stake", amount: amt}
				if locked {
					o.mustRefuse = "staking inside the lock period"
				} else if new(big.Int).Add(m.staked, amt).Cmp(minStake) < 0 {
					o.mustRefuse = "stake below the minimum"
				}
				o.tx = mkGov(a, types.AergoSystem, amt, rig.GovPayload("v1stake"), no)
				ops = append(ops, o)
			case 2, 3: // unstake
				var amt *big.Int
				switch r.Intn(6) {
				case 4, 5:
					// down to a round amount whose byte length may differ from the current one
					// (2^80 aer ~ 1.2M aergo, 2^72 ~ 4722 aergo ... byte-length boundaries of the amounts)
					target := new(big.Int).Mul(big.NewInt([]int64{1000000, 65000, 10000, 20000}[r.Intn(4)]), rig.Aergo)
					amt = new(big.Int).Sub(m.staked, target)
					if amt.Sign() <= 0 {
						amt = new(big.Int).Div(m.staked, big.NewInt(3))
					}
				case 0:
					amt = new(big.Int).Set(m.staked) // everything
				case 1:
					amt = new(big.Int).Mul(big.NewInt(int64(1+r.Intn(3000))), rig.Aergo)
				case 2:
					amt = new(big.Int).Add(m.staked, big.NewInt(1)) // more than staked
				default:
					amt = new(big.Int).Div(m.staked, big.NewInt(2))
				}
				if amt.Sign() == 0 {
					amt = big.NewInt(1)
				}
				o := op{desc: fmt.Sprintf("unstake a%d %s (staked %s)", a, amt, m.staked), a: a, kind: "unstake", amount: amt}
				rest := new(big.Int).Sub(m.staked, amt)
				switch {
				case !m.hasStake || m.staked.Sign() == 0:
					o.mustRefuse = "unstake without stake"
				case locked:
					o.mustRefuse = "unstaking inside the lock period"
				case rest.Sign() < 0:
					o.mustRefuse = "unstake more than staked"
				case rest.Sign() != 0 && rest.Cmp(minStake) < 0:
					o.mustRefuse = "remaining stake below the minimum"
				}
				o.tx = mkGov(a, types.AergoSystem, amt, rig.GovPayload("v1unstake"), no)
				ops = append(ops, o)
			case 4, 5: // vote BP
				nc := 1 + r.Intn(len(w.BPIDs))
				perm := r.Perm(len(w.BPIDs))[:nc]
				var args []interface{}
				for _, p := range perm {
					args = append(args, w.BPIDs[p])
				}
				o := op{desc: fmt.Sprintf("votebp a%d %v", a, perm), a: a, kind: "vote", aux: "voteBP"}
				if !m.hasStake || m.staked.Sign() == 0 {
					o.mustRefuse = "vote without stake"
				} else if m.voted["voteBP"] && locked {
					o.mustRefuse = "re-vote inside the lock period"
				}
				o.tx = mkGov(a, types.AergoSystem, big.NewInt(0), rig.GovPayload("v1voteBP", args...), no)
				ops = append(ops, o)
			case 6: // vote DAO
				if ver < 2 {
					continue
				}
				id := daoIDs[r.Intn(len(daoIDs))]
				v := daoVals[id][r.Intn(2)]
				o := op{desc: fmt.Sprintf("votedao a%d %s=%s", a, id, v), a: a, kind: "vote", aux: id}
				if !m.hasStake || m.staked.Sign() == 0 {
					o.mustRefuse = "vote without stake"
				} else if m.voted[id] && locked {
					o.mustRefuse = "re-vote inside the lock period"
				}
				o.tx = mkGov(a, types.AergoSystem, big.NewInt(0), rig.GovPayload("v1voteDAO", id, v), no)
				ops = append(ops, o)
			case 7: // name create (fresh, duplicate, or underpaid)
				nm := fmt.Sprintf("g%011d", nameSeq)
				amt := new(big.Int).Set(namePrice)
				o := op{a: a, kind: "name-create", amount: amt}
				switch r.Intn(4) {
				case 0:
					if len(nameOwner) > 0 {
						for k := range nameOwner {
							nm = k
							break
						}
						o.mustRefuse = "name already owned"
					} else {
						nameSeq++
					}
				case 1:
					amt = new(big.Int).Sub(namePrice, big.NewInt(1))
					o.amount = amt
					o.mustRefuse = "name created below the price"
					nameSeq++
				default:
					nameSeq++
				}
				o.aux = nm
				o.desc = fmt.Sprintf("name-create a%d %s amount=%s", a, nm, amt)
				o.tx = mkGov(a, types.AergoName, amt, rig.GovPayload("v1createName", nm), no)
				ops = append(ops, o)
			case 8: // name update by owner or by someone else
				if len(nameOwner) == 0 {
					continue
				}
				var names []string
				for k := range nameOwner {
					names = append(names, k)
				}
				sort.Strings(names)
				nm := names[r.Intn(len(names))]
				to := r.Intn(NA)
				o := op{desc: fmt.Sprintf("name-update a%d %s -> a%d (owner a%d)", a, nm, to, nameOwner[nm]), a: a, kind: "name-update", aux: nm, auxI: to, amount: namePrice}
				if nameOwner[nm] != a {
					o.mustRefuse = "name changed by a non-owner"
				}
				o.tx = mkGov(a, types.AergoName, namePrice, rig.GovPayload("v1updateName", nm, w.Accts[to].B58()), no)
				ops = append(ops, o)
			}
		}
		return ops
	}
	step := func(boundary int) bool {
		no := height() + 1
		// parameters in effect for the next block (parameter votes can change them)
		if sv, err := n.SysValues(); err == nil {
			if v, ok := new(big.Int).SetString(sv.StakingMin, 10); ok {
				minStake = v
			}
			if v, ok := new(big.Int).SetString(sv.NamePrice, 10); ok {
				namePrice = v
			}
		}
		ops := genOps(no, 2+r.Intn(5), boundary)
		if len(nameOwner) > 0 && boundary < 0 && r.Intn(5) == 0 {
			// same-block handover: the owner hands the name to B, tries to hand it to C afterwards (no longer
			// the owner: must be refused), then B hands it to C
			for _, o := range ops { // give back the nonces of the replaced ops
				nonce[o.a]--
			}
			var names []string
			for k := range nameOwner {
				names = append(names, k)
			}
			sort.Strings(names)
			nm := names[r.Intn(len(names))]
			alice := nameOwner[nm]
			bob := (alice + 1 + r.Intn(NA-1)) % NA
			carol := bob
			for carol == bob || carol == alice {
				carol = r.Intn(NA)
			}
			upd := func(a, to int, h bool) op {
				return op{desc: fmt.Sprintf("name-update a%d %s -> a%d (same-block handover)", a, nm, to), a: a, kind: "name-update", aux: nm, auxI: to, amount: namePrice, handover: h,
					tx: mkGov(a, types.AergoName, namePrice, rig.GovPayload("v1updateName", nm, w.Accts[to].B58()), no)}
			}
			ops = []op{upd(alice, bob, false), upd(alice, carol, true), upd(bob, carol, false)}
			c.Count("same_block_handover_blocks", 1)
		}
		var txs [][]byte
		cd := caseDesc{Scenario: name, Height: no}
		for _, o := range ops {
			txs = append(txs, rig.EncTx(o.tx))
			cd.Txs = append(cd.Txs, o.desc)
		}
		// balances before
		before := map[int]*big.Int{}
		for a := 0; a < NA; a++ {
			st, _ := n.GetState(w.Accts[a].Addr)
			b, _ := new(big.Int).SetString(st.Balance, 10)
			before[a] = b
		}
		rsp, err := n.Produce(&rig.ProduceReq{Txs: txs, Connect: true, Confirms: -1, SignKey: 0})
		c.Eval(1)
		if err != nil || rsp.Panic != "" || rsp.GenErr != "" || rsp.AddErr != "" {
			c.Inconclusive(fmt.Sprintf("%s height %d: produce failed: %v %.200s", name, no, err, rsp))
			return false
		}
		inc := map[string]int{}
		for i, h := range rsp.Included {
			inc[string(h)] = i
		}
		okGov := 0
		for _, o := range ops {
			status := "skipped"
			fee := new(big.Int)
			if i, ok := inc[string(o.tx.Hash)]; ok {
				status = rsp.Receipts[i].Status
				fee.SetBytes(rsp.Receipts[i].Fee)
			} else {
				nonce[o.a]-- // not included: nonce unused ... only correct if it was the account's only tx (it is: one op per account per block)
			}
			cd.Statuses = append(cd.Statuses, status)
			c.Count("op/"+o.kind+"/"+status, 1)
			if o.kind == "name-update" {
				// decided against the owner at THIS point of the block: ops are applied in block order and
				// the model follows every successful update, so an earlier tx of the same block may have
				// handed the name to (or away from) this sender
				o.mustRefuse = ""
				if cur, ok := nameOwner[o.aux]; ok && cur != o.a {
					o.mustRefuse = "name changed by a non-owner"
					if o.handover {
						c.Count("former_owner_update_after_handover_in_same_block", 1)
					}
				}
			}
			if o.mustRefuse != "" {
				c.Count("must_refuse/"+o.mustRefuse, 1)
				if status == "SUCCESS" {
					fail("refusal-missing/"+strings.ReplaceAll(o.mustRefuse, " ", "-"), fmt.Sprintf("%s was executed successfully although it must be refused: %s", o.desc, o.mustRefuse), cd)
					return false
				}
				continue
			}
			if status != "SUCCESS" {
				continue // legitimately refused for a reason the model does not track (e.g. balance); invariants below still apply
			}
			okGov++
			m := model[o.a]
			st, _ := n.GetState(w.Accts[o.a].Addr)
			after, _ := new(big.Int).SetString(st.Balance, 10)
			delta := new(big.Int).Sub(after, before[o.a])
			switch o.kind {
			case "stake":
				m.staked.Add(m.staked, o.amount)
				m.when, m.hasStake = no, true
				if want := new(big.Int).Neg(new(big.Int).Add(o.amount, fee)); delta.Cmp(want) != 0 && !winnerOf(rsp, w.Accts[o.a].Addr) {
					fail("stake-moved-wrong-amount", fmt.Sprintf("%s: balance changed by %s, expected %s", o.desc, delta, want), cd)
					return false
				}
			case "unstake":
				m.staked.Sub(m.staked, o.amount)
				m.when = no
				if want := new(big.Int).Sub(o.amount, fee); delta.Cmp(want) != 0 && !winnerOf(rsp, w.Accts[o.a].Addr) {
					fail("unstake-returned-wrong-amount", fmt.Sprintf("%s: balance changed by %s, expected exactly the requested amount minus the fee = %s", o.desc, delta, want), cd)
					return false
				}
			case "vote":
				m.voted[o.aux] = true
				m.when = no
			case "name-create":
				nameOwner[o.aux] = o.a
			case "name-update":
				nameOwner[o.aux] = o.auxI
			}
		}
		if os.Getenv("C15_DEBUG") == name {
			sv, _ := n.SysValues()
			fmt.Printf("DEBUG %s h=%d v=%d totalVP=%s txs=%v st=%v\n", name, no, w.Version(no), sv.TotalVP, cd.Txs, cd.Statuses)
		}
		if probs := invariants(c, w, n, NA, model, nameOwner); len(probs) > 0 {
			fail("invariant/"+norm(probs[0]), strings.Join(probs, "\n  "), cd)
			return false
		}
		if okGov > 0 {
			c.Nontrivial(fmt.Sprintf("%s|%d|%v", name, no, cd.Txs))
			if si == 0 {
				c.Sample(cd)
			}
		}
		return true
	}
	// phase 1: first lock period
	for i := 0; i < c.Pick(14, 40); i++ {
		if !step(-1) {
			return
		}
	}
	// pick an account with a stake and walk to its lock boundary
	target := -1
	for a, m := range model {
		if m.hasStake && m.staked.Sign() > 0 {
			target = a
		}
	}
	if target >= 0 {
		goal := model[target].when + lockPeriod - 2
		if h := height(); goal > h {
			if e, err := n.ProduceEmpty(int(goal - h)); err != nil || e != "" {
				c.Inconclusive(fmt.Sprintf("%s: fast-forward failed: %v %s", name, err, e))
				return
			}
		}
		c.Count("fast_forwarded_blocks", int(lockPeriod))
		// blocks at boundary-1, boundary, boundary+1 ... with the target account acting first
		for i := 0; i < 4; i++ {
			if !step(target) {
				return
			}
		}
	}
	// phase 2: after the lock period everything may move again
	phase2 = true
	for round := 0; round < c.Pick(2, 4); round++ {
		for i := 0; i < c.Pick(10, 30); i++ {
			if !step(-1) {
				return
			}
		}
		// another lock period passes
		if e, err := n.ProduceEmpty(lockPeriod + 1); err != nil || e != "" {
			c.Inconclusive(fmt.Sprintf("%s: fast-forward failed: %v %s", name, err, e))
			return
		}
		c.Count("fast_forwarded_blocks", int(lockPeriod))
	}
	for i := 0; i < c.Pick(8, 20); i++ {
		if !step(-1) {
			return
		}
	}
	// I5: voting-power ranking equal before and after restart
	seeds := make([]int64, 256)
	for i := range seeds {
		seeds[i] = r.Int63()
	}
	w1, _ := n.PickWinners(seeds)
	sv1, _ := n.SysValues()
	n.Close()
	n2, _, err := w.Node("n", nil)
	if err != nil {
		c.Violation("restart-failed", name+": "+err.Error(), nil)
		return
	}
	w2, _ := n2.PickWinners(seeds)
	sv2, _ := n2.SysValues()
	c.Eval(1)
	if fmt.Sprint(w1) != fmt.Sprint(w2) || sv1.TotalVP != sv2.TotalVP {
		diff := 0
		for i := range w1 {
			if i < len(w2) && w1[i] != w2[i] {
				diff++
			}
		}
		key := "vpr-differs-after-restart"
		if forkAt > 1 && si%8 != 3 {
			// histories that cross the V2 hardfork AND contain votes on other issues afterwards
			key += "/pre-v2-vote-and-later-vote-on-another-issue"
		}
		c.Violation(key, fmt.Sprintf("%s: in-memory voting-power ranking before restart (total %s) and the one rebuilt from persisted state (total %s) pick different reward winners for %d of %d seeds", name, sv1.TotalVP, sv2.TotalVP, diff, len(seeds)), map[string]interface{}{"scenario": name})
		return
	}
	distinct := map[string]bool{}
	for _, x := range w1 {
		distinct[x] = true
	}
	c.Count("vpr_distinct_winners", len(distinct))
	c.Count("vpr_restart_equal", 1)
	n = n2
	if probs := invariants(c, w, n, NA, model, nameOwner); len(probs) > 0 {
		c.Violation("invariant-after-restart/"+norm(probs[0]), name+": "+strings.Join(probs, "\n  "), nil)
	}
}

func winnerOf(rsp *rig.ProduceRsp, addr []byte) bool { return bytes.Equal(rsp.Consensus, addr) }

func norm(s string) string {
	out := []byte(s)
	for i, ch := range out {
		if ch >= '0' && ch <= '9' {
			out[i] = '#'
		}
	}
	if len(out) > 80 {
		out = out[:80]
	}
	return string(out)
}

func invariants(c *vf.Ctx, w *rig.World, n *rig.Client, NA int, model []*acctModel, nameOwner map[string]int) []string {
	var probs []string
	sv, err := n.SysValues()
	if err != nil {
		return []string{"node died: " + err.Error()}
	}
	// I1
	sum := new(big.Int)
	stakes := make([]*big.Int, NA)
	for a := 0; a < NA; a++ {
		st, _ := n.GetStaking(w.Accts[a].Addr)
		v := new(big.Int)
		if st != nil && st.Err == "" {
			v.SetString(st.Amount, 10)
		}
		stakes[a] = v
		sum.Add(sum, v)
		if v.Cmp(model[a].staked) != 0 {
			probs = append(probs, fmt.Sprintf("stake of a%d is %s, the sequence of successful stake/unstake txs gives %s", a, v, model[a].staked))
		}
	}
	sysBal, _ := n.GetState([]byte(types.AergoSystem))
	if sv.StakingTotal != sum.String() {
		probs = append(probs, fmt.Sprintf("recorded total stake %s != sum of individual stakes %s", sv.StakingTotal, sum))
	}
	if sysBal != nil && sysBal.Balance != sum.String() {
		probs = append(probs, fmt.Sprintf("balance of the staking account %s != sum of stakes %s", sysBal.Balance, sum))
	}
	// I2/I3: tallies
	tally := map[string]map[string]*big.Int{} // issue -> candidate(hex) -> amount
	for a := 0; a < NA; a++ {
		av, _ := n.GetAccountVotes(w.Accts[a].Addr)
		if av == nil || av.Err != "" {
			continue
		}
		for _, v := range av.Votes {
			amt, _ := new(big.Int).SetString(v.Amount, 10)
			if amt == nil {
				amt = new(big.Int)
			}
			if amt.Cmp(stakes[a]) > 0 {
				probs = append(probs, fmt.Sprintf("a%d votes %s on %s with amount %s > its stake %s", a, v.Candidates, v.ID, amt, stakes[a]))
			}
			id := v.ID
			if tally[id] == nil {
				tally[id] = map[string]*big.Int{}
			}
			for _, cand := range v.Candidates {
				key := hex.EncodeToString([]byte(cand))
				if strings.EqualFold(id, "voteBP") {
					if b, err := base58.Decode(cand); err == nil {
						key = hex.EncodeToString(b)
					}
				}
				if tally[id][key] == nil {
					tally[id][key] = new(big.Int)
				}
				tally[id][key].Add(tally[id][key], amt)
			}
		}
	}
	for _, id := range []string{"voteBP", "GASPRICE", "STAKINGMIN", "NAMEPRICE", "BPCOUNT"} {
		el, err := n.GetElected(id, 100)
		if err != nil || el.Err != "" {
			continue
		}
		c.Count("tallies_checked", len(el.Votes))
		got := map[string]*big.Int{}
		var prev *big.Int
		var prevCand []byte
		for _, v := range el.Votes {
			amt, _ := new(big.Int).SetString(v.Amount, 10)
			got[v.Candidate] = amt
			cb, _ := hex.DecodeString(v.Candidate)
			if prev != nil {
				switch prev.Cmp(amt) {
				case -1:
					probs = append(probs, fmt.Sprintf("ranking of %s not in tally order: %s before %s", id, prev, amt))
				case 0:
					ka, kb := tieKey(prevCand), tieKey(cb)
					if ka.Cmp(kb) >= 0 {
						probs = append(probs, fmt.Sprintf("ranking of %s: tied candidates %x and %x not in the fixed tie-break order", id, prevCand, cb))
					}
				}
			}
			prev, prevCand = amt, cb
		}
		want := tally[id]
		if want == nil {
			for k, v := range tally {
				if strings.EqualFold(k, id) {
					want = v
				}
			}
		}
		for cand, amt := range want {
			g := got[cand]
			if g == nil {
				g = new(big.Int)
			}
			if g.Cmp(amt) != 0 {
				probs = append(probs, fmt.Sprintf("tally of candidate %s on %s is %s, the accounts currently voting for it sum to %s", cand, id, g, amt))
			}
		}
		for cand, g := range got {
			if g.Sign() != 0 && (want == nil || want[cand] == nil) {
				probs = append(probs, fmt.Sprintf("tally of candidate %s on %s is %s but no account currently votes for it", cand, id, g))
			}
		}
	}
	// I7 names
	for nm, owner := range nameOwner {
		ni, _ := n.GetNameInfo(nm)
		if ni == nil || ni.Err != "" || !bytes.Equal(ni.Owner, w.Accts[owner].Addr) {
			probs = append(probs, fmt.Sprintf("name %s: owner reported %x, expected a%d", nm, ni.Owner, owner))
		}
	}
	return probs
}

func tieKey(c []byte) *big.Int {
	if len(c) == 39 {
		return new(big.Int).SetBytes(c[7:])
	}
	return new(big.Int).SetBytes(c)
}

var _ = rand.Int
