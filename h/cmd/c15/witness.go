package main

import (
	"fmt"
	"math/big"

	"github.com/aergoio/aergo/v2/types"

	"verif/h/rig"
	"verif/h/vf"
)

// witness replays, in its smallest form, the history behind the known finding
// "vpr-differs-after-restart/pre-v2-vote-and-later-vote-on-another-issue": one account stakes and votes for a
// producer before the V2 hardfork (height 12), votes on a system parameter after it, unstakes a part once the lock
// period is over and the rest one period later. The in-memory voting-power ranking must then equal the one a restarted node rebuilds.
// On the unchanged tree it does not; the violation key is the one listed in known_findings.json, so the run prints
// KNOWN-FINDING. If the defect is repaired the scenario is silent; any other outcome is reported under its own key.
func witness(c *vf.Ctx) {
	name := "govw"
	hf := map[string]uint64{"V2": 12, "V3": 12, "V4": 1 << 40, "V5": 1 << 40}
	w := rig.NewWorld(name, c.Scratch(), rig.WorldOpts{Public: true, NAccts: 4, Mempool: "recorder", HF: hf, Balance: new(big.Int).Mul(big.NewInt(6000000), rig.Aergo).String()})
	defer w.CloseAll()
	n, _, err := w.Node("n", nil)
	if err != nil {
		c.Inconclusive("witness: start: " + err.Error())
		return
	}
	gp := big.NewInt(50000000000)
	a := w.Accts[0]
	nonce := uint64(0)
	height := func() uint64 { b, _ := n.Best(); return b.No }
	gov := func(amount *big.Int, payload []byte) bool {
		nonce++
		tx := rig.TxSpec{Type: types.TxType_GOVERNANCE, From: a, To: []byte(types.AergoSystem), Nonce: nonce, Amount: amount, Payload: payload, GasPrice: gp, ChainID: w.CIDHash(height() + 1)}.Build()
		rsp, err := n.Produce(&rig.ProduceReq{Txs: [][]byte{rig.EncTx(tx)}, Connect: true, Confirms: -1, SignKey: 0})
		c.Eval(1)
		if err != nil || rsp.Panic != "" || rsp.GenErr != "" || rsp.AddErr != "" {
			c.Inconclusive(fmt.Sprintf("witness: production failed: %v", err))
			return false
		}
		if len(rsp.Included) != 1 || rsp.Receipts[0].Status != "SUCCESS" {
			c.Inconclusive(fmt.Sprintf("witness: step not executed at height %d: %v", height(), rsp.SkipErrs))
			return false
		}
		return true
	}
	stake := new(big.Int).Mul(big.NewInt(70000), rig.Aergo)
	if !gov(stake, rig.GovPayload("v1stake")) || !gov(big.NewInt(0), rig.GovPayload("v1voteBP", w.BPIDs[0])) {
		return
	}
	if e, err := n.ProduceEmpty(12); err != nil || e != "" { // past the hardfork height
		c.Inconclusive("witness: " + e)
		return
	}
	if !gov(big.NewInt(0), rig.GovPayload("v1voteDAO", "BPCOUNT", "3")) {
		return
	}
	if e, err := n.ProduceEmpty(86401); err != nil || e != "" { // past the lock period
		c.Inconclusive("witness: fast-forward failed: " + e)
		return
	}
	// a partial unstake first (shrinks both votes: the uncredited producer vote is subtracted as well), then,
	// another lock period later, the rest
	part := new(big.Int).Mul(big.NewInt(1185), rig.Aergo)
	if !gov(part, rig.GovPayload("v1unstake")) {
		return
	}
	if e, err := n.ProduceEmpty(86401); err != nil || e != "" {
		c.Inconclusive("witness: fast-forward failed: " + e)
		return
	}
	if !gov(new(big.Int).Sub(stake, part), rig.GovPayload("v1unstake")) {
		return
	}
	seeds := []int64{1, 2, 3, 5, 8, 13, 21, 34}
	w1, _ := n.PickWinners(seeds)
	sv1, _ := n.SysValues()
	n.Close()
	n2, _, err := w.Node("n", nil)
	if err != nil {
		c.Violation("restart-failed", "witness: "+err.Error(), nil)
		return
	}
	w2, _ := n2.PickWinners(seeds)
	sv2, _ := n2.SysValues()
	c.Eval(1)
	c.Count("witness_history_runs", 1)
	if fmt.Sprint(w1) != fmt.Sprint(w2) || sv1.TotalVP != sv2.TotalVP {
		c.Violation("vpr-differs-after-restart/pre-v2-vote-and-later-vote-on-another-issue",
			fmt.Sprintf("witness history (stake 70000 and producer vote before the V2 hardfork, parameter vote after it, partial unstake after the lock period, the rest one period later): in-memory voting-power total %s, total rebuilt from persisted state after a restart %s", sv1.TotalVP, sv2.TotalVP),
			map[string]interface{}{"scenario": "witness"})
		return
	}
	c.Count("witness_history_equal_after_restart", 1)
	c.Nontrivial("witness")
}
