package main

// Reflection-driven field enumeration, deep clone, semantic equality and single-field mutation.
// Everything here works on the exported fields of a message struct, so a field added to
// BlockHeader / TxBody / Tx / Receipt / Event later is enumerated and mutated automatically.

import (
	"bytes"
	"fmt"
	"math/big"
	"math/rand"
	"reflect"
	"strings"
)

func exportedFields(t reflect.Type) []reflect.StructField {
	var out []reflect.StructField
	for i := 0; i < t.NumField(); i++ {
		f := t.Field(i)
		if f.PkgPath != "" || strings.HasPrefix(f.Name, "XXX_") {
			continue // protobuf internals: state, sizeCache, unknownFields, XXX_*
		}
		out = append(out, f)
	}
	return out
}

func fieldNames(t reflect.Type) []string {
	var out []string
	for _, f := range exportedFields(t) {
		out = append(out, f.Name)
	}
	return out
}

// cloneVal deep-copies exported state only (fresh protobuf internals).
func cloneVal(v reflect.Value) reflect.Value {
	switch v.Kind() {
	case reflect.Ptr:
		if v.IsNil() {
			return reflect.Zero(v.Type())
		}
		n := reflect.New(v.Type().Elem())
		copyInto(n.Elem(), v.Elem())
		return n
	case reflect.Slice:
		if v.IsNil() {
			return reflect.Zero(v.Type())
		}
		n := reflect.MakeSlice(v.Type(), v.Len(), v.Len())
		for i := 0; i < v.Len(); i++ {
			copyInto(n.Index(i), v.Index(i))
		}
		return n
	case reflect.Map:
		if v.IsNil() {
			return reflect.Zero(v.Type())
		}
		n := reflect.MakeMap(v.Type())
		for _, k := range v.MapKeys() {
			n.SetMapIndex(k, cloneVal(v.MapIndex(k)))
		}
		return n
	case reflect.Struct:
		n := reflect.New(v.Type()).Elem()
		copyInto(n, v)
		return n
	default:
		return v
	}
}

func copyInto(dst, src reflect.Value) {
	if src.Kind() == reflect.Struct {
		for i := 0; i < src.NumField(); i++ {
			if src.Type().Field(i).PkgPath != "" {
				continue
			}
			copyInto(dst.Field(i), src.Field(i))
		}
		return
	}
	dst.Set(cloneVal(src))
}

func clone[T any](p *T) *T {
	return cloneVal(reflect.ValueOf(p)).Interface().(*T)
}

// semEq: deep equality over exported fields where nil and empty slices/maps are the same value.
func semEq(a, b reflect.Value) bool {
	switch a.Kind() {
	case reflect.Ptr:
		if a.IsNil() || b.IsNil() {
			return a.IsNil() == b.IsNil()
		}
		return semEq(a.Elem(), b.Elem())
	case reflect.Slice:
		if a.Len() != b.Len() {
			return false
		}
		if a.Type().Elem().Kind() == reflect.Uint8 {
			return bytes.Equal(a.Bytes(), b.Bytes())
		}
		for i := 0; i < a.Len(); i++ {
			if !semEq(a.Index(i), b.Index(i)) {
				return false
			}
		}
		return true
	case reflect.Map:
		if a.Len() != b.Len() {
			return false
		}
		for _, k := range a.MapKeys() {
			bv := b.MapIndex(k)
			if !bv.IsValid() || !semEq(a.MapIndex(k), bv) {
				return false
			}
		}
		return true
	case reflect.Struct:
		for i := 0; i < a.NumField(); i++ {
			if a.Type().Field(i).PkgPath != "" {
				continue
			}
			if !semEq(a.Field(i), b.Field(i)) {
				return false
			}
		}
		return true
	case reflect.String:
		return a.String() == b.String()
	case reflect.Bool:
		return a.Bool() == b.Bool()
	case reflect.Int, reflect.Int8, reflect.Int16, reflect.Int32, reflect.Int64:
		return a.Int() == b.Int()
	case reflect.Uint, reflect.Uint8, reflect.Uint16, reflect.Uint32, reflect.Uint64:
		return a.Uint() == b.Uint()
	default:
		return reflect.DeepEqual(a.Interface(), b.Interface())
	}
}

// ---------------------------------------------------------------------------------------------
// field profiles (by "<Struct>.<Field>"): how to obtain a *semantically different* value

var numericBytes = map[string]bool{ // big-endian big integers: mutate to a different canonical number
	"TxBody.Amount": true, "TxBody.GasPrice": true,
	"Receipt.FeeUsed": true, "Receipt.CumulativeFeeUsed": true,
}

var validStatuses = []string{"SUCCESS", "CREATED", "ERROR", "RECREATED"}

func randBytes(r *rand.Rand, n int) []byte {
	b := make([]byte, n)
	r.Read(b)
	return b
}

func canonNum(r *rand.Rand) []byte {
	switch r.Intn(6) {
	case 0:
		return nil // zero
	case 1:
		return big.NewInt(int64(r.Intn(300))).Bytes()
	default:
		b := randBytes(r, 1+r.Intn(16))
		return new(big.Int).SetBytes(b).Bytes()
	}
}

func mutBytes(r *rand.Rand, b []byte) ([]byte, string) {
	if len(b) == 0 {
		return randBytes(r, 1+r.Intn(34)), "bytes/set-nonempty"
	}
	n := append([]byte(nil), b...)
	switch r.Intn(5) {
	case 0, 1:
		i := r.Intn(len(n))
		n[i] ^= 1 << uint(r.Intn(8))
		return n, "bytes/flipbit"
	case 2:
		return append(n, byte(r.Intn(256))), "bytes/append"
	case 3:
		return n[:len(n)-1], "bytes/truncate" // a 1-byte value becomes the empty value
	default:
		for {
			m := randBytes(r, len(n))
			if !bytes.Equal(m, n) {
				return m, "bytes/replace"
			}
		}
	}
}

func mutNumBytes(r *rand.Rand, b []byte) ([]byte, string) {
	old := new(big.Int).SetBytes(b)
	var nv *big.Int
	var cl string
	switch r.Intn(4) {
	case 0:
		nv, cl = new(big.Int).Add(old, big.NewInt(1)), "num/+1"
	case 1:
		if old.Sign() > 0 {
			nv, cl = new(big.Int).Sub(old, big.NewInt(1)), "num/-1"
		} else {
			nv, cl = big.NewInt(int64(1+r.Intn(1000))), "num/from-zero"
		}
	case 2:
		if old.Sign() > 0 {
			nv, cl = new(big.Int), "num/to-zero"
		} else {
			nv, cl = new(big.Int).SetBytes(randBytes(r, 1+r.Intn(12))), "num/from-zero"
			if nv.Sign() == 0 {
				nv = big.NewInt(7)
			}
		}
	default:
		for {
			nv, cl = new(big.Int).SetBytes(randBytes(r, 1+r.Intn(16))), "num/random"
			if nv.Cmp(old) != 0 {
				break
			}
		}
	}
	return nv.Bytes(), cl // canonical: no leading zero byte, zero is the empty string
}

func mutUint(r *rand.Rand, x uint64, bits int) (uint64, string) {
	mask := ^uint64(0)
	if bits < 64 {
		mask = (uint64(1) << uint(bits)) - 1
	}
	switch r.Intn(4) {
	case 0:
		return (x + 1) & mask, "int/+1"
	case 1:
		return x ^ (uint64(1) << uint(bits-1-r.Intn(bits/2))), "int/flip-highbit"
	case 2:
		return x ^ (uint64(1) << uint(r.Intn(bits))), "int/flipbit"
	default:
		for {
			n := r.Uint64() & mask
			if n != x {
				return n, "int/random"
			}
		}
	}
}

func mutString(r *rand.Rand, s string) (string, string) {
	if len(s) == 0 {
		return string(rune('a' + r.Intn(26))), "str/set-nonempty"
	}
	b := []byte(s)
	switch r.Intn(3) {
	case 0:
		return s + string(rune('a'+r.Intn(26))), "str/append"
	case 1:
		return s[:len(s)-1], "str/truncate"
	default:
		i := r.Intn(len(b))
		b[i] ^= 1 << uint(r.Intn(7))
		return string(b), "str/flipbit"
	}
}

// fillRandom fills every exported field of a struct with an arbitrary value (by kind).
func fillRandom(r *rand.Rand, v reflect.Value, owner string, noSlash bool) {
	switch v.Kind() {
	case reflect.Ptr:
		n := reflect.New(v.Type().Elem())
		fillRandom(r, n.Elem(), v.Type().Elem().Name(), noSlash)
		v.Set(n)
	case reflect.Struct:
		for _, f := range exportedFields(v.Type()) {
			fillRandom(r, v.FieldByIndex(f.Index), v.Type().Name()+"."+f.Name, noSlash)
		}
	case reflect.Slice:
		if v.Type().Elem().Kind() == reflect.Uint8 {
			if numericBytes[owner] {
				v.SetBytes(canonNum(r))
			} else {
				v.SetBytes(randBytes(r, r.Intn(40)))
			}
			return
		}
		n := r.Intn(4)
		s := reflect.MakeSlice(v.Type(), n, n)
		for i := 0; i < n; i++ {
			fillRandom(r, s.Index(i), owner, noSlash)
		}
		v.Set(s)
	case reflect.Map:
		m := reflect.MakeMap(v.Type())
		for i, n := 0, r.Intn(4); i < n; i++ {
			k := reflect.New(v.Type().Key()).Elem()
			e := reflect.New(v.Type().Elem()).Elem()
			fillRandom(r, k, owner, noSlash)
			fillRandom(r, e, owner, noSlash)
			m.SetMapIndex(k, e)
		}
		v.Set(m)
	case reflect.String:
		v.SetString(randString(r, r.Intn(20), noSlash))
	case reflect.Bool:
		v.SetBool(r.Intn(2) == 0)
	case reflect.Int, reflect.Int8, reflect.Int16, reflect.Int32, reflect.Int64:
		x := int64(r.Uint64())
		if r.Intn(3) == 0 {
			x = int64(r.Intn(5)) - 2
		}
		v.SetInt(x >> uint(64-v.Type().Bits()))
	case reflect.Uint, reflect.Uint8, reflect.Uint16, reflect.Uint32, reflect.Uint64:
		x := r.Uint64()
		if r.Intn(3) == 0 {
			x = uint64(r.Intn(3))
		}
		v.SetUint(x >> uint(64-v.Type().Bits()))
	}
}

func randString(r *rand.Rand, n int, noSlash bool) string {
	b := make([]byte, n)
	for i := range b {
		switch r.Intn(8) {
		case 0:
			b[i] = byte(r.Intn(256)) // arbitrary byte
		default:
			b[i] = byte(0x20 + r.Intn(0x5f))
		}
		if noSlash && b[i] == '/' {
			b[i] = '_'
		}
	}
	return string(b)
}

// ---------------------------------------------------------------------------------------------
// mutation targets

// A target is one way of changing exactly one field (possibly nested) of a message.
// apply returns the mutation class, or ok=false when it is not applicable to this value
// (e.g. dropping an element of an empty list). class "unsupported/<kind>" means the driver has no
// mutator for the field's Go kind (reported as inconclusive, never silently skipped).
type target struct {
	Path  string // "Timestamp", "Body.Nonce", "Events[+]", "Events[].JsonArgs"
	Leaf  string // name of the mutated leaf field ("" for structural operations)
	apply func(r *rand.Rand, root reflect.Value) (class string, ok bool)
}

// targetsOf enumerates the mutation targets of struct type t. nav maps the root value to the
// (addressable) struct value of type t.
func targetsOf(t reflect.Type, prefix string, nav func(r *rand.Rand, root reflect.Value) (reflect.Value, bool)) []target {
	var out []target
	for _, f0 := range exportedFields(t) {
		f := f0
		owner := t.Name() + "." + f.Name
		path := prefix + f.Name
		field := func(r *rand.Rand, root reflect.Value) (reflect.Value, bool) {
			s, ok := nav(r, root)
			if !ok {
				return reflect.Value{}, false
			}
			return s.FieldByIndex(f.Index), true
		}
		ft := f.Type
		switch {
		case ft.Kind() == reflect.Ptr && ft.Elem().Kind() == reflect.Struct:
			out = append(out, targetsOf(ft.Elem(), path+".", func(r *rand.Rand, root reflect.Value) (reflect.Value, bool) {
				p, ok := field(r, root)
				if !ok {
					return reflect.Value{}, false
				}
				if p.IsNil() {
					p.Set(reflect.New(ft.Elem()))
				}
				return p.Elem(), true
			})...)
		case ft.Kind() == reflect.Slice && ft.Elem().Kind() == reflect.Ptr && ft.Elem().Elem().Kind() == reflect.Struct:
			et := ft.Elem().Elem()
			out = append(out,
				target{Path: path + "[+]", apply: func(r *rand.Rand, root reflect.Value) (string, bool) {
					s, ok := field(r, root)
					if !ok {
						return "", false
					}
					e := reflect.New(et)
					fillRandom(r, e.Elem(), et.Name(), false)
					pos := r.Intn(s.Len() + 1)
					n := reflect.MakeSlice(ft, 0, s.Len()+1)
					n = reflect.AppendSlice(n, s.Slice(0, pos))
					n = reflect.Append(n, e)
					n = reflect.AppendSlice(n, s.Slice(pos, s.Len()))
					s.Set(n)
					return "list/insert", true
				}},
				target{Path: path + "[-]", apply: func(r *rand.Rand, root reflect.Value) (string, bool) {
					s, ok := field(r, root)
					if !ok || s.Len() == 0 {
						return "", false
					}
					pos := r.Intn(s.Len())
					n := reflect.MakeSlice(ft, 0, s.Len())
					n = reflect.AppendSlice(n, s.Slice(0, pos))
					n = reflect.AppendSlice(n, s.Slice(pos+1, s.Len()))
					s.Set(n)
					return "list/delete", true
				}},
				target{Path: path + "[swap]", apply: func(r *rand.Rand, root reflect.Value) (string, bool) {
					s, ok := field(r, root)
					if !ok || s.Len() < 2 {
						return "", false
					}
					i := r.Intn(s.Len())
					j := r.Intn(s.Len())
					if i == j || semEq(s.Index(i), s.Index(j)) {
						return "", false
					}
					a, b := s.Index(i).Interface(), s.Index(j).Interface()
					s.Index(i).Set(reflect.ValueOf(b))
					s.Index(j).Set(reflect.ValueOf(a))
					return "list/swap", true
				}},
			)
			out = append(out, targetsOf(et, path+"[].", func(r *rand.Rand, root reflect.Value) (reflect.Value, bool) {
				s, ok := field(r, root)
				if !ok || s.Len() == 0 {
					return reflect.Value{}, false
				}
				e := s.Index(r.Intn(s.Len()))
				if e.IsNil() {
					return reflect.Value{}, false
				}
				return e.Elem(), true
			})...)
		default:
			out = append(out, target{Path: path, Leaf: f.Name, apply: func(r *rand.Rand, root reflect.Value) (string, bool) {
				v, ok := field(r, root)
				if !ok {
					return "", false
				}
				return mutateLeaf(r, v, owner), true
			}})
		}
	}
	return out
}

func rootNav(r *rand.Rand, root reflect.Value) (reflect.Value, bool) { return root, true }

// msgTargets: targets of the message *T; apply expects reflect.ValueOf(ptr).Elem().
func msgTargets(t reflect.Type) []target { return targetsOf(t, "", rootNav) }

func mutateLeaf(r *rand.Rand, v reflect.Value, owner string) string {
	switch v.Kind() {
	case reflect.Slice:
		if v.Type().Elem().Kind() != reflect.Uint8 {
			return "unsupported/" + v.Type().String()
		}
		var nb []byte
		var cl string
		if numericBytes[owner] {
			nb, cl = mutNumBytes(r, v.Bytes())
		} else {
			nb, cl = mutBytes(r, v.Bytes())
		}
		v.SetBytes(nb)
		return cl
	case reflect.String:
		if owner == "Receipt.Status" {
			for {
				s := validStatuses[r.Intn(len(validStatuses))]
				if s != v.String() {
					v.SetString(s)
					return "status/other-valid"
				}
			}
		}
		s, cl := mutString(r, v.String())
		v.SetString(s)
		return cl
	case reflect.Bool:
		v.SetBool(!v.Bool())
		return "bool/flip"
	case reflect.Uint, reflect.Uint8, reflect.Uint16, reflect.Uint32, reflect.Uint64:
		n, cl := mutUint(r, v.Uint(), v.Type().Bits())
		v.SetUint(n)
		return cl
	case reflect.Int, reflect.Int8, reflect.Int16, reflect.Int32, reflect.Int64:
		bits := v.Type().Bits()
		n, cl := mutUint(r, uint64(v.Int())&((^uint64(0))>>uint(64-bits)), bits)
		// sign-extend back
		sv := int64(n<<uint(64-bits)) >> uint(64-bits)
		v.SetInt(sv)
		return cl
	default:
		return "unsupported/" + v.Type().String()
	}
}

func short(b []byte) string {
	if len(b) > 8 {
		return fmt.Sprintf("%x..(%d)", b[:8], len(b))
	}
	return fmt.Sprintf("%x", b)
}
