// C19: canonical, binding encodings of blocks, transactions, receipts, chain id; hardfork version.
//
// Reflection-driven metamorphic monitors over the real code in types, account/key, config and
// chain (ChainDB hardfork persistence): every exported field of BlockHeader / TxBody / Tx /
// Receipt / Event is enumerated at run time and mutated to a semantically different value; the
// oracles observe identifiers, signature verification, deterministic re-signing (signing digest),
// merkle roots, decode(encode(x)) and version(height) tables.
package main

import (
	"verif/h/rig"
	"bytes"
	"fmt"
	"math/rand"
	"os"
	"reflect"
	"runtime"
	"runtime/debug"
	"sort"
	"sync"

	"github.com/aergoio/aergo/v2/account/key"
	"github.com/aergoio/aergo/v2/types"
	"github.com/btcsuite/btcd/btcec/v2"
	"github.com/libp2p/go-libp2p/core/crypto"

	"verif/h/vf"
)

type rcase struct {
	Section string `json:"section"`
	Case    int    `json:"case"`
	Detail  string `json:"detail,omitempty"`
}

// acc batches evidence per case (one lock round trip per case instead of per evaluation).
type acc struct {
	c    *vf.Ctx
	sec  string
	idx  int
	cnt  map[string]int
	ev   int
	keys []string
}

func newAcc(c *vf.Ctx, sec string, idx int) *acc {
	return &acc{c: c, sec: sec, idx: idx, cnt: map[string]int{}}
}
func (a *acc) count(k string) { a.cnt[k]++ }
func (a *acc) nontrivial(k string) {
	a.keys = append(a.keys, fmt.Sprintf("%s/%d/%s", a.sec, a.idx, k))
}
func (a *acc) viol(key, desc string) {
	out.Violation(key, fmt.Sprintf("%s (section %s case %d)", desc, a.sec, a.idx), rcase{a.sec, a.idx, desc})
}
func (a *acc) flush() {
	for k, n := range a.cnt {
		out.Count(k, n)
	}
	out.Eval(a.ev)
	for _, k := range a.keys {
		out.Nontrivial(k)
	}
}

var unsupportedOnce sync.Map

func unsupported(c *vf.Ctx, where, class string) {
	if _, dup := unsupportedOnce.LoadOrStore(where+class, true); !dup {
		out.Inconclusive(fmt.Sprintf("no mutator for field %s (%s): extend the driver", where, class))
	}
}

func parallel(n int, f func(i int)) {
	w := runtime.GOMAXPROCS(0)
	if w > 16 {
		w = 16
	}
	ch := make(chan int, 256)
	var wg sync.WaitGroup
	for k := 0; k < w; k++ {
		wg.Add(1)
		go func() {
			defer wg.Done()
			for i := range ch {
				f(i)
			}
		}()
	}
	for i := 0; i < n; i++ {
		ch <- i
	}
	close(ch)
	wg.Wait()
}

// guard runs one case; a panic escaping the driver/real code outside an oracle that expects it
// makes the run inconclusive (never silently dropped, never a false alarm).
func guard(c *vf.Ctx, sec string, i int, f func()) {
	defer func() {
		if e := recover(); e != nil {
			out.Inconclusive(fmt.Sprintf("panic in section %s case %d: %v\n%s", sec, i, e, firstLines(string(debug.Stack()), 14)))
		}
	}()
	f()
}

func firstLines(s string, n int) string {
	k := 0
	for i := range s {
		if s[i] == '\n' {
			k++
			if k == n {
				return s[:i]
			}
		}
	}
	return s
}

// ---------------------------------------------------------------------------------------------
// A. block header: id, signature verification, signing digest

var hdrTargets = msgTargets(reflect.TypeOf(types.BlockHeader{}))

func blockID(h *types.BlockHeader) []byte { return (&types.Block{Header: h}).BlockHash() } // Hash unset => recomputed

func verifyHdr(h *types.BlockHeader) (ok bool) {
	defer func() {
		if recover() != nil {
			ok = false
		}
	}()
	v, err := (&types.Block{Header: h}).VerifySign()
	return v && err == nil
}

func resignHdr(h *types.BlockHeader, k crypto.PrivKey) []byte {
	b := &types.Block{Header: clone(h)}
	if err := b.Sign(k); err != nil {
		return nil
	}
	return b.Header.Sign
}

func caseBlock(c *vf.Ctx, i, K int) {
	r := c.Rand(fmt.Sprintf("blk/%d", i))
	a := newAcc(c, "blk", i)
	defer a.flush()
	h := genHeader(r)
	priv, other := genP2PKey(r), genP2PKey(r)
	if err := (&types.Block{Header: h}).Sign(priv); err != nil {
		out.Inconclusive("Block.Sign failed: " + err.Error())
		return
	}
	otherPub, _ := crypto.MarshalPublicKey(other.GetPublic())
	id0 := blockID(h)
	if !verifyHdr(h) {
		a.viol("blocksign/verify-untouched", "VerifySign rejects a block right after Block.Sign")
		return
	}
	a.ev++
	fp0 := resignHdr(h, priv)
	det := bytes.Equal(fp0, h.Sign) && fp0 != nil
	if !det {
		a.count("blk.sign_not_deterministic")
	}
	for _, t := range hdrTargets {
		for k := 0; k < K; k++ {
			m := clone(h)
			cl, ok := t.apply(r, reflect.ValueOf(m).Elem())
			if !ok {
				continue
			}
			if len(cl) > 11 && cl[:11] == "unsupported" {
				unsupported(c, "BlockHeader."+t.Path, cl)
				break
			}
			if t.Leaf == "PubKey" && k%2 == 1 {
				m.PubKey, cl = otherPub, "pubkey/other-valid-key"
			}
			if semEq(reflect.ValueOf(h), reflect.ValueOf(m)) {
				a.count("noop_mutation")
				continue
			}
			a.nontrivial(t.Path)
			a.count("blk.mut." + t.Path)
			a.count("class." + cl)
			// block id
			a.ev++
			if bytes.Equal(blockID(m), id0) {
				a.viol("blockid/BlockHeader."+t.Path, fmt.Sprintf("block id unchanged after changing header field %s (%s): id=%x", t.Path, cl, id0))
			}
			// signature verification
			a.ev++
			v := verifyHdr(m)
			if t.Leaf == "Sign" {
				if v {
					a.count("blk.sign_field_mutation_still_verifies")
				} else {
					a.count("blk.sign_field_mutation_rejected")
				}
			} else if v {
				a.viol("blocksign-verify/BlockHeader."+t.Path, fmt.Sprintf("block signature still verifies after changing header field %s (%s)", t.Path, cl))
			}
			// signing digest observed through deterministic re-signing with the same key
			if det && t.Leaf != "PubKey" {
				a.ev++
				fp1 := resignHdr(m, priv)
				if t.Leaf == "Sign" {
					if !bytes.Equal(fp1, fp0) {
						a.viol("blocksign-digest/sign-field-covered", "the signing digest of a block depends on the Sign field itself")
					}
				} else if bytes.Equal(fp1, fp0) {
					a.viol("blocksign-digest/BlockHeader."+t.Path, fmt.Sprintf("signing digest unchanged after changing header field %s (%s)", t.Path, cl))
				}
			}
		}
	}
	// observation only (two fields change, outside the single-field quantifier): the digest has no
	// length framing, so moving a byte across the boundary of two adjacent byte fields keeps id and signature
	if len(h.ChainID) > 4 {
		m := clone(h)
		m.PrevBlockHash = append([]byte{m.ChainID[len(m.ChainID)-1]}, m.PrevBlockHash...)
		m.ChainID = m.ChainID[:len(m.ChainID)-1]
		if bytes.Equal(blockID(m), id0) && verifyHdr(m) {
			a.count("blk.boundary_shift_chainid_prevhash_same_id_and_signature_valid")
		} else {
			a.count("blk.boundary_shift_chainid_prevhash_detected")
		}
	}
	if i < 2 {
		out.Sample(map[string]interface{}{"kind": "block", "id": vf.Hex(id0), "blockNo": h.BlockNo, "fields": len(hdrTargets)})
	}
}

// ---------------------------------------------------------------------------------------------
// B. transaction: id, signature verification, signing digest

var bodyTargets = msgTargets(reflect.TypeOf(types.TxBody{}))

func verifyTx(tx *types.Tx, addr []byte) (ok bool) {
	defer func() {
		if recover() != nil {
			ok = false
		}
	}()
	if addr == nil {
		return key.VerifyTx(tx) == nil
	}
	return key.VerifyTxWithAddress(tx, addr) == nil
}

func resignTx(b *types.TxBody, k *btcec.PrivateKey) []byte {
	tx := &types.Tx{Body: clone(b)}
	key.SignTx(tx, k)
	return tx.Body.Sign
}

func caseTx(c *vf.Ctx, i, K int) {
	r := c.Rand(fmt.Sprintf("tx/%d", i))
	a := newAcc(c, "tx", i)
	defer a.flush()
	k, other := genBtcKey(r), genBtcKey(r)
	body := genTxBody(r, k, r.Uint64())
	var addr []byte // nil: VerifyTx (account is the key); else VerifyTxWithAddress (account is a name)
	if i%3 == 2 {
		body.Account = []byte(randString(r, 12, true))
		addr = k.PubKey().SerializeCompressed()
	}
	tx := &types.Tx{Body: body}
	key.SignTx(tx, k)
	id0 := tx.CalculateTxHash()
	a.ev++
	if !bytes.Equal(id0, tx.Hash) {
		a.viol("txid/signtx-hash", "SignTx stored a Hash different from CalculateTxHash()")
	}
	if !verifyTx(tx, addr) {
		a.viol("txsign/verify-untouched", "VerifyTx rejects a transaction right after SignTx")
		return
	}
	fp0 := resignTx(body, k)
	det := bytes.Equal(fp0, body.Sign)
	if !det {
		a.count("tx.sign_not_deterministic")
	}
	for _, t := range bodyTargets {
		for kk := 0; kk < K; kk++ {
			m := clone(body)
			cl, ok := t.apply(r, reflect.ValueOf(m).Elem())
			if !ok {
				continue
			}
			if len(cl) > 11 && cl[:11] == "unsupported" {
				unsupported(c, "TxBody."+t.Path, cl)
				break
			}
			if t.Leaf == "Account" && addr == nil && kk%2 == 1 {
				m.Account, cl = other.PubKey().SerializeCompressed(), "account/other-valid-key"
			}
			if semEq(reflect.ValueOf(body), reflect.ValueOf(m)) {
				a.count("noop_mutation")
				continue
			}
			a.nontrivial(t.Path)
			a.count("tx.mut." + t.Path)
			a.count("class." + cl)
			mt := &types.Tx{Body: m}
			a.ev++
			if bytes.Equal(mt.CalculateTxHash(), id0) {
				a.viol("txid/TxBody."+t.Path, fmt.Sprintf("tx id unchanged after changing body field %s (%s): id=%x", t.Path, cl, id0))
			}
			a.ev++
			v := verifyTx(mt, addr)
			if t.Leaf == "Sign" {
				if v {
					a.count("tx.sign_field_mutation_still_verifies")
				} else {
					a.count("tx.sign_field_mutation_rejected")
				}
			} else if v {
				a.viol("txsign-verify/TxBody."+t.Path, fmt.Sprintf("tx signature still verifies after changing body field %s (%s)", t.Path, cl))
			}
			if det {
				a.ev++
				fp1 := resignTx(m, k)
				if t.Leaf == "Sign" {
					if !bytes.Equal(fp1, fp0) {
						a.viol("txsign-digest/sign-field-covered", "the signing digest of a tx depends on the Sign field itself")
					}
				} else if bytes.Equal(fp1, fp0) {
					a.viol("txsign-digest/TxBody."+t.Path, fmt.Sprintf("tx signing digest unchanged after changing body field %s (%s)", t.Path, cl))
				}
			}
		}
	}
	if len(body.Amount) >= 2 {
		// observation only: Amount||Payload are hashed and signed without framing
		m := clone(body)
		m.Payload = append([]byte{m.Amount[len(m.Amount)-1]}, m.Payload...)
		m.Amount = m.Amount[:len(m.Amount)-1]
		mt := &types.Tx{Body: m}
		if bytes.Equal(mt.CalculateTxHash(), id0) && verifyTx(mt, addr) {
			a.count("tx.boundary_shift_amount_payload_same_id_and_signature_valid")
		} else {
			a.count("tx.boundary_shift_amount_payload_detected")
		}
	}
	if i < 2 {
		out.Sample(map[string]interface{}{"kind": "tx", "id": vf.Hex(id0), "type": int32(body.Type), "fields": len(bodyTargets)})
	}
}

// ---------------------------------------------------------------------------------------------
// C. transaction root

var txTargets = msgTargets(reflect.TypeOf(types.Tx{}))

func genTxList(r *rand.Rand, n int) []*types.Tx {
	k := genBtcKey(r)
	out := make([]*types.Tx, n)
	for i := range out {
		tx := &types.Tx{Body: genTxBody(r, k, uint64(i+1))}
		tx.Body.Sign = randBytes(r, 70)
		tx.Hash = tx.CalculateTxHash()
		out[i] = tx
	}
	return out
}

func txLeaves(l []*types.Tx) [][]byte {
	out := make([][]byte, len(l))
	for i, t := range l {
		out[i] = t.Hash
	}
	return out
}

var dupMu sync.Mutex
var dupExample = map[string]map[string]interface{}{}

func noteDup(kind string, caseIdx, n int, root []byte) {
	dupMu.Lock()
	defer dupMu.Unlock()
	if cur, ok := dupExample[kind]; !ok || cur["case"].(int) > caseIdx { // lowest case index: deterministic evidence
		dupExample[kind] = map[string]interface{}{"case": caseIdx, "list_len": n, "root_of_list_and_of_list_plus_copy_of_last": vf.Hex(root)}
	}
}

func caseTxRoot(c *vf.Ctx, i, K int) {
	r := c.Rand(fmt.Sprintf("txroot/%d", i))
	a := newAcc(c, "txroot", i)
	defer a.flush()
	n := i % 21
	if i%7 == 6 {
		n = 21 + r.Intn(60)
	}
	list := genTxList(r, n)
	root0 := types.CalculateTxsRootHash(list)
	a.ev++
	if bytes.Equal(root0, modelMerkle(txLeaves(list))) {
		a.count("txroot.model_equal")
	} else {
		a.count("txroot.model_differs")
	}
	check := func(op string, l2 []*types.Tx) {
		a.ev++
		a.nontrivial(op)
		a.count("txroot.op." + op)
		if bytes.Equal(types.CalculateTxsRootHash(l2), root0) {
			a.viol("txroot/"+op, fmt.Sprintf("transaction root unchanged after %s on a list of %d distinct txs: root=%x", op, n, root0))
		}
	}
	if n > 0 {
		for _, t := range txTargets {
			for k := 0; k < K; k++ {
				idx := r.Intn(n)
				m := clone(list[idx])
				cl, ok := t.apply(r, reflect.ValueOf(m).Elem())
				if !ok {
					continue
				}
				if len(cl) > 11 && cl[:11] == "unsupported" {
					unsupported(c, "Tx."+t.Path, cl)
					break
				}
				if semEq(reflect.ValueOf(list[idx]), reflect.ValueOf(m)) {
					a.count("noop_mutation")
					continue
				}
				l2 := append([]*types.Tx(nil), list...)
				l2[idx] = m
				if t.Path != "Hash" {
					// a body change without a new id: the leaf is the stored id (observation only)
					if bytes.Equal(types.CalculateTxsRootHash(l2), root0) {
						a.count("txroot.stale_hash_leaf_unchanged")
					} else {
						a.count("txroot.stale_hash_leaf_changed")
					}
					m.Hash = m.CalculateTxHash()
				}
				a.count("class." + cl)
				check("mutate:"+t.Path, l2)
			}
		}
	}
	fresh := func() *types.Tx { return genTxList(r, 1)[0] }
	for k := 0; k < K; k++ {
		if n >= 2 {
			x, y := r.Intn(n), r.Intn(n)
			if x != y {
				l2 := append([]*types.Tx(nil), list...)
				l2[x], l2[y] = l2[y], l2[x]
				check("reorder", l2)
			}
		}
		{
			pos := r.Intn(n + 1)
			f := fresh()
			f.Body.Nonce = uint64(n + 1000 + k)
			f.Hash = f.CalculateTxHash()
			l2 := append(append(append([]*types.Tx(nil), list[:pos]...), f), list[pos:]...)
			check("insert", l2)
		}
		if n >= 1 {
			pos := r.Intn(n)
			l2 := append(append([]*types.Tx(nil), list[:pos]...), list[pos+1:]...)
			check("delete", l2)
		}
	}
	if n >= 1 {
		// duplication of the last element: observed and reported, see final report / evidence
		a.ev++
		l2 := append(append([]*types.Tx(nil), list...), list[n-1])
		if bytes.Equal(types.CalculateTxsRootHash(l2), root0) {
			a.count("txroot.duplicate_last_collides")
			noteDup("txroot", i, n, root0)
			a.viol("txroot/list-plus-copy-of-its-last-element-has-the-same-root", fmt.Sprintf("the transaction root of a list of %d txs equals the root of the same list with its last tx appended once more: %x", n, root0))
		} else {
			a.count("txroot.duplicate_last_differs")
		}
	}
}

// ---------------------------------------------------------------------------------------------

func main() {
	if len(os.Args) > 1 && os.Args[1] == "node" {
		rig.ChildMain() // node rig child of the restart scenario (restart.go)
		return
	}
	c := vf.Start("C19", "exploration")
	out = c
	if spec := os.Getenv(childEnv); spec != "" {
		childMain(c, spec) // never returns
	}

	fs := hfFields()
	c.Set("fields_enumerated", map[string][]string{
		"BlockHeader": fieldNames(reflect.TypeOf(types.BlockHeader{})),
		"TxBody":      fieldNames(reflect.TypeOf(types.TxBody{})),
		"Tx":          fieldNames(reflect.TypeOf(types.Tx{})),
		"Receipt":     fieldNames(reflect.TypeOf(types.Receipt{})),
		"Event":       fieldNames(reflect.TypeOf(types.Event{})),
		"ChainID":     fieldNames(reflect.TypeOf(types.ChainID{})),
		"Genesis":     fieldNames(reflect.TypeOf(types.Genesis{})),
	})
	var hfn []string
	for _, f := range fs {
		hfn = append(hfn, f.Name)
	}
	c.Set("hardfork_fields", hfn)

	K := c.Pick(4, 8)
	type section struct {
		name string
		n    int
		f    func(i int)
	}
	secs := []section{
		{"blk", c.Pick(1200, 15000), func(i int) { caseBlock(c, i, K) }},
		{"tx", c.Pick(1500, 18000), func(i int) { caseTx(c, i, K) }},
		{"txroot", c.Pick(1200, 12000), func(i int) { caseTxRoot(c, i, K) }},
		{"rcptroot", c.Pick(2400, 30000), func(i int) { caseRcptRoot(c, i, K) }},
		{"rcptrt", c.Pick(6000, 90000), nil}, // runs in address-space-limited child processes (sink.go)
		{"chainid", c.Pick(20000, 300000), func(i int) { caseChainID(c, i) }},
		{"genesis", c.Pick(3000, 40000), func(i int) { caseGenesis(c, i) }},
	}

	if c.ReplayPath != "" {
		var rc rcase
		if err := c.LoadReplay(&rc); err != nil {
			out.Inconclusive("cannot load replay: " + err.Error())
		} else {
			done := false
			for _, s := range secs {
				if s.name == rc.Section && s.f != nil {
					guard(c, s.name, rc.Case, func() { s.f(rc.Case) })
					done = true
				}
			}
			if rc.Section == "rcptrt" {
				runIsolated(c, 0, rc.Case)
				done = true
			}
			if rc.Section == "hardfork" {
				runHardfork(c)
				done = true
			}
			if !done {
				out.Inconclusive("unknown replay section " + rc.Section)
			}
		}
		c.Finish("replay of one case", 0)
	}

	for _, s := range secs {
		s := s
		if s.f == nil {
			runIsolated(c, s.n, -1)
			continue
		}
		parallel(s.n, func(i int) { guard(c, s.name, i, func() { s.f(i) }) })
	}
	guard(c, "hardfork", 0, func() { runHardfork(c) })
	guard(c, "restart", 0, func() { runNodeRestart(c) })

	dupMu.Lock()
	if len(dupExample) > 0 {
		c.Set("duplicate_last_collision_examples", dupExample)
	}
	dupMu.Unlock()
	optMu.Lock()
	keys := make([]string, 0, len(optObs))
	for k := range optObs {
		keys = append(keys, k)
	}
	sort.Strings(keys)
	opt := map[string][2]int{}
	for _, k := range keys {
		opt[k] = *optObs[k]
	}
	c.Set("fields_outside_the_version_table_[changed,unchanged]", opt)
	optMu.Unlock()

	c.Finish("single-field mutation of every reflected field of BlockHeader/TxBody/Tx/Receipt/Event changes id / breaks signature / changes signing digest (except Sign) / changes tx root and receipts root (per-version table); list reorder/insert/delete change the roots; receipts, chain id, genesis round-trip per version; Version(h) = max{k: Vk<=h}, monotone; CheckCompatibility accepts own persisted config and rejects a change of a passed fork; stable across ChainDB reopen",
		c.Pick(20000, 200000),
		"duplicate-last merkle collision is observed and reported, not flagged (see duplicate_last_collision_examples)",
		"byte-slice big-integer fields are mutated to a different canonical value only",
		"Receipt.Status is mutated among the four valid statuses only; Receipt.Ret is demanded only when status != ERROR",
		"chain-DB receipts path: ChainDB.getReceipts/writeReceiptsAndOperations are unexported; the driver replays their exact codec (encoding/gob over Receipts.MarshalBinary, SetHardFork before decode) through ChainDB.NewTx/Get with the real dbkey",
		"magic/consensus strings containing '/' are outside the round-trip demand (observed separately)",
	)
}
