package main

import (
	"bytes"
	"encoding/json"
	"fmt"
	"reflect"
	"strings"

	"github.com/aergoio/aergo/v2/chain"
	"github.com/aergoio/aergo/v2/config"
	"github.com/aergoio/aergo/v2/types"

	"verif/h/vf"
)

// ---------------------------------------------------------------------------------------------
// chain id codec

func safeRead(cid *types.ChainID, b []byte) (err error) {
	defer func() {
		if e := recover(); e != nil {
			err = fmt.Errorf("panic: %v", e)
		}
	}()
	return cid.Read(b)
}

func caseChainID(c *vf.Ctx, i int) {
	r := c.Rand(fmt.Sprintf("chainid/%d", i))
	a := newAcc(c, "chainid", i)
	defer a.flush()
	cid := genChainID(r, true)
	switch i % 5 {
	case 0:
		cid.Magic = ""
	case 1:
		cid.Consensus = ""
	case 2:
		cid.Version = int32(r.Intn(8))
	}
	b, err := cid.Bytes()
	if err != nil {
		a.viol("rt/chainid/marshal-error", "ChainID.Bytes failed: "+err.Error())
		return
	}
	a.nontrivial(fmt.Sprintf("%v/%v/%d/%d", cid.PublicNet, cid.MainNet, len(cid.Magic), len(cid.Consensus)))
	// read into a fresh and into a dirty (all other values) receiver
	fresh := types.NewChainID()
	dirty := genChainID(r, true)
	dirty.PublicNet, dirty.MainNet, dirty.Version = !cid.PublicNet, !cid.MainNet, ^cid.Version
	for di, dst := range []*types.ChainID{fresh, dirty} {
		name := []string{"fresh", "dirty"}[di]
		a.ev++
		if err := safeRead(dst, b); err != nil {
			a.viol("rt/chainid/read-error", fmt.Sprintf("ChainID.Read fails on ChainID.Bytes output of %s: %v", cid.ToJSON(), err))
			continue
		}
		if !semEq(reflect.ValueOf(cid), reflect.ValueOf(dst)) || !cid.Equals(dst) {
			// name the first differing field (stable key)
			fld := "?"
			v1, v2 := reflect.ValueOf(cid).Elem(), reflect.ValueOf(dst).Elem()
			for _, f := range exportedFields(v1.Type()) {
				if !semEq(v1.FieldByIndex(f.Index), v2.FieldByIndex(f.Index)) {
					fld = f.Name
					break
				}
			}
			a.viol("rt/chainid/field="+fld, fmt.Sprintf("chain id %s read back (%s receiver) as %s", cid.ToJSON(), name, dst.ToJSON()))
		}
	}
	// version prefix codec
	v := int32(r.Uint32())
	if i%2 == 0 {
		v = int32(r.Intn(8))
	}
	orig := append([]byte(nil), b...)
	mk := types.MakeChainId(b, v)
	a.ev += 3
	if got := types.DecodeChainIdVersion(mk); got != v {
		a.viol("rt/chainid/makechainid-version", fmt.Sprintf("DecodeChainIdVersion(MakeChainId(cid,%d)) = %d", v, got))
	}
	// the chain id a child's is derived from is the PARENT header's own slice: it must stay what it was
	// (otherwise the parent block in memory silently gets another version, another digest, a bad signature)
	if !bytes.Equal(b, orig) {
		a.viol("rt/chainid/makechainid-rewrites-its-input", fmt.Sprintf("MakeChainId(cid, %d) changed the chain id it was given: version prefix %x -> %x", v, orig[:4], b[:4]))
		copy(b, orig)
	} else if v != types.DecodeChainIdVersion(orig) && len(mk) > 0 {
		mk[0] ^= 0xff
		if !bytes.Equal(b, orig) {
			a.viol("rt/chainid/makechainid-result-aliases-input", "the slice returned by MakeChainId shares memory with its argument")
			copy(b, orig)
		}
		mk[0] ^= 0xff
	}
	if !types.ChainIdEqualWithoutVersion(mk, orig) || !bytes.Equal(mk[4:], orig[4:]) {
		a.viol("rt/chainid/makechainid-rest", "MakeChainId changed bytes other than the version prefix")
	}
	back := types.NewChainID()
	want := *cid
	want.Version = v
	if err := safeRead(back, mk); err != nil || !want.Equals(back) {
		a.viol("rt/chainid/makechainid-read", fmt.Sprintf("MakeChainId(%s, %d) reads back as %s (err %v)", cid.ToJSON(), v, back.ToJSON(), err))
	}
	// observation only: separator inside magic / consensus
	if i%50 == 0 {
		s := genChainID(r, true)
		s.Magic = s.Magic + "/" + randString(r, 3, true)
		sb, _ := s.Bytes()
		t := types.NewChainID()
		if err := safeRead(t, sb); err != nil || !s.Equals(t) {
			a.count("chainid.magic_with_slash_does_not_round_trip")
		} else {
			a.count("chainid.magic_with_slash_round_trips")
		}
	}
	if i < 2 {
		out.Sample(map[string]interface{}{"kind": "chainid", "cid": cid.ToJSON(), "bytes": vf.Hex(b)})
	}
}

// ---------------------------------------------------------------------------------------------
// genesis codec

func caseGenesis(c *vf.Ctx, i int) {
	r := c.Rand(fmt.Sprintf("genesis/%d", i))
	a := newAcc(c, "genesis", i)
	defer a.flush()
	g := &types.Genesis{}
	fillRandom(r, reflect.ValueOf(g).Elem(), "Genesis", true)
	if i%7 == 0 {
		g.BPs = nil
	}
	if i%5 == 0 {
		g.EnterpriseBPs = nil
	}
	if i%11 == 0 {
		g.Timestamp = 0
	}
	b := g.Bytes()
	a.ev++
	if b == nil {
		a.viol("rt/genesis/encode", "Genesis.Bytes returned nil")
		return
	}
	back := types.GetGenesisFromBytes(b)
	if back == nil {
		a.viol("rt/genesis/decode", "GetGenesisFromBytes(Genesis.Bytes()) returned nil")
		return
	}
	a.nontrivial(fmt.Sprintf("bps=%d/ebps=%d", len(g.BPs), len(g.EnterpriseBPs)))
	v1, v2 := reflect.ValueOf(g).Elem(), reflect.ValueOf(back).Elem()
	for _, f := range exportedFields(v1.Type()) {
		eq := semEq(v1.FieldByIndex(f.Index), v2.FieldByIndex(f.Index))
		if f.Name == "Balance" { // deliberately not stored ("Omit the Balance to reduce the resulting data size")
			noteOptional("genesis/Balance", !eq)
			continue
		}
		a.ev++
		if !eq {
			a.viol("rt/genesis/field="+f.Name, fmt.Sprintf("genesis field %s: wrote %s, read back %s", f.Name, show(v1.FieldByIndex(f.Index)), show(v2.FieldByIndex(f.Index))))
		}
	}
	// the genesis block carries the encoded chain id
	a.ev++
	cid := types.NewChainID()
	if err := safeRead(cid, back.Block().GetHeader().GetChainID()); err != nil || !cid.Equals(&g.ID) {
		a.viol("rt/genesis/block-chainid", fmt.Sprintf("chain id of the genesis block built from reloaded genesis data decodes to %s, wrote %s (err %v)", cid.ToJSON(), g.ID.ToJSON(), err))
	}
}

// ---------------------------------------------------------------------------------------------
// F. hardfork version function, compatibility check, persistence

func callIsFork(cfg *config.HardforkConfig, ver int32, h uint64) (bool, bool) {
	m := reflect.ValueOf(cfg).MethodByName(fmt.Sprintf("IsV%dFork", ver))
	if !m.IsValid() {
		return false, false
	}
	out := m.Call([]reflect.Value{reflect.ValueOf(h)})
	return out[0].Bool(), true
}

func runHardfork(c *vf.Ctx) {
	fs := hfFields()
	if len(fs) == 0 {
		out.Inconclusive("no Vk fields found in config.HardforkConfig")
		return
	}
	const large = uint64(1) << 62
	lattice := []uint64{0, 1, 5, 10, large}
	heights := []uint64{}
	for h := uint64(0); h <= 12; h++ {
		heights = append(heights, h)
	}
	heights = append(heights, large-1, large, large+1)
	if c.Thorough() {
		lattice = []uint64{0, 1, 2, 5, 9, 10, 11, large}
	}
	seqs := monotoneSeqs(lattice, len(fs))
	c.Set("hardfork_lattice", map[string]interface{}{"values": lattice, "monotone_configs": len(seqs), "heights": len(heights)})

	dir := c.Scratch() + "/hfdb"
	cdb := chain.NewChainDB()
	if err := cdb.Init("memorydb", dir, nil); err != nil {
		out.Inconclusive("ChainDB.Init: " + err.Error())
		return
	}
	persisted := make([]config.HardforkDbConfig, len(seqs))
	for si, hs := range seqs {
		a := newAcc(c, "hardfork", si)
		cfg := mkHF(fs, hs)
		key := fmt.Sprint(hs)
		// version function
		prev := int32(-1 << 30)
		for _, h := range heights {
			a.ev++
			got := cfg.Version(h)
			want := modelVersion(fs, hs, h)
			a.nontrivial(fmt.Sprintf("version/%s/%d", key, h))
			if want >= 2 && got != want || want < 2 && got >= 2 {
				a.viol("hardfork/version-model", fmt.Sprintf("config %v (fields %v): Version(%d) = %d, the largest k with Vk <= height is %d", hs, names(fs), h, got, want))
			}
			if got < prev {
				a.viol("hardfork/version-monotone", fmt.Sprintf("config %v: Version(%d) = %d after a lower height gave %d", hs, h, got, prev))
			}
			prev = got
			for fi, f := range fs {
				if is, ok := callIsFork(cfg, f.Ver, h); ok {
					a.ev++
					a.count("hardfork.isfork_checked")
					if is != (hs[fi] <= h) {
						a.viol("hardfork/isfork-model", fmt.Sprintf("config %v: IsV%dFork(%d) = %v", hs, f.Ver, h, is))
					}
				}
			}
		}
		// persisted form, through a close/reopen of the chain DB
		if err := cdb.WriteHardfork(cfg); err != nil {
			out.Inconclusive("WriteHardfork: " + err.Error())
			return
		}
		before := cdb.Hardfork(*cfg)
		cdb.Close()
		cdb = chain.NewChainDB()
		if err := cdb.Init("memorydb", dir, nil); err != nil {
			out.Inconclusive("ChainDB.Init (reopen): " + err.Error())
			return
		}
		db := cdb.Hardfork(*cfg)
		persisted[si] = db
		a.ev += 2
		a.count("hardfork.db_reopened")
		for fi, f := range fs {
			v, ok := db[f.Name]
			if !ok || v != hs[fi] || before[f.Name] != hs[fi] {
				a.viol("hardfork/persisted-form", fmt.Sprintf("config %v: height of %s read back from the chain DB as %d (present %v; before reopen %d)", hs, f.Name, v, ok, before[f.Name]))
			}
		}
		// a differently valued in-memory config must not influence what is read back for stored keys
		other := cdb.Hardfork(*mkHF(fs, seqs[(si+7)%len(seqs)]))
		for fi, f := range fs {
			if other[f.Name] != hs[fi] {
				a.viol("hardfork/persisted-form-overridden", fmt.Sprintf("config %v: stored height of %s read back as %d when the node config differs", hs, f.Name, other[f.Name]))
			}
		}
		// json form reload (what WriteHardfork stores) gives the same version table
		if raw, err := json.Marshal(cfg); err == nil {
			var re config.HardforkConfig
			if json.Unmarshal(raw, &re) == nil {
				for _, h := range heights {
					a.ev++
					if re.Version(h) != cfg.Version(h) {
						a.viol("hardfork/version-after-reload", fmt.Sprintf("config %v: Version(%d) differs after serialise/reload", hs, h))
					}
				}
			}
		}
		for _, h := range heights {
			a.ev++
			if err := cfg.CheckCompatibility(db, h); err != nil {
				a.viol("hardfork/compat-rejects-own", fmt.Sprintf("config %v rejected against its own persisted form at height %d: %v", hs, h, err))
			}
		}
		a.flush()
	}
	cdb.Close()

	// pairs: node config c2 against the chain's persisted config
	parallel(len(seqs), func(si int) {
		a := newAcc(c, "hardfork", si)
		defer a.flush()
		hs := seqs[si]
		db := persisted[si]
		for sj, hs2 := range seqs {
			if sj == si {
				continue
			}
			c2 := mkHF(fs, hs2)
			for _, h := range heights {
				changesPassed := false
				differsFutureOnly := true
				for fi := range fs {
					if hs[fi] != hs2[fi] {
						if hs[fi] <= h {
							changesPassed = true
						}
						if hs[fi] <= h || hs2[fi] <= h {
							differsFutureOnly = false
						}
					}
				}
				a.ev++
				// CheckCompatibility mutates nothing; db maps are read-only here
				err := c2.CheckCompatibility(db, h)
				switch {
				case changesPassed:
					a.count("hardfork.compat.changed_passed_fork")
					if err == nil {
						a.viol("hardfork/compat-accepts-changed-passed-fork", fmt.Sprintf("chain config %v, node config %v, height %d: a fork the chain already passed was changed and CheckCompatibility accepted it", hs, hs2, h))
					}
				case differsFutureOnly:
					if err == nil {
						a.count("hardfork.compat.future_only_change_accepted")
					} else {
						a.count("hardfork.compat.future_only_change_rejected")
					}
				default:
					if err == nil {
						a.count("hardfork.compat.node_fork_earlier_than_chain_accepted")
					} else {
						a.count("hardfork.compat.node_fork_earlier_than_chain_rejected")
					}
				}
			}
		}
		a.nontrivial("pairs/" + fmt.Sprint(hs))
	})
}

func names(fs []hfField) string {
	var s []string
	for _, f := range fs {
		s = append(s, f.Name)
	}
	return strings.Join(s, ",")
}
