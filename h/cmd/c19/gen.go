package main

import (
	"crypto/sha256"
	"math/rand"
	"reflect"

	"github.com/aergoio/aergo/v2/config"
	"github.com/aergoio/aergo/v2/types"
	"github.com/btcsuite/btcd/btcec/v2"
	"github.com/libp2p/go-libp2p/core/crypto"
)

var addrPrefix = []byte{0x02, 0x03, 0x0c, 0x80}

func genAddr(r *rand.Rand) []byte {
	a := randBytes(r, types.AddressLength)
	a[0] = addrPrefix[r.Intn(len(addrPrefix))]
	return a
}

func genHash(r *rand.Rand) []byte { return randBytes(r, 32) }

func genP2PKey(r *rand.Rand) crypto.PrivKey {
	for {
		k, err := crypto.UnmarshalSecp256k1PrivateKey(randBytes(r, 32))
		if err == nil {
			return k
		}
	}
}

func genBtcKey(r *rand.Rand) *btcec.PrivateKey {
	k, _ := btcec.PrivKeyFromBytes(randBytes(r, 32))
	return k
}

func genChainID(r *rand.Rand, noSlash bool) *types.ChainID {
	cid := &types.ChainID{}
	fillRandom(r, reflect.ValueOf(cid).Elem(), "ChainID", noSlash)
	return cid
}

// genHeader: an arbitrary header; PubKey and Sign are filled by Block.Sign.
func genHeader(r *rand.Rand) *types.BlockHeader {
	h := &types.BlockHeader{}
	// generic fill first (covers fields this generator does not know about), then shape known ones
	fillRandom(r, reflect.ValueOf(h).Elem(), "BlockHeader", false)
	if r.Intn(8) != 0 {
		b, _ := genChainID(r, true).Bytes()
		h.ChainID = b
	} else {
		h.ChainID = nil
	}
	h.PrevBlockHash = genHash(r)
	h.BlocksRootHash = genHash(r)
	h.TxsRootHash = genHash(r)
	h.ReceiptsRootHash = genHash(r)
	switch r.Intn(3) {
	case 0:
		h.BlockNo = uint64(r.Intn(1000))
	case 1:
		h.BlockNo = uint64(r.Int63n(1 << 40))
	}
	switch r.Intn(3) {
	case 0:
		h.Timestamp = 1_500_000_000_000_000_000 + r.Int63n(1<<58)
	case 1:
		h.Timestamp = int64(r.Intn(100000))
	}
	if r.Intn(2) == 0 {
		h.Confirms = uint64(r.Intn(30))
	}
	switch r.Intn(4) {
	case 0:
		h.CoinbaseAccount = nil
	default:
		h.CoinbaseAccount = genAddr(r)
	}
	if r.Intn(4) == 0 {
		h.Consensus = nil
	}
	return h
}

// genTx returns an unsigned tx whose Account is the compressed public key of k.
func genTxBody(r *rand.Rand, k *btcec.PrivateKey, nonce uint64) *types.TxBody {
	b := &types.TxBody{}
	fillRandom(r, reflect.ValueOf(b).Elem(), "TxBody", false)
	b.Nonce = nonce
	b.Account = k.PubKey().SerializeCompressed()
	switch r.Intn(4) {
	case 0:
		b.Recipient = nil
	case 1:
		b.Recipient = []byte("aergo.system")
	default:
		b.Recipient = genAddr(r)
	}
	b.Amount = canonNum(r)
	b.GasPrice = canonNum(r)
	b.Payload = randBytes(r, r.Intn(120))
	if r.Intn(4) == 0 {
		b.Payload = nil
	}
	b.Type = types.TxType(r.Intn(8))
	b.ChainIdHash = genHash(r)
	if r.Intn(10) == 0 {
		b.ChainIdHash = nil
	}
	b.Sign = nil
	return b
}

var retSamples = []string{``, `{}`, `"ok"`, `[1,2,3]`, `{"a":{"b":[true,null]}}`, `12345`, `"é\n"`}

func genEvent(r *rand.Rand, rc *types.Receipt, exec bool) *types.Event {
	ev := &types.Event{}
	if !exec {
		fillRandom(r, reflect.ValueOf(ev).Elem(), "Event", false) // incl. memory-only fields
	}
	switch r.Intn(4) {
	case 0, 1:
		ev.ContractAddress = append([]byte(nil), rc.ContractAddress...)
	case 2:
		// differs from the receipt's address in a single byte (never the first: 0 there is the
		// "same as receipt" marker of the store format and no real address starts with it)
		a := append([]byte(nil), rc.ContractAddress...)
		i := 1 + r.Intn(len(a)-1)
		a[i] ^= 1 << uint(r.Intn(8))
		ev.ContractAddress = a
	default:
		ev.ContractAddress = genAddr(r)
	}
	ev.EventName = randString(r, r.Intn(12), false)
	if r.Intn(2) == 0 {
		ev.JsonArgs = retSamples[r.Intn(len(retSamples))]
	} else {
		ev.JsonArgs = randString(r, r.Intn(40), false)
	}
	switch r.Intn(3) {
	case 0:
		ev.EventIdx = int32(r.Intn(5))
	case 1:
		ev.EventIdx = int32(r.Uint32())
	default:
		ev.EventIdx = 0
	}
	return ev
}

// genReceipt: exec=true gives the shape a receipt has when it is committed and stored (the
// memory-only event fields are unset); exec=false fills every field arbitrarily.
func genReceipt(r *rand.Rand, exec bool) *types.Receipt {
	rc := &types.Receipt{}
	if !exec {
		fillRandom(r, reflect.ValueOf(rc).Elem(), "Receipt", false)
	}
	rc.ContractAddress = genAddr(r)
	rc.Status = validStatuses[r.Intn(len(validStatuses))]
	if r.Intn(2) == 0 {
		rc.Ret = retSamples[r.Intn(len(retSamples))]
	} else {
		rc.Ret = randString(r, r.Intn(60), false)
	}
	rc.TxHash = genHash(r)
	rc.FeeUsed = canonNum(r)
	rc.CumulativeFeeUsed = canonNum(r)
	if r.Intn(2) == 0 {
		rc.Bloom = randBytes(r, types.BloomBitByte)
	} else {
		rc.Bloom = nil
	}
	n := 0
	if r.Intn(3) != 0 {
		n = r.Intn(5)
	}
	rc.Events = nil
	for i := 0; i < n; i++ {
		rc.Events = append(rc.Events, genEvent(r, rc, exec))
	}
	switch r.Intn(3) {
	case 0:
		rc.GasUsed = 0
	case 1:
		rc.GasUsed = uint64(r.Intn(1_000_000))
	default:
		rc.GasUsed = r.Uint64()
	}
	rc.FeeDelegation = r.Intn(2) == 0
	if exec {
		rc.From, rc.To = genAddr(r), genAddr(r)
	}
	return rc
}

// ---------------------------------------------------------------------------------------------
// hardfork configurations by reflection

type hfField struct {
	Name string
	Ver  int32
	Idx  int
}

func hfFields() []hfField {
	var out []hfField
	t := reflect.TypeOf(config.HardforkConfig{})
	for i := 0; i < t.NumField(); i++ {
		f := t.Field(i)
		var v int32
		if len(f.Name) < 2 || f.Name[0] != 'V' {
			continue
		}
		ok := true
		for _, ch := range f.Name[1:] {
			if ch < '0' || ch > '9' {
				ok = false
				break
			}
			v = v*10 + int32(ch-'0')
		}
		if ok && f.Type.Kind() == reflect.Uint64 {
			out = append(out, hfField{f.Name, v, i})
		}
	}
	return out
}

func mkHF(fs []hfField, heights []uint64) *config.HardforkConfig {
	c := &config.HardforkConfig{}
	v := reflect.ValueOf(c).Elem()
	for i, f := range fs {
		v.Field(f.Idx).SetUint(heights[i])
	}
	return c
}

// modelVersion: the max k with Vk <= h, or 0 if none.
func modelVersion(fs []hfField, heights []uint64, h uint64) int32 {
	var best int32
	for i, f := range fs {
		if heights[i] <= h && f.Ver > best {
			best = f.Ver
		}
	}
	return best
}

// monotone sequences of length n over the sorted lattice vals
func monotoneSeqs(vals []uint64, n int) [][]uint64 {
	var out [][]uint64
	cur := make([]uint64, n)
	var rec func(pos, from int)
	rec = func(pos, from int) {
		if pos == n {
			out = append(out, append([]uint64(nil), cur...))
			return
		}
		for i := from; i < len(vals); i++ {
			cur[pos] = vals[i]
			rec(pos+1, i)
		}
	}
	rec(0, 0)
	return out
}

// a version setting for receipts: a BlockVersionner + block number + the format the property's
// model expects there (v2 format iff model version >= 2)
type verSetting struct {
	Name    string
	BV      types.BlockVersionner
	BlockNo uint64
	Ver     int32
}

func verSettings(r *rand.Rand) []verSetting {
	fs := hfFields()
	maxVer := int32(1)
	for _, f := range fs {
		if f.Ver > maxVer {
			maxVer = f.Ver
		}
	}
	var out []verSetting
	for v := int32(0); v <= maxVer; v++ {
		out = append(out, verSetting{Name: "dummy-v" + itoa(int(v)), BV: types.DummyBlockVersionner(v), BlockNo: uint64(r.Intn(1000)), Ver: v})
	}
	// real configurations, block numbers at and around every fork height
	base := uint64(3 + r.Intn(50))
	hs := make([]uint64, len(fs))
	for i := range hs {
		hs[i] = base + uint64(i)*uint64(1+r.Intn(3))
	}
	cfg := mkHF(fs, hs)
	seen := map[uint64]bool{}
	for i := range fs {
		for _, d := range []int64{-1, 0, 1} {
			no := uint64(int64(hs[i]) + d)
			if seen[no] {
				continue
			}
			seen[no] = true
			out = append(out, verSetting{Name: "cfg@" + fs[i].Name + sgn(d), BV: cfg, BlockNo: no, Ver: modelVersion(fs, hs, no)})
		}
	}
	zero := make([]uint64, len(fs))
	out = append(out, verSetting{Name: "cfg-all-enabled", BV: mkHF(fs, zero), BlockNo: uint64(r.Intn(3)), Ver: modelVersion(fs, zero, 0)})
	return out
}

func sgn(d int64) string {
	switch {
	case d < 0:
		return "-1"
	case d > 0:
		return "+1"
	}
	return "+0"
}

func itoa(i int) string {
	if i == 0 {
		return "0"
	}
	neg := i < 0
	if neg {
		i = -i
	}
	var b []byte
	for i > 0 {
		b = append([]byte{byte('0' + i%10)}, b...)
		i /= 10
	}
	if neg {
		b = append([]byte{'-'}, b...)
	}
	return string(b)
}

func fmtName(ver int32) string {
	if ver >= 2 {
		return "v2"
	}
	return "legacy"
}

// independent merkle model (Bitcoin-style: pair up, duplicate an odd tail, a single leaf is the
// root, no leaf is 32 zero bytes) -- used for observation only, see main.go
func modelMerkle(leaves [][]byte) []byte {
	if len(leaves) == 0 {
		return make([]byte, 32)
	}
	cur := leaves
	for len(cur) > 1 {
		if len(cur)%2 == 1 {
			cur = append(append([][]byte(nil), cur...), cur[len(cur)-1])
		}
		var next [][]byte
		for i := 0; i < len(cur); i += 2 {
			h := sha256.New()
			h.Write(cur[i])
			h.Write(cur[i+1])
			next = append(next, h.Sum(nil))
		}
		cur = next
	}
	return cur[0]
}
