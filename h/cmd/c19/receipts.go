package main

import (
	"bytes"
	stdgob "encoding/gob"
	"fmt"
	"math/rand"
	"reflect"
	"strings"
	"sync"

	"github.com/aergoio/aergo/v2/chain"
	"github.com/aergoio/aergo/v2/types"
	"github.com/aergoio/aergo/v2/types/dbkey"
	"github.com/willf/bloom"

	"verif/h/vf"
)

// The per-version table of consensus-relevant receipt fields, fixed from the property text:
// status, contract address, tx hash, fee used, cumulative fee used, events, bloom, Ret when
// status != ERROR; plus gas used and the fee-delegation flag from V2.
// value = first format that must bind the field (1: legacy and v2, 2: v2 only).
var rcptTable = map[string]int{
	"ContractAddress": 1, "Status": 1, "Ret": 1, "TxHash": 1, "FeeUsed": 1, "CumulativeFeeUsed": 1,
	"Bloom": 1, "Events": 1, "GasUsed": 2, "FeeDelegation": 2,
}

// the content of an event (the remaining Event fields are placement info filled in on read)
var evTable = map[string]bool{"ContractAddress": true, "EventName": true, "JsonArgs": true, "EventIdx": true}

func fmtOf(ver int32) int {
	if ver >= 2 {
		return 2
	}
	return 1
}

// rcptRequired: must a change of the target at path change the receipts root under version ver?
func rcptRequired(path string, ver int32, base *types.Receipt) bool {
	if strings.HasPrefix(path, "Events[") {
		if strings.HasPrefix(path, "Events[].") {
			return evTable[path[len("Events[]."):]]
		}
		return true // insert / delete / swap of events
	}
	min, ok := rcptTable[path]
	if !ok || fmtOf(ver) < min {
		return false
	}
	if path == "Ret" && base.Status == "ERROR" {
		return false
	}
	return true
}

var rcptTargets = msgTargets(reflect.TypeOf(types.Receipt{}))

var optMu sync.Mutex
var optObs = map[string]*[2]int{}

func noteOptional(key string, changed bool) {
	optMu.Lock()
	p := optObs[key]
	if p == nil {
		p = &[2]int{}
		optObs[key] = p
	}
	if changed {
		p[0]++
	} else {
		p[1]++
	}
	optMu.Unlock()
}

type bloomState struct {
	present bool
	items   [][]byte
}

func (b bloomState) filter() *bloom.BloomFilter {
	bf := bloom.New(types.BloomBitBits, types.BloomHashKNum)
	for _, it := range b.items {
		bf.Add(it)
	}
	return bf
}

func mkReceipts(list []*types.Receipt, b bloomState, vs verSetting) *types.Receipts {
	rs := &types.Receipts{}
	rs.Set(list)
	rs.SetHardFork(vs.BV, vs.BlockNo)
	if b.present {
		rs.MergeBloom(b.filter())
	}
	return rs
}

func genBloomState(r *rand.Rand) bloomState {
	var b bloomState
	if r.Intn(2) == 0 {
		b.present = true
		for i, n := 0, r.Intn(5); i < n; i++ {
			b.items = append(b.items, randBytes(r, 1+r.Intn(33)))
		}
	}
	return b
}

func genReceiptList(r *rand.Rand, n int, exec bool) []*types.Receipt {
	l := make([]*types.Receipt, n)
	for i := range l {
		l[i] = genReceipt(r, exec)
	}
	return l
}

// ---------------------------------------------------------------------------------------------
// D. receipts root under every version

func caseRcptRoot(c *vf.Ctx, i, K int) {
	r := c.Rand(fmt.Sprintf("rcptroot/%d", i))
	a := newAcc(c, "rcptroot", i)
	defer a.flush()
	settings := verSettings(r)
	vs := settings[i%len(settings)]
	fm := fmtName(vs.Ver)
	n := (i / len(settings)) % 10
	list := genReceiptList(r, n, i%2 == 0)
	bs := genBloomState(r)
	root0 := mkReceipts(list, bs, vs).MerkleRoot()
	a.count("rcptroot.setting." + vs.Name)
	a.count(fmt.Sprintf("rcptroot.version.%d", vs.Ver))

	check := func(op string, required bool, l2 []*types.Receipt, b2 bloomState, detail string) {
		a.ev++
		changed := !bytes.Equal(mkReceipts(l2, b2, vs).MerkleRoot(), root0)
		if required {
			a.nontrivial(fm + "/" + op)
			a.count("rcptroot.required." + fm + "." + op)
			if !changed {
				a.viol("rcptroot/"+fm+"/"+op, fmt.Sprintf("receipts root unchanged under version %d (%s, blockNo %d) after %s %s: root=%x", vs.Ver, vs.Name, vs.BlockNo, op, detail, root0))
			}
		} else {
			noteOptional("root/"+fm+"/"+op, changed)
		}
	}

	if n > 0 {
		for _, t := range rcptTargets {
			for k := 0; k < K; k++ {
				idx := r.Intn(n)
				m := clone(list[idx])
				cl, ok := t.apply(r, reflect.ValueOf(m).Elem())
				if !ok {
					continue
				}
				if strings.HasPrefix(cl, "unsupported") {
					unsupported(c, "Receipt."+t.Path, cl)
					break
				}
				if semEq(reflect.ValueOf(list[idx]), reflect.ValueOf(m)) {
					a.count("noop_mutation")
					continue
				}
				a.count("class." + cl)
				l2 := append([]*types.Receipt(nil), list...)
				l2[idx] = m
				check("mutate:"+t.Path, rcptRequired(t.Path, vs.Ver, list[idx]), l2, bs, "("+cl+", status "+list[idx].Status+")")
			}
		}
	}
	for k := 0; k < K; k++ {
		if n >= 2 {
			x, y := r.Intn(n), r.Intn(n)
			if x != y {
				l2 := append([]*types.Receipt(nil), list...)
				l2[x], l2[y] = l2[y], l2[x]
				check("reorder", true, l2, bs, "")
			}
		}
		if n >= 1 {
			pos := r.Intn(n)
			l2 := append(append([]*types.Receipt(nil), list[:pos]...), list[pos+1:]...)
			check("drop", true, l2, bs, "")
		}
		{
			pos := r.Intn(n + 1)
			l2 := append(append(append([]*types.Receipt(nil), list[:pos]...), genReceipt(r, true)), list[pos:]...)
			check("insert", true, l2, bs, "")
		}
	}
	// block-level bloom filter
	{
		b2 := bs
		b2.present = !bs.present
		b2.items = nil
		if bs.present || true {
			check("bloom-presence", true, list, b2, "")
		}
		if bs.present {
			b3 := bloomState{present: true, items: append(append([][]byte(nil), bs.items...), randBytes(r, 1+r.Intn(33)))}
			g0, _ := bs.filter().GobEncode()
			g1, _ := b3.filter().GobEncode()
			if !bytes.Equal(g0, g1) { // the new element really set a new bit
				check("bloom-add", true, list, b3, "")
			}
		}
	}
	if n >= 1 {
		a.ev++
		l2 := append(append([]*types.Receipt(nil), list...), list[n-1])
		if !bs.present && bytes.Equal(mkReceipts(l2, bs, vs).MerkleRoot(), root0) {
			a.count("rcptroot.duplicate_last_collides")
			noteDup("receipts-root", i, n, root0)
			a.viol("rcptroot/list-plus-copy-of-its-last-element-has-the-same-root", fmt.Sprintf("the receipts root of a list of %d receipts equals the root of the same list with its last receipt appended once more: %x", n, root0))
		} else {
			a.count("rcptroot.duplicate_last_differs_or_bloom_leaf_last")
		}
	}
}

// ---------------------------------------------------------------------------------------------
// E. receipts store round trip per version (MarshalBinary / UnmarshalBinary, gob path, chain DB)

type dbEntry struct {
	key   []byte
	val   []byte
	vs    verSetting
	root  []byte
	n     int
	caseI int
}

var dbMu sync.Mutex
var dbEntries []dbEntry

func safeUnmarshal(rs *types.Receipts, b []byte) (err error, panicked interface{}) {
	defer func() {
		if e := recover(); e != nil {
			panicked = e
		}
	}()
	return rs.UnmarshalBinary(b), nil
}

func safeGobDecode(rs *types.Receipts, b []byte) (err error, panicked interface{}) {
	defer func() {
		if e := recover(); e != nil {
			panicked = e
		}
	}()
	return stdgob.NewDecoder(bytes.NewBuffer(b)).Decode(rs), nil
}

// compareReceipts reports, for the stored-field table of format fm, the first difference.
func compareReceipts(a *acc, tag string, ver int32, want, got []*types.Receipt) {
	fm := fmtName(ver)
	if len(want) != len(got) {
		a.viol("rt/"+tag+"/"+fm+"/count", fmt.Sprintf("wrote %d receipts, read back %d", len(want), len(got)))
		return
	}
	rt := reflect.TypeOf(types.Receipt{})
	et := reflect.TypeOf(types.Event{})
	for i := range want {
		w, g := reflect.ValueOf(want[i]).Elem(), reflect.ValueOf(got[i]).Elem()
		for _, f := range exportedFields(rt) {
			min, tabled := rcptTable[f.Name]
			must := tabled && fmtOf(ver) >= min
			if f.Name == "Events" {
				if len(want[i].Events) != len(got[i].Events) {
					a.viol("rt/"+tag+"/"+fm+"/field=Events", fmt.Sprintf("receipt %d: wrote %d events, read back %d (cumulativeFeeUsed=%x bloom=%d bytes)", i, len(want[i].Events), len(got[i].Events), want[i].CumulativeFeeUsed, len(want[i].Bloom)))
					continue
				}
				for j := range want[i].Events {
					we, ge := reflect.ValueOf(want[i].Events[j]).Elem(), reflect.ValueOf(got[i].Events[j]).Elem()
					for _, ef := range exportedFields(et) {
						eq := semEq(we.FieldByIndex(ef.Index), ge.FieldByIndex(ef.Index))
						if evTable[ef.Name] {
							a.ev++
							if !eq {
								a.viol("rt/"+tag+"/"+fm+"/field=Events[]."+ef.Name, fmt.Sprintf("receipt %d event %d field %s: wrote %s, read back %s (receipt address %x, event address %x)", i, j, ef.Name, show(we.FieldByIndex(ef.Index)), show(ge.FieldByIndex(ef.Index)), want[i].ContractAddress, want[i].Events[j].ContractAddress))
							}
						} else {
							noteOptional("store/"+fm+"/Events[]."+ef.Name, !eq)
						}
					}
				}
				continue
			}
			eq := semEq(w.FieldByIndex(f.Index), g.FieldByIndex(f.Index))
			if must {
				a.ev++
				if !eq {
					a.viol("rt/"+tag+"/"+fm+"/field="+f.Name, fmt.Sprintf("receipt %d field %s under version %d: wrote %s, read back %s", i, f.Name, ver, show(w.FieldByIndex(f.Index)), show(g.FieldByIndex(f.Index))))
				}
			} else {
				noteOptional("store/"+fm+"/"+f.Name, !eq)
			}
		}
	}
}

func caseRcptRT(c *vf.Ctx, i int) {
	r := c.Rand(fmt.Sprintf("rcptrt/%d", i))
	a := newAcc(c, "rcptrt", i)
	defer a.flush()
	settings := verSettings(r)
	vs := settings[i%len(settings)]
	fm := fmtName(vs.Ver)
	n := (i / len(settings)) % 9
	list := genReceiptList(r, n, true)
	bs := genBloomState(r)
	rs := mkReceipts(list, bs, vs)
	root0 := rs.MerkleRoot()
	a.count("rt.setting." + vs.Name)
	shape := fmt.Sprintf("%s/n=%d/bloom=%v", vs.Name, n, bs.present)
	a.nontrivial(shape)

	b, err := rs.MarshalBinary()
	if err != nil {
		a.viol("rt/receipts/"+fm+"/marshal-error", "MarshalBinary failed on valid receipts: "+err.Error())
		return
	}
	back := &types.Receipts{}
	back.SetHardFork(vs.BV, vs.BlockNo)
	err, p := safeUnmarshal(back, b)
	a.ev++
	if p != nil || err != nil {
		a.viol("rt/receipts/"+fm+"/unmarshal-fails", fmt.Sprintf("UnmarshalBinary of MarshalBinary output fails under version %d (%s, blockNo %d, %d receipts): err=%v panic=%v", vs.Ver, vs.Name, vs.BlockNo, n, err, p))
		return
	}
	compareReceipts(a, "receipts", vs.Ver, list, back.Get())
	a.ev++
	if r1 := back.MerkleRoot(); !bytes.Equal(r1, root0) {
		a.viol("rt/receipts/"+fm+"/merkle-root-after-reload", fmt.Sprintf("receipts root %x before store, %x after reload (version %d, %s, blockNo %d, %d receipts, block bloom %v)", root0, r1, vs.Ver, vs.Name, vs.BlockNo, n, bs.present))
	}

	// the chain DB codec: gob over BinaryMarshaler, SetHardFork before decoding (chaindb.go)
	var buf bytes.Buffer
	if err := stdgob.NewEncoder(&buf).Encode(rs); err != nil {
		a.viol("rt/receipts-gob/"+fm+"/encode-error", "gob encoding of Receipts failed: "+err.Error())
		return
	}
	back2 := &types.Receipts{}
	back2.SetHardFork(vs.BV, vs.BlockNo)
	err, p = safeGobDecode(back2, buf.Bytes())
	a.ev++
	if p != nil || err != nil {
		a.viol("rt/receipts-gob/"+fm+"/decode-fails", fmt.Sprintf("gob decode of stored receipts fails: err=%v panic=%v", err, p))
		return
	}
	compareReceipts(a, "receipts-gob", vs.Ver, list, back2.Get())
	a.ev++
	if r2 := back2.MerkleRoot(); !bytes.Equal(r2, root0) {
		a.viol("rt/receipts-gob/"+fm+"/merkle-root-after-reload", fmt.Sprintf("receipts root %x before store, %x after gob reload (version %d)", root0, r2, vs.Ver))
	}
	if i%16 == 0 && n > 0 {
		bh := genHash(r)
		dbMu.Lock()
		if len(dbEntries) < 4000 {
			dbEntries = append(dbEntries, dbEntry{key: dbkey.Receipts(bh, vs.BlockNo), val: buf.Bytes(), vs: vs, root: root0, n: n, caseI: i})
		}
		dbMu.Unlock()
	}
	if i < 3 {
		out.Sample(map[string]interface{}{"kind": "receipts-roundtrip", "setting": vs.Name, "version": vs.Ver, "receipts": n, "stored_bytes": len(b), "root": vf.Hex(root0)})
	}
}

// runReceiptsDB pushes stored receipts through a real ChainDB (NewTx/Set/Commit, Get), closes
// and reopens the database and decodes them the way ChainDB.getReceipts does.
func runReceiptsDB(c *vf.Ctx) {
	dbMu.Lock()
	entries := dbEntries
	dbMu.Unlock()
	if len(entries) == 0 {
		return
	}
	dir := c.Scratch() + "/rcptdb"
	cdb := chain.NewChainDB()
	if err := cdb.Init("memorydb", dir, nil); err != nil {
		out.Inconclusive("ChainDB.Init: " + err.Error())
		return
	}
	for lo := 0; lo < len(entries); lo += 50 {
		tx := cdb.NewTx()
		for _, e := range entries[lo:min(lo+50, len(entries))] {
			tx.Set(e.key, e.val)
		}
		tx.Commit()
	}
	cdb.Close()
	cdb = chain.NewChainDB()
	if err := cdb.Init("memorydb", dir, nil); err != nil {
		out.Inconclusive("ChainDB.Init (reopen): " + err.Error())
		return
	}
	defer cdb.Close()
	for _, e := range entries {
		a := newAcc(c, "rcptrt", e.caseI)
		data := cdb.Get(e.key)
		back := &types.Receipts{}
		back.SetHardFork(e.vs.BV, e.vs.BlockNo)
		err, p := safeGobDecode(back, data)
		a.ev++
		a.count("rt.chaindb_entries_reloaded")
		if err != nil || p != nil || len(back.Get()) != e.n || !bytes.Equal(back.MerkleRoot(), e.root) {
			a.viol("rt/receipts-chaindb/"+fmtName(e.vs.Ver), fmt.Sprintf("receipts written to the chain DB do not read back after reopen: err=%v panic=%v n=%d/%d", err, p, len(back.Get()), e.n))
		}
		a.flush()
	}
}
