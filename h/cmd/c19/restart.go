package main

import (
	"fmt"

	"github.com/aergoio/aergo/v2/types"

	"verif/h/rig"
	"verif/h/vf"
)

// runNodeRestart drives the hardfork-height bookkeeping of the unmodified ChainService across
// restarts: the version assigned to a height must be stable across restarts, a legitimate change of
// a FUTURE fork height must be recorded, and a configuration that changes a fork already passed
// must be refused at start-up.
func runNodeRestart(c *vf.Ctx) {
	r := c.Rand("restart")
	for k := 0; k < c.Pick(2, 8); k++ {
		a := uint64(16 + r.Intn(8)) // original V5 height
		b := uint64(6 + r.Intn(5))  // moved earlier while still in the future
		h1 := uint64(2 + r.Intn(int(b)-3))
		h2 := b + 1 + uint64(r.Intn(3))
		restartScenario(c, k, a, b, h1, h2)
	}
}

func restartScenario(c *vf.Ctx, k int, a, b, h1, h2 uint64) {
	name := fmt.Sprintf("rst%d", k)
	hf := func(v5 uint64) map[string]uint64 { return map[string]uint64{"V2": 1, "V3": 2, "V4": 3, "V5": v5} }
	w := rig.NewWorld(name, c.Scratch(), rig.WorldOpts{Public: false, NAccts: 3, Mempool: "recorder", HF: hf(a)})
	defer w.CloseAll()
	cd := map[string]interface{}{"scenario": name, "v5_first": a, "v5_second": b, "height_at_first_restart": h1, "height_at_second_restart": h2}
	fail := func(key, msg string) { c.Violation("restart/"+key, fmt.Sprintf("%s (V5 %d -> %d at height %d, then back to %d at height %d): %s", name, a, b, h1, a, h2, msg), cd) }
	open := func(v5 uint64) (*rig.Client, error) {
		n, _, err := w.Node("n", func(cfg *rig.NodeConfig) { cfg.Hardfork = hf(v5) })
		return n, err
	}
	grow := func(n *rig.Client, to uint64) bool {
		for {
			bi, err := n.Best()
			if err != nil {
				c.Inconclusive(name + ": " + err.Error())
				return false
			}
			if bi.No >= to {
				return true
			}
			rsp, err := n.Produce(&rig.ProduceReq{Connect: true, Confirms: -1, SignKey: 0})
			if err != nil || rsp.Panic != "" || rsp.GenErr != "" || rsp.AddErr != "" {
				c.Inconclusive(fmt.Sprintf("%s: produce failed: %v", name, err))
				return false
			}
		}
	}
	versions := func(n *rig.Client, to uint64) []int32 {
		var out []int32
		for no := uint64(0); no <= to; no++ {
			bb, err := n.GetBlockByNo(no)
			if err != nil {
				return nil
			}
			out = append(out, types.DecodeChainIdVersion(rig.DecBlock(bb).GetHeader().GetChainID()))
		}
		return out
	}
	c.Eval(1)
	n, err := open(a)
	if err != nil {
		c.Inconclusive(name + ": first start: " + err.Error())
		return
	}
	if !grow(n, h1) {
		return
	}
	n.Close()
	// second run: V5 moved to b > best: legitimate
	n, err = open(b)
	if err != nil {
		fail("future-fork-change-refused", "changing the height of a fork that is still in the future was refused: "+shortS(err.Error()))
		return
	}
	if !grow(n, h2) {
		return
	}
	v2 := versions(n, h2)
	n.Close()
	for no := uint64(0); no <= h2; no++ {
		want := int32(0)
		for i, hgt := range []uint64{1, 2, 3, b} {
			if no >= hgt {
				want = int32(i + 2)
			}
		}
		if v2 == nil || v2[no] != want {
			fail("version-of-height-wrong", fmt.Sprintf("block %d carries version %v, configuration says %d", no, v2, want))
			return
		}
	}
	c.Nontrivial(fmt.Sprintf("%s|second-run|%d|%d", name, b, h2))
	// third run with the same configuration: versions unchanged
	n, err = open(b)
	if err != nil {
		fail("same-config-refused", "restart with the unchanged configuration refused: "+shortS(err.Error()))
		return
	}
	v3 := versions(n, h2)
	n.Close()
	if fmt.Sprint(v3) != fmt.Sprint(v2) {
		fail("version-changed-across-restart", fmt.Sprintf("versions of blocks 0..%d were %v, after restart %v", h2, v2, v3))
		return
	}
	// fourth run: back to the original height a although fork b has been passed: must be refused
	n, err = open(a)
	c.Eval(1)
	if err == nil {
		v4 := versions(n, h2)
		n.Close()
		fail("passed-fork-changed-accepted", fmt.Sprintf("the node started with V5=%d although the chain (height %d) already passed the recorded V5 height %d; versions of existing blocks before %v, now %v", a, h2, b, v2, v4))
		return
	}
	c.Count("restart_passed_fork_change_refused", 1)
	c.Nontrivial(fmt.Sprintf("%s|refused|%d|%d", name, a, h2))
	// and the node still starts with the right configuration
	n, err = open(b)
	if err != nil {
		fail("right-config-refused-after-wrong-attempt", shortS(err.Error()))
		return
	}
	n.Close()
	c.Count("restart_scenarios", 1)
}

func shortS(s string) string {
	if len(s) > 500 {
		return s[len(s)-500:]
	}
	return s
}
