package main

// Reporting sink and child-process isolation.
//
// The receipts store decoder (Receipts.UnmarshalBinary) reads element counts from the stored
// bytes; a decoder that mis-parses its own encoder's output can ask for tens of gigabytes in one
// make(). To keep the verdict well-defined on such a tree, the round-trip section runs in child
// processes of this binary with an address-space limit; a child that dies while decoding case i
// is itself the observation "what was written cannot be read back" for case i.

import (
	"bufio"
	"encoding/json"
	"fmt"
	"os"
	"os/exec"
	"path/filepath"
	"reflect"
	"runtime"
	"strconv"
	"strings"
	"sync"
	"syscall"

	"verif/h/vf"
)

type sink interface {
	Count(name string, n int)
	Eval(n int)
	Nontrivial(key string)
	Violation(key, desc string, replay interface{})
	Inconclusive(why string)
	Sample(v interface{})
}

var out sink

type childMsg struct {
	T       string            `json:"t"` // S start-case, V violation, I inconclusive, E end
	I       int               `json:"i,omitempty"`
	Key     string            `json:"key,omitempty"`
	Desc    string            `json:"desc,omitempty"`
	Case    *rcase            `json:"case,omitempty"`
	Counts  map[string]int    `json:"counts,omitempty"`
	Evals   int               `json:"evals,omitempty"`
	Keys    []string          `json:"keys,omitempty"`
	Opt     map[string][2]int `json:"opt,omitempty"`
	Samples []interface{}     `json:"samples,omitempty"`
}

type childSink struct {
	mu      sync.Mutex
	w       *bufio.Writer
	counts  map[string]int
	evals   int
	keys    []string
	samples []interface{}
}

func (s *childSink) emit(m childMsg) {
	b, _ := json.Marshal(m)
	s.w.Write(b)
	s.w.WriteByte('\n')
	s.w.Flush()
}
func (s *childSink) Count(name string, n int) { s.mu.Lock(); s.counts[name] += n; s.mu.Unlock() }
func (s *childSink) Eval(n int)               { s.mu.Lock(); s.evals += n; s.mu.Unlock() }
func (s *childSink) Nontrivial(k string)      { s.mu.Lock(); s.keys = append(s.keys, k); s.mu.Unlock() }
func (s *childSink) Sample(v interface{}) {
	s.mu.Lock()
	if len(s.samples) < 2 {
		s.samples = append(s.samples, v)
	}
	s.mu.Unlock()
}
func (s *childSink) Inconclusive(why string) {
	s.mu.Lock()
	defer s.mu.Unlock()
	s.emit(childMsg{T: "I", Desc: why})
}
func (s *childSink) Violation(key, desc string, replay interface{}) {
	s.mu.Lock()
	defer s.mu.Unlock()
	rc, _ := replay.(rcase)
	s.emit(childMsg{T: "V", Key: key, Desc: desc, Case: &rc})
}

const childEnv = "C19_CHILD" // "<section>:<start>:<end>:<step>"

// childMain runs cases start, start+step, ... < end of the receipts round-trip section.
func childMain(c *vf.Ctx, spec string) {
	p := strings.Split(spec, ":")
	if len(p) != 4 || p[0] != "rcptrt" {
		os.Exit(64)
	}
	start, _ := strconv.Atoi(p[1])
	end, _ := strconv.Atoi(p[2])
	step, _ := strconv.Atoi(p[3])
	if step <= 0 {
		os.Exit(64)
	}
	lim := uint64(6) << 30
	syscall.Setrlimit(syscall.RLIMIT_AS, &syscall.Rlimit{Cur: lim, Max: lim})
	runtime.GOMAXPROCS(2)
	cs := &childSink{w: bufio.NewWriterSize(os.Stdout, 1<<16), counts: map[string]int{}}
	out = cs
	for i := start; i < end; i += step {
		cs.mu.Lock()
		cs.emit(childMsg{T: "S", I: i})
		cs.mu.Unlock()
		guard(c, "rcptrt", i, func() { caseRcptRT(c, i) })
	}
	guard(c, "rcptdb", 0, func() { runReceiptsDB(c) })
	os.RemoveAll(c.Scratch())
	optMu.Lock()
	opt := map[string][2]int{}
	for k, v := range optObs {
		opt[k] = *v
	}
	optMu.Unlock()
	cs.mu.Lock()
	cs.emit(childMsg{T: "E", Counts: cs.counts, Evals: cs.evals, Keys: cs.keys, Opt: opt, Samples: cs.samples})
	cs.mu.Unlock()
	os.Exit(0)
}

// runIsolated runs cases [0,n) (or only the case `only` when >= 0) of the receipts round-trip
// section in child processes and merges what they observed.
func runIsolated(c *vf.Ctx, n int, only int) {
	exe, err := os.Executable()
	if err != nil {
		out.Inconclusive("os.Executable: " + err.Error())
		return
	}
	W := runtime.GOMAXPROCS(0)
	if W > 16 {
		W = 16
	}
	if only >= 0 {
		W = 1
	}
	var wg sync.WaitGroup
	for w := 0; w < W; w++ {
		wg.Add(1)
		go func(w int) {
			defer wg.Done()
			start, end, step := w, n, W
			if only >= 0 {
				start, end, step = only, only+1, 1
			}
			for respawn := 0; start < end && respawn < 4; respawn++ {
				last, done, tail := runChild(c, exe, fmt.Sprintf("rcptrt:%d:%d:%d", start, end, step))
				if done {
					return
				}
				if last < 0 {
					out.Inconclusive("receipts round-trip child died before its first case: " + tail)
					return
				}
				out.Violation("rt/receipts/decoder-crash",
					fmt.Sprintf("the process decoding stored receipts died on case %d (output of Receipts.MarshalBinary fed to UnmarshalBinary / gob): %s", last, tail),
					rcase{"rcptrt", last, "decoder process died"})
				start = last + step
			}
		}(w)
	}
	wg.Wait()
}

func runChild(c *vf.Ctx, exe, spec string) (last int, done bool, tail string) {
	last = -1
	cmd := exec.Command(exe, c.Tier)
	cmd.Env = append(os.Environ(), childEnv+"="+spec, fmt.Sprintf("VERIF_SEED=%d", c.Seed))
	stdout, err := cmd.StdoutPipe()
	if err != nil {
		return -1, false, err.Error()
	}
	var errBuf tailBuf
	cmd.Stderr = &errBuf
	if err := cmd.Start(); err != nil {
		return -1, false, err.Error()
	}
	rd := bufio.NewReaderSize(stdout, 1<<20)
	for {
		line, rerr := rd.ReadBytes('\n')
		if len(line) > 0 {
			var m childMsg
			if json.Unmarshal(line, &m) == nil {
				switch m.T {
				case "S":
					last = m.I
				case "V":
					var rc interface{}
					if m.Case != nil {
						rc = *m.Case
					}
					out.Violation(m.Key, m.Desc, rc)
				case "I":
					out.Inconclusive(m.Desc)
				case "E":
					done = true
					for k, v := range m.Counts {
						out.Count(k, v)
					}
					out.Eval(m.Evals)
					for _, k := range m.Keys {
						out.Nontrivial(k)
					}
					for _, s := range m.Samples {
						out.Sample(s)
					}
					optMu.Lock()
					for k, v := range m.Opt {
						p := optObs[k]
						if p == nil {
							p = &[2]int{}
							optObs[k] = p
						}
						p[0] += v[0]
						p[1] += v[1]
					}
					optMu.Unlock()
				}
			}
		}
		if rerr != nil {
			break
		}
	}
	werr := cmd.Wait()
	if !done { // a dead child cannot remove its own scratch directory
		base := os.Getenv("VERIF_SCRATCH")
		if base == "" {
			base = "/var/tmp"
		}
		os.RemoveAll(filepath.Join(base, fmt.Sprintf("verif-%s-%d", c.Prop, cmd.Process.Pid)))
	}
	tail = fmt.Sprintf("%v; stderr: %s", werr, firstLines(errBuf.String(), 6))
	return last, done, tail
}

type tailBuf struct {
	mu sync.Mutex
	b  []byte
}

func (t *tailBuf) Write(p []byte) (int, error) {
	t.mu.Lock()
	if len(t.b) < 4096 {
		t.b = append(t.b, p...)
	}
	t.mu.Unlock()
	return len(p), nil
}
func (t *tailBuf) String() string { t.mu.Lock(); defer t.mu.Unlock(); return string(t.b) }

// show renders a field value for a violation description (bytes as hex, strings quoted).
func show(v reflect.Value) string {
	switch v.Kind() {
	case reflect.Slice:
		if v.Type().Elem().Kind() == reflect.Uint8 {
			return fmt.Sprintf("0x%x", v.Bytes())
		}
		var p []string
		for i := 0; i < v.Len(); i++ {
			p = append(p, show(v.Index(i)))
		}
		return "[" + strings.Join(p, " ") + "]"
	case reflect.String:
		return strconv.Quote(v.String())
	case reflect.Ptr:
		if v.IsNil() {
			return "nil"
		}
		return show(v.Elem())
	case reflect.Struct:
		var p []string
		for _, f := range exportedFields(v.Type()) {
			p = append(p, f.Name+":"+show(v.FieldByIndex(f.Index)))
		}
		return "{" + strings.Join(p, " ") + "}"
	default:
		return fmt.Sprint(v.Interface())
	}
}
