// C07 fork choice: reorganisation reaches the longest valid branch and its exact state.
package main

import (
	"bytes"
	"encoding/hex"
	"fmt"
	"math/big"
	"math/rand"
	"os"
	"sort"
	"sync"

	"github.com/aergoio/aergo/v2/types"

	"verif/h/rig"
	"verif/h/vf"
)

type scen struct {
	Fork    int    `json:"fork_height"`
	LenA    int    `json:"len_a"`
	LenB    int    `json:"len_b"`
	LenC    int    `json:"len_c"` // 0: no third branch
	Mode    string `json:"tx_mode_b"`
	Lib     int    `json:"scripted_lib"` // -1: none
	InvalidAt int  `json:"invalid_at"`   // position in B (1-based) replaced by an invalid block, 0: none
	InvClass string `json:"invalid_class"`
}

type caseDesc struct {
	Scen    scen     `json:"scenario"`
	Order   []string `json:"order"`
	Results []string `json:"results"`
	What    string   `json:"what"`
}

func main() {
	if len(os.Args) > 1 && os.Args[1] == "node" {
		rig.ChildMain()
		return
	}
	c := vf.Start("C07", "exploration")
	r := c.Rand("scen")
	var scens []scen
	modes := []string{"fresh", "shared", "conflict", "mixed"}
	classes := []string{"state-root-flipped", "receipts-root-flipped", "tx-bad-signature", "tx-nonce-gap"}
	add := func(s scen) { scens = append(scens, s) }
	if c.Quick() {
		for k := 0; k < 7; k++ {
			la := 1 + r.Intn(3)
			add(scen{Fork: r.Intn(3), LenA: la, LenB: la + r.Intn(5) - 1, Mode: modes[r.Intn(4)], Lib: -1})
		}
		for k := 0; k < 3; k++ { // scripted LIB around the fork point
			f := 1 + r.Intn(2)
			add(scen{Fork: f, LenA: 1 + r.Intn(2), LenB: 3 + r.Intn(2), Mode: modes[r.Intn(4)], Lib: f - 1 + r.Intn(3)})
		}
		for k := 0; k < 4; k++ { // invalid block at every kind of position
			lb := 3 + r.Intn(3)
			add(scen{Fork: r.Intn(2), LenA: 1 + r.Intn(2), LenB: lb, Mode: modes[r.Intn(4)], Lib: -1, InvalidAt: 1 + r.Intn(lb), InvClass: classes[r.Intn(4)]})
		}
		for k := 0; k < 2; k++ { // triples
			add(scen{Fork: r.Intn(2), LenA: 2, LenB: 1 + r.Intn(4), LenC: 1 + r.Intn(5), Mode: modes[r.Intn(4)], Lib: -1})
		}
	} else {
		for f := 0; f <= 3; f++ {
			for la := 1; la <= 3; la++ {
				for d := -2; d <= 3; d++ {
					if la+d < 1 {
						continue
					}
					add(scen{Fork: f, LenA: la, LenB: la + d, Mode: modes[r.Intn(4)], Lib: -1})
				}
			}
		}
		for f := 1; f <= 3; f++ {
			for l := f - 1; l <= f+1; l++ {
				add(scen{Fork: f, LenA: 1 + r.Intn(2), LenB: 3 + r.Intn(2), Mode: modes[r.Intn(4)], Lib: l})
			}
		}
		for lb := 2; lb <= 5; lb++ {
			for p := 1; p <= lb; p++ {
				add(scen{Fork: r.Intn(3), LenA: 1 + r.Intn(3), LenB: lb, Mode: modes[r.Intn(4)], Lib: -1, InvalidAt: p, InvClass: classes[(lb+p)%4]})
			}
		}
		for k := 0; k < 20; k++ {
			add(scen{Fork: r.Intn(3), LenA: 1 + r.Intn(3), LenB: 1 + r.Intn(5), LenC: 1 + r.Intn(5), Mode: modes[r.Intn(4)], Lib: -1})
		}
	}
	c.Set("scenarios", len(scens))
	var wg sync.WaitGroup
	sem := make(chan struct{}, c.Pick(4, 6))
	for i, s := range scens {
		wg.Add(1)
		sem <- struct{}{}
		go func(i int, s scen) {
			defer wg.Done()
			defer func() { <-sem }()
			run(c, i, s)
		}(i, s)
	}
	wg.Wait()
	c.Finish("competing branches (really executed by builder processes) on a common prefix: the node first follows branch A, then receives branch B (and C) in seeded interleavings incl. children before parents, followed by a parents-first redelivery (what the syncer does). Monitors per arrival: best block changes only to a strictly higher valid block, coherence predicate, state root = best block's root; at the switch: txs offered back to the pool (recorder) = txs of the abandoned blocks minus txs of the adopted blocks; at the end: longer valid branch adopted unless it forks below the scripted LIB, shorter/equal/invalid/below-LIB never displaces, total supply unchanged. A case = one arrival; non-trivial = arrival in a run where a reorganisation attempt was observed; distinct = hash(scenario, order, arrival)",
		c.Pick(60, 800),
		"relaxed DPoS; LIB veto scripted at NeedReorganization (real LIB behaviour is C08)",
		"when an invalid block sits on the longer branch the node may end on branch A or on the valid prefix of B: both are accepted, an invalid block on the main chain never is")
}

func run(c *vf.Ctx, si int, s scen) {
	name := fmt.Sprintf("s%d", si)
	w := rig.NewWorld(name, c.Scratch(), rig.WorldOpts{Public: true, NAccts: 10, Mempool: "recorder"})
	cb := rig.NewAcct(name+"/cb", 0)
	w.Tmpl.Coinbase = cb.B58()
	defer w.CloseAll()
	r := c.Rand(fmt.Sprintf("run/%d/%+v", si, s))
	t := rig.NewTree(w)
	t.Kinds = []string{"xfer", "xfer", "xfer-new", "xfer-zero", "stake", "votebp", "name", "name-update", "deploy", "call-inc", "call-pay", "call-fail", "xfer-poor", "badnonce-gap"}
	build := func(parent int, mode string) int {
		b, err := t.Add(parent, r, mode)
		if err != nil {
			c.Inconclusive(fmt.Sprintf("scenario %+v: build failed: %v", s, err))
			return -2
		}
		return b.Idx
	}
	tip := -1
	var prefix []int
	for i := 0; i < s.Fork; i++ {
		if tip = build(tip, "fresh"); tip == -2 {
			return
		}
		prefix = append(prefix, tip)
	}
	forkIdx := tip
	branch := func(n int, mode string) []int {
		var out []int
		p := forkIdx
		for i := 0; i < n; i++ {
			m := "fresh"
			if i == 0 {
				m = mode
			}
			p = build(p, m)
			if p == -2 {
				return nil
			}
			out = append(out, p)
		}
		return out
	}
	A := branch(s.LenA, "fresh")
	B := branch(s.LenB, s.Mode)
	var C []int
	if s.LenC > 0 {
		C = branch(s.LenC, "conflict")
	}
	if A == nil || B == nil || (s.LenC > 0 && C == nil) {
		return
	}
	// invalid variant of B
	deliverB := append([]int(nil), B...)
	var genuineTail []int
	if s.InvalidAt > 0 {
		p := s.InvalidAt - 1
		var iv *rig.TBlock
		switch s.InvClass {
		case "state-root-flipped":
			iv = t.AddInvalid(B[p], s.InvClass, func(b *types.Block) bool { b.Header.BlocksRootHash = rig.FlipBytes(b.Header.BlocksRootHash); return true })
		case "receipts-root-flipped":
			iv = t.AddInvalid(B[p], s.InvClass, func(b *types.Block) bool { b.Header.ReceiptsRootHash = rig.FlipBytes(b.Header.ReceiptsRootHash); return true })
		case "tx-bad-signature", "tx-nonce-gap":
			iv = t.AddInvalid(B[p], s.InvClass, func(b *types.Block) bool {
				if len(b.Body.Txs) == 0 {
					b.Header.BlocksRootHash = rig.FlipBytes(b.Header.BlocksRootHash)
					return true
				}
				tx := b.Body.Txs[r.Intn(len(b.Body.Txs))]
				if s.InvClass == "tx-bad-signature" {
					tx.Body.Sign = rig.FlipBytes(tx.Body.Sign)
					rig.Rehash(tx)
				} else {
					var signer *rig.Acct
					for _, a := range w.Accts {
						if bytes.Equal(a.Addr, tx.Body.Account) {
							signer = a
						}
					}
					if signer == nil {
						tx.Body.Sign = rig.FlipBytes(tx.Body.Sign)
						rig.Rehash(tx)
					} else {
						tx.Body.Nonce += 5
						rig.Resign(tx, signer)
					}
				}
				b.Header.TxsRootHash = types.CalculateTxsRootHash(b.Body.Txs)
				return true
			})
		}
		deliverB = append([]int(nil), B[:p]...)
		deliverB = append(deliverB, iv.Idx)
		par := iv.Idx
		for _, j := range B[p+1:] {
			cp := t.AddReparented(j, par)
			deliverB = append(deliverB, cp.Idx)
			par = cp.Idx
		}
		genuineTail = B[p:]
	}
	t.Close()
	genesisTotal := new(big.Int)
	// orders of the competing blocks
	comp := append([]int(nil), deliverB...)
	comp = append(comp, C...)
	norders := c.Pick(2, 8)
	var orders [][]int
	topo := append([]int(nil), comp...)
	sort.SliceStable(topo, func(i, j int) bool { return t.Blocks[topo[i]].Height < t.Blocks[topo[j]].Height })
	orders = append(orders, topo)
	rev := make([]int, len(topo))
	for i := range topo {
		rev[len(topo)-1-i] = topo[i]
	}
	orders = append(orders, rev)
	for k := 0; k < norders; k++ {
		o := append([]int(nil), comp...)
		r.Shuffle(len(o), func(i, j int) { o[i], o[j] = o[j], o[i] })
		orders = append(orders, o)
	}
	seen := map[string]bool{}
	for oi, order := range orders {
		if seen[fmt.Sprint(order)] {
			continue
		}
		seen[fmt.Sprint(order)] = true
		nut, _, err := w.Node(fmt.Sprintf("nut%d", oi), nil)
		if err != nil {
			c.Inconclusive("start NUT: " + err.Error())
			return
		}
		func() {
			defer nut.Kill()
			cd := caseDesc{Scen: s}
			fail := func(key, msg string) {
				cd.What = msg
				c.Violation(key, fmt.Sprintf("scenario %+v\norder %v\nresults %v\n%s", s, cd.Order, cd.Results, msg), cd)
			}
			if genesisTotal.Sign() == 0 {
				if d, err := nut.Dump(nil); err == nil {
					genesisTotal = d.Sum()
				}
			}
			for _, i := range append(append([]int(nil), prefix...), A...) {
				if e, err := nut.AddBlock(t.Blocks[i].Bytes); err != nil || e != "" {
					c.Inconclusive(fmt.Sprintf("scenario %+v: NUT refused main branch block: %v %s", s, err, e))
					return
				}
			}
			if s.Lib >= 0 {
				nut.SetLib(int64(s.Lib))
			}
			tipA := t.Blocks[A[len(A)-1]]
			best, _ := nut.Best()
			if !bytes.Equal(best.Hash, tipA.Hash) {
				c.Inconclusive("NUT not on tip A after linear delivery")
				return
			}
			recBase, _ := nut.Recorded()
			nrec := len(recBase)
			reorgSeen := false
			step := func(bi int, phase string) bool {
				blk := t.Blocks[bi]
				res, err := nut.AddBlock(blk.Bytes)
				c.Eval(1)
				label := fmt.Sprintf("#%d(h%d%s)", bi, blk.Height, map[bool]string{true: "", false: "!" + blk.Invalid}[blk.Invalid == ""])
				cd.Order = append(cd.Order, label)
				if err != nil {
					fail("node-died", fmt.Sprintf("%s arrival of %s: %v", phase, label, err))
					return false
				}
				cd.Results = append(cd.Results, label+":"+short(res))
				nb, err := nut.Best()
				if err != nil {
					fail("node-died", err.Error())
					return false
				}
				recs, _ := nut.Recorded()
				newRecs := recs[nrec:]
				nrec = len(recs)
				var puts []string
				for _, m := range newRecs {
					if m.Svc == "MemPoolSvc" && m.Type == "MemPoolPut" {
						puts = append(puts, m.Hash)
					}
				}
				if !bytes.Equal(nb.Hash, best.Hash) {
					// best changed
					ni := find(t, nb.Hash)
					switch {
					case ni < 0:
						fail("best-unknown-block", "best block is not a block of the scenario")
						return false
					case !t.Valid(ni):
						fail("invalid-branch-adopted/"+s.InvClass, fmt.Sprintf("after %s the best block is #%d which is invalid or descends from an invalid block", label, ni))
						return false
					case nb.No <= best.No:
						fail("not-longer-branch-displaced-main", fmt.Sprintf("after %s best moved from height %d to height %d (#%d)", label, best.No, nb.No, ni))
						return false
					}
					oldPath, newPath := pathSet(t, find(t, best.Hash)), pathSet(t, ni)
					forkH := uint64(0)
					for i := range oldPath {
						if newPath[i] && t.Blocks[i].Height > forkH {
							forkH = t.Blocks[i].Height
						}
					}
					abandoned, adopted := map[string]bool{}, map[string]bool{}
					nAb := 0
					for i := range oldPath {
						if !newPath[i] {
							nAb++
							for _, h := range t.Blocks[i].TxHash {
								abandoned[hex.EncodeToString(h)] = true
							}
						}
					}
					for i := range newPath {
						if !oldPath[i] {
							for _, h := range t.Blocks[i].TxHash {
								adopted[hex.EncodeToString(h)] = true
							}
						}
					}
					if nAb > 0 {
						reorgSeen = true
						c.Count("reorgs", 1)
						c.Count(fmt.Sprintf("reorg_depth_%d", nAb), 1)
						if s.Lib >= 0 && forkH < uint64(s.Lib) {
							fail("reorg-below-lib", fmt.Sprintf("reorganisation with fork point at height %d although the irreversible block is at %d", forkH, s.Lib))
							return false
						}
						want := map[string]bool{}
						for h := range abandoned {
							if !adopted[h] {
								want[h] = true
							}
						}
						got := map[string]bool{}
						for _, h := range puts {
							got[h] = true
						}
						for h := range want {
							if !got[h] {
								fail("abandoned-tx-not-offered-back", fmt.Sprintf("tx %s was only on the abandoned branch but was not offered to the pool (offered %d, expected %d)", h[:16], len(got), len(want)))
								return false
							}
						}
						for h := range got {
							if !want[h] {
								where := "unrelated"
								if adopted[h] {
									where = "in the adopted branch"
								}
								fail("unexpected-tx-offered-back", fmt.Sprintf("tx %s (%s) was offered to the pool by the reorganisation", h[:16], where))
								return false
							}
						}
						c.Count("txs_offered_back", len(got))
					}
					best = nb
				} else if len(puts) > 0 {
					fail("pool-put-without-reorg", fmt.Sprintf("%d txs offered to the pool although the best block did not change", len(puts)))
					return false
				}
				if !bytes.Equal(nb.SdbRoot, nb.Root) {
					fail("state-root-not-best-root", fmt.Sprintf("after %s: state DB root %x, best block #%d root %x", label, nb.SdbRoot, find(t, nb.Hash), nb.Root))
					return false
				}
				return true
			}
			for _, bi := range order {
				if !step(bi, "delivery") {
					return
				}
			}
			for _, bi := range topo {
				if !step(bi, "redelivery") {
					return
				}
			}
			// expectations at the end of the adversarial part
			expectAdopt := func(br []int, nm string) bool {
				tipB := t.Blocks[br[len(br)-1]]
				if !t.Valid(tipB.Idx) {
					return true
				}
				if tipB.Height > best.No && (s.Lib < 0 || s.Fork >= s.Lib) {
					fail("longer-valid-branch-not-adopted", fmt.Sprintf("branch %s (tip #%d, height %d) is valid, fully delivered and longer than the main chain (height %d) but was not adopted", nm, tipB.Idx, tipB.Height, best.No))
					return false
				}
				return true
			}
			if s.InvalidAt == 0 {
				if !expectAdopt(B, "B") {
					return
				}
			}
			if len(C) > 0 && !expectAdopt(C, "C") {
				return
			}
			if s.InvalidAt > 0 {
				// afterwards the genuine blocks arrive: the node must still be able to follow them
				for _, bi := range genuineTail {
					if !step(bi, "genuine-after-invalid") {
						return
					}
				}
				if !expectAdopt(B, "B(genuine blocks after the invalid ones)") {
					return
				}
			}
			co, err := nut.Coherent(t.AllTx())
			if err == nil && len(co.Problems) > 0 {
				fail("incoherent-after-fork-choice", fmt.Sprint(co.Problems))
				return
			}
			if d, err := nut.Dump(nil); err == nil {
				if d.Sum().Cmp(genesisTotal) != 0 {
					fail("supply-changed-along-forks", fmt.Sprintf("total supply %s, genesis %s", d.Sum(), genesisTotal))
					return
				}
			}
			if reorgSeen {
				for i := range cd.Order {
					c.Nontrivial(fmt.Sprintf("%+v|%v|%d", s, order, i))
				}
			}
			c.Count("runs", 1)
			if oi == 0 {
				c.Sample(map[string]interface{}{"scenario": s, "order": cd.Order, "results": cd.Results, "final_best_height": best.No})
			}
		}()
	}
}

func pathSet(t *rig.Tree, idx int) map[int]bool {
	m := map[int]bool{}
	if idx < 0 {
		return m
	}
	for _, i := range t.Path(idx) {
		m[i] = true
	}
	return m
}

func find(t *rig.Tree, h []byte) int {
	for _, b := range t.Blocks {
		if bytes.Equal(b.Hash, h) {
			return b.Idx
		}
	}
	return -1
}

func short(s string) string {
	if s == "" {
		return "ok"
	}
	if len(s) > 60 {
		return s[:60]
	}
	return s
}

var _ = rand.Int
