package main

// Part 1: the raft log storage (chain/chaindbForRaft.go behind raftv2.WalDB) against a reference log.

import (
	"bytes"
	"crypto/sha256"
	"encoding/json"
	"fmt"
	"math/rand"
	"os"
	"path/filepath"
	"sort"

	"github.com/aergoio/aergo/v2/chain"
	"github.com/aergoio/aergo/v2/consensus"
	"github.com/aergoio/aergo/v2/consensus/impl/raftv2"
	"github.com/aergoio/aergo/v2/types"
	"github.com/aergoio/etcd/raft/raftpb"
	"github.com/golang/protobuf/proto"
)

// ---------------------------------------------------------------- operations (JSON: replayable)

type EntSpec struct {
	K string `json:"k"`           // "b" block, "e" empty, "c" conf change
	T uint64 `json:"t"`           // term
	B int    `json:"b,omitempty"` // block id (deterministic content)
	C uint64 `json:"c,omitempty"` // conf change request id (0 allowed)
}

type HSSpec struct{ Term, Vote, Commit uint64 }
type SnapSpec struct {
	Index, Term uint64
	Nodes       []uint64
	Block       int // block id whose (no, hash) is the chain part
	Members     int // number of members listed
}
type IDSpec struct {
	Cluster, ID uint64
	Name, Peer  string
}

type Op struct {
	Kind  string    `json:"kind"` // save | write | hs | snap | id | reset | clear
	First uint64    `json:"first,omitempty"`
	Ents  []EntSpec `json:"ents,omitempty"`
	HS    *HSSpec   `json:"hs,omitempty"`
	Snap  *SnapSpec `json:"snap,omitempty"`
	ID    *IDSpec   `json:"id,omitempty"`
}

func (o Op) String() string { b, _ := json.Marshal(o); return string(b) }

// ---------------------------------------------------------------- deterministic payloads

func h32(s string) []byte { x := sha256.Sum256([]byte(s)); return x[:] }

func mkBlock(id int) *types.Block {
	b := &types.Block{
		Header: &types.BlockHeader{
			ChainID:        []byte("verif-c16"),
			PrevBlockHash:  h32(fmt.Sprintf("prev-%d", id)),
			BlockNo:        uint64(id%997 + 1),
			Timestamp:      1600000000000000000 + int64(id)*1000,
			BlocksRootHash: h32(fmt.Sprintf("root-%d", id)),
			Confirms:       uint64(id % 5),
		},
		Body: &types.BlockBody{},
	}
	for i := 0; i < id%3; i++ {
		b.Body.Txs = append(b.Body.Txs, &types.Tx{
			Hash: h32(fmt.Sprintf("tx-%d-%d", id, i)),
			Body: &types.TxBody{Nonce: uint64(i + 1), Account: h32("acc")[:20], Recipient: h32("rcp")[:20], Amount: []byte{byte(id), byte(i)}},
		})
	}
	b.BlockHash() // fills Hash
	return b
}

func ccMember(id uint64) *consensus.Member {
	m := &consensus.Member{}
	m.SetAttr(&types.MemberAttr{ID: 0x7000 + id, Name: fmt.Sprintf("cc%d", id), Address: fmt.Sprintf("/ip4/10.1.0.%d/tcp/7846", id%250+1), PeerID: mkPeerID(fmt.Sprintf("cc%d", id))})
	return m
}

func mkPeerID(s string) []byte { return append([]byte{0x12, 0x20}, h32("peer/"+s)...) }

func mkRaftEntry(idx uint64, e EntSpec) raftpb.Entry {
	switch e.K {
	case "b":
		data, err := proto.Marshal(mkBlock(e.B))
		if err != nil {
			panic(err)
		}
		return raftpb.Entry{Type: raftpb.EntryNormal, Term: e.T, Index: idx, Data: data}
	case "e":
		return raftpb.Entry{Type: raftpb.EntryNormal, Term: e.T, Index: idx}
	case "c":
		m := ccMember(e.C)
		ctx, _ := json.Marshal(m)
		typ := raftpb.ConfChangeAddNode
		if e.C%2 == 1 {
			typ = raftpb.ConfChangeRemoveNode
		}
		cc := raftpb.ConfChange{ID: e.C, Type: typ, NodeID: m.ID, Context: ctx}
		data, err := cc.Marshal()
		if err != nil {
			panic(err)
		}
		return raftpb.Entry{Type: raftpb.EntryConfChange, Term: e.T, Index: idx, Data: data}
	}
	panic("bad entry kind " + e.K)
}

// ---------------------------------------------------------------- reference model

type mEntry struct {
	Index, Term uint64
	K           string
	Raw         []byte // raft entry data (cc: stored verbatim; block: encoded block)
	Hash        []byte // block hash
	B           int
}

type snapModel struct {
	Index, Term uint64
	Nodes       []uint64
	Data        []byte // nil: "genesis snapshot written by ResetWAL" (compared semantically)
}

type Model struct {
	Base uint64 // entries at index <= Base are gone (ResetWAL); Base == Last right after a reset
	Ents []mEntry
	HS   *HSSpec
	Snap *snapModel
	ID   *IDSpec
	Ever map[string]int // every block hash ever written -> block id
	Died []string       // block hashes in the order their entry left the log (overwritten / cleared)
	Step int            // number of ops applied (rotates the sample of old removed blocks that is looked up)
}

func newModel() *Model { return &Model{Ever: map[string]int{}} }

func (m *Model) Last() uint64 { return m.Base + uint64(len(m.Ents)) }

func (m *Model) clone() *Model {
	c := *m
	c.Ents = append([]mEntry(nil), m.Ents...)
	c.Ever = make(map[string]int, len(m.Ever))
	for k, v := range m.Ever {
		c.Ever[k] = v
	}
	return &c
}

func (m *Model) live() map[string]uint64 {
	l := map[string]uint64{}
	for _, e := range m.Ents {
		if e.K == "b" {
			l[string(e.Hash)] = e.Index
		}
	}
	return l
}

func snapData(s *SnapSpec) []byte {
	blk := mkBlock(s.Block)
	d := map[string]interface{}{"chain": map[string]interface{}{"no": blk.BlockNo(), "hash": blk.BlockHash()}}
	var mbrs []*consensus.Member
	for i := 0; i < s.Members; i++ {
		mbrs = append(mbrs, ccMember(uint64(100+i)))
	}
	d["members"] = mbrs
	d["RemovedMembers"] = []*consensus.Member{}
	b, _ := json.Marshal(d)
	return b
}

func (m *Model) apply(op Op) {
	before := m.live()
	defer func() {
		after := m.live()
		gone := []string{}
		for h := range before {
			if _, ok := after[h]; !ok {
				gone = append(gone, h)
			}
		}
		sort.Strings(gone)
		m.Died = append(m.Died[:len(m.Died):len(m.Died)], gone...)
		m.Step++
	}()
	switch op.Kind {
	case "save", "write":
		if len(op.Ents) > 0 {
			keep := op.First - m.Base - 1
			m.Ents = append([]mEntry(nil), m.Ents[:keep]...)
			for i, e := range op.Ents {
				idx := op.First + uint64(i)
				re := mkRaftEntry(idx, e)
				me := mEntry{Index: idx, Term: e.T, K: e.K, Raw: re.Data, B: e.B}
				if e.K == "b" {
					me.Hash = mkBlock(e.B).BlockHash()
					m.Ever[string(me.Hash)] = e.B
				}
				m.Ents = append(m.Ents, me)
			}
		}
		if op.Kind == "save" && op.HS != nil && *op.HS != (HSSpec{}) {
			hs := *op.HS
			m.HS = &hs
		}
	case "hs":
		hs := *op.HS
		m.HS = &hs
	case "snap":
		m.Snap = &snapModel{Index: op.Snap.Index, Term: op.Snap.Term, Nodes: op.Snap.Nodes, Data: snapData(op.Snap)}
	case "id":
		id := *op.ID
		m.ID = &id
	case "clear":
		m.Base, m.Ents, m.HS, m.Snap, m.ID = 0, nil, nil, nil, nil
	case "reset":
		m.Ents, m.ID = nil, nil
		m.Base = op.HS.Commit
		m.HS = &HSSpec{Term: op.HS.Term, Commit: op.HS.Commit}
		m.Snap = &snapModel{Index: op.HS.Commit, Term: op.HS.Term}
	}
}

// ---------------------------------------------------------------- the store under test

type hist struct {
	dir     string
	cdb     *chain.ChainDB
	wal     *raftv2.WalDB
	j       *journal
	genNo   uint64
	genHash []byte
}

var templateDB string // <scratch>/template/chain/database : chain DB holding only a genesis block

func openHist(dir string) (*hist, error) {
	if err := os.MkdirAll(filepath.Join(dir, "chain"), 0o755); err != nil {
		return nil, err
	}
	b, err := os.ReadFile(templateDB)
	if err != nil {
		return nil, err
	}
	if err := os.WriteFile(filepath.Join(dir, "chain", "database"), b, 0o644); err != nil {
		return nil, err
	}
	h := &hist{dir: dir, j: journalFor(filepath.Join(dir, "chain"))}
	if err := h.open(); err != nil {
		return nil, err
	}
	best, _ := h.cdb.GetBestBlock()
	if best == nil {
		return nil, fmt.Errorf("template has no best block")
	}
	h.genNo, h.genHash = best.BlockNo(), best.BlockHash()
	return h, nil
}

func (h *hist) open() error {
	h.cdb = chain.NewChainDB()
	if err := h.cdb.Init(jdbName, h.dir, nil); err != nil {
		return err
	}
	h.wal = raftv2.NewWalDB(h.cdb)
	return nil
}

// restart = Close (memorydb persists <dir>/chain/database) + a NEW ChainDB opened on the directory.
func (h *hist) restart() error {
	h.cdb.Close()
	return h.open()
}

// close abandons the store (the directory is reused by the next history of the same worker, which
// overwrites <dir>/chain/database with the genesis-only template first).
func (h *hist) close() {
	dropJournal(filepath.Join(h.dir, "chain"))
}

func (h *hist) exec(op Op) error {
	switch op.Kind {
	case "save":
		var ents []raftpb.Entry
		for i, e := range op.Ents {
			ents = append(ents, mkRaftEntry(op.First+uint64(i), e))
		}
		hs := raftpb.HardState{}
		if op.HS != nil {
			hs = raftpb.HardState{Term: op.HS.Term, Vote: op.HS.Vote, Commit: op.HS.Commit}
		}
		return h.wal.SaveEntry(hs, ents)
	case "write": // the ChainWAL method directly, with the conversion done by the harness
		n := len(op.Ents)
		we, bl, cc := make([]*consensus.WalEntry, n), make([]*types.Block, n), make([]*raftpb.ConfChange, n)
		for i, e := range op.Ents {
			idx := op.First + uint64(i)
			re := mkRaftEntry(idx, e)
			w := &consensus.WalEntry{Term: e.T, Index: idx}
			switch e.K {
			case "b":
				bl[i] = mkBlock(e.B)
				w.Type, w.Data = consensus.EntryBlock, bl[i].BlockHash()
			case "e":
				w.Type = consensus.EntryEmpty
			case "c":
				c := &raftpb.ConfChange{}
				if err := c.Unmarshal(re.Data); err != nil {
					return err
				}
				cc[i] = c
				w.Type, w.Data = consensus.EntryConfChange, re.Data
			}
			we[i] = w
		}
		return h.wal.WriteRaftEntry(we, bl, cc)
	case "hs":
		return h.wal.WriteHardState(&raftpb.HardState{Term: op.HS.Term, Vote: op.HS.Vote, Commit: op.HS.Commit})
	case "snap":
		return h.wal.WriteSnapshot(&raftpb.Snapshot{
			Metadata: raftpb.SnapshotMetadata{Index: op.Snap.Index, Term: op.Snap.Term, ConfState: raftpb.ConfState{Nodes: op.Snap.Nodes}},
			Data:     snapData(op.Snap)})
	case "id":
		return h.wal.WriteIdentity(&consensus.RaftIdentity{ClusterID: op.ID.Cluster, ID: op.ID.ID, Name: op.ID.Name, PeerID: op.ID.Peer})
	case "clear":
		h.wal.ClearWAL()
		return nil
	case "reset":
		return h.wal.ResetWAL(&types.HardStateInfo{Term: op.HS.Term, Commit: op.HS.Commit})
	}
	return fmt.Errorf("unknown op %q", op.Kind)
}

// ---------------------------------------------------------------- the oracle

type disc struct{ class, msg string }

type walReader interface {
	GetRaftEntry(idx uint64) (*consensus.WalEntry, error)
	GetRaftEntryLastIdx() (uint64, error)
	GetRaftEntryOfBlock(hash []byte) (*consensus.WalEntry, error)
	GetRaftEntryIndexOfBlock(hash []byte) (uint64, error)
	GetHardState() (*raftpb.HardState, error)
	GetSnapshot() (*raftpb.Snapshot, error)
	GetIdentity() (*consensus.RaftIdentity, error)
	GetBlock(hash []byte) (*types.Block, error)
}

type obs struct {
	deadAbsent, deadOther, deadNoIdx int
	entries, aboveLast, liveBlocks   int
	readAll                          int
}

func sameU64s(a, b []uint64) bool {
	if len(a) != len(b) {
		return false
	}
	for i := range a {
		if a[i] != b[i] {
			return false
		}
	}
	return true
}

// verify compares everything readable from the (re-opened) store with the model.
func verify(w *raftv2.WalDB, m *Model, genNo uint64, genHash []byte, o *obs) (ds []disc) {
	add := func(class, f string, a ...interface{}) { ds = append(ds, disc{class, fmt.Sprintf(f, a...)}) }
	last := m.Last()

	if got, err := w.GetRaftEntryLastIdx(); err != nil || got != last {
		add("last-index", "GetRaftEntryLastIdx=%d,%v want %d", got, err, last)
	}
	// entries up to last
	for i := uint64(1); i <= last; i++ {
		got, err := w.GetRaftEntry(i)
		if i <= m.Base {
			if err != chain.ErrNoWalEntry {
				add("entry-below-reset-present", "GetRaftEntry(%d) below the reset point = %v,%v want ErrNoWalEntry", i, got, err)
			}
			continue
		}
		want := m.Ents[i-m.Base-1]
		if err != nil || got == nil {
			add("entry-missing", "GetRaftEntry(%d) err=%v want %s term %d", i, err, want.K, want.Term)
			continue
		}
		o.entries++
		wt := map[string]consensus.EntryType{"b": consensus.EntryBlock, "e": consensus.EntryEmpty, "c": consensus.EntryConfChange}[want.K]
		ok := got.Index == i && got.Term == want.Term && got.Type == wt
		switch want.K {
		case "b":
			ok = ok && bytes.Equal(got.Data, want.Hash)
		case "e":
			ok = ok && len(got.Data) == 0
		case "c":
			ok = ok && bytes.Equal(got.Data, want.Raw)
		}
		if !ok {
			add("entry-mismatch", "GetRaftEntry(%d)={type %d term %d index %d data %x} want {%s term %d data/hash %x}", i, got.Type, got.Term, got.Index, got.Data, want.K, want.Term, want.Hash)
		}
	}
	// indices above last are absent
	for i := last + 1; i <= last+8; i++ {
		got, err := w.GetRaftEntry(i)
		o.aboveLast++
		if err != chain.ErrNoWalEntry {
			add("entry-above-last-present", "GetRaftEntry(%d) above last %d = %+v,%v want ErrNoWalEntry", i, last, got, err)
		}
	}
	// inverse map of live block entries, and the block itself
	live := m.live()
	for _, e := range m.Ents {
		if e.K != "b" {
			continue
		}
		o.liveBlocks++
		got, err := w.GetRaftEntryOfBlock(e.Hash)
		if err != nil || got == nil || got.Index != live[string(e.Hash)] || got.Type != consensus.EntryBlock || !bytes.Equal(got.Data, e.Hash) || got.Term != e.Term {
			add("inverse-live", "GetRaftEntryOfBlock(block %d at index %d) = %+v,%v", e.B, e.Index, got, err)
		}
		if idx, err := w.GetRaftEntryIndexOfBlock(e.Hash); err != nil || idx != live[string(e.Hash)] {
			add("inverse-live", "GetRaftEntryIndexOfBlock(block %d) = %d,%v want %d", e.B, idx, err, e.Index)
		}
		blk, err := w.GetBlock(e.Hash)
		if err != nil || !proto.Equal(blk, mkBlock(e.B)) {
			add("block-materialise", "GetBlock(block %d of entry %d) err=%v equal=false", e.B, e.Index, err)
		}
	}
	// blocks whose entry was overwritten / cleared: "absent, or not that block"
	// (all of the most recently removed ones, and a rotating sample of the older ones)
	dead := make([]string, 0, 40)
	seenDead := map[string]bool{}
	pick := func(hsh string) {
		if _, ok := live[hsh]; !ok && !seenDead[hsh] {
			seenDead[hsh] = true
			dead = append(dead, hsh)
		}
	}
	for i := len(m.Died) - 1; i >= 0 && i >= len(m.Died)-16; i-- {
		pick(m.Died[i])
	}
	if old := len(m.Died) - 16; old > 0 {
		stride := old/16 + 1
		for i := m.Step % stride; i < old; i += stride {
			pick(m.Died[i])
		}
	}
	for _, hsh := range dead {
		got, err := w.GetRaftEntryOfBlock([]byte(hsh))
		switch {
		case err == chain.ErrNoWalEntryForBlock:
			o.deadNoIdx++
		case err != nil:
			o.deadAbsent++
		case got.Type == consensus.EntryBlock && bytes.Equal(got.Data, []byte(hsh)):
			add("inverse-dead-returns-block", "GetRaftEntryOfBlock(block %d, removed from the log) returned entry %d term %d carrying that block", m.Ever[hsh], got.Index, got.Term)
		default:
			o.deadOther++
			add("inverse-dead-returns-other-entry", "GetRaftEntryOfBlock(block %d, removed from the log) returned entry %d term %d, which carries another block (or none): the removed entry must be reported as absent", m.Ever[hsh], got.Index, got.Term)
		}
	}
	// hard state
	hs, err := w.GetHardState()
	if m.HS == nil || *m.HS == (HSSpec{}) {
		if err == nil && hs != nil && (hs.Term != 0 || hs.Vote != 0 || hs.Commit != 0) {
			add("hardstate", "GetHardState=%+v but none was written (or it was cleared)", hs)
		}
	} else if err != nil || hs == nil || hs.Term != m.HS.Term || hs.Vote != m.HS.Vote || hs.Commit != m.HS.Commit {
		add("hardstate", "GetHardState=%+v,%v want %+v", hs, err, *m.HS)
	}
	// snapshot
	sn, err := w.GetSnapshot()
	if m.Snap == nil {
		if err != nil || sn != nil {
			add("snapshot", "GetSnapshot=%v,%v but none was written (or it was cleared)", sn, err)
		}
	} else if err != nil || sn == nil {
		add("snapshot", "GetSnapshot=%v,%v want index %d term %d", sn, err, m.Snap.Index, m.Snap.Term)
	} else {
		ok := sn.Metadata.Index == m.Snap.Index && sn.Metadata.Term == m.Snap.Term && sameU64s(sn.Metadata.ConfState.Nodes, m.Snap.Nodes)
		if m.Snap.Data != nil {
			ok = ok && bytes.Equal(sn.Data, m.Snap.Data)
		} else { // written by ResetWAL: chain part = best block, no members
			var d struct {
				Chain struct {
					No   uint64 `json:"no"`
					Hash []byte `json:"hash"`
				} `json:"chain"`
				Members        []json.RawMessage `json:"members"`
				RemovedMembers []json.RawMessage
			}
			ok = ok && json.Unmarshal(sn.Data, &d) == nil && d.Chain.No == genNo && bytes.Equal(d.Chain.Hash, genHash) && len(d.Members) == 0 && len(d.RemovedMembers) == 0
		}
		if !ok {
			add("snapshot", "GetSnapshot={index %d term %d nodes %v data %q} want {index %d term %d nodes %v}", sn.Metadata.Index, sn.Metadata.Term, sn.Metadata.ConfState.Nodes, sn.Data, m.Snap.Index, m.Snap.Term, m.Snap.Nodes)
		}
	}
	// identity
	id, err := w.GetIdentity()
	if m.ID == nil {
		if err != nil || id != nil {
			add("identity", "GetIdentity=%v,%v but none was written (or it was cleared)", id, err)
		}
	} else if err != nil || id == nil || id.ClusterID != m.ID.Cluster || id.ID != m.ID.ID || id.Name != m.ID.Name || id.PeerID != m.ID.Peer {
		add("identity", "GetIdentity=%+v,%v want %+v", id, err, *m.ID)
	}
	// what the consensus library is handed at start-up
	if m.HS != nil && *m.HS != (HSSpec{}) {
		var snap *raftpb.Snapshot
		if m.Base > 0 {
			snap = &raftpb.Snapshot{Metadata: raftpb.SnapshotMetadata{Index: m.Base}}
		}
		rid, rhs, ents, err := w.ReadAll(snap)
		o.readAll++
		if err != nil {
			add("readall", "ReadAll from %d: %v", m.Base+1, err)
		} else {
			if rhs == nil || rhs.Term != m.HS.Term || rhs.Vote != m.HS.Vote || rhs.Commit != m.HS.Commit {
				add("readall", "ReadAll hard state %+v want %+v", rhs, *m.HS)
			}
			if (rid == nil) != (m.ID == nil) || (rid != nil && (rid.ID != m.ID.ID || rid.Name != m.ID.Name || rid.PeerID != m.ID.Peer || rid.ClusterID != m.ID.Cluster)) {
				add("readall", "ReadAll identity %+v want %+v", rid, m.ID)
			}
			if len(ents) != len(m.Ents) {
				add("readall", "ReadAll returned %d entries want %d", len(ents), len(m.Ents))
			} else {
				for i, e := range ents {
					want := m.Ents[i]
					ok := e.Index == want.Index && e.Term == want.Term
					switch want.K {
					case "b":
						blk := &types.Block{}
						ok = ok && e.Type == raftpb.EntryNormal && e.Data != nil && proto.Unmarshal(e.Data, blk) == nil && proto.Equal(blk, mkBlock(want.B))
					case "e":
						ok = ok && e.Type == raftpb.EntryNormal && len(e.Data) == 0
					case "c":
						ok = ok && e.Type == raftpb.EntryConfChange && bytes.Equal(e.Data, want.Raw)
					}
					if !ok {
						add("readall", "ReadAll entry #%d = {type %v term %d index %d len %d} want {%s term %d index %d}", i, e.Type, e.Term, e.Index, len(e.Data), want.K, want.Term, want.Index)
					}
				}
			}
		}
	}
	return ds
}

// ---------------------------------------------------------------- running a history

type walCase struct {
	Part string `json:"part"`
	Ops  []Op   `json:"ops"`
}

type walStats struct {
	obs
	ops         map[string]int
	crashStates int
	crashMixed  int
	geom        map[string]int
}

func newWalStats() *walStats { return &walStats{ops: map[string]int{}, geom: map[string]int{}} }

func (s *walStats) merge(t *walStats) {
	s.deadAbsent += t.deadAbsent
	s.deadOther += t.deadOther
	s.deadNoIdx += t.deadNoIdx
	s.entries += t.entries
	s.aboveLast += t.aboveLast
	s.liveBlocks += t.liveBlocks
	s.readAll += t.readAll
	s.crashStates += t.crashStates
	s.crashMixed += t.crashMixed
	for k, v := range t.ops {
		s.ops[k] += v
	}
	for k, v := range t.geom {
		s.geom[k] += v
	}
}

type walViolation struct {
	key, desc string
	ops       []Op
}

// checkCrash materialises one crash state in crashDir (plain memorydb) and judges it.
func checkCrash(crashDir string, state map[string][]byte, cands []*Model, genNo uint64, genHash []byte) (ok bool, which int, first []disc) {
	os.MkdirAll(filepath.Join(crashDir, "chain"), 0o755)
	if err := writeGob(filepath.Join(crashDir, "chain", "database"), state); err != nil {
		panic(err)
	}
	cdb := chain.NewChainDB()
	if err := cdb.Init("memorydb", crashDir, nil); err != nil {
		return false, -1, []disc{{"crash-open", err.Error()}}
	}
	w := raftv2.NewWalDB(cdb)
	for i, c := range cands {
		ds := verify(w, c, genNo, genHash, &obs{})
		if len(ds) == 0 {
			return true, i, nil
		}
		if i == 0 {
			first = ds
		}
	}
	return false, -1, first
}

// step executes one op on the store and the model, restarts, and compares. Returns a violation or nil.
func (h *hist) step(m *Model, op Op, done []Op, st *walStats) (v *walViolation) {
	defer func() {
		if r := recover(); r != nil {
			v = &walViolation{key: "wal/panic/" + op.Kind, desc: fmt.Sprintf("panic during %s: %v", op, r), ops: append(append([]Op{}, done...), op)}
		}
	}()
	pre := m.clone()
	isAppend := op.Kind == "save" || op.Kind == "write"
	if isAppend {
		h.j.begin()
	}
	err := h.exec(op)
	var snaps []map[string][]byte
	if isAppend {
		snaps, _ = h.j.end()
	}
	all := append(append([]Op{}, done...), op)
	if err != nil {
		return &walViolation{key: "wal/op-error/" + op.Kind, desc: fmt.Sprintf("%s returned %v", op, err), ops: all}
	}
	m.apply(op)
	st.ops[op.Kind]++
	if err := h.restart(); err != nil {
		return &walViolation{key: "wal/reopen/" + op.Kind, desc: fmt.Sprintf("reopen after %s: %v", op, err), ops: all}
	}
	if ds := verify(h.wal, m, h.genNo, h.genHash, &st.obs); len(ds) > 0 {
		return &walViolation{key: "wal/" + ds[0].class + "/after-" + op.Kind,
			desc: fmt.Sprintf("after %s and restart (op #%d): %s (%d discrepancies)", op, len(all), ds[0].msg, len(ds)), ops: all}
	}
	// crash between two durable units of an append: the log must be the old one or the new one
	// (the hard state is written after the entries, so "new log, old hard state" is legitimate)
	if isAppend && len(snaps) > 1 {
		mixed := m.clone()
		mixed.HS = pre.HS
		cands := []*Model{m, pre, mixed}
		for k := 0; k < len(snaps)-1; k++ {
			st.crashStates++
			ok, which, ds := checkCrash(h.dir+".crash", snaps[k], cands, h.genNo, h.genHash)
			if which == 2 {
				st.crashMixed++
			}
			if !ok {
				return &walViolation{key: "wal/crash-nonatomic/" + op.Kind,
					desc: fmt.Sprintf("a crash after durable unit %d of %d of %s leaves a log that is neither the old nor the new one: vs new log: %s: %s", k+1, len(snaps), op, ds[0].class, ds[0].msg), ops: all}
			}
		}
	}
	return nil
}

func runOps(dir string, ops []Op, st *walStats) *walViolation {
	h, err := openHist(dir)
	if err != nil {
		panic(err)
	}
	defer h.close()
	m := newModel()
	for i, op := range ops {
		if v := h.step(m, op, ops[:i], st); v != nil {
			return v
		}
	}
	return nil
}

// ---------------------------------------------------------------- generators

type gen struct {
	r       *rand.Rand
	term    uint64
	nextBlk int
	nextCC  uint64
}

func (g *gen) ent(m *Model, idx uint64, sameBlockOK bool) EntSpec {
	t := g.term
	switch x := g.r.Intn(10); {
	case x < 6:
		// occasionally re-send the very block already stored at this index
		if sameBlockOK && idx > m.Base && idx <= m.Last() && g.r.Intn(4) == 0 {
			if e := m.Ents[idx-m.Base-1]; e.K == "b" {
				return EntSpec{K: "b", T: t, B: e.B}
			}
		}
		g.nextBlk++
		return EntSpec{K: "b", T: t, B: g.nextBlk}
	case x < 8:
		return EntSpec{K: "e", T: t}
	default:
		g.nextCC++
		c := g.nextCC
		if g.r.Intn(5) == 0 {
			c = 0
		}
		return EntSpec{K: "c", T: t, C: c}
	}
}

func (g *gen) op(m *Model) Op {
	last, base := m.Last(), m.Base
	x := g.r.Intn(100)
	switch {
	case x < 62:
		if g.r.Intn(3) == 0 {
			g.term++
		}
		op := Op{Kind: "save"}
		if g.r.Intn(8) == 0 {
			op.Kind = "write"
		}
		n := 1 + g.r.Intn(4)
		if g.r.Intn(12) == 0 && op.Kind == "save" {
			n = 0
		}
		if n > 0 {
			// first index: append (last+1) or overwrite a suffix; keep the log short
			lo := base + 1
			if last > 6 && lo+6 < last+1 {
				lo = last + 1 - 6
			}
			first := last + 1
			if g.r.Intn(100) < 55 || last-base >= 12 {
				first = lo + uint64(g.r.Int63n(int64(last+1-lo+1)))
			}
			if last-base >= 12 && first > base+8 {
				first = base + 1 + uint64(g.r.Intn(8))
			}
			op.First = first
			for i := 0; i < n; i++ {
				op.Ents = append(op.Ents, g.ent(m, first+uint64(i), true))
			}
		}
		if op.Kind == "save" && (n == 0 || g.r.Intn(2) == 0) {
			nl := last
			if n > 0 {
				nl = op.First + uint64(n) - 1
			}
			op.HS = &HSSpec{Term: max(g.term, 1), Vote: uint64(g.r.Intn(4)), Commit: uint64(g.r.Int63n(int64(nl + 1)))}
		}
		return op
	case x < 72:
		return Op{Kind: "hs", HS: &HSSpec{Term: max(g.term, 1), Vote: uint64(g.r.Intn(4)), Commit: uint64(g.r.Int63n(int64(last + 1)))}}
	case x < 81:
		nodes := []uint64{}
		for i := 0; i < 1+g.r.Intn(4); i++ {
			nodes = append(nodes, uint64(0x100+g.r.Intn(50)))
		}
		return Op{Kind: "snap", Snap: &SnapSpec{Index: uint64(g.r.Int63n(int64(last + 1))), Term: uint64(g.r.Int63n(int64(g.term + 1))), Nodes: nodes, Block: 5000 + g.r.Intn(100), Members: g.r.Intn(4)}}
	case x < 89:
		n := g.r.Intn(1000)
		return Op{Kind: "id", ID: &IDSpec{Cluster: uint64(g.r.Int63()), ID: uint64(g.r.Int63()), Name: fmt.Sprintf("node%d", n), Peer: fmt.Sprintf("16Uiu2HAm%dx", n)}}
	case x < 95:
		g.term++
		return Op{Kind: "reset", HS: &HSSpec{Term: g.term, Commit: uint64(g.r.Int63n(int64(last + 4)))}}
	default:
		return Op{Kind: "clear"}
	}
}

func genHistory(r *rand.Rand, n int) []Op {
	g := &gen{r: r, term: 1, nextBlk: 0, nextCC: 0}
	m := newModel()
	ops := make([]Op, 0, n)
	for len(ops) < n {
		op := g.op(m)
		if (op.Kind == "save" || op.Kind == "write") && len(op.Ents) == 0 && (op.HS == nil || *op.HS == (HSSpec{})) {
			continue
		}
		m.apply(op)
		ops = append(ops, op)
	}
	return ops
}

// kind patterns for the exhaustive pairs
func patterns(n int, full bool, r *rand.Rand) [][]string {
	ks := []string{"b", "e", "c"}
	var out [][]string
	if n <= 2 || (full && n <= 3) {
		tot := 1
		for i := 0; i < n; i++ {
			tot *= 3
		}
		for x := 0; x < tot; x++ {
			p, y := make([]string, n), x
			for i := range p {
				p[i] = ks[y%3]
				y /= 3
			}
			out = append(out, p)
		}
		return out
	}
	seen := map[string]bool{}
	push := func(p []string) {
		k := fmt.Sprint(p)
		if !seen[k] {
			seen[k] = true
			out = append(out, p)
		}
	}
	for o := 0; o < 3; o++ {
		u, rot := make([]string, n), make([]string, n)
		for i := range u {
			u[i], rot[i] = ks[o], ks[(i+o)%3]
		}
		push(u)
		push(rot)
	}
	extra := 2
	if full {
		extra = 40
	}
	for k := 0; k < extra; k++ {
		p := make([]string, n)
		for i := range p {
			p[i] = ks[r.Intn(3)]
		}
		push(p)
	}
	return out
}

// pairCases enumerates: first append [1..a], second append [f..f+l-1] for every overlap geometry with the
// resulting log <= maxLog, every kind pattern, same/higher term, fresh blocks or the same blocks re-sent.
func pairCases(maxLog int, full bool, r *rand.Rand, emit func(geom string, ops []Op)) {
	for a := 1; a <= maxLog; a++ {
		for f := 1; f <= a+1; f++ {
			for l := 1; f+l-1 <= maxLog; l++ {
				end := f + l - 1
				var g string
				switch {
				case f == a+1:
					g = "append"
				case end < a:
					g = "shorter"
				case end == a:
					g = "equal"
				default:
					g = "longer"
				}
				if f == 1 {
					g += "-from-start"
				}
				for _, pa := range patterns(a, full, r) {
					for _, pb := range patterns(l, full, r) {
						for variant := 0; variant < 4; variant++ {
							termB := uint64(1 + variant%2) // same term / conflicting (higher) term
							reuse := variant >= 2          // re-send the same block where both are blocks
							if full && variant == 2 {
								continue
							}
							A := Op{Kind: "save", First: 1}
							for i, k := range pa {
								A.Ents = append(A.Ents, EntSpec{K: k, T: 1, B: btoi(k == "b") * (i + 1), C: uint64(btoi(k == "c") * (i + 1))})
							}
							B := Op{Kind: "save", First: uint64(f), HS: &HSSpec{Term: termB, Vote: 1, Commit: uint64(f - 1)}}
							anyReuse := false
							for i, k := range pb {
								idx := f + i
								e := EntSpec{K: k, T: termB, B: btoi(k == "b") * (100 + idx), C: uint64(btoi(k == "c") * (100 + idx))}
								if reuse && k == "b" && idx <= a && pa[idx-1] == "b" {
									e.B = idx
									anyReuse = true
								}
								B.Ents = append(B.Ents, e)
							}
							if reuse && !anyReuse {
								continue
							}
							if variant == 1 {
								A.HS = &HSSpec{Term: 1, Vote: 2, Commit: 0}
							}
							emit(g, []Op{A, B})
						}
					}
				}
			}
		}
	}
}

func btoi(b bool) int {
	if b {
		return 1
	}
	return 0
}
