// C16 — Raft log storage and membership.
//
// Part 1 (log storage): the real chain.ChainDB raft-WAL methods behind raftv2.WalDB are driven with append
// batches of every overlap geometry, hard-state / snapshot / identity writes, ResetWAL and ClearWAL; after
// EVERY operation the database is closed and a new ChainDB is opened on the directory, and everything
// readable is compared with a reference log.  While an append runs, the store content after each durable
// unit (transaction commit) is journaled and every intermediate content is opened as a crash state.
//
// Part 2 (membership): the real Cluster.ChangeMembership / raftServer.ValidateConfChangeEntry are asked every
// request of a rule table against all clusters of <= 5 members x health vectors x removed sets.
package main

import (
	"encoding/json"
	"fmt"
	"os"
	"path/filepath"
	"sort"
	"sync"
	"time"

	"github.com/aergoio/aergo/v2/chain"
	"github.com/aergoio/aergo/v2/config"
	"github.com/aergoio/aergo/v2/types"
	"github.com/rs/zerolog"

	"verif/h/vf"
)

const workers = 12

func makeTemplate(scratch string) {
	dir := filepath.Join(scratch, "template")
	os.MkdirAll(dir, 0o755)
	cfg := config.NewServerContext("", "").GetDefaultConfig().(*config.Config)
	gen := &types.Genesis{
		ID:        types.ChainID{Version: 0, Magic: "verif.c16", PublicNet: false, MainNet: false, Consensus: "raft"},
		Timestamp: 1600000000000000000,
		Balance:   map[string]string{},
	}
	core, err := chain.NewCore("memorydb", dir, false, 0, cfg.DB)
	if err != nil {
		panic(err)
	}
	if err := core.InitGenesisBlock(gen, false); err != nil {
		panic(err)
	}
	core.Close()
	templateDB = filepath.Join(dir, "chain", "database")
	if _, err := os.Stat(templateDB); err != nil {
		panic(fmt.Sprintf("memorydb did not persist %s: %v", templateDB, err))
	}
}

type job struct {
	id   int
	geom string
	ops  []Op
}

func main() {
	zerolog.SetGlobalLevel(zerolog.FatalLevel) // the code under test logs every refused request at error level
	c := vf.Start("C16", "exploration")
	scratch := c.Scratch()
	makeTemplate(scratch)

	if c.ReplayPath != "" {
		replay(c, scratch)
		return
	}

	t0 := time.Now()
	phase := func(n string) {
		fmt.Fprintf(os.Stderr, "phase %s done at %.1fs\n", n, time.Since(t0).Seconds()) // progress only, never enters a verdict
	}
	total := newWalStats()
	var mu sync.Mutex
	report := func(v *walViolation) {
		c.Violation(v.key, v.desc, walCase{Part: "wal", Ops: v.ops})
	}

	// ---- 1a. exhaustive pairs of appends
	runJobs := func(name string, produce func(chan<- job)) {
		jobs := make(chan job, 256)
		var wg sync.WaitGroup
		for w := 0; w < workers; w++ {
			wg.Add(1)
			go func(w int) {
				defer wg.Done()
				st := newWalStats()
				for j := range jobs {
					dir := filepath.Join(scratch, fmt.Sprintf("w%d", w))
					v := runOps(dir, j.ops, st)
					c.Eval(len(j.ops))
					if j.geom != "" {
						st.geom[j.geom]++
					}
					if v != nil {
						report(v)
					} else {
						b, _ := json.Marshal(j.ops)
						if len(j.ops) <= 2 {
							c.Nontrivial(name + string(b))
						} else {
							for i := range j.ops {
								c.Nontrivial(fmt.Sprintf("%s/%d/%d", name, j.id, i))
							}
						}
					}
				}
				mu.Lock()
				total.merge(st)
				mu.Unlock()
			}(w)
		}
		produce(jobs)
		close(jobs)
		wg.Wait()
	}

	pairs := 0
	{
		runJobs("pair", func(out chan<- job) {
			r := c.Rand("pair-patterns")
			pairCases(5, c.Thorough(), r, func(geom string, ops []Op) {
				pairs++
				if pairs <= 3 {
					c.Sample(map[string]interface{}{"kind": "append-pair", "geometry": geom, "ops": ops})
				}
				out <- job{id: pairs, geom: geom, ops: ops}
			})
		})
	}
	c.Count("wal_pair_cases", pairs)
	phase("pairs")

	// ---- 1b. random histories
	nh, nops := c.Pick(48, 400), c.Pick(200, 300)
	runJobs("hist", func(out chan<- job) {
		for i := 0; i < nh; i++ {
			ops := genHistory(c.Rand(fmt.Sprintf("hist-%d", i)), nops)
			if i == 0 {
				c.Sample(map[string]interface{}{"kind": "history-prefix", "ops": ops[:8]})
			}
			out <- job{id: i, ops: ops}
		}
	})
	c.Count("wal_histories", nh)
	phase("histories")
	for k, v := range total.ops {
		c.Count("wal_op_"+k, v)
	}
	for k, v := range total.geom {
		c.Count("wal_pair_geometry_"+k, v)
	}
	c.Count("wal_restarts", sum(total.ops))
	c.Count("wal_entries_compared", total.entries)
	c.Count("wal_absent_above_last_checked", total.aboveLast)
	c.Count("wal_live_block_lookups", total.liveBlocks)
	c.Count("wal_readall_compared", total.readAll)
	c.Count("wal_crash_states_opened", total.crashStates)
	c.Count("wal_crash_states_new_log_old_hardstate", total.crashMixed)
	c.Count("wal_removed_block_lookup_no_index", total.deadNoIdx)
	c.Count("wal_removed_block_lookup_absent", total.deadAbsent)
	c.Count("wal_removed_block_lookup_other_entry", total.deadOther)

	// ---- 2. membership
	mtotal := newMbrStats()
	var cfgs []mbrCfg
	enumCfgs(5, true, func(cfg mbrCfg) { cfgs = append(cfgs, cfg) })
	cfgCh := make(chan mbrCfg, 64)
	var wg sync.WaitGroup
	for w := 0; w < workers; w++ {
		wg.Add(1)
		go func() {
			defer wg.Done()
			st := newMbrStats()
			for cfg := range cfgCh {
				// the apply-time path ignores health: run it on the healthy vector and on one degraded vector
				deg := 0
				for _, h := range cfg.Health {
					if h != hHealthy {
						deg++
					}
				}
				apiOnly := !(deg == 0 || (deg == 1 && cfg.Health[cfg.N-1] == hSyncing))
				for _, v := range runCfg(cfg, apiOnly, st) {
					c.Violation(v.key, v.desc, v.c)
				}
			}
			mu.Lock()
			mtotal.merge(st)
			mu.Unlock()
		}()
	}
	for _, cfg := range cfgs {
		cfgCh <- cfg
	}
	close(cfgCh)
	wg.Wait()
	c.Count("mbr_configurations", len(cfgs))
	c.Sample(map[string]interface{}{"kind": "membership-request", "case": mbrCase{Part: "mbr", mbrCfg: mbrCfg{N: 3, Removed: 1, Health: []int{0, 0, 2}, Leader: 0}, Path: "api", Req: mbrReq{Target: 1}},
		"expected": "refused: removing healthy m1 leaves 1 healthy of 2 members (quorum 2)"})
	phase("membership table")

	walks := c.Pick(40, 400)
	wst := newMbrStats()
	for i := 0; i < walks; i++ {
		r := c.Rand(fmt.Sprintf("walk-%d", i))
		steps := make([]int, 30)
		for k := range steps {
			steps[k] = r.Intn(64)
		}
		for _, v := range runWalk(steps, wst) {
			c.Violation(v.key, v.desc, map[string]interface{}{"part": "walk", "steps": steps})
		}
	}
	mtotal.merge(wst)
	c.Count("mbr_walks", walks)
	keys := make([]string, 0, len(mtotal.count))
	for k := range mtotal.count {
		keys = append(keys, k)
	}
	sort.Strings(keys)
	open := map[string]int{}
	for _, k := range keys {
		if len(k) > 5 && k[:5] == "open_" {
			open[k[5:]] = mtotal.count[k]
			continue
		}
		c.Count("mbr_"+k, mtotal.count[k])
	}
	c.Set("membership_open_cases_observed", open)
	c.Eval(mtotal.count["requests_api"] + mtotal.count["requests_entry"] + mtotal.count["walk_requests"])
	for k := range mtotal.distin {
		c.Nontrivial("mbr|" + k)
	}
	if mtotal.count["health_class_mismatch"] > 0 {
		c.Inconclusive("the stub raft status was not classified as the harness intended (health vector mismatch)")
	}
	c.Set("removed_block_lookup_rule", "GetRaftEntryOfBlock(hash of a block whose entry was overwritten/cleared) must be an error (absent); observed outcomes are counted in wal_removed_block_lookup_*")

	c.Finish("every restart after every op reproduces the reference log (entries, absent indices, last index, inverse map, blocks, hard state, snapshot, identity, ReadAll); every crash state inside an append is old-or-new; every membership request decided per the rule table",
		c.Pick(5000, 50000),
		"restart = Close + new ChainDB on the same directory (memorydb persists on Close); crash states = store content after each durable unit of an append, on memorydb semantics (units atomic)",
		"append batches are contiguous and start at or below last+1 and above the last reset point (what raft hands to storage); the same block is never stored at two different live indices",
		"health of a member is what the leader's raft progress reports: replicate near the leader's last index = healthy, probe or > 3x slow-gap behind = slow, snapshot = syncing; boundary gaps are not used",
		"converse (acceptance) is demanded only for fresh adds / removes on fully healthy clusters",
	)
}

func sum(m map[string]int) int {
	t := 0
	for _, v := range m {
		t += v
	}
	return t
}

func replay(c *vf.Ctx, scratch string) {
	var raw map[string]json.RawMessage
	if err := c.LoadReplay(&raw); err != nil {
		fmt.Println("cannot load replay:", err)
		os.Exit(2)
	}
	var part string
	json.Unmarshal(raw["part"], &part)
	switch part {
	case "wal":
		var wc walCase
		c.LoadReplay(&wc)
		if v := runOps(filepath.Join(scratch, "replay"), wc.Ops, newWalStats()); v != nil {
			c.Violation(v.key, v.desc, walCase{Part: "wal", Ops: v.ops})
		}
	case "mbr":
		var mc mbrCase
		c.LoadReplay(&mc)
		rig, _, _, err := buildRig(mc.mbrCfg)
		if err != nil {
			panic(err)
		}
		want, why := expect(mc)
		acc, err, _ := evalReq(rig, mc)
		fmt.Printf("request %+v on n=%d health=%v: accepted=%v err=%v, expected %d (%s)\n", mc.Req, mc.N, mc.Health, acc, err, want, why)
		if (want == -1 && acc) || (want == 1 && !acc) {
			c.Violation("mbr/replay/"+reqClass(mc), why, mc)
		}
	case "walk":
		var wk struct{ Steps []int }
		c.LoadReplay(&wk)
		for _, v := range runWalk(wk.Steps, newMbrStats()) {
			c.Violation(v.key, v.desc, map[string]interface{}{"part": "walk", "steps": wk.Steps})
		}
	}
	c.Finish("replay", 0)
}
