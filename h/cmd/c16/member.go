package main

// Part 2: cluster membership rules, driven through the real Cluster.ChangeMembership (API path) and
// raftServer.ValidateConfChangeEntry (apply-time path) on the hook rig; oracle = the rule table of the
// property, written here from the statement only.

import (
	"encoding/json"
	"fmt"

	"github.com/aergoio/aergo/v2/consensus"
	"github.com/aergoio/aergo/v2/consensus/impl/raftv2"
	"github.com/aergoio/aergo/v2/types"
	"github.com/aergoio/etcd/raft/raftpb"
)

const (
	hHealthy   = 0 // replicating, match close to the leader's last index
	hSlowProbe = 1 // raft is probing the follower
	hSlowGap   = 2 // replicating but far behind
	hSyncing   = 3 // receiving a snapshot
)

const (
	srcFresh   = -1
	srcRemoved = 100 // 100+k: k-th removed member
	tgtUnknown = -1
	tgtZero    = -2
)

type mbrReq struct {
	Add bool `json:"add"`
	// add: where each attribute of the proposed member comes from: -1 fresh, j member j, 100+k removed k
	Name, Addr, Peer, ID int
	// remove: j member j, 100+k removed k, -1 unknown id, -2 id 0
	Target int
}

type mbrCfg struct {
	N       int   `json:"n"`
	Removed int   `json:"removed"`
	Health  []int `json:"health"`
	Leader  int   `json:"leader"`
}

type mbrCase struct {
	Part string `json:"part"`
	mbrCfg
	Path string `json:"path"` // api | entry
	Req  mbrReq `json:"req"`
}

func mbrAt(i int) raftv2.VerifMember {
	return raftv2.VerifMember{ID: uint64(0x1000 + i + 1), Name: fmt.Sprintf("m%d", i), Address: fmt.Sprintf("/ip4/10.0.%d.%d/tcp/7846", i/200, i%200+1), PeerID: mkPeerID(fmt.Sprintf("m%d", i))}
}

func srcIndex(s int) int {
	switch {
	case s == srcFresh:
		return 40
	case s >= srcRemoved:
		return 20 + s - srcRemoved
	}
	return s
}

func isMember(s int) bool  { return s >= 0 && s < srcRemoved }
func isRemoved(s int) bool { return s >= srcRemoved }

func allHealthy(h []int) bool {
	for _, x := range h {
		if x != hHealthy {
			return false
		}
	}
	return true
}

// expect: +1 the request must be accepted, -1 it must be refused, 0 the statement leaves it open.
func expect(c mbrCase) (int, string) {
	r := c.Req
	if r.Add {
		if c.Path == "entry" {
			if isMember(r.ID) {
				return -1, "add duplicates a member's id"
			}
			if isRemoved(r.ID) {
				return -1, "add re-adds a removed member (same id)"
			}
		}
		switch {
		case isMember(r.Name):
			return -1, "add duplicates a member's name"
		case isMember(r.Addr):
			return -1, "add duplicates a member's address"
		case isMember(r.Peer):
			return -1, "add duplicates a member's peer id"
		}
		if isRemoved(r.Name) || isRemoved(r.Addr) || isRemoved(r.Peer) {
			return 0, "add reuses attributes of a removed member under another id"
		}
		if allHealthy(c.Health) {
			return +1, "add of a fresh member to a fully healthy cluster"
		}
		return 0, "add of a fresh member while some member is unhealthy"
	}
	if !isMember(r.Target) {
		return -1, "remove of an unknown member"
	}
	if c.Path == "entry" {
		if allHealthy(c.Health) {
			return +1, "apply-time validation of removing a member"
		}
		return 0, ""
	}
	n, healthy := c.N, 0
	for _, x := range c.Health {
		if x == hHealthy {
			healthy++
		}
	}
	if c.Health[r.Target] == hHealthy {
		// after the removal there are n-1 members, quorum (n-1)/2+1, and one healthy node less
		if healthy-1 < (n-1)/2+1 {
			return -1, "remove of a healthy node leaves the healthy nodes below quorum"
		}
		if healthy == n {
			return +1, "remove of a member of a fully healthy cluster that keeps quorum"
		}
	}
	return 0, "remove in a degraded cluster"
}

type mbrStats struct {
	count  map[string]int
	distin map[string]bool
}

func newMbrStats() *mbrStats { return &mbrStats{count: map[string]int{}, distin: map[string]bool{}} }
func (s *mbrStats) merge(t *mbrStats) {
	for k, v := range t.count {
		s.count[k] += v
	}
	for k := range t.distin {
		s.distin[k] = true
	}
}

type mbrViolation struct {
	key, desc string
	c         mbrCase
}

func buildRig(cfg mbrCfg) (*raftv2.VerifRig, []raftv2.VerifMember, []raftv2.VerifMember, error) {
	var members, removed []raftv2.VerifMember
	for i := 0; i < cfg.N; i++ {
		members = append(members, mbrAt(i))
	}
	for k := 0; k < cfg.Removed; k++ {
		removed = append(removed, mbrAt(20+k))
	}
	gap := raftv2.MaxSlowNodeGap
	last := 10*gap + 50
	prog := map[uint64]raftv2.VerifProgress{}
	for i, m := range members {
		switch cfg.Health[i] {
		case hHealthy:
			prog[m.ID] = raftv2.VerifProgress{State: 1, Match: last - uint64(i%3)}
		case hSlowProbe:
			prog[m.ID] = raftv2.VerifProgress{State: 0, Match: last - 1}
		case hSlowGap:
			prog[m.ID] = raftv2.VerifProgress{State: 1, Match: last - 3*gap - 1}
		case hSyncing:
			prog[m.ID] = raftv2.VerifProgress{State: 2, Match: 0}
		}
	}
	self := members[cfg.Leader]
	rig, err := raftv2.VerifMembershipRig([]byte("verif-c16"), self.ID, self.Name, true, members, removed, last, prog)
	return rig, members, removed, err
}

func sameMembers(a, b []raftv2.VerifMember) bool {
	if len(a) != len(b) {
		return false
	}
	seen := map[uint64]raftv2.VerifMember{}
	for _, m := range a {
		seen[m.ID] = m
	}
	for _, m := range b {
		x, ok := seen[m.ID]
		if !ok || x.Name != m.Name || x.Address != m.Address || string(x.PeerID) != string(m.PeerID) {
			return false
		}
	}
	return true
}

func evalReq(rig *raftv2.VerifRig, c mbrCase) (accepted bool, err error, cc *raftpb.ConfChange) {
	r := c.Req
	if c.Path == "api" {
		req := &types.MembershipChange{RequestID: 77}
		if r.Add {
			req.Type = types.MembershipChangeType_ADD_MEMBER
			req.Attr = &types.MemberAttr{Name: mbrAt(srcIndex(r.Name)).Name, Address: mbrAt(srcIndex(r.Addr)).Address, PeerID: mbrAt(srcIndex(r.Peer)).PeerID}
		} else {
			req.Type = types.MembershipChangeType_REMOVE_MEMBER
			var id uint64
			switch {
			case r.Target == tgtUnknown:
				id = 0xdead0001
			case r.Target == tgtZero:
				id = 0
			default:
				id = mbrAt(srcIndex(r.Target)).ID
			}
			req.Attr = &types.MemberAttr{ID: id}
		}
		cc, err = rig.ChangeMembership(req)
		return err == nil, err, cc
	}
	// apply-time path: a conf-change log entry carrying the member as JSON context
	m := &consensus.Member{}
	typ := raftpb.ConfChangeAddNode
	if r.Add {
		m.SetAttr(&types.MemberAttr{ID: mbrAt(srcIndex(r.ID)).ID, Name: mbrAt(srcIndex(r.Name)).Name, Address: mbrAt(srcIndex(r.Addr)).Address, PeerID: mbrAt(srcIndex(r.Peer)).PeerID})
	} else {
		typ = raftpb.ConfChangeRemoveNode
		id := uint64(0xdead0001)
		if r.Target >= 0 {
			id = mbrAt(srcIndex(r.Target)).ID
		}
		m.SetAttr(&types.MemberAttr{ID: id})
	}
	ctx, _ := json.Marshal(m)
	ccv := raftpb.ConfChange{ID: 78, Type: typ, NodeID: m.ID, Context: ctx}
	data, _ := ccv.Marshal()
	err = rig.ValidateConfChangeEntry(&raftpb.Entry{Type: raftpb.EntryConfChange, Term: 1, Index: 1, Data: data})
	return err == nil, err, nil
}

// requests enumerates the request table for one cluster configuration.
func requests(cfg mbrCfg, apiOnly bool) []mbrCase {
	var out []mbrCase
	mk := func(path string, r mbrReq) { out = append(out, mbrCase{Part: "mbr", mbrCfg: cfg, Path: path, Req: r}) }
	srcs := []int{srcFresh}
	for j := 0; j < cfg.N; j++ {
		srcs = append(srcs, j)
	}
	for k := 0; k < cfg.Removed; k++ {
		srcs = append(srcs, srcRemoved+k)
	}
	// add, API path: every combination of attribute origins (fresh / member j / removed k).
	// In a degraded cluster every add is refused for health anyway, so only single-origin requests are asked there.
	for _, a := range srcs {
		for _, b := range srcs {
			for _, p := range srcs {
				if !allHealthy(cfg.Health) {
					d := map[int]bool{}
					for _, s := range []int{a, b, p} {
						if s != srcFresh {
							d[s] = true
						}
					}
					if len(d) > 1 {
						continue
					}
				}
				mk("api", mbrReq{Add: true, Name: a, Addr: b, Peer: p, ID: srcFresh})
			}
		}
	}
	// remove, API path
	for j := 0; j < cfg.N; j++ {
		mk("api", mbrReq{Target: j})
	}
	for k := 0; k < cfg.Removed; k++ {
		mk("api", mbrReq{Target: srcRemoved + k})
	}
	mk("api", mbrReq{Target: tgtUnknown})
	mk("api", mbrReq{Target: tgtZero})
	if apiOnly {
		return out
	}
	// apply-time path: the id is part of the request too
	for _, id := range srcs {
		for _, a := range srcs {
			for _, b := range srcs {
				for _, p := range srcs {
					// keep the table small: at most two distinct non-fresh origins
					d := map[int]bool{}
					for _, s := range []int{id, a, b, p} {
						if s != srcFresh {
							d[s] = true
						}
					}
					if len(d) > 2 {
						continue
					}
					mk("entry", mbrReq{Add: true, ID: id, Name: a, Addr: b, Peer: p})
				}
			}
		}
	}
	for j := 0; j < cfg.N; j++ {
		mk("entry", mbrReq{Target: j})
	}
	for k := 0; k < cfg.Removed; k++ {
		mk("entry", mbrReq{Target: srcRemoved + k})
	}
	mk("entry", mbrReq{Target: tgtUnknown})
	return out
}

func reqClass(c mbrCase) string {
	r := c.Req
	cl := func(s int) string {
		switch {
		case s == srcFresh:
			return "f"
		case isRemoved(s):
			return "r"
		}
		return "m"
	}
	if r.Add {
		return fmt.Sprintf("%s/add/id=%s,name=%s,addr=%s,peer=%s", c.Path, cl(r.ID), cl(r.Name), cl(r.Addr), cl(r.Peer))
	}
	t := "member"
	switch {
	case r.Target == tgtUnknown:
		t = "unknown"
	case r.Target == tgtZero:
		t = "zero-id"
	case isRemoved(r.Target):
		t = "removed"
	default:
		t = "member-" + []string{"healthy", "slow", "slow", "syncing"}[c.Health[r.Target]]
	}
	return fmt.Sprintf("%s/remove/%s", c.Path, t)
}

// runCfg evaluates every request of one configuration on one rig.
func runCfg(cfg mbrCfg, apiOnly bool, st *mbrStats) (vs []mbrViolation) {
	rig, members, removed, err := buildRig(cfg)
	if err != nil {
		panic(fmt.Sprintf("rig: %v", err))
	}
	// the health vector the harness intends must be what the real GetClusterProgress derives from the stub status
	n, status, err := rig.ClusterProgress()
	if err != nil || n != cfg.N {
		st.count["health_class_mismatch"]++
	}
	for i, m := range members {
		want := map[int]int{hHealthy: 0, hSlowProbe: 1, hSlowGap: 1, hSyncing: 2}[cfg.Health[i]]
		if status[m.ID] != want {
			st.count["health_class_mismatch"]++
		}
	}
	for _, c := range requests(cfg, apiOnly) {
		func() {
			defer func() {
				if r := recover(); r != nil {
					vs = append(vs, mbrViolation{key: "mbr/panic/" + reqClass(c), desc: fmt.Sprintf("panic: %v", r), c: c})
				}
			}()
			want, why := expect(c)
			acc, err, cc := evalReq(rig, c)
			cls := reqClass(c)
			st.count["requests_"+c.Path]++
			if acc {
				st.count["accepted"]++
			} else {
				st.count["refused"]++
			}
			switch want {
			case -1:
				st.count["must_refuse"]++
				st.distin[fmt.Sprintf("%v|%s|%+v", cfg, c.Path, c.Req)] = true
				if acc {
					vs = append(vs, mbrViolation{key: "mbr/accepted/" + cls, desc: fmt.Sprintf("%s, but the request was accepted; cluster n=%d health=%v removed=%d request=%+v", why, cfg.N, cfg.Health, cfg.Removed, c.Req), c: c})
				}
			case +1:
				st.count["must_accept"]++
				st.distin[fmt.Sprintf("%v|%s|%+v", cfg, c.Path, c.Req)] = true
				if !acc {
					vs = append(vs, mbrViolation{key: "mbr/refused/" + cls, desc: fmt.Sprintf("%s, but it was refused with %q; cluster n=%d health=%v removed=%d request=%+v", why, err, cfg.N, cfg.Health, cfg.Removed, c.Req), c: c})
				}
				// an accepted API proposal names the right node
				if acc && c.Path == "api" && cc != nil {
					if !c.Req.Add && cc.NodeID != mbrAt(srcIndex(c.Req.Target)).ID {
						vs = append(vs, mbrViolation{key: "mbr/proposal-wrong-node/" + cls, desc: fmt.Sprintf("remove proposal names node %x", cc.NodeID), c: c})
					}
				}
			default:
				st.count["open_"+map[bool]string{true: "accepted", false: "refused"}[acc]+"/"+why]++
			}
		}()
	}
	// validation must not have changed the configuration
	a2, r2 := rig.Members()
	if !sameMembers(a2, members) || !sameMembers(r2, removed) || len(a2) != len(members) || len(r2) != len(removed) {
		st.count["config_changed_by_validation"]++
	}
	return vs
}

func enumCfgs(maxN int, leaders bool, emit func(mbrCfg)) {
	for n := 1; n <= maxN; n++ {
		for removed := 0; removed <= 2; removed++ {
			ls := []int{0}
			if leaders && n > 1 {
				ls = append(ls, n-1)
			}
			for _, leader := range ls {
				tot := 1
				for i := 0; i < n-1; i++ {
					tot *= 4
				}
				for x := 0; x < tot; x++ {
					h, y := make([]int, n), x
					for i := 0; i < n; i++ {
						if i == leader {
							continue
						}
						h[i] = y % 4
						y /= 4
					}
					emit(mbrCfg{N: n, Removed: removed, Health: h, Leader: leader})
				}
			}
		}
	}
}

// ---------------------------------------------------------------- evolving clusters (removed-member tracking)

type walkStep struct {
	Add    bool `json:"add"`
	Member int  `json:"member"` // index of the member (mbrAt)
	Path   string
}

// runWalk drives one cluster through a sequence of accepted adds/removes applied with the real
// addMember/removeMember, asking before every step a batch of requests against the evolving configuration.
func runWalk(seedSteps []int, st *mbrStats) (vs []mbrViolation) {
	cfg := mbrCfg{N: 3, Health: []int{0, 0, 0}}
	rig, _, _, err := buildRig(cfg)
	if err != nil {
		panic(err)
	}
	in := map[int]bool{0: true, 1: true, 2: true}
	gone := map[int]bool{}
	ask := func(add bool, idx int) (bool, error) {
		m := &consensus.Member{}
		v := mbrAt(idx)
		typ := raftpb.ConfChangeAddNode
		if add {
			m.SetAttr(&types.MemberAttr{ID: v.ID, Name: v.Name, Address: v.Address, PeerID: v.PeerID})
		} else {
			typ = raftpb.ConfChangeRemoveNode
			m.SetAttr(&types.MemberAttr{ID: v.ID})
		}
		ctx, _ := json.Marshal(m)
		ccv := raftpb.ConfChange{ID: 99, Type: typ, NodeID: v.ID, Context: ctx}
		data, _ := ccv.Marshal()
		err := rig.ValidateConfChangeEntry(&raftpb.Entry{Type: raftpb.EntryConfChange, Term: 1, Index: 1, Data: data})
		return err == nil, err
	}
	for stepNo, s := range seedSteps {
		idx := s % 8
		for probe := 0; probe < 8; probe++ { // the whole request table against the current configuration
			for _, add := range []bool{true, false} {
				acc, err := ask(add, probe)
				st.count["walk_requests"]++
				var want int
				var why string
				switch {
				case add && in[probe]:
					want, why = -1, "add of a current member"
				case add && gone[probe]:
					want, why = -1, "re-add of a removed member"
				case add:
					want, why = +1, "add of a never-seen member"
				case !add && in[probe]:
					want, why = +1, "remove of a current member"
				default:
					want, why = -1, "remove of an unknown/removed member"
				}
				st.distin[fmt.Sprintf("walk|%v|%v|%v|%d", in, gone, add, probe)] = true
				if (want == 1) != acc {
					vs = append(vs, mbrViolation{key: fmt.Sprintf("mbr/walk/%s", why), desc: fmt.Sprintf("step %d: %s: accepted=%v err=%v (members %v, removed %v)", stepNo, why, acc, err, in, gone),
						c: mbrCase{Part: "walk"}})
					return vs
				}
			}
		}
		// evolve
		switch {
		case in[idx] && idx != 0 && len(in) > 1:
			if err := rig.Apply(false, mbrAt(idx)); err != nil {
				panic(err)
			}
			delete(in, idx)
			gone[idx] = true
			st.count["walk_removed"]++
		case !in[idx] && !gone[idx]:
			if err := rig.Apply(true, mbrAt(idx)); err != nil {
				panic(err)
			}
			in[idx] = true
			st.count["walk_added"]++
		}
	}
	return vs
}
