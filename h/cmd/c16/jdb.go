package main

// A journaling key-value store registered with aergo-lib/db under the name "verifmem".
//
// chain.ChainDB creates its store with db.NewDB(db.ImplType(dbType), ...), and aergo-lib keeps the
// constructors in an unexported map; we add one more constructor to that map (linkname to the variable,
// no change to any source tree).  The store delegates every operation to a real aergo-lib memorydb opened
// on the same directory (so Close persists <dir>/database and a later open reloads it, exactly like
// "memorydb"), and additionally keeps a shadow copy that is advanced one *durable unit* at a time
// (transaction commit, bulk flush, direct Set/Delete).  When capturing is on, the shadow content after
// every unit is kept: these are the states a crash between two units would leave behind.

import (
	"container/list"
	"encoding/gob"
	"os"
	"path"
	"sync"
	_ "unsafe"

	"github.com/aergoio/aergo-lib/db"
)

//go:linkname dbImpls github.com/aergoio/aergo-lib/db.dbImpls
var dbImpls map[db.ImplType]func(dir string, opts ...db.Option) (db.DB, error)

const jdbName = "verifmem"

var jreg sync.Map // dir -> *journal (survives reopen of the same directory)

type journal struct {
	mu      sync.Mutex
	shadow  map[string][]byte
	capture bool
	units   int
	snaps   []map[string][]byte
	kinds   []string
}

func journalFor(dir string) *journal {
	j, _ := jreg.LoadOrStore(dir, &journal{})
	return j.(*journal)
}

func dropJournal(dir string) { jreg.Delete(dir) }

func init() {
	dbImpls[db.ImplType(jdbName)] = func(dir string, opts ...db.Option) (db.DB, error) {
		inner := db.NewDB(db.MemoryImpl, dir)
		j := journalFor(dir)
		j.mu.Lock()
		j.shadow = loadGob(path.Join(dir, "database"))
		j.mu.Unlock()
		return &jdb{inner: inner, j: j}, nil
	}
}

func loadGob(file string) map[string][]byte {
	m := map[string][]byte{}
	f, err := os.Open(file)
	if err != nil {
		return m
	}
	defer f.Close()
	var d map[string][]byte
	if gob.NewDecoder(f).Decode(&d) == nil && d != nil {
		m = d
	}
	return m
}

func writeGob(file string, m map[string][]byte) error {
	f, err := os.OpenFile(file, os.O_WRONLY|os.O_CREATE|os.O_TRUNC, 0o644)
	if err != nil {
		return err
	}
	defer f.Close()
	return gob.NewEncoder(f).Encode(m)
}

func copyMap(m map[string][]byte) map[string][]byte {
	c := make(map[string][]byte, len(m))
	for k, v := range m {
		c[k] = v // values are never mutated in place
	}
	return c
}

type kvop struct {
	set  bool
	k, v []byte
}

func (j *journal) unit(kind string, ops []kvop) {
	j.mu.Lock()
	defer j.mu.Unlock()
	for _, o := range ops {
		if o.set {
			v := o.v
			if v == nil {
				v = []byte{}
			}
			j.shadow[string(o.k)] = append([]byte(nil), v...)
		} else {
			delete(j.shadow, string(o.k))
		}
	}
	j.units++
	if j.capture {
		j.snaps = append(j.snaps, copyMap(j.shadow))
		j.kinds = append(j.kinds, kind)
	}
}

func (j *journal) begin() {
	j.mu.Lock()
	j.capture, j.snaps, j.kinds = true, nil, nil
	j.mu.Unlock()
}

func (j *journal) end() ([]map[string][]byte, []string) {
	j.mu.Lock()
	defer j.mu.Unlock()
	j.capture = false
	s, k := j.snaps, j.kinds
	j.snaps, j.kinds = nil, nil
	return s, k
}

func (j *journal) current() map[string][]byte {
	j.mu.Lock()
	defer j.mu.Unlock()
	return copyMap(j.shadow)
}

type jdb struct {
	inner db.DB
	j     *journal
}

func (d *jdb) Type() string { return jdbName }
func (d *jdb) Set(k, v []byte) {
	d.inner.Set(k, v)
	d.j.unit("set", []kvop{{true, append([]byte(nil), k...), v}})
}
func (d *jdb) Delete(k []byte) {
	d.inner.Delete(k)
	d.j.unit("delete", []kvop{{false, append([]byte(nil), k...), nil}})
}
func (d *jdb) Get(k []byte) []byte              { return d.inner.Get(k) }
func (d *jdb) Exist(k []byte) bool              { return d.inner.Exist(k) }
func (d *jdb) Iterator(s, e []byte) db.Iterator { return d.inner.Iterator(s, e) }
func (d *jdb) Close()                           { d.inner.Close() }
func (d *jdb) NewTx() db.Transaction            { return &jtx{d: d, inner: d.inner.NewTx(), ops: list.New()} }
func (d *jdb) NewBulk() db.Bulk                 { return &jbulk{d: d, inner: d.inner.NewBulk(), ops: list.New()} }

type jtx struct {
	d     *jdb
	inner db.Transaction
	ops   *list.List
}

func (t *jtx) Set(k, v []byte) {
	t.inner.Set(k, v)
	t.ops.PushBack(kvop{true, append([]byte(nil), k...), append([]byte(nil), v...)})
}
func (t *jtx) Delete(k []byte) {
	t.inner.Delete(k)
	t.ops.PushBack(kvop{false, append([]byte(nil), k...), nil})
}
func (t *jtx) Commit() {
	t.inner.Commit()
	t.d.j.unit("tx", drain(t.ops))
}
func (t *jtx) Discard() { t.inner.Discard() }

type jbulk struct {
	d     *jdb
	inner db.Bulk
	ops   *list.List
}

func (b *jbulk) Set(k, v []byte) {
	b.inner.Set(k, v)
	b.ops.PushBack(kvop{true, append([]byte(nil), k...), append([]byte(nil), v...)})
}
func (b *jbulk) Delete(k []byte) {
	b.inner.Delete(k)
	b.ops.PushBack(kvop{false, append([]byte(nil), k...), nil})
}
func (b *jbulk) Flush() {
	b.inner.Flush()
	b.d.j.unit("bulk", drain(b.ops))
}
func (b *jbulk) DiscardLast() { b.inner.DiscardLast() }

func drain(l *list.List) []kvop {
	out := make([]kvop, 0, l.Len())
	for e := l.Front(); e != nil; e = e.Next() {
		out = append(out, e.Value.(kvop))
	}
	l.Init()
	return out
}
