// C20 contract queries, fee-delegation checks and view functions cannot change state.
package main

import (
	"encoding/json"
	"fmt"
	"math/big"
	"os"
	"path/filepath"
	"regexp"
	"sort"
	"strings"
	"sync"

	"github.com/aergoio/aergo/v2/types"

	"verif/h/rig"
	"verif/h/vf"
)

const luaM = `
state.var { v = state.value(), m = state.map(), arr = state.array(3) }
function constructor() v:set(0) m["k"] = "init" end
local SRC = "function f() end abi.register(f)"
local function ops(n, a, b)
  if n == "var_set" then v:set((v:get() or 0) + 1)
  elseif n == "map_set" then m["k2"] = "x"
  elseif n == "map_del" then m:delete("k")
  elseif n == "arr_set" then arr[1] = 5
  elseif n == "setItem" then system.setItem("raw", "1")
  elseif n == "send" then contract.send(a, 1)
  elseif n == "call_mut" then contract.call(a, "mut", "var_set")
  elseif n == "call_value" then contract.call.value(1)(a, "noop")
  elseif n == "delegatecall_mut" then contract.delegatecall(a, "mut", "var_set")
  elseif n == "deploy" then contract.deploy(SRC)
  elseif n == "deploy_value" then contract.deploy.value(1)(SRC)
  elseif n == "event" then contract.event("ev", 1)
  elseif n == "stake" then contract.stake("10000 aergo")
  elseif n == "unstake" then contract.unstake("10000 aergo")
  elseif n == "vote" then contract.vote(a)
  elseif n == "voteDao" then contract.voteDao("BPCOUNT", "3")
  elseif n == "pcall_event" then local ok, e = contract.pcall(function() contract.event("p", 1) end) if not ok then error(e) end
  elseif n == "generic" then _G[a][b]("x", "y")
  elseif n == "read" then return v:get()
  else error("unknown op " .. tostring(n)) end
end
function mut(n, a, b) return ops(n, a, b) end
function vmut(n, a, b) return ops(n, a, b) end
function vmut_p(n, a, b) local ok, e = pcall(ops, n, a, b) return ok end
function vcall(other, n, a, b) return contract.call(other, "mut", n, a, b) end
function vnest(n, a, b) return vmut(n, a, b) end
function pv() end
function vrc(other, n, a, b) pcall(function() contract.call.value(1)(other, "pv") end) return ops(n, a, b) end
function vrc2(other, n, a, b) pcall(function() contract.call.value(1)(other, "pv") end) pcall(function() contract.call.value(1)(other, "pv") end) return ops(n, a, b) end
function nrc(other, n, a, b) pcall(function() contract.call.value("900000000 aergo")(other, "pv") end) return vmut(n, a, b) end
function vafc(other, n, a, b) pcall(contract.call, other, "mut", "nosuchop") return ops(n, a, b) end
function vafcp(other, n, a, b) contract.pcall(contract.call, other, "mut", "nosuchop") return ops(n, a, b) end
function callsview(n, a, b) return vmut(n, a, b) end
function read() return v:get() end
function noop() end
function default() end
function check_delegation(fname, n, a, b) local ok = pcall(ops, n, a, b) return not ok end
function fd(n, a, b) end
abi.register(mut, noop, fd, callsview, nrc)
abi.register_view(vmut, vmut_p, vcall, vnest, vafc, vafcp, vrc, vrc2, pv, read)
abi.payable(default, noop, constructor, pv)
abi.fee_delegation(fd)
`


// luaD: a contract whose `default` function is a declared view that tries to write; a transaction that names no
// function reaches it through the other branch of resolveFunction
const luaD = `
state.var { v = state.value() }
function constructor() v:set(0) end
function default() v:set((v:get() or 0) + 1) system.setItem("raw", "1") contract.event("ev", 1) end
abi.register_view(default)
abi.payable(constructor)
`

// mutating operations and whether they need an address argument
var opList = []struct {
	name string
	arg  string // "" | acct | other | bp
}{
	{"var_set", ""}, {"map_set", ""}, {"map_del", ""}, {"arr_set", ""}, {"setItem", ""}, {"send", "acct"}, {"call_mut", "other"}, {"call_value", "other"},
	{"delegatecall_mut", "other"}, {"deploy", ""}, {"deploy_value", ""}, {"event", ""}, {"stake", ""}, {"unstake", ""}, {"vote", "bp"}, {"voteDao", ""}, {"pcall_event", ""},
}

var reReg = regexp.MustCompile(`\{"(\w+)",\s*\w+\}`)

// hostEntryPoints extracts the luaL_Reg tables of the host modules from the C sources at check time.
func hostEntryPoints() map[string][]string {
	out := map[string][]string{}
	mods := map[string]string{"system_module.c": "system", "contract_module.c": "contract", "name_module.c": "name_service", "crypto_module.c": "crypto", "bignum_module.c": "bignum", "db_module.c": "db", "state_module.c": "state"}
	for f, mod := range mods {
		b, err := os.ReadFile(filepath.Join(vf.RepoDir(), "contract", f))
		if err != nil {
			continue
		}
		seen := map[string]bool{}
		for _, m := range reReg.FindAllStringSubmatch(string(b), -1) {
			if !seen[m[1]] && !strings.HasPrefix(m[1], "__") {
				seen[m[1]] = true
				out[mod] = append(out[mod], m[1])
			}
		}
		sort.Strings(out[mod])
	}
	return out
}

func main() {
	if len(os.Args) > 1 && os.Args[1] == "node" {
		rig.ChildMain()
		return
	}
	c := vf.Start("C20", "exploration")
	eps := hostEntryPoints()
	c.Set("host_entry_points_extracted", eps)
	var wg sync.WaitGroup
	vers := []int{5, 4}
	if c.Thorough() {
		vers = []int{5, 4, 3, 2}
	}
	for _, v := range vers {
		wg.Add(1)
		go func(v int) { defer wg.Done(); run(c, v, eps) }(v)
	}
	wg.Wait()
	c.Finish("contracts deployed by real DEPLOY txs expose every mutating host operation (state variable set/delete, raw setItem, send, call with value, call/delegatecall into a mutating function, deploy, event, stake/unstake/vote/voteDao, pcall recovery points) plus a generic call of EVERY entry point found in the luaL_Reg tables of contract/*_module.c at check time; each is invoked in the three read-only contexts through the real paths (client query; CALL tx to a function registered as view, also nested, through pcall, through contract.call into another contract, and after a failed nested call whose error was caught; fee-delegation check by message and by FEEDELEGATION tx). Monitors: the operation is refused with an error, the full state dump (all accounts, storage, code) and the state root are unchanged (tx cases: only fee+nonce of the carrying tx). Positive control: the same operation in an ordinary CALL changes the dump; a case is deciding only then. A case = (operation, context); distinct = hash(version, operation, context)",
		c.Pick(40, 120),
		"contracts run on the PUC-Lua shim VM with a re-implemented abi wrapper; the real luaViewStart/End and all Go/C host callbacks are exercised",
		"the db module (SQL) cannot run without LiteTree: its view guard is not covered")
}

func run(c *vf.Ctx, ver int, eps map[string][]string) {
	name := fmt.Sprintf("ro-v%d", ver)
	hf := map[string]uint64{}
	for v := 2; v <= 5; v++ {
		if v <= ver {
			hf[fmt.Sprintf("V%d", v)] = 1
		} else {
			hf[fmt.Sprintf("V%d", v)] = 1 << 40
		}
	}
	w := rig.NewWorld(name, c.Scratch(), rig.WorldOpts{Public: true, NAccts: 4, Mempool: "recorder", HF: hf})
	cb := rig.NewAcct(name+"/cb", 0)
	w.Tmpl.Coinbase = cb.B58()
	defer w.CloseAll()
	n, _, err := w.Node("n", nil)
	if err != nil {
		c.Inconclusive("start: " + err.Error())
		return
	}
	gp := big.NewInt(50000000000)
	user := w.Accts[0]
	nonce := uint64(0)
	cid := func() []byte { b, _ := n.Best(); return w.CIDHash(b.No + 1) }
	produce := func(txs ...*types.Tx) *rig.ProduceRsp {
		var enc [][]byte
		for _, tx := range txs {
			enc = append(enc, rig.EncTx(tx))
		}
		rsp, err := n.Produce(&rig.ProduceReq{Txs: enc, Connect: true, Confirms: -1, SignKey: 0})
		if err != nil || rsp.Panic != "" || rsp.GenErr != "" || rsp.AddErr != "" {
			c.Inconclusive(fmt.Sprintf("%s: produce failed: %v %.300s", name, err, fmt.Sprint(rsp)))
			return nil
		}
		return rsp
	}
	// deploy two instances, fund them
	pl, err := rig.DeployPayload(luaM, nil, int32(ver))
	if err != nil {
		c.Inconclusive("compile: " + err.Error())
		return
	}
	var caddr [][]byte
	for i := 0; i < 2; i++ {
		nonce++
		tx := rig.TxSpec{Type: types.TxType_DEPLOY, From: user, Nonce: nonce, Amount: new(big.Int).Mul(big.NewInt(30000), rig.Aergo), Payload: pl, GasPrice: gp, ChainID: cid()}.Build()
		rsp := produce(tx)
		if rsp == nil || len(rsp.Receipts) != 1 || rsp.Receipts[0].Status != "CREATED" {
			c.Inconclusive(fmt.Sprintf("%s: deploy failed: %+v", name, rsp))
			return
		}
		caddr = append(caddr, rig.ContractID(user.Addr, nonce))
	}
	M, O := caddr[0], caddr[1]
	argFor := func(kind string) interface{} {
		switch kind {
		case "acct":
			return w.Accts[1].B58()
		case "other":
			return types.EncodeAddress(O)
		case "bp":
			return w.BPIDs[0]
		}
		return nil
	}
	call := func(fn string, args ...interface{}) []byte {
		if args == nil {
			args = []interface{}{}
		}
		b, _ := json.Marshal(map[string]interface{}{"Name": fn, "Args": args})
		return b
	}
	dump := func() *rig.Dump { d, _ := n.Dump(nil); return d }
	type ctxCase struct {
		ctx string
		run func(op string, a interface{}) (refused bool, detail string, diff []string, ok bool)
	}
	onlyFeeNonce := func(diff []string, payer []byte) []string {
		var bad []string
		for _, e := range rig.ParseDiff(diff) {
			switch {
			case e.Field == "nonce" && e.Acct == rig.AcctID(user.Addr):
			case e.Field == "balance" && (e.Acct == rig.AcctID(payer) || e.Acct == rig.AcctID(cb.Addr)):
			default:
				bad = append(bad, e.Raw)
			}
		}
		return bad
	}
	viaTx := func(typ types.TxType, to []byte, payload []byte, payer []byte) (status, ret string, bad []string, ok bool) {
		d0 := dump()
		nonce++
		tx := rig.TxSpec{Type: typ, From: user, To: to, Nonce: nonce, Amount: big.NewInt(0), Payload: payload, GasPrice: gp, ChainID: cid()}.Build()
		rsp := produce(tx)
		if rsp == nil {
			return "", "", nil, false
		}
		if len(rsp.Included) == 0 {
			nonce--
			return "skipped", strings.Join(rsp.SkipErrs, ";"), rig.Diff(d0, dump()), true
		}
		bad = onlyFeeNonce(rig.Diff(d0, dump()), payer)
		if rsp.Receipts[0].NEvents > 0 {
			bad = append(bad, fmt.Sprintf("%d events emitted", rsp.Receipts[0].NEvents))
		}
		return rsp.Receipts[0].Status, rsp.Receipts[0].Ret, bad, true
	}
	contexts := []ctxCase{
		{"query:mutator", func(op string, a interface{}) (bool, string, []string, bool) {
			d0 := dump()
			q, err := n.Query(M, call("mut", op, a))
			if err != nil {
				return false, err.Error(), nil, false
			}
			return q.Err != "", q.Err + string(q.Result), rig.Diff(d0, dump()), true
		}},
		{"query:pcall", func(op string, a interface{}) (bool, string, []string, bool) {
			d0 := dump()
			q, err := n.Query(M, call("vmut_p", op, a))
			if err != nil {
				return false, err.Error(), nil, false
			}
			return strings.Contains(string(q.Result), "false"), q.Err + string(q.Result), rig.Diff(d0, dump()), true
		}},
		{"view-tx:direct", func(op string, a interface{}) (bool, string, []string, bool) {
			st, ret, bad, ok := viaTx(types.TxType_CALL, M, call("vmut", op, a), user.Addr)
			return st == "ERROR" || st == "skipped", st + " " + ret, bad, ok
		}},
		{"view-tx:nested-view", func(op string, a interface{}) (bool, string, []string, bool) {
			st, ret, bad, ok := viaTx(types.TxType_CALL, M, call("vnest", op, a), user.Addr)
			return st == "ERROR" || st == "skipped", st + " " + ret, bad, ok
		}},
		{"normal-tx:function-calling-a-view", func(op string, a interface{}) (bool, string, []string, bool) {
			st, ret, bad, ok := viaTx(types.TxType_CALL, M, call("callsview", op, a), user.Addr)
			return st == "ERROR" || st == "skipped", st + " " + ret, bad, ok
		}},
		{"view-tx:pcall", func(op string, a interface{}) (bool, string, []string, bool) {
			st, ret, bad, ok := viaTx(types.TxType_CALL, M, call("vmut_p", op, a), user.Addr)
			return st == "SUCCESS" && strings.Contains(ret, "false") || st == "ERROR", st + " " + ret, bad, ok
		}},
		{"view-tx:call-into-other-contract", func(op string, a interface{}) (bool, string, []string, bool) {
			st, ret, bad, ok := viaTx(types.TxType_CALL, M, call("vcall", types.EncodeAddress(O), op, a), user.Addr)
			return st == "ERROR" || st == "skipped", st + " " + ret, bad, ok
		}},
		{"view-tx:after-failed-nested-call", func(op string, a interface{}) (bool, string, []string, bool) {
			// the view first calls another contract, the callee fails, the error is caught (the host rolls back
			// to its recovery point), then the view tries the operation
			st, ret, bad, ok := viaTx(types.TxType_CALL, M, call("vafc", types.EncodeAddress(O), op, a), user.Addr)
			return st == "ERROR" || st == "skipped", st + " " + ret, bad, ok
		}},
		{"view-tx:after-failed-nested-call-contract.pcall", func(op string, a interface{}) (bool, string, []string, bool) {
			st, ret, bad, ok := viaTx(types.TxType_CALL, M, call("vafcp", types.EncodeAddress(O), op, a), user.Addr)
			return st == "ERROR" || st == "skipped", st + " " + ret, bad, ok
		}},
		{"view-tx:after-refused-value-call", func(op string, a interface{}) (bool, string, []string, bool) {
			// a call with an amount to a payable view function is refused before the callee starts
			st, ret, bad, ok := viaTx(types.TxType_CALL, M, call("vrc", types.EncodeAddress(O), op, a), user.Addr)
			return st == "ERROR" || st == "skipped", st + " " + ret, bad, ok
		}},
		{"view-tx:after-two-refused-value-calls", func(op string, a interface{}) (bool, string, []string, bool) {
			st, ret, bad, ok := viaTx(types.TxType_CALL, M, call("vrc2", types.EncodeAddress(O), op, a), user.Addr)
			return st == "ERROR" || st == "skipped", st + " " + ret, bad, ok
		}},
		{"normal-tx:refused-value-call-then-own-view", func(op string, a interface{}) (bool, string, []string, bool) {
			st, ret, bad, ok := viaTx(types.TxType_CALL, M, call("nrc", types.EncodeAddress(O), op, a), user.Addr)
			return st == "ERROR" || st == "skipped", st + " " + ret, bad, ok
		}},
		{"query:after-failed-nested-call", func(op string, a interface{}) (bool, string, []string, bool) {
			d0 := dump()
			q, err := n.Query(M, call("vafc", types.EncodeAddress(O), op, a))
			if err != nil {
				return false, err.Error(), nil, false
			}
			return q.Err != "", q.Err + string(q.Result), rig.Diff(d0, dump()), true
		}},
		{"feedelegation:check-message", func(op string, a interface{}) (bool, string, []string, bool) {
			d0 := dump()
			res, err := n.CheckFeeDelegation(&rig.FDReq{Contract: M, Payload: call("fd", op, a), Sender: user.Addr, TxHash: make([]byte, 32), Amount: nil})
			if err != nil {
				return false, err.Error(), nil, false
			}
			// check_delegation returns "not ok": delegation allowed <=> the operation was refused
			return res == "", res, rig.Diff(d0, dump()), true
		}},
		{"feedelegation:tx", func(op string, a interface{}) (bool, string, []string, bool) {
			if ver < 2 {
				return true, "n/a", nil, false
			}
			st, ret, bad, ok := viaTx(types.TxType_FEEDELEGATION, M, call("fd", op, a), M)
			return st == "SUCCESS", st + " " + ret, bad, ok
		}},
	}
	// default view reached by an unnamed call (once per version): the declared view must not change the state
	if plD, err := rig.DeployPayload(luaD, nil, int32(ver)); err != nil {
		c.Count("default_view/compile-unavailable", 1)
	} else {
		nonce++
		tx := rig.TxSpec{Type: types.TxType_DEPLOY, From: user, Nonce: nonce, Amount: big.NewInt(0), Payload: plD, GasPrice: gp, ChainID: cid()}.Build()
		rsp := produce(tx)
		if rsp == nil || len(rsp.Receipts) != 1 || rsp.Receipts[0].Status != "CREATED" {
			if rsp != nil && len(rsp.Included) == 0 {
				nonce--
			}
			c.Count("default_view/deploy-unavailable", 1)
		} else {
			D := rig.ContractID(user.Addr, nonce)
			for _, typ := range []types.TxType{types.TxType_CALL, types.TxType_NORMAL} {
				c.Eval(1)
				st, ret, bad, ok := viaTx(typ, D, nil, user.Addr)
				if !ok {
					continue
				}
				if len(bad) > 0 {
					c.Violation("state-changed-in-read-only-context/default-view/unnamed-call", fmt.Sprintf("%s: a `default` function registered as a view, reached by a %v transaction that names no function, changed the state: %v (outcome: %s %.200s)", name, typ, bad, st, ret),
						map[string]interface{}{"version": ver, "operation": "default-view-writes", "context": "view-tx:unnamed-call-to-default", "detail": st + " " + ret, "diff": bad})
					continue
				}
				c.Count("checked/view-tx:unnamed-call-to-default/"+st, 1)
			}
		}
	}
	decide := func(op string, a interface{}, label string) {
		// positive control: the operation in an ordinary call changes state
		d0 := dump()
		nonce++
		tx := rig.TxSpec{Type: types.TxType_CALL, From: user, To: M, Nonce: nonce, Amount: big.NewInt(0), Payload: call("mut", op, a), GasPrice: gp, ChainID: cid()}.Build()
		rsp := produce(tx)
		if rsp == nil {
			return
		}
		effective := false
		if len(rsp.Included) == 1 && rsp.Receipts[0].Status == "SUCCESS" {
			extra := onlyFeeNonce(rig.Diff(d0, dump()), user.Addr)
			effective = len(extra) > 0 || rsp.Receipts[0].NEvents > 0
		} else if len(rsp.Included) == 0 {
			nonce--
		}
		c.Count("positive_control/"+map[bool]string{true: "changed-state", false: "no-effect"}[effective], 1)
		for _, cx := range contexts {
			c.Eval(1)
			refused, detail, diff, ok := cx.run(op, a)
			if !ok {
				continue
			}
			key := fmt.Sprintf("%s/%s", label, cx.ctx)
			cd := map[string]interface{}{"version": ver, "operation": label, "context": cx.ctx, "detail": detail, "diff": diff, "positive_control_effective": effective}
			if len(diff) > 0 {
				c.Violation("state-changed-in-read-only-context/"+key, fmt.Sprintf("%s: operation %s in context %s changed the state: %v (outcome: %.200s)", name, label, cx.ctx, diff, detail), cd)
				continue
			}
			if effective && !refused {
				c.Violation("not-refused-in-read-only-context/"+key, fmt.Sprintf("%s: operation %s changes state in an ordinary call but was not refused with an error in context %s (outcome: %.300s)", name, label, cx.ctx, detail), cd)
				continue
			}
			c.Count("checked/"+cx.ctx, 1)
			if effective {
				c.Nontrivial(fmt.Sprintf("v%d|%s|%s", ver, label, cx.ctx))
				if label == "send" || label == "var_set" {
					c.Sample(cd)
				}
			}
		}
	}
	for _, o := range opList {
		decide(o.name, argFor(o.arg), o.name)
	}
	// every registered entry point, called generically (covers entry points added later)
	for mod, fns := range eps {
		if mod == "db" || mod == "state" {
			continue
		}
		for _, fn := range fns {
			// generic call: _G[mod][fn]("x","y")
			d0 := dump()
			q, err := n.Query(M, call("vmut_p", "generic", mod, fn))
			c.Eval(1)
			if err != nil {
				c.Violation("node-died-in-generic-query/"+mod+"."+fn, err.Error(), nil)
				return
			}
			if diff := rig.Diff(d0, dump()); len(diff) > 0 {
				c.Violation("state-changed-in-read-only-context/generic:"+mod+"."+fn+"/query", fmt.Sprintf("%s: %s.%s(\"x\",\"y\") in a query changed the state: %v", name, mod, fn, diff), nil)
			}
			st, ret, bad, ok := viaTx(types.TxType_CALL, M, call("vmut_p", "generic", mod, fn), user.Addr)
			if ok && len(bad) > 0 {
				c.Violation("state-changed-in-read-only-context/generic:"+mod+"."+fn+"/view-tx", fmt.Sprintf("%s: %s.%s(\"x\",\"y\") inside a view changed the state: %v (%s %s)", name, mod, fn, bad, st, ret), nil)
			}
			_ = q
			c.Count("generic_entry_points_called", 1)
		}
	}
	// sanity: the view can read
	if q, err := n.Query(M, call("read")); err == nil {
		c.Set(fmt.Sprintf("final_counter_v%d", ver), string(q.Result)+q.Err)
	}
}
