package main

import (
	"encoding/hex"
	"fmt"
	"math/big"
	"strings"

	"github.com/aergoio/aergo/v2/types"

	"verif/h/rig"
	"verif/h/vf"
)

// (C) hand-off: many senders that each have exactly ONE pooled tx; a block built from the pool mines them while
// each sender's next nonce is being submitted concurrently. At that moment the pool drops the sender's (now empty)
// list and a submission that is past its validation must still end up in a list the pool knows. Afterwards, at a
// quiescent point: the structural invariants of the snapshot, and every submission that was answered "ok" is
// either pooled or mined.
func handoff(c *vf.Ctx, si int) {
	name := fmt.Sprintf("hand%d", si)
	nacct := 24
	w := rig.NewWorld(name, c.Scratch(), rig.WorldOpts{Public: true, NAccts: nacct + 1, Mempool: "real", HF: map[string]uint64{"V2": 1, "V3": 1, "V4": 1, "V5": 1 << 40}})
	defer w.CloseAll()
	r := c.Rand("hand/" + name)
	w.NodeEnv = map[string][]string{"nut": {"GORACE=halt_on_error=0"}}
	nut, _, err := w.Node("nut", func(cfg *rig.NodeConfig) { cfg.VerifierCount = 2 + si%6 })
	if err != nil {
		c.Inconclusive("start: " + err.Error())
		return
	}
	if rsp, err := nut.Produce(&rig.ProduceReq{Connect: true, Confirms: -1, SignKey: 0}); err != nil || rsp.AddErr != "" || rsp.GenErr != "" {
		c.Inconclusive("first block failed")
		return
	}
	gp := big.NewInt(50000000000)
	rounds := c.Pick(6, 30)
	for round := 0; round < rounds; round++ {
		b, _ := nut.Best()
		cid := w.CIDHash(b.No + 1)
		var first, second [][]byte
		var secondTx []*types.Tx
		for a := 0; a < nacct; a++ {
			st, err := nut.GetState(w.Accts[a].Addr)
			if err != nil {
				c.Violation("hand/node-died", fmt.Sprintf("%s round %d: %v", name, round, err), nil)
				return
			}
			mk := func(n uint64) *types.Tx {
				return rig.TxSpec{Type: types.TxType_TRANSFER, From: w.Accts[a], To: w.Accts[nacct].Addr, Nonce: n, Amount: big.NewInt(1), GasPrice: gp, ChainID: cid}.Build()
			}
			t1, t2 := mk(st.Nonce+1), mk(st.Nonce+2)
			first = append(first, rig.EncTx(t1))
			second = append(second, rig.EncTx(t2))
			secondTx = append(secondTx, t2)
		}
		rsp, err := nut.Handoff(&rig.HandoffReq{First: first, Second: second, Seed: r.Int63(), DelayUS: []int{200, 1000, 3000}[r.Intn(3)]})
		c.Eval(1)
		if err != nil {
			c.Violation("hand/node-died", fmt.Sprintf("%s round %d: %v", name, round, err), nil)
			return
		}
		if rsp.BlockErr != "" {
			c.Inconclusive(fmt.Sprintf("%s round %d: block production failed: %.200s", name, round, rsp.BlockErr))
			return
		}
		// quiescent evaluation (puts travel through verifier actors: retry until stable)
		var problems []string
		for attempt := 0; attempt < 60; attempt++ {
			problems = nil
			nut.MempoolSync()
			snap, err := nut.MempoolSnapshot()
			if err != nil {
				c.Violation("hand/node-died", fmt.Sprintf("%s round %d: %v", name, round, err), nil)
				return
			}
			_, problems = viewOf(snap)
			pooled := map[string]bool{}
			for _, a := range snap.Accounts {
				for _, h := range a.Hashes {
					pooled[hex.EncodeToString(h)] = true
				}
			}
			mined := map[string]bool{}
			if blk := rig.DecBlock(rsp.Block); blk != nil {
				for _, tx := range blk.GetBody().GetTxs() {
					mined[hex.EncodeToString(tx.Hash)] = true
				}
			}
			for i, res := range rsp.SecondRes {
				h := hex.EncodeToString(secondTx[i].Hash)
				if res == "" && !pooled[h] && !mined[h] {
					problems = append(problems, fmt.Sprintf("submission of a%d nonce %d was answered ok, but the tx is neither in a list of the pool nor in the block", i, secondTx[i].Body.Nonce))
				}
			}
			if len(problems) == 0 {
				break
			}
		}
		ok2 := 0
		for _, res := range rsp.SecondRes {
			if res == "" {
				ok2++
			}
		}
		c.Count("handoff_rounds", 1)
		c.Count("handoff_second_puts_ok", ok2)
		c.Count("handoff_second_puts_refused", len(rsp.SecondRes)-ok2)
		if blk := rig.DecBlock(rsp.Block); blk != nil {
			c.Count("handoff_mined_txs", len(blk.GetBody().GetTxs()))
		}
		if len(problems) > 0 {
			c.Violation("hand/invariant/"+norm(problems[0]), fmt.Sprintf("%s round %d (%d senders, one pooled tx each, mined while the next nonce is submitted):\n  %s", name, round, nacct, strings.Join(problems, "\n  ")),
				map[string]interface{}{"scenario": name, "round": round})
			return
		}
		c.Nontrivial(fmt.Sprintf("%s|%d", name, round))
		// drain: mine what is left so that every round starts with empty lists
		if _, err := nut.Produce(&rig.ProduceReq{FromMempool: true, Connect: true, Confirms: -1, SignKey: 0}); err != nil {
			c.Violation("hand/node-died", fmt.Sprintf("%s round %d: %v", name, round, err), nil)
			return
		}
	}
	if si == 0 {
		c.Sample(map[string]interface{}{"part": "hand-off", "scenario": name, "senders": nacct, "rounds": rounds})
	}
}
