// C13 transaction pool: per-account nonce order, no stale or duplicate entries.
package main

import (
	"bytes"
	"encoding/hex"
	"fmt"
	"math/big"
	"math/rand"
	"os"
	"regexp"
	"sort"
	"strings"
	"sync"
	"time"

	"github.com/aergoio/aergo/v2/mempool"
	"github.com/aergoio/aergo/v2/types"
	"github.com/anishathalye/porcupine"

	"verif/h/rig"
	"verif/h/vf"
)

func main() {
	if len(os.Args) > 1 && os.Args[1] == "node" {
		rig.ChildMain()
		return
	}
	c := vf.Start("C13", "exploration")
	var wg sync.WaitGroup
	sem := make(chan struct{}, c.Pick(3, 6))
	for i := 0; i < c.Pick(3, 16); i++ {
		wg.Add(1)
		sem <- struct{}{}
		go func(i int) { defer wg.Done(); defer func() { <-sem }(); sequential(c, i) }(i)
	}
	for i := 0; i < c.Pick(4, 40); i++ {
		wg.Add(1)
		sem <- struct{}{}
		go func(i int) { defer wg.Done(); defer func() { <-sem }(); concurrent(c, i) }(i)
	}
	for i := 0; i < c.Pick(2, 8); i++ {
		wg.Add(1)
		sem <- struct{}{}
		go func(i int) { defer wg.Done(); defer func() { <-sem }(); handoff(c, i) }(i)
	}
	wg.Wait()
	c.Finish("(A) sequential: seeded op sequences (puts in arbitrary nonce order, duplicates, same-nonce different hash, gap filling, removals, blocks produced from the pool, reorganisations that rewind account state) through the hub against a per-account reference model, compared after EVERY op with the pool snapshot taken under its own lock, the producer fetch and the reported totals; (B) concurrent, race-detector build: 8 submitter goroutines with overlapping nonces and duplicates + query goroutines (+ a producer building blocks from the pool) inside the node process; the recorded put/exist/get history is checked for linearizability per account with porcupine, structural invariants are checked at quiescent points, race reports with both stacks in aergo code are violations; (C) hand-off: 24 senders with exactly one pooled tx each, mined by a block built from the pool while each sender's next nonce is submitted concurrently (the pool drops and re-creates the per-account lists): snapshot invariants at quiescence and every submission answered ok is pooled or mined. A case = one op (A) or one history (B); non-trivial = op/history after which the pool held >=1 tx; distinct = hash(scenario, step)",
		c.Pick(150, 1500),
		"race reports entirely inside third-party code (aergo-actor mpsc queue) are ignored",
		"porcupine timeouts are inconclusive, not violations")
}

// ---------------------------------------------------------------------------------------------
// snapshot invariants

type acctView struct {
	base   uint64
	ready  int
	nonces []uint64
	hashes []string
}

func viewOf(s *mempool.VerifSnap) (map[string]*acctView, []string) {
	var problems []string
	out := map[string]*acctView{}
	total, orphan := 0, 0
	seenHash := map[string]bool{}
	for _, a := range s.Accounts {
		v := &acctView{base: a.BaseNonce, ready: a.Ready, nonces: a.Nonces}
		id := hex.EncodeToString(a.Account)
		for i, h := range a.Hashes {
			hs := hex.EncodeToString(h)
			v.hashes = append(v.hashes, hs)
			if seenHash[hs] {
				problems = append(problems, "tx hash held twice: "+hs[:12])
			}
			seenHash[hs] = true
			if i > 0 && a.Nonces[i] <= a.Nonces[i-1] {
				problems = append(problems, fmt.Sprintf("account %s: nonces not strictly ascending / duplicate nonce: %v", id[:8], a.Nonces))
			}
			if a.Nonces[i] <= a.BaseNonce {
				problems = append(problems, fmt.Sprintf("account %s: pooled nonce %d at or below the account's state nonce %d", id[:8], a.Nonces[i], a.BaseNonce))
			}
		}
		// ready = longest gap-free run from base+1
		run := 0
		for i, n := range a.Nonces {
			if n == a.BaseNonce+uint64(i)+1 {
				run++
			} else {
				break
			}
		}
		if run != a.Ready {
			problems = append(problems, fmt.Sprintf("account %s: ready count %d but the gap-free run from nonce %d has %d txs (%v)", id[:8], a.Ready, a.BaseNonce+1, run, a.Nonces))
		}
		if len(a.Nonces) == 0 {
			problems = append(problems, fmt.Sprintf("account %s: empty list kept in the pool", id[:8]))
		}
		total += len(a.Nonces)
		orphan += len(a.Nonces) - a.Ready
		if out[id] != nil {
			problems = append(problems, "two lists for account "+id[:8])
		}
		out[id] = v
	}
	if total != s.Length {
		problems = append(problems, fmt.Sprintf("reported total %d, lists hold %d", s.Length, total))
	}
	if orphan != s.Orphan {
		problems = append(problems, fmt.Sprintf("reported orphans %d, lists hold %d beyond a gap", s.Orphan, orphan))
	}
	if len(s.CacheKeys) != total {
		problems = append(problems, fmt.Sprintf("hash cache holds %d keys, lists hold %d txs", len(s.CacheKeys), total))
	}
	for _, k := range s.CacheKeys {
		if !seenHash[hex.EncodeToString(k)] {
			problems = append(problems, "hash cache key without a pooled tx: "+hex.EncodeToString(k)[:12])
		}
	}
	return out, problems
}

var reNum = regexp.MustCompile(`[0-9a-f]{8,}|\d+`)

func norm(s string) string { return reNum.ReplaceAllString(s, "#") }

// ---------------------------------------------------------------------------------------------
// (A) sequential model check

type mtx struct {
	acct  int
	nonce uint64
	tx    *types.Tx
}

func sequential(c *vf.Ctx, si int) {
	name := fmt.Sprintf("seq%d", si)
	w := rig.NewWorld(name, c.Scratch(), rig.WorldOpts{Public: true, NAccts: 5, Mempool: "real", HF: map[string]uint64{"V2": 1, "V3": 1, "V4": 1, "V5": 1 << 40}})
	defer w.CloseAll()
	r := c.Rand("seq/" + name)
	nut, _, err := w.Node("nut", nil)
	if err != nil {
		c.Inconclusive("start: " + err.Error())
		return
	}
	// the first block changes the chain id version (hardforks at height 1): the pool legitimately resets on it
	first, err := nut.Produce(&rig.ProduceReq{Connect: true, Confirms: -1, SignKey: 0})
	if err != nil || first.AddErr != "" || first.GenErr != "" {
		c.Inconclusive("first block failed")
		return
	}
	nacct := 4
	state := make([]uint64, nacct)          // state nonce per account
	model := make([]map[uint64]*mtx, nacct) // pooled txs per account
	for i := range model {
		model[i] = map[uint64]*mtx{}
	}
	chain := [][]byte{first.Block}
	var trace []string
	gp := big.NewInt(50000000000)
	// the last account also sends under a registered name: the pool files such a tx under the account the name
	// resolves to, the tx itself carries the name
	alias := fmt.Sprintf("c13alias%04d", si%10000)
	named := nacct - 1
	{
		ntx := rig.TxSpec{Type: types.TxType_GOVERNANCE, From: w.Accts[named], To: []byte(types.AergoName), Nonce: 1, Amount: rig.Aergo, Payload: rig.GovPayload("v1createName", alias), GasPrice: gp, ChainID: w.CIDHash(2)}.Build()
		rsp, err := nut.Produce(&rig.ProduceReq{Txs: [][]byte{rig.EncTx(ntx)}, Connect: true, Confirms: -1, SignKey: 0})
		if err != nil || rsp.AddErr != "" || rsp.GenErr != "" || len(rsp.Included) != 1 || rsp.Receipts[0].Status != "SUCCESS" {
			c.Inconclusive(name + ": name registration failed")
			return
		}
		chain = append(chain, rsp.Block)
		state[named] = 1
	}
	mk := func(a int, nonce uint64, variant int) *types.Tx {
		b, _ := nut.Best()
		sp := rig.TxSpec{Type: types.TxType_TRANSFER, From: w.Accts[a], To: w.Accts[4].Addr, Nonce: nonce, Amount: big.NewInt(int64(1 + variant%2)), GasPrice: gp, ChainID: w.CIDHash(b.No + 1)}
		if a == named && variant >= 2 {
			sp.Account = []byte(alias)
		}
		return sp.Build()
	}
	fail := func(key, msg string) {
		c.Violation("seq/"+key, fmt.Sprintf("%s after ops %v:\n  %s", name, tail(trace, 25), msg), map[string]interface{}{"scenario": name, "ops": trace})
	}
	evalOnce := func(exact bool) (string, string, bool) {
		nut.MempoolSync()
		snap, err := nut.MempoolSnapshot()
		if err != nil {
			return "node-died", err.Error(), false
		}
		views, problems := viewOf(snap)
		if len(problems) > 0 {
			return "invariant/" + norm(problems[0]), strings.Join(problems, "\n  "), false
		}
		st, _ := nut.MempoolStat()
		if st != nil && (st.Total != snap.Length || st.Orphan != snap.Orphan) {
			return "reported-totals-differ", fmt.Sprintf("Size() reports %d/%d, the pool holds %d/%d", st.Total, st.Orphan, snap.Length, snap.Orphan), false
		}
		// what the producer is offered
		got, _ := nut.MempoolGet()
		offered := map[string][]uint64{}
		for _, tb := range got {
			tx := rig.DecTx(tb)
			id := hex.EncodeToString(tx.Body.Account)
			if string(tx.Body.Account) == alias {
				id = hex.EncodeToString(w.Accts[named].Addr)
			}
			offered[id] = append(offered[id], tx.Body.Nonce)
		}
		for a := 0; a < nacct; a++ {
			id := hex.EncodeToString(w.Accts[a].Addr)
			// the node's own view of the account nonce
			as, _ := nut.GetState(w.Accts[a].Addr)
			if as != nil && as.Err == "" {
				state[a] = as.Nonce
			}
			var want []uint64
			for n := range model[a] {
				want = append(want, n)
			}
			sort.Slice(want, func(i, j int) bool { return want[i] < want[j] })
			v := views[id]
			var have []uint64
			if v != nil {
				have = v.nonces
				if v.base != state[a] {
					return "stale-account-state", fmt.Sprintf("account a%d: the pool's list is based on nonce %d, the chain state says %d", a, v.base, state[a]), false
				}
			}
			if exact && fmt.Sprint(have) != fmt.Sprint(want) {
				return "pool-differs-from-model", fmt.Sprintf("account a%d (state nonce %d): pool holds nonces %v, model %v", a, state[a], have, want), false
			}
			for _, n := range have {
				if n <= state[a] {
					return "stale-tx-in-pool", fmt.Sprintf("account a%d: pooled nonce %d <= state nonce %d", a, n, state[a]), false
				}
			}
			// offered = gap-free run from state+1
			var run []uint64
			for i, n := range have {
				if n == state[a]+uint64(i)+1 {
					run = append(run, n)
				} else {
					break
				}
			}
			if fmt.Sprint(offered[id]) != fmt.Sprint(run) {
				return "offered-run-wrong", fmt.Sprintf("account a%d (state nonce %d, pooled %v): producer is offered %v, expected the gap-free ascending run %v", a, state[a], have, offered[id], run), false
			}
		}
		if snap.Length > 0 {
			c.Nontrivial(fmt.Sprintf("%s|%d", name, len(trace)))
		}
		return "", "", true
	}
	// Puts travel through the verifier actors: a tx handed back by a reorganisation may still be on
	// its way when the main pool actor has already answered. A disagreement counts only if it
	// persists once the pool is quiescent (bounded number of re-evaluations).
	check := func(exact bool) bool {
		var key, msg string
		for attempt := 0; attempt < 60; attempt++ {
			var ok bool
			if key, msg, ok = evalOnce(exact); ok {
				return true
			}
			time.Sleep(25 * time.Millisecond)
		}
		fail(key, msg)
		return false
	}

	nops := c.Pick(60, 200)
	for step := 0; step < nops; step++ {
		c.Eval(1)
		switch k := r.Intn(20); {
		case k < 11: // put
			a := r.Intn(nacct)
			n := state[a] + uint64(r.Intn(9))
			if r.Intn(8) == 0 && state[a] > 0 {
				n = state[a] - uint64(r.Intn(2))
			}
			variant := r.Intn(2)
			if a == named && r.Intn(2) == 0 {
				variant += 2 // under the name
			}
			tx := mk(a, n, variant)
			_, dupHash := findHash(model, tx.Hash)
			_, sameNonce := model[a][n]
			want := n > state[a] && !dupHash && !sameNonce
			res, err := nut.MempoolPut(rig.EncTx(tx))
			if err != nil {
				fail("node-died", err.Error())
				return
			}
			trace = append(trace, fmt.Sprintf("put(a%d,n%d,v%d)=%s", a, n, variant, short(res)))
			c.Count("seq_put/"+map[bool]string{true: "ok", false: "refused"}[res == ""], 1)
			if (res == "") != want {
				fail("put-result-wrong", fmt.Sprintf("put a%d nonce %d (state nonce %d, pooled same nonce: %v, same hash: %v) answered %q", a, n, state[a], sameNonce, dupHash, res))
				return
			}
			if res == "" {
				model[a][n] = &mtx{a, n, tx}
			}
		case k < 13: // duplicate of a pooled tx
			if m := anyTx(model, r); m != nil {
				res, _ := nut.MempoolPut(rig.EncTx(m.tx))
				trace = append(trace, fmt.Sprintf("dup(a%d,n%d)=%s", m.acct, m.nonce, short(res)))
				if res == "" {
					fail("duplicate-admitted", fmt.Sprintf("tx a%d nonce %d already pooled was admitted again", m.acct, m.nonce))
					return
				}
			}
		case k < 15: // remove a pooled tx
			if m := anyTx(model, r); m != nil {
				res, _ := nut.MempoolDelTx(rig.EncTx(m.tx))
				trace = append(trace, fmt.Sprintf("del(a%d,n%d)=%s", m.acct, m.nonce, short(res)))
				delete(model[m.acct], m.nonce)
				c.Count("seq_del", 1)
			}
		case k < 18: // block from the pool
			rsp, err := nut.Produce(&rig.ProduceReq{FromMempool: true, Connect: true, Confirms: -1, SignKey: 0})
			if err != nil || rsp.Panic != "" || rsp.GenErr != "" || rsp.AddErr != "" {
				c.Inconclusive(fmt.Sprintf("%s: produce failed: %v", name, err))
				return
			}
			chain = append(chain, rsp.Block)
			trace = append(trace, fmt.Sprintf("block(%d txs)", len(rsp.Included)))
			c.Count("seq_blocks", 1)
			c.Count("seq_block_txs", len(rsp.Included))
			for _, h := range rsp.Included {
				if m, ok := findHash(model, h); ok {
					delete(model[m.acct], m.nonce)
					if m.nonce > state[m.acct] {
						state[m.acct] = m.nonce
					}
				}
			}
		default: // reorganisation that rewinds account state: a longer branch without the last d blocks' txs
			// never below the block that registered the alias (chain[1]): without it a tx under the name is
			// legitimately refused and the model would have to follow name ownership too
			if len(chain) < 4 {
				continue
			}
			d := 1 + r.Intn(2)
			if d > len(chain)-2 {
				d = len(chain) - 2
			}
			b, _, err := w.Node(fmt.Sprintf("b%d", step), func(cfg *rig.NodeConfig) { cfg.Mempool = "recorder" })
			if err != nil {
				c.Inconclusive("builder: " + err.Error())
				return
			}
			keep := chain[:len(chain)-d]
			for _, blk := range keep {
				b.AddBlock(blk)
			}
			var nb [][]byte
			okb := true
			for i := 0; i <= d; i++ {
				bb, _ := b.Best()
				rsp, err := b.Produce(&rig.ProduceReq{Connect: true, Confirms: -1, SignKey: 0, TS: bb.TS + 1e9 + 777})
				if err != nil || rsp.GenErr != "" || rsp.AddErr != "" {
					okb = false
					break
				}
				nb = append(nb, rsp.Block)
			}
			b.Kill()
			if !okb {
				continue
			}
			// txs of the abandoned blocks return to the pool (if still valid)
			var returned []*types.Tx
			for _, blk := range chain[len(chain)-d:] {
				returned = append(returned, rig.DecBlock(blk).GetBody().GetTxs()...)
			}
			for _, blk := range nb {
				nut.AddBlock(blk)
			}
			nbest, _ := nut.Best()
			if !bytes.Equal(nbest.Hash, rig.DecBlock(nb[len(nb)-1]).BlockHash()) {
				c.Inconclusive(name + ": reorg did not happen")
				return
			}
			chain = append(append([][]byte(nil), keep...), nb...)
			trace = append(trace, fmt.Sprintf("reorg(depth %d, %d txs returned)", d, len(returned)))
			c.Count("seq_reorgs", 1)
			// model: state rewinds; returned txs are back unless they collide with a pooled nonce
			for a := 0; a < nacct; a++ {
				as, _ := nut.GetState(w.Accts[a].Addr)
				state[a] = as.Nonce
			}
			for _, tx := range returned {
				for a := 0; a < nacct; a++ {
					if bytes.Equal(tx.Body.Account, w.Accts[a].Addr) || (a == named && string(tx.Body.Account) == alias) {
						if _, busy := model[a][tx.Body.Nonce]; !busy && tx.Body.Nonce > state[a] {
							model[a][tx.Body.Nonce] = &mtx{a, tx.Body.Nonce, tx}
						}
					}
				}
			}
			if !check(true) {
				return
			}
			continue
		}
		if !check(true) {
			return
		}
	}
	c.Sample(map[string]interface{}{"part": "sequential", "scenario": name, "ops": tail(trace, 30)})
}

func findHash(model []map[uint64]*mtx, h []byte) (*mtx, bool) {
	for _, m := range model {
		for _, x := range m {
			if bytes.Equal(x.tx.Hash, h) {
				return x, true
			}
		}
	}
	return nil, false
}

func anyTx(model []map[uint64]*mtx, r *rand.Rand) *mtx {
	var all []*mtx
	for _, m := range model {
		for _, x := range m {
			all = append(all, x)
		}
	}
	if len(all) == 0 {
		return nil
	}
	sort.Slice(all, func(i, j int) bool { return all[i].acct*1000+int(all[i].nonce) < all[j].acct*1000+int(all[j].nonce) })
	return all[r.Intn(len(all))]
}

func tail(s []string, n int) []string {
	if len(s) > n {
		return s[len(s)-n:]
	}
	return s
}

func short(s string) string {
	if s == "" {
		return "ok"
	}
	if len(s) > 40 {
		return s[:40]
	}
	return s
}

// ---------------------------------------------------------------------------------------------
// (B) concurrent: linearizability + invariants + race detector

type linIn struct {
	Kind  string // put | exist | get
	Nonce uint64
	Hash  string
}

type linState map[uint64]string // nonce -> hash

func cloneState(s linState) linState {
	n := linState{}
	for k, v := range s {
		n[k] = v
	}
	return n
}

func stateKey(s linState) string {
	var ks []uint64
	for k := range s {
		ks = append(ks, k)
	}
	sort.Slice(ks, func(i, j int) bool { return ks[i] < ks[j] })
	var b strings.Builder
	for _, k := range ks {
		fmt.Fprintf(&b, "%d=%s;", k, s[k][:6])
	}
	return b.String()
}

func readyRun(s linState) []string {
	var out []string
	for n := uint64(1); ; n++ {
		h, ok := s[n]
		if !ok {
			return out
		}
		out = append(out, h)
	}
}

var linModel = porcupine.Model{
	Init: func() interface{} { return linState{} },
	Step: func(st, in, out interface{}) (bool, interface{}) {
		s := st.(linState)
		i := in.(linIn)
		switch i.Kind {
		case "put":
			ok := out.(string) == ""
			_, nonceBusy := s[i.Nonce]
			hashBusy := false
			for _, h := range s {
				if h == i.Hash {
					hashBusy = true
				}
			}
			can := !nonceBusy && !hashBusy
			if ok != can {
				return false, s
			}
			if ok {
				n := cloneState(s)
				n[i.Nonce] = i.Hash
				return true, n
			}
			return true, s
		case "exist":
			present := false
			for _, h := range s {
				if h == i.Hash {
					present = true
				}
			}
			return (out.(string) == "true") == present, s
		case "get":
			return fmt.Sprint(out.([]string)) == fmt.Sprint(readyRun(s)), s
		}
		return false, s
	},
	Equal:             func(a, b interface{}) bool { return stateKey(a.(linState)) == stateKey(b.(linState)) },
	DescribeOperation: func(in, out interface{}) string { return fmt.Sprintf("%+v -> %v", in, out) },
}

var reRaceFrame = regexp.MustCompile(`github\.com/aergoio/aergo/v2/([\w/]+)\.([\w\.\(\)\*]+)\(`)

// raceReports extracts race reports whose two stacks both contain aergo frames.
func raceReports(log string) map[string]string {
	out := map[string]string{}
	for _, blk := range strings.Split(log, "WARNING: DATA RACE")[1:] {
		if i := strings.Index(blk, "=================="); i >= 0 {
			blk = blk[:i]
		}
		// the two accesses are the first two stanzas
		parts := regexp.MustCompile(`\n\n`).Split(blk, -1)
		var fr []string
		for _, p := range parts[:min(2, len(parts))] {
			f := ""
			for _, l := range strings.Split(p, "\n") {
				if m := reRaceFrame.FindStringSubmatch(l); m != nil && !strings.Contains(l, "verif_hooks") {
					f = m[1] + "." + strings.Trim(m[2], "()*")
					break
				}
			}
			fr = append(fr, f)
		}
		if strings.Contains(blk, ".AfterStart()") || strings.Contains(blk, ".BeforeStart()") || strings.Contains(blk, "rig.StartNode") {
			continue // component start-up, outside the property's quantifier (counted by the caller as total)
		}
		if len(fr) == 2 && fr[0] != "" && fr[1] != "" {
			sort.Strings(fr)
			out[fr[0]+"|"+fr[1]] = blk
		}
	}
	return out
}

func min(a, b int) int {
	if a < b {
		return a
	}
	return b
}

func concurrent(c *vf.Ctx, si int) {
	name := fmt.Sprintf("conc%d", si)
	w := rig.NewWorld(name, c.Scratch(), rig.WorldOpts{Public: true, NAccts: 4, Mempool: "real", HF: map[string]uint64{"V2": 1, "V3": 1, "V4": 1, "V5": 1 << 40}})
	defer w.CloseAll()
	r := c.Rand("conc/" + name)
	w.NodeEnv = map[string][]string{"nut": {"GORACE=halt_on_error=0"}}
	nut, _, err := w.Node("nut", func(cfg *rig.NodeConfig) { cfg.VerifierCount = 1 + si%8 })
	if err != nil {
		c.Inconclusive("start: " + err.Error())
		return
	}
	if rsp, err := nut.Produce(&rig.ProduceReq{Connect: true, Confirms: -1, SignKey: 0}); err != nil || rsp.AddErr != "" || rsp.GenErr != "" {
		c.Inconclusive("first block failed")
		return
	}
	withBlocks := si%2 == 1
	nacct := 3
	gp := big.NewInt(50000000000)
	var txs [][]byte
	acctOf := map[string]int{}
	nonceOf := map[string]uint64{}
	maxN := 8 + r.Intn(8)
	for a := 0; a < nacct; a++ {
		for n := 1; n <= maxN; n++ {
			if r.Intn(10) == 0 {
				continue // a permanent gap
			}
			for v := 0; v < 1+r.Intn(2); v++ { // same nonce, different hash
				tx := rig.TxSpec{Type: types.TxType_TRANSFER, From: w.Accts[a], To: w.Accts[3].Addr, Nonce: uint64(n), Amount: big.NewInt(int64(1 + v)), GasPrice: gp, ChainID: w.CIDHash(2)}.Build()
				txs = append(txs, rig.EncTx(tx))
				acctOf[hex.EncodeToString(tx.Hash)] = a
				nonceOf[hex.EncodeToString(tx.Hash)] = uint64(n)
			}
		}
	}
	blocks := 0
	if withBlocks {
		blocks = 6
	}
	nut.Timeout = 3 * time.Minute
	rsp, err := nut.Stress(&rig.StressReq{Txs: txs, Workers: 8, Seed: c.Seed*1000 + int64(si), Blocks: blocks, Queries: true, DelayUS: 200, Dups: 1})
	c.Eval(1)
	if err != nil {
		if _, hung := err.(*rig.ErrHung); hung {
			c.Inconclusive(name + ": stress run did not return within the watchdog")
			return
		}
		c.Violation("conc/node-died", fmt.Sprintf("%s: %v", name, err), map[string]interface{}{"scenario": name})
		return
	}
	c.Count("conc_ops", len(rsp.Ops))
	c.Count("conc_blocks", len(rsp.Blocks))
	// quiescent-point invariants
	snap, err := nut.MempoolSnapshot()
	if err != nil {
		c.Violation("conc/node-died", err.Error(), nil)
		return
	}
	views, problems := viewOf(snap)
	for a := 0; a < nacct; a++ {
		as, _ := nut.GetState(w.Accts[a].Addr)
		if v := views[hex.EncodeToString(w.Accts[a].Addr)]; v != nil && as != nil {
			if v.base != as.Nonce {
				problems = append(problems, fmt.Sprintf("account a%d: pool list based on nonce %d, chain state %d", a, v.base, as.Nonce))
			}
			for _, n := range v.nonces {
				if n <= as.Nonce {
					problems = append(problems, fmt.Sprintf("account a%d: pooled nonce %d <= state nonce %d after the block notifications were processed", a, n, as.Nonce))
				}
			}
		}
	}
	if len(problems) > 0 {
		c.Violation("conc/invariant/"+norm(problems[0]), fmt.Sprintf("%s (blocks=%d): %s", name, len(rsp.Blocks), strings.Join(problems, "\n  ")), map[string]interface{}{"scenario": name})
		return
	}
	// race reports
	logb, _ := os.ReadFile(nut.ErrLog)
	for key, rep := range raceReports(string(logb)) {
		c.Count("race_reports_in_aergo", 1)
		if len(rep) > 3500 {
			rep = rep[:3500]
		}
		c.Violation("race:"+key, fmt.Sprintf("%s: data race reported by the race detector between %s\n%s", name, key, rep), map[string]interface{}{"scenario": name, "pair": key})
	}
	c.Count("race_reports_total", strings.Count(string(logb), "WARNING: DATA RACE"))
	// linearizability per account (only without concurrent block production: the model has a fixed state nonce)
	if !withBlocks {
		var ops []porcupine.Operation
		for _, op := range rsp.Ops {
			hs := hex.EncodeToString(op.Hash)
			switch op.Kind {
			case "put":
				ops = append(ops, porcupine.Operation{ClientId: op.Client, Input: linIn{"put", nonceOf[hs], hs + fmt.Sprint("@", acctOf[hs])}, Call: op.Call, Output: op.Res, Return: op.Ret})
			case "exist":
				ops = append(ops, porcupine.Operation{ClientId: op.Client, Input: linIn{"exist", 0, hs + fmt.Sprint("@", acctOf[hs])}, Call: op.Call, Output: op.Res, Return: op.Ret})
			case "get":
				per := map[int][]string{}
				for _, h := range op.Got {
					hh := hex.EncodeToString(h)
					per[acctOf[hh]] = append(per[acctOf[hh]], hh+fmt.Sprint("@", acctOf[hh]))
				}
				for a := 0; a < nacct; a++ {
					ops = append(ops, porcupine.Operation{ClientId: op.Client, Input: linIn{"get", 0, fmt.Sprint("@", a)}, Call: op.Call, Output: per[a], Return: op.Ret})
				}
			}
		}
		m := linModel
		m.Partition = func(history []porcupine.Operation) [][]porcupine.Operation {
			parts := make([][]porcupine.Operation, nacct)
			for _, o := range history {
				h := o.Input.(linIn).Hash
				a := int(h[len(h)-1] - '0')
				parts[a] = append(parts[a], o)
			}
			return parts
		}
		res, info := porcupine.CheckOperationsVerbose(m, ops, 60*time.Second)
		c.Count("lin_histories", 1)
		c.Count("lin_ops", len(ops))
		switch res {
		case porcupine.Illegal:
			p := c.Scratch() + "/" + name + "-lin.html"
			porcupine.VisualizePath(m, info, p)
			var hist []string
			for _, o := range rsp.Ops {
				hs := hex.EncodeToString(o.Hash)
				hist = append(hist, fmt.Sprintf("c%d %s a%d n%d [%d,%d] -> %s %d", o.Client, o.Kind, acctOf[hs], nonceOf[hs], o.Call, o.Ret, o.Res, len(o.Got)))
			}
			c.Violation("conc/not-linearizable", fmt.Sprintf("%s: the recorded put/exist/get history has no linearization against the sequential per-account pool model (%d ops)", name, len(ops)), map[string]interface{}{"scenario": name, "history": hist})
			return
		case porcupine.Unknown:
			c.Inconclusive(name + ": linearizability check timed out")
			return
		}
	}
	if snap.Length > 0 || len(rsp.Blocks) > 0 {
		c.Nontrivial(fmt.Sprintf("%s|%d|%d", name, len(rsp.Ops), len(rsp.Blocks)))
	}
	if si < 2 {
		c.Sample(map[string]interface{}{"part": "concurrent", "scenario": name, "ops": len(rsp.Ops), "blocks": len(rsp.Blocks), "pool_after": snap.Length, "with_blocks": withBlocks})
	}
}
