package main

import (
	"bytes"
	"os"
	"fmt"
	"math/big"

	"github.com/aergoio/aergo/v2/types"

	"verif/h/rig"
	"verif/h/vf"
)

// collude: ALL producers are controlled by the scheduler (more than a third misbehave, so agreement is not
// claimed); one correct node j is observed.  The producers first extend one chain honestly (LIB advances on j),
// start a second branch at a root r on that chain and hand j a prefix of it while the root is still at or above
// j's LIB, let the first chain (and LIB) grow past the root and then deliver the rest of the second branch,
// made longer than the first.  The first sentence of the property is unconditional: whatever the producers do,
// j never replaces a block at or below a LIB it has reported, refuses blocks numbered at or below it and keeps
// its main chain when the longer branch forks below the LIB.
func collude(c *vf.Ctx, ri, k, n int) {
	name := fmt.Sprintf("v%d", ri)
	w := rig.NewWorld(name, c.Scratch(), rig.WorldOpts{Public: true, NAccts: 6, Mempool: "recorder", NBP: n, Strict: true})
	defer w.CloseAll()
	r := c.Rand(fmt.Sprintf("collude/%d/%d", ri, n))
	s := &sim{c: c, name: name, n: n, w: w, r: r, byHash: map[string]int{}, honestConfirms: true}
	j, _, err := w.Node("j", func(cfg *rig.NodeConfig) { cfg.NodeKey = 0 })
	if err != nil {
		c.Inconclusive("start node: " + err.Error())
		return
	}
	relaxed := func(cfg *rig.NodeConfig) { cfg.Strict = false }
	M, _, err1 := w.Node("M", relaxed)
	F, _, err2 := w.Node("F", relaxed)
	if err1 != nil || err2 != nil {
		c.Inconclusive(fmt.Sprintf("start builders: %v %v", err1, err2))
		return
	}
	s.nodes = []*rig.Client{j}
	s.know = []map[int]bool{{}}
	s.inbox = [][]int{nil}
	s.fixed = []map[uint64]string{{}}
	s.byz = []bool{false}
	s.lib = make([]libRec, 1)
	s.maxLib = make([]uint64, 1)

	gp := big.NewInt(50000000000)
	nonces := map[int]uint64{}
	mkTx := func(acct int, slot int) [][]byte {
		if r.Intn(3) == 0 {
			return nil
		}
		nonces[acct]++
		tx := rig.TxSpec{Type: types.TxType_TRANSFER, From: w.Accts[acct], To: w.Accts[acct+1].Addr, Nonce: nonces[acct], Amount: big.NewInt(int64(slot)), GasPrice: gp, ChainID: w.CIDHash(uint64(slot))}.Build()
		return [][]byte{rig.EncTx(tx)}
	}
	// produce one block on builder b in the given slot, signed by the slot's owner with the honest Confirms value
	produce := func(b *rig.Client, slot int, lpb []uint64, acct int) int {
		ts := w.Tmpl.GenesisTS + int64(slot)*1e9 + 5e8
		o, err := b.OwnerAt(ts)
		if err != nil || o < 0 {
			c.Inconclusive(fmt.Sprintf("%s: no owner for slot %d: %v", name, slot, err))
			return -1
		}
		best, _ := b.Best()
		p, err := b.Produce(&rig.ProduceReq{Txs: mkTx(acct, slot), TS: ts, Connect: true, Confirms: int64(best.No + 1 - lpb[o]), SignKey: o})
		if err != nil || p.Panic != "" || p.GenErr != "" || p.AddErr != "" {
			c.Inconclusive(fmt.Sprintf("%s: builder production failed in slot %d: %v %+v", name, slot, err, p))
			return -1
		}
		bi := s.addBlock(p, o, false)
		lpb[o] = s.blocks[bi].no
		return bi
	}
	lpbM := make([]uint64, n)
	var main []int // main[h-1] = block index at height h
	slot := 0
	// phase 0: the first chain is built completely on M; libAt[h] = LIB reported by M with best = h (the LIB is a
	// function of the chain, so this is what j will report when it has received the same prefix)
	total := 3*n + 6 + r.Intn(6)
	libAt := make([]uint64, total+1)
	for h := 1; h <= total; h++ {
		slot++
		if r.Intn(6) == 0 {
			slot++ // a skipped slot
		}
		bi := produce(M, slot, lpbM, 0)
		if bi < 0 {
			return
		}
		main = append(main, bi)
		info, err := M.Info()
		if err != nil {
			c.Inconclusive(name + ": builder died: " + err.Error())
			return
		}
		libAt[h] = info.LibNo
	}
	// the LIB steps: t = height whose arrival moves the LIB from libAt[t-1] to libAt[t]
	var steps []int
	for t := 2; t <= total-2; t++ {
		if libAt[t] > libAt[t-1] && libAt[t] <= uint64(t-1) {
			steps = append(steps, t)
		}
	}
	if len(steps) == 0 { // n=1: the LIB is the best block itself
		for t := 2; t <= total-2; t++ {
			if libAt[t] > libAt[t-1] {
				steps = append(steps, t)
			}
		}
	}
	if len(steps) == 0 {
		c.Inconclusive(fmt.Sprintf("%s: LIB never advanced on the builder: %v", name, libAt))
		return
	}
	t := steps[(k/3)%len(steps)]
	lPrev, lNew := libAt[t-1], libAt[t]
	// the root of the second branch: reorganisable before block t arrives (>= lPrev), not any more afterwards
	// (< lNew); k%3==0: the edge lNew-1; sometimes below the LIB from the start
	var root uint64
	switch {
	case k%3 == 0:
		root = lNew - 1
	case k%7 == 5 && lPrev > 0:
		root = uint64(r.Intn(int(lPrev)))
	default:
		root = lPrev + uint64(r.Intn(int(lNew-lPrev)))
	}
	deliverMain := func(h int) bool {
		bi := main[h-1]
		s.trace = append(s.trace, fmt.Sprintf("main #%d(h%d,p%d)", bi, s.blocks[bi].no, s.blocks[bi].producer))
		return s.deliver(0, bi, false)
	}
	for h := 1; h < t; h++ {
		if !deliverMain(h) {
			return
		}
	}
	h1 := uint64(t - 1)
	l1 := s.lib[0].no
	for h := uint64(1); h <= root; h++ {
		if res, err := F.AddBlock(s.blocks[main[h-1]].bytes); err != nil || res != "" {
			c.Inconclusive(fmt.Sprintf("%s: fork builder refused main block: %v %s", name, err, res))
			return
		}
	}
	lpbF := make([]uint64, n)
	for h := uint64(1); h <= root; h++ {
		lpbF[s.blocks[main[h-1]].producer] = h
	}
	var fork []int
	fslot := 100000 + 1000*ri
	growFork := func() bool {
		fslot++
		bi := produce(F, fslot, lpbF, 2)
		if bi < 0 {
			return false
		}
		fork = append(fork, bi)
		return true
	}
	// a prefix of the second branch, not longer than the first chain, is stored as a side branch now
	early := 0
	if root < h1 {
		early = 1 + r.Intn(int(h1-root))
		if k%4 == 3 {
			early = 0
		}
	}
	for i := 0; i < early; i++ {
		if !growFork() {
			return
		}
		s.trace = append(s.trace, fmt.Sprintf("fork-early #%d(h%d)", fork[i], s.blocks[fork[i]].no))
		if !s.deliver(0, fork[i], false) {
			return
		}
	}
	// block t moves the LIB past the root; 0..2 more blocks
	last := t + []int{0, 1, 0, 2}[k%4]
	for h := t; h <= last; h++ {
		if !deliverMain(h) {
			return
		}
	}
	main = main[:last]
	h2 := uint64(len(main))
	l2 := s.lib[0].no
	mainTip := s.blocks[main[h2-1]].hash
	// phase 4: the rest of the second branch, longer than the first chain
	want := int(h2-root) + 1 + r.Intn(2)
	for len(fork) < want {
		if !growFork() {
			return
		}
	}
	late := append([]int(nil), fork[early:]...)
	order := "parents-first"
	if r.Intn(2) == 0 {
		order = "children-first"
		for a, b := 0, len(late)-1; a < b; a, b = a+1, b-1 {
			late[a], late[b] = late[b], late[a]
		}
	}
	for _, bi := range late {
		s.trace = append(s.trace, fmt.Sprintf("fork-late(%s) #%d(h%d)", order, bi, s.blocks[bi].no))
		if !s.deliver(0, bi, false) {
			return
		}
	}
	// once more parents first (what a syncing peer would do)
	for _, bi := range fork {
		j.AddBlock(s.blocks[bi].bytes)
		if !s.observe(0, fmt.Sprintf("redelivery of #%d", bi)) {
			return
		}
	}
	best, err := j.Best()
	if err != nil {
		s.fail("node-died", err.Error())
		return
	}
	c.Eval(1)
	class := fmt.Sprintf("root-lib%+d", int64(root)-int64(l2))
	if root < l2 {
		if !bytes.Equal(best.Hash, mainTip) {
			s.fail("reorg-below-lib-performed", fmt.Sprintf("a branch of %d blocks forking at height %d (LIB %d, main height %d, early prefix %d, %s) displaced the main chain: best is now height %d %x", len(fork), root, l2, h2, early, order, best.No, best.Hash[:6]))
			return
		}
		c.Count("longer_branch_below_lib_refused", 1)
		if root+1 == l2 && early > 0 {
			c.Count("longer_branch_below_lib_refused/root=lib-1,first-block-stored-before", 1)
		}
	} else {
		c.Count("longer_branch_at_or_above_lib", 1)
		if !bytes.Equal(best.Hash, mainTip) {
			c.Count("longer_branch_at_or_above_lib/adopted", 1)
		}
	}
	c.Count(fmt.Sprintf("runs_collude_n%d", n), 1)
	c.Count("collude_class/"+class, 1)
	if s.maxLib[0] > 0 {
		c.Count("runs_with_lib_advance", 1)
		for k := 0; k < s.obs; k++ {
			c.Nontrivial(fmt.Sprintf("%s|%d", name, k))
		}
	}
	if ri < 2 {
		c.Sample(map[string]interface{}{"run": name, "n": n, "colluding": true, "root": root, "lib_at_fork": l1, "lib_at_end": l2, "main_height": h2, "fork_blocks": len(fork), "early_prefix": early, "order": order, "steps": s.trace})
	}
}

// failedReorg: colluding producers again, one correct node j. A side branch S1 (valid), S2 (signed by a producer
// that does not own S2's slot), S3 is delivered while j's best block has the height of S2: the reorganisation
// executes S1, refuses S2 before execution and must put everything back - including the finality bookkeeping,
// which at that moment sits on S1 while the block to return to has S1's height + 1. Then the first chain goes on;
// every LIB j reports afterwards must be on its main chain.
func failedReorg(c *vf.Ctx, ri, k, n int) {
	name := fmt.Sprintf("w%d", ri)
	w := rig.NewWorld(name, c.Scratch(), rig.WorldOpts{Public: true, NAccts: 6, Mempool: "recorder", NBP: n, Strict: true})
	defer w.CloseAll()
	r := c.Rand(fmt.Sprintf("failedreorg/%d/%d", ri, n))
	s := &sim{c: c, name: name, n: n, w: w, r: r, byHash: map[string]int{}, honestConfirms: true}
	j, _, err := w.Node("j", func(cfg *rig.NodeConfig) { cfg.NodeKey = 0 })
	relaxed := func(cfg *rig.NodeConfig) { cfg.Strict = false }
	M, _, err1 := w.Node("M", relaxed)
	F, _, err2 := w.Node("F", relaxed)
	if err != nil || err1 != nil || err2 != nil {
		c.Inconclusive(fmt.Sprintf("start nodes: %v %v %v", err, err1, err2))
		return
	}
	s.nodes = []*rig.Client{j}
	s.know = []map[int]bool{{}}
	s.inbox = [][]int{nil}
	s.fixed = []map[uint64]string{{}}
	s.byz = []bool{false}
	s.lib = make([]libRec, 1)
	s.maxLib = make([]uint64, 1)
	// produce one empty block on b in the given slot; wrong: signed by a producer that does not own the slot
	produce := func(b *rig.Client, slot int, lpb []uint64, wrong bool) int {
		ts := w.Tmpl.GenesisTS + int64(slot)*1e9 + 5e8
		o, err := b.OwnerAt(ts)
		if err != nil || o < 0 {
			c.Inconclusive(fmt.Sprintf("%s: no owner for slot %d: %v", name, slot, err))
			return -1
		}
		if wrong {
			o = (o + 1) % n
		}
		best, _ := b.Best()
		p, err := b.Produce(&rig.ProduceReq{TS: ts, Connect: true, Confirms: int64(best.No + 1 - lpb[o]), SignKey: o})
		if err != nil || p.Panic != "" || p.GenErr != "" || p.AddErr != "" {
			c.Inconclusive(fmt.Sprintf("%s: builder production failed in slot %d: %v %+v", name, slot, err, p))
			return -1
		}
		bi := s.addBlock(p, o, wrong)
		lpb[o] = s.blocks[bi].no
		return bi
	}
	total := 3*n + 8 + r.Intn(5)
	lpbM := make([]uint64, n)
	var main []int
	for h := 1; h <= total; h++ {
		bi := produce(M, h, lpbM, false)
		if bi < 0 {
			return
		}
		main = append(main, bi)
	}
	t0 := n + 2 + k%4 // j's best when the side branch arrives
	for h := 1; h <= t0; h++ {
		s.trace = append(s.trace, fmt.Sprintf("main #%d(h%d,p%d)", main[h-1], h, s.blocks[main[h-1]].producer))
		if !s.deliver(0, main[h-1], false) {
			return
		}
	}
	root := uint64(t0 - 2)
	if s.lib[0].no > root {
		c.Count("failed_reorg/root-below-lib-skipped", 1)
		return // the branch would be refused for forking below the LIB: another class (collude)
	}
	for h := uint64(1); h <= root; h++ {
		if res, err := F.AddBlock(s.blocks[main[h-1]].bytes); err != nil || res != "" {
			c.Inconclusive(fmt.Sprintf("%s: fork builder refused main block: %v %s", name, err, res))
			return
		}
	}
	lpbF := make([]uint64, n)
	for h := uint64(1); h <= root; h++ {
		lpbF[s.blocks[main[h-1]].producer] = h
	}
	fslot := 200000 + 1000*ri
	var side []int
	for i := 0; i < 3; i++ {
		fslot++
		if i == 0 {
			// S1 is signed by the producer of the main-chain block of the same height (an equivocation): it is then
			// confirmed at the same pace as that block would be, by the blocks of the two other producers
			wantP := s.blocks[main[root]].producer
			for tr := 0; tr < 4*n; tr++ {
				if o, err := F.OwnerAt(w.Tmpl.GenesisTS + int64(fslot)*1e9 + 5e8); err == nil && o == wantP {
					break
				}
				fslot++
			}
		}
		bi := produce(F, fslot, lpbF, i == 1)
		if bi < 0 {
			return
		}
		side = append(side, bi)
	}
	before, _ := j.Best()
	for i, bi := range side {
		s.trace = append(s.trace, fmt.Sprintf("side S%d #%d(h%d,p%d,wrong-slot=%v)", i+1, bi, s.blocks[bi].no, s.blocks[bi].producer, i == 1))
		s.know[0][bi] = true
		res, err := j.AddBlock(s.blocks[bi].bytes)
		if err != nil {
			s.fail("node-died", fmt.Sprintf("side block S%d: %v", i+1, err))
			return
		}
		c.Count(fmt.Sprintf("failed_reorg/S%d/%s", i+1, short(res)), 1)
		if !s.observe(0, fmt.Sprintf("side block S%d", i+1)) {
			return
		}
	}
	after, _ := j.Best()
	c.Eval(1)
	if !bytes.Equal(before.Hash, after.Hash) {
		s.fail("invalid-branch-adopted", fmt.Sprintf("a branch whose second block is signed by a producer that does not own its slot displaced the main chain: best went from height %d to %d", before.No, after.No))
		return
	}
	c.Count("failed_reorg/refused_before_execution", 1)
	for h := t0 + 1; h <= total; h++ {
		s.trace = append(s.trace, fmt.Sprintf("main #%d(h%d,p%d)", main[h-1], h, s.blocks[main[h-1]].producer))
		if !s.deliver(0, main[h-1], false) {
			return
		}
	}
	if os.Getenv("C08_ONLY") != "" {
		info, _ := j.Info()
		fmt.Printf("DEBUG %s: t0=%d total=%d final LIB (%d,%s) maxLib=%d trace=%v\n", name, t0, total, info.LibNo, info.LibHash, s.maxLib[0], s.trace)
		for _, b := range s.blocks {
			fmt.Printf("  block #%d parent #%d h%d p%d wrong=%v %s\n", b.idx, b.parent, b.no, b.producer, b.byz, types.ToBlockID(b.hash))
		}
	}
	c.Count(fmt.Sprintf("runs_failed_reorg_n%d", n), 1)
	if s.maxLib[0] > 0 {
		c.Count("runs_with_lib_advance", 1)
		for x := 0; x < s.obs; x++ {
			c.Nontrivial(fmt.Sprintf("%s|%d", name, x))
		}
	}
	if k < 1 {
		c.Sample(map[string]interface{}{"run": name, "n": n, "class": "failed reorganisation (wrong-slot block on the side branch)", "steps": s.trace})
	}
}
