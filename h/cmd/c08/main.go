// C08 DPoS finality: the irreversible block is monotone, on-chain and never undone.
package main

import (
	"bytes"
	"fmt"
	"math/big"
	"math/rand"
	"os"
	"sync"

	"github.com/aergoio/aergo/v2/types"

	"verif/h/rig"
	"verif/h/vf"
)

type blk struct {
	idx      int
	parent   int // -1 genesis
	no       uint64
	producer int
	hash     []byte
	bytes    []byte
	byz      bool
}

type libRec struct {
	no   uint64
	hash string
}

type sim struct {
	c              *vf.Ctx
	name           string
	n              int
	w              *rig.World
	nodes          []*rig.Client
	byz            []bool
	blocks         []*blk
	byHash         map[string]int
	know           []map[int]bool // node -> blocks delivered
	inbox          [][]int
	lpb            []uint64
	lib            []libRec            // last observed LIB per node
	maxLib         []uint64            // highest LIB ever per node
	fixed          []map[uint64]string // node -> height -> main-chain hash recorded when the height was <= LIB
	trace          []string
	r              *rand.Rand
	honestConfirms bool
	dead           bool
	obs            int // monitor evaluations in this run
}

func main() {
	if len(os.Args) > 1 && os.Args[1] == "node" {
		rig.ChildMain()
		return
	}
	c := vf.Start("C08", "exploration")
	type cfg struct {
		n, byz int
		lie    bool
	}
	var runs []cfg
	add := func(k int, x cfg) {
		for i := 0; i < k; i++ {
			runs = append(runs, x)
		}
	}
	add(c.Pick(1, 6), cfg{1, 0, false})
	add(c.Pick(6, 80), cfg{3, 0, false})
	add(c.Pick(4, 60), cfg{4, 0, false})
	add(c.Pick(7, 80), cfg{4, 1, false})
	add(c.Pick(4, 40), cfg{4, 1, true})
	// colluding-producer runs (n<0 marks the class)
	firstCollude := len(runs)
	add(c.Pick(1, 4), cfg{-1, 0, false})
	add(c.Pick(6, 60), cfg{-3, 0, false})
	add(c.Pick(6, 60), cfg{-4, 0, false})
	// reorganisations refused before execution (n<0, byz=9 marks the class)
	firstFailed := len(runs)
	add(c.Pick(2, 16), cfg{-3, 9, false})
	add(c.Pick(2, 16), cfg{-4, 9, false})
	var wg sync.WaitGroup
	sem := make(chan struct{}, c.Pick(5, 5))
	only := os.Getenv("C08_ONLY") // development: run a single run index
	for i, rc := range runs {
		if only != "" && only != fmt.Sprintf("r%d", i) && only != fmt.Sprintf("v%d", i) && only != fmt.Sprintf("w%d", i) {
			continue
		}
		wg.Add(1)
		sem <- struct{}{}
		go func(i int, rc cfg) {
			defer wg.Done()
			defer func() { <-sem }()
			if rc.n < 0 && rc.byz == 9 {
				failedReorg(c, i, i-firstFailed, -rc.n)
				return
			}
			if rc.n < 0 {
				collude(c, i, i-firstCollude, -rc.n)
				return
			}
			run(c, i, rc.n, rc.byz, rc.lie)
		}(i, rc)
	}
	wg.Wait()
	c.Finish("n in {1,3,4} node processes with the unmodified DPoS object (signature, producer set, slot owner, LIB) run on logical slots: the slot owner produces with the real producer path on its own best block; a seeded scheduler delivers, delays, reorders, drops (with later parents-first repair) and partitions; correct nodes skip slots; with n=4 one producer is Byzantine (equivocates in its slot on the same or different parents towards different node subsets, extends stale forks, optionally lies in the Confirms header field). After every delivery on every correct node: reported LIB never decreases, lies on the node's main chain, no main-chain block at or below any LIB ever reported changes afterwards, LIB is confirmed by blocks of > 2/3 distinct producers (also when the Byzantine producer inflates Confirms), LIBs of any two correct nodes lie on one branch of the global block tree; a restarted node reports the same LIB and best block; a block numbered at or below the LIB the node has reported, which the node does not have, is refused. Colluding-producer runs (agreement not claimed): all producers are scripted, one correct node is observed; a second branch is started at a root on the first chain, a prefix of it is stored while the root is still at or above the LIB, the first chain grows until the LIB has passed the root, then the rest of the second branch (longer) is delivered parents- or children-first: the main chain must not change when the root is below the LIB. Failed-reorganisation runs: a side branch whose second block is signed by a producer that does not own its slot arrives while the best block has that block's height; the branch must not be adopted and every LIB reported afterwards must lie on the main chain. A case = one evaluation of the monitors on a correct node (after a delivery, an own block, a restart); non-trivial = evaluation in a run in which LIB advanced beyond genesis; distinct = hash(run, evaluation index)",
		c.Pick(100, 2000),
		"bounded: n<=4, f<=1, <=40 slots per run; agreement is explored, not proved",
		"the Confirms header field is chosen by the producer: runs in which the Byzantine producer inflates it are a separate class (violation key suffix /inflated-confirms); all monitors apply to it")
}

func (s *sim) fail(key, msg string) {
	s.dead = true
	if os.Getenv("C08_ONLY") != "" {
		for _, b := range s.blocks {
			fmt.Printf("  block #%d parent #%d h%d p%d byz=%v %s\n", b.idx, b.parent, b.no, b.producer, b.byz, types.ToBlockID(b.hash))
		}
	}
	tr := s.trace
	if len(tr) > 60 {
		tr = tr[len(tr)-60:]
	}
	s.c.Violation(key, fmt.Sprintf("%s (n=%d byz=%v honestConfirms=%v): %s\nlast steps: %v", s.name, s.n, s.byz, s.honestConfirms, msg, tr),
		map[string]interface{}{"run": s.name, "n": s.n, "byzantine": s.byz, "trace": s.trace})
}

func (s *sim) isAncestor(a, b int) bool { // a ancestor-or-equal of b
	for x := b; x >= 0; x = s.blocks[x].parent {
		if x == a {
			return true
		}
	}
	return a == -1
}

// observe applies the monitors to correct node i.
func (s *sim) observe(i int, what string) bool {
	info, err := s.nodes[i].Info()
	if err != nil {
		s.fail("node-died", fmt.Sprintf("node %d after %s: %v", i, what, err))
		return false
	}
	s.c.Eval(1)
	s.obs++
	cur := libRec{info.LibNo, info.LibHash}
	prev := s.lib[i]
	if cur.no < prev.no {
		s.fail("lib-decreased", fmt.Sprintf("node %d after %s: reported LIB went from %d (%s) to %d (%s)", i, what, prev.no, prev.hash, cur.no, cur.hash))
		return false
	}
	s.lib[i] = cur
	if cur.no > 0 {
		bb, err := s.nodes[i].GetBlockByNo(cur.no)
		if err != nil {
			s.fail("lib-not-on-main-chain", fmt.Sprintf("node %d after %s: LIB %d (%s) but the main chain has no block at that height: %v", i, what, cur.no, cur.hash, err))
			return false
		}
		b := rig.DecBlock(bb)
		if b.ID() != cur.hash {
			s.fail("lib-not-on-main-chain", fmt.Sprintf("node %d after %s: LIB is (%d, %s) but the main chain has %s at that height", i, what, cur.no, cur.hash, b.ID()))
			return false
		}
	}
	// (3) nothing at or below the highest LIB ever reported changes
	if cur.no > s.maxLib[i] {
		// record the main chain for the newly irreversible heights
		for h := s.maxLib[i] + 1; h <= cur.no; h++ {
			bb, err := s.nodes[i].GetBlockByNo(h)
			if err != nil {
				s.fail("irreversible-height-missing", fmt.Sprintf("node %d: height %d <= LIB %d not on the main chain", i, h, cur.no))
				return false
			}
			s.fixed[i][h] = rig.Hx(rig.DecBlock(bb).BlockHash())
		}
		// (4) quorum behind the new LIB: distinct producers among the blocks this node knows that
		// descend from (or are) the LIB block - only such blocks can confirm it
		{
			if xi, ok := s.byHash[s.fixed[i][cur.no]]; ok {
				prods := map[int]bool{}
				for bi := range s.blocks {
					if s.know[i][bi] && s.isAncestor(xi, bi) {
						prods[s.blocks[bi].producer] = true
					}
				}
				need := 2*s.n/3 + 1
				if len(prods) < need {
					key := "lib-without-quorum"
					if !s.honestConfirms {
						key += "/inflated-confirms"
					}
					s.fail(key, fmt.Sprintf("node %d after %s: LIB advanced to %d (#%d) although only %d distinct producers (need %d of %d) have produced the block or a descendant of it among all blocks the node has received", i, what, cur.no, xi, len(prods), need, s.n))
					return false
				}
			}
		}
		s.maxLib[i] = cur.no
		s.c.Count("lib_advances", 1)
	}
	for h, want := range s.fixed[i] {
		bb, err := s.nodes[i].GetBlockByNo(h)
		got := ""
		if err == nil {
			got = rig.Hx(rig.DecBlock(bb).BlockHash())
		}
		if got != want {
			s.fail("irreversible-block-replaced", fmt.Sprintf("node %d after %s: height %d was at or below the reported LIB with block %s, now the main chain has %s there", i, what, h, want[:12], short(got)))
			return false
		}
	}
	// (5) agreement with the other correct nodes
	if cur.no > 0 {
		ai, ok := s.byHash[s.fixed[i][cur.no]]
		if ok {
			for j := range s.nodes {
				if j == i || s.byz[j] || s.lib[j].no == 0 {
					continue
				}
				aj, ok2 := s.byHash[s.fixed[j][s.lib[j].no]]
				if ok2 && !s.isAncestor(ai, aj) && !s.isAncestor(aj, ai) {
					s.fail("conflicting-irreversible-blocks", fmt.Sprintf("after %s: correct nodes %d and %d hold irreversible blocks #%d (height %d) and #%d (height %d) on different branches", what, i, j, ai, s.blocks[ai].no, aj, s.blocks[aj].no))
					return false
				}
			}
		}
	}
	return true
}

func short(s string) string {
	if len(s) > 12 {
		return s[:12]
	}
	return s
}

// deliver hands block bi to node j (parents first if the scheduler repairs).
func (s *sim) deliver(j, bi int, repair bool) bool {
	if s.know[j][bi] {
		return true
	}
	if repair {
		if p := s.blocks[bi].parent; p >= 0 && !s.know[j][p] {
			if !s.deliver(j, p, true) {
				return false
			}
		}
	}
	libBefore := s.lib[j].no // last LIB this node reported (observed after every delivery and own block)
	res, err := s.nodes[j].AddBlock(s.blocks[bi].bytes)
	s.know[j][bi] = true
	if err != nil {
		if !s.byz[j] {
			s.fail("node-died", fmt.Sprintf("node %d on block #%d: %v", j, bi, err))
			return false
		}
		return true
	}
	s.trace = append(s.trace, fmt.Sprintf("n%d<-#%d(h%d,p%d)%s", j, bi, s.blocks[bi].no, s.blocks[bi].producer, map[bool]string{true: "", false: ":" + short(res)}[res == ""]))
	s.c.Count("deliveries", 1)
	if s.byz[j] {
		return true
	}
	if s.blocks[bi].no <= libBefore {
		s.c.Count("blocks_at_or_below_lib_delivered", 1)
		if res == "" {
			s.fail("block-at-or-below-lib-not-refused", fmt.Sprintf("node %d accepted block #%d (height %d) that it did not have, although it had reported LIB %d", j, bi, s.blocks[bi].no, libBefore))
			return false
		}
	}
	return s.observe(j, fmt.Sprintf("delivery of #%d", bi))
}

func (s *sim) addBlock(p *rig.ProduceRsp, producer int, byz bool) int {
	b := rig.DecBlock(p.Block)
	pi := -1
	if x, ok := s.byHash[rig.Hx(b.GetHeader().GetPrevBlockHash())]; ok {
		pi = x
	}
	nb := &blk{idx: len(s.blocks), parent: pi, no: b.BlockNo(), producer: producer, hash: p.Hash, bytes: p.Block, byz: byz}
	s.blocks = append(s.blocks, nb)
	s.byHash[rig.Hx(p.Hash)] = nb.idx
	return nb.idx
}

func run(c *vf.Ctx, ri, n, nbyz int, lie bool) {
	name := fmt.Sprintf("r%d", ri)
	w := rig.NewWorld(name, c.Scratch(), rig.WorldOpts{Public: true, NAccts: 6, Mempool: "recorder", NBP: n, Strict: true})
	defer w.CloseAll()
	r := c.Rand(fmt.Sprintf("run/%d/%d/%d/%v", ri, n, nbyz, lie))
	s := &sim{c: c, name: name, n: n, w: w, r: r, byHash: map[string]int{}, honestConfirms: !lie}
	for i := 0; i < n; i++ {
		i := i
		nd, _, err := w.Node(fmt.Sprintf("n%d", i), func(cfg *rig.NodeConfig) { cfg.NodeKey = i })
		if err != nil {
			c.Inconclusive("start node: " + err.Error())
			return
		}
		s.nodes = append(s.nodes, nd)
		s.know = append(s.know, map[int]bool{})
		s.inbox = append(s.inbox, nil)
		s.fixed = append(s.fixed, map[uint64]string{})
	}
	s.byz = make([]bool, n)
	for k := 0; k < nbyz; k++ {
		s.byz[r.Intn(n)] = true
	}
	s.lpb = make([]uint64, n)
	s.lib = make([]libRec, n)
	s.maxLib = make([]uint64, n)
	slots := 18 + r.Intn(c.Pick(14, 22))
	gp := big.NewInt(50000000000)
	nonce := uint64(0)
	partition := make([]int, n) // group id per node
	dropP := []int{0, 0, 10, 25}[r.Intn(4)]
	skipP := []int{0, 10, 25}[r.Intn(3)]
	restartAt := 6 + r.Intn(slots-6)
	for slot := 1; slot <= slots && !s.dead; slot++ {
		ts := w.Tmpl.GenesisTS + int64(slot)*1e9 + 5e8
		if slot%7 == 0 { // partitions change
			for i := range partition {
				partition[i] = 0
			}
			if r.Intn(2) == 0 && n > 2 {
				for i := range partition {
					partition[i] = r.Intn(2)
				}
			}
		}
		o, err := s.nodes[0].OwnerAt(ts)
		if err != nil || o < 0 {
			c.Inconclusive(fmt.Sprintf("%s: no owner for slot %d: %v", name, slot, err))
			return
		}
		var produced []int
		mkTx := func() [][]byte {
			if r.Intn(3) == 0 {
				return nil
			}
			nonce++
			// txs need not be executable on every branch: the producer skips those that are not
			tx := rig.TxSpec{Type: types.TxType_TRANSFER, From: w.Accts[0], To: w.Accts[1].Addr, Nonce: nonce, Amount: big.NewInt(int64(slot)), GasPrice: gp, ChainID: w.CIDHash(uint64(slot))}.Build()
			return [][]byte{rig.EncTx(tx)}
		}
		switch {
		case s.byz[o]:
			// equivocation: up to two different blocks in the slot, on its best and on an older block
			best, _ := s.nodes[o].Best()
			parents := [][]byte{nil}
			if bi, ok := s.byHash[rig.Hx(best.Hash)]; ok && r.Intn(2) == 0 {
				if p := s.blocks[bi].parent; p >= 0 {
					parents = append(parents, s.blocks[p].hash)
				} else {
					parents = append(parents, nil)
				}
			} else if r.Intn(2) == 0 {
				parents = append(parents, nil)
			}
			for k, par := range parents {
				// the block's parent: the named one, or the node's current best (after the first block of the
				// slot was connected that is this first block)
				pidx := -1
				h := uint64(1)
				if par != nil {
					if x, ok := s.byHash[rig.Hx(par)]; ok {
						pidx = x
					}
				} else {
					cur, _ := s.nodes[o].Best()
					if x, ok := s.byHash[rig.Hx(cur.Hash)]; ok {
						pidx = x
					}
				}
				if pidx >= 0 {
					h = s.blocks[pidx].no + 1
				}
				// the value a correct producer would put into Confirms: blocks since its own last block ON THE
				// BRANCH IT EXTENDS (an equivocating producer's last block overall may be on another branch,
				// which would silently inflate or shrink the range)
				last := uint64(0)
				for x := pidx; x >= 0; x = s.blocks[x].parent {
					if s.blocks[x].producer == o {
						last = s.blocks[x].no
						break
					}
				}
				conf := int64(h) - int64(last)
				if conf < 1 {
					conf = 1
				}
				if lie {
					conf = int64(1 + r.Intn(40))
				}
				req := &rig.ProduceReq{Txs: mkTx(), TS: ts + int64(k)*1e6, Confirms: conf, SignKey: o, Parent: par, CommitState: true}
				if par == nil && k == 0 {
					req.Connect = true
					req.CommitState = false
				}
				p, err := s.nodes[o].Produce(req)
				if err != nil || p.Panic != "" || p.GenErr != "" {
					continue
				}
				bi := s.addBlock(p, o, true)
				s.know[o][bi] = true
				s.lpb[o] = s.blocks[bi].no
				if !req.Connect {
					s.nodes[o].AddBlock(p.Block)
				}
				produced = append(produced, bi)
				c.Count("byzantine_blocks", 1)
			}
			if len(produced) == 2 {
				c.Count("equivocations", 1)
			}
		case r.Intn(100) < skipP:
			s.trace = append(s.trace, fmt.Sprintf("slot%d:p%d skips", slot, o))
		default:
			best, _ := s.nodes[o].Best()
			p, err := s.nodes[o].Produce(&rig.ProduceReq{Txs: mkTx(), TS: ts, Connect: true, Confirms: int64(best.No + 1 - s.lpb[o]), SignKey: o})
			if err != nil {
				s.fail("node-died", fmt.Sprintf("producer %d in slot %d: %v", o, slot, err))
				return
			}
			if p.Panic != "" || p.GenErr != "" {
				c.Inconclusive(fmt.Sprintf("%s: production failed: %.200s %s", name, p.Panic, p.GenErr))
				return
			}
			if p.AddErr != "" {
				s.trace = append(s.trace, fmt.Sprintf("slot%d:p%d own block refused: %s", slot, o, short(p.AddErr)))
				break
			}
			bi := s.addBlock(p, o, false)
			s.know[o][bi] = true
			s.lpb[o] = s.blocks[bi].no
			produced = append(produced, bi)
			s.trace = append(s.trace, fmt.Sprintf("slot%d:p%d->#%d(h%d)", slot, o, bi, s.blocks[bi].no))
			c.Count("honest_blocks", 1)
			if !s.observe(o, fmt.Sprintf("own block #%d", bi)) {
				return
			}
		}
		// hand the new blocks to the scheduler
		for k, bi := range produced {
			for j := 0; j < n; j++ {
				if j == s.blocks[bi].producer {
					continue
				}
				if s.blocks[bi].byz && len(produced) == 2 && j%2 != k { // equivocating blocks go to different halves first
					if r.Intn(3) != 0 {
						continue
					}
				}
				if partition[j] != partition[s.blocks[bi].producer] || r.Intn(100) < dropP {
					continue // lost for now; repaired later
				}
				s.inbox[j] = append(s.inbox[j], bi)
			}
		}
		// each node processes part of its inbox in a random order
		for j := 0; j < n && !s.dead; j++ {
			r.Shuffle(len(s.inbox[j]), func(a, b int) { s.inbox[j][a], s.inbox[j][b] = s.inbox[j][b], s.inbox[j][a] })
			k := len(s.inbox[j])
			if k > 0 && r.Intn(3) == 0 {
				k = r.Intn(k + 1) // leave some for later (delay)
			}
			for _, bi := range s.inbox[j][:k] {
				if !s.deliver(j, bi, false) {
					return
				}
			}
			s.inbox[j] = s.inbox[j][k:]
		}
		// periodic repair (what the syncer does): parents first, everything known to anyone in the same partition
		if slot%5 == 0 || slot == slots {
			for j := 0; j < n && !s.dead; j++ {
				for bi := range s.blocks {
					if slot == slots || (partition[j] == partition[s.blocks[bi].producer] && r.Intn(2) == 0) {
						if !s.deliver(j, bi, true) {
							return
						}
					}
				}
			}
		}
		// (6) restart of a correct node
		if slot == restartAt {
			var cand []int
			for j := 0; j < n; j++ {
				if !s.byz[j] {
					cand = append(cand, j)
				}
			}
			j := cand[r.Intn(len(cand))]
			before, _ := s.nodes[j].Info()
			bb, _ := s.nodes[j].Best()
			s.nodes[j].Close()
			nd, _, err := w.Node(fmt.Sprintf("n%d", j), func(cfg *rig.NodeConfig) { cfg.NodeKey = j })
			c.Eval(1)
			if err != nil {
				s.fail("restart-failed", fmt.Sprintf("node %d does not restart: %v", j, err))
				return
			}
			s.nodes[j] = nd
			after, _ := nd.Info()
			ab, _ := nd.Best()
			if before.LibNo != after.LibNo || before.LibHash != after.LibHash || !bytes.Equal(bb.Hash, ab.Hash) {
				s.fail("finality-status-differs-after-restart", fmt.Sprintf("node %d: before restart LIB (%d,%s) best %x; after restart LIB (%d,%s) best %x", j, before.LibNo, before.LibHash, bb.Hash[:6], after.LibNo, after.LibHash, ab.Hash[:6]))
				return
			}
			s.trace = append(s.trace, fmt.Sprintf("slot%d:restart n%d (LIB %d)", slot, j, after.LibNo))
			c.Count("restarts_equal", 1)
			if !s.observe(j, "restart") {
				return
			}
		}
	}
	if s.dead {
		return
	}
	// blocks at or below the LIB are refused afterwards: replay every known block once more
	for j := 0; j < n && !s.dead; j++ {
		if s.byz[j] {
			continue
		}
		for bi := range s.blocks {
			s.nodes[j].AddBlock(s.blocks[bi].bytes)
		}
		s.observe(j, "replay of all blocks")
	}
	maxl := uint64(0)
	for j := 0; j < n; j++ {
		if s.maxLib[j] > maxl {
			maxl = s.maxLib[j]
		}
	}
	c.Count(fmt.Sprintf("runs_n%d_byz%d", n, nbyz), 1)
	if maxl > 0 {
		c.Count("runs_with_lib_advance", 1)
		for k := 0; k < s.obs; k++ {
			c.Nontrivial(fmt.Sprintf("%s|%d", name, k))
		}
	}
	if ri < 3 {
		tr := s.trace
		if len(tr) > 40 {
			tr = tr[:40]
		}
		c.Sample(map[string]interface{}{"run": name, "n": n, "byzantine": s.byz, "slots": slots, "blocks": len(s.blocks), "max_lib": maxl, "first_steps": tr})
	}
}
