package main

import (
	"encoding/hex"
	"fmt"

	tl "verif/h/trielib"
)

func k(s string) (x tl.Key) { b, _ := hex.DecodeString(s); copy(x[:], b); return }

func main() {
	kA := k("1000000000000000000000000000000000000000000000000000000000000000")
	kB := k("9000000000000000000000000000000000000000000000000000000000000000")
	vA := k("aa00000000000000000000000000000000000000000000000000000000000000")
	vB := k("bb00000000000000000000000000000000000000000000000000000000000000")
	hist := []tl.Batch{{{K: kA, V: vA}, {K: kB, V: vB}}}
	_, t, _, err := tl.Build("/var/tmp/c10dbg", hist, false)
	fmt.Println(err, hex.EncodeToString(t.Root))
	ap, incl, pk, pv, _ := t.MerkleProof(kA[:])
	fmt.Println("honest inclusion proof for kA: included", incl, "len(ap)", len(ap), pk, hex.EncodeToString(pv))
	fmt.Println("VerifyInclusion(ap,kA,vA)      =", t.VerifyInclusion(ap, kA[:], vA[:]))
	fmt.Println("VerifyNonInclusion(ap,kA,vA,kA) =", t.VerifyNonInclusion(ap, kA[:], vA[:], kA[:]), " <- 'kA is absent' accepted although kA is present")
	bm, apc, h, _, _, _, _ := t.MerkleProofCompressed(kA[:])
	fmt.Println("VerifyNonInclusionC(..kA,vA,kA) =", t.VerifyNonInclusionC(apc, h, bm, kA[:], vA[:], kA[:]))
}
