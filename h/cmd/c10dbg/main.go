package main

import (
	"encoding/hex"
	"fmt"

	tl "verif/h/trielib"
)

func k(s string) (x tl.Key) { b, _ := hex.DecodeString(s); copy(x[:], b); return }

func main() {
	k66 := k("684ecb58e78132acddda91a5cafc8a41c54bc68b983461988db25541d0da0f66")
	k6e := k("684ecb58e78132acddda91a5cafc8a41c54bc68b983461988db25541d0da0f6e")
	k6f := k("684ecb58e78132acddda91a5cafc8a41c54bc68b983461988db25541d0da0f6f")
	v1 := k("b18c76a0b96cf5b2841bb2c1b8a08a6d02755328ab281a2d83b53d462bc39a70")
	v2 := k("33f8c3505f2c5bab49fbdb7f11c30ea5c5cdcd1baaa6d0d99e926a634a8dfe70")
	v3 := k("6474d0b15303fdef26b066acccf8cda42881aaa0a146213253c0f66068698cdf")
	hist := []tl.Batch{
		{{K: k6e, V: v1}, {K: k6f, Del: true}},
		{{K: k66, V: v2}, {K: k6e, Del: true}, {K: k6f, V: v3}},
	}
	_, t, snaps, err := tl.Build("/var/tmp/c10dbg", hist, false)
	fmt.Println(err)
	for _, s := range snaps {
		fmt.Printf("root %x ref %x\n", s.Root, tl.RefRoot(s.Model))
	}
	for _, kk := range []tl.Key{k66, k6e, k6f} {
		g, e := t.Get(kk[:])
		fmt.Printf("get %x -> %x %v\n", kk[28:], g, e)
	}
	// variants
	hist2 := []tl.Batch{
		{{K: k6e, V: v1}},
		{{K: k66, V: v2}, {K: k6e, Del: true}, {K: k6f, V: v3}},
	}
	_, _, snaps, err = tl.Build("/var/tmp/c10dbg", hist2, false)
	fmt.Println(err)
	for _, s := range snaps {
		fmt.Printf("v2 root %x ref %x\n", s.Root, tl.RefRoot(s.Model))
	}
	hist3 := []tl.Batch{
		{{K: k6e, V: v1}},
		{{K: k6e, Del: true}, {K: k6f, V: v3}},
	}
	_, _, snaps, err = tl.Build("/var/tmp/c10dbg", hist3, false)
	fmt.Println(err)
	for _, s := range snaps {
		fmt.Printf("v3 root %x ref %x\n", s.Root, tl.RefRoot(s.Model))
	}
}
