// C03 transaction atomicity: a tx applies fully, as fee+nonce only, or not at all; an invalid
// block leaves the node exactly as it was.
package main

import (
	"bytes"
	"fmt"
	"math/big"
	"os"
	"strings"
	"sync"

	"github.com/aergoio/aergo/v2/types"

	"verif/h/rig"
	"verif/h/vf"
)

type caseDesc struct {
	Config   string   `json:"config"`
	Block    uint64   `json:"block"`
	Version  int32    `json:"version"`
	What     string   `json:"what"`
	Txs      []string `json:"txs"`
	Statuses []string `json:"statuses,omitempty"`
	Diff     []string `json:"diff,omitempty"`
}

func main() {
	if len(os.Args) > 1 && os.Args[1] == "node" {
		rig.ChildMain()
		return
	}
	c := vf.Start("C03", "exploration")
	type cfg struct {
		name   string
		public bool
		cb     bool
	}
	cfgs := []cfg{{"pub-cb", true, true}, {"pub-nocb", true, false}, {"priv-cb", false, true}}
	nblocks := c.Pick(14, 36)
	seeds := c.Pick(1, 3)
	var wg sync.WaitGroup
	sem := make(chan struct{}, 6)
	for s := 0; s < seeds; s++ {
		for _, cf := range cfgs {
			wg.Add(1)
			sem <- struct{}{}
			go func(cf cfg, s int) {
				defer wg.Done()
				defer func() { <-sem }()
				run(c, fmt.Sprintf("%s-s%d", cf.name, s), cf.public, cf.cb, nblocks)
			}(cf, s)
		}
	}
	wg.Wait()
	c.Finish("linear chains from seeded adversarial mixes; per block four monitors on twin processes: (1) block rebuilt without the rejected candidates must be identical; (2) for ERROR receipts the full-dump diff between prefix[:i] and prefix[:i+1] must be exactly nonce+fee; (3) for plain successful transfers the diff must be exactly amount/fee/nonce; (5) the block rebuilt without a tx that failed at run time differs from the block with it by that tx's fee and nonce only (judged when no later tx involves its sender or payer); (4) invalid variants of the block (bad signature / nonce / balance at every position, flipped state/receipts/tx roots) must be refused with raw chain DB, best block, state root and full dump unchanged and the valid block must connect afterwards. A case = one monitor evaluation; non-trivial = evaluation in which the deciding diff or rejection was actually observed",
		c.Pick(60, 300),
		"orphan trie nodes in the content-addressed state store are not residue (unobservable): state is compared by root + full dump, the chain DB by raw keys",
		"fees are taken from the receipt of the same execution")
}

func run(c *vf.Ctx, name string, public, withCB bool, nblocks int) {
	w := rig.NewWorld(name, c.Scratch(), rig.WorldOpts{Public: public, NAccts: 12})
	var cb *rig.Acct
	if withCB {
		cb = rig.NewAcct(name+"/cb", 0)
		w.Tmpl.Coinbase = cb.B58()
	}
	defer w.CloseAll()
	prod, _, err := w.Node("prod", nil)
	twin, _, err2 := w.Node("twin", nil)
	val, _, err3 := w.Node("val", nil)
	if err != nil || err2 != nil || err3 != nil {
		c.Inconclusive(fmt.Sprintf("start nodes: %v %v %v", err, err2, err3))
		return
	}
	g := rig.NewGen(w, c.Rand("gen/"+name))
	g.Kinds = append(append([]string{}, rig.DefaultKinds...), "deploy-fail", "multicall", "multicall-fail", "multicall-fail")
	if !public {
		// chains that are not public know REDEPLOY (the creator replaces a contract's code)
		g.Kinds = append(g.Kinds, "redeploy", "redeploy-fail", "redeploy-fail", "call-inc", "deploy")
	}
	r := c.Rand("mix/" + name)
	for no := uint64(1); no <= uint64(nblocks); no++ {
		best, _ := prod.Best()
		ts := best.TS + 1e9
		ntx := 4 + r.Intn(10)
		st := &rig.Step{No: no, Cands: g.Block(no, ntx)}
		for _, x := range st.Cands {
			st.Descs = append(st.Descs, x.Desc)
		}
		rsp, err := prod.Produce(&rig.ProduceReq{Txs: st.TxBytes(), TS: ts, Connect: true, Confirms: -1, SignKey: 0})
		if err != nil {
			c.Violation("producer-died", fmt.Sprintf("%s block %d: %v", name, no, err), caseDesc{Config: name, Block: no, Txs: st.Descs})
			return
		}
		st.Rsp = rsp
		if bad := st.Bad(); bad != "" {
			c.Inconclusive(fmt.Sprintf("%s block %d: %.300s", name, no, bad))
			return
		}
		for _, rc := range rsp.Receipts {
			st.Status = append(st.Status, rc.Status)
		}
		g.Applied(st.Cands, rsp.Included, st.Status)
		cd := caseDesc{Config: name, Block: no, Version: w.Version(no), Txs: st.Descs, Statuses: st.Status}
		inc := st.IncludedIdx()
		// included candidates in block order
		order := make([]*rig.GTx, len(rsp.Included))
		var rejected []string
		for i, x := range st.Cands {
			if inc[i] >= 0 {
				order[inc[i]] = x
			} else {
				rejected = append(rejected, x.Desc)
			}
		}
		var incBytes [][]byte
		for _, x := range order {
			incBytes = append(incBytes, rig.EncTx(x.Tx))
		}
		produceTwin := func(txs [][]byte, commit bool) (*rig.ProduceRsp, bool) {
			r2, err := twin.Produce(&rig.ProduceReq{Txs: txs, TS: ts, Connect: false, CommitState: commit, Confirms: -1, SignKey: 0})
			if err != nil {
				c.Violation("twin-died", fmt.Sprintf("%s block %d: %v", name, no, err), cd)
				return nil, false
			}
			twin.ResyncConsensus() // the discarded execution must not leak into the next one (see C02 known finding)
			if r2.Panic != "" || r2.GenErr != "" {
				c.Inconclusive(fmt.Sprintf("%s block %d: twin production failed: %.200s %s", name, no, r2.Panic, r2.GenErr))
				return nil, false
			}
			return r2, true
		}
		// (1) rejected => as if never submitted
		if len(rejected) > 0 {
			c.Eval(1)
			r2, ok := produceTwin(incBytes, false)
			if !ok {
				return
			}
			if !bytes.Equal(r2.Root, rsp.Root) || !bytes.Equal(r2.RcptBytes, rsp.RcptBytes) || !bytes.Equal(r2.Hash, rsp.Hash) {
				d := cd
				d.What = fmt.Sprintf("rejected candidates %v left a trace", rejected)
				c.Violation(fmt.Sprintf("rejected-tx-left-trace/v%d", w.Version(no)), fmt.Sprintf("%s block %d: block built from the candidate list (rejected: %v) has root %x, block built from the list without them has root %x", name, no, rejected, rsp.Root, r2.Root), d)
			}
			c.Count("rejected_txs", len(rejected))
			c.Nontrivial(fmt.Sprintf("rej|%s|%d|%v", name, no, rejected))
		}
		// (2)+(3) per-transaction diffs
		budgetErr, budgetOK := 3, 2
		for p, x := range order {
			status := st.Status[p]
			isErr := status == "ERROR"
			plain := status == "SUCCESS" && strings.HasPrefix(x.Kind, "xfer") && x.Kind != "xfer-name" && len(x.Tx.Body.Recipient) == 33 && x.Tx.Body.Recipient[0] != 0x0c
			if isErr && budgetErr > 0 {
				budgetErr--
			} else if plain && budgetOK > 0 && !isContract(g, x.Tx.Body.Recipient) {
				budgetOK--
			} else {
				continue
			}
			c.Eval(1)
			ra, ok := produceTwin(incBytes[:p], true)
			if !ok {
				return
			}
			rb, ok := produceTwin(incBytes[:p+1], true)
			if !ok {
				return
			}
			da, err1 := twin.Dump(ra.Root)
			db, err2 := twin.Dump(rb.Root)
			if err1 != nil || err2 != nil {
				c.Inconclusive(fmt.Sprintf("%s block %d: dump failed %v %v", name, no, err1, err2))
				return
			}
			if len(rb.Receipts) != p+1 {
				c.Inconclusive(fmt.Sprintf("%s block %d: prefix production included %d of %d txs", name, no, len(rb.Receipts), p+1))
				continue
			}
			rc := rb.Receipts[p]
			if rc.Status != status {
				c.Violation("prefix-status-differs", fmt.Sprintf("%s block %d tx %d (%s): status %s in the block, %s when executed as last tx of the prefix", name, no, p, x.Desc, status, rc.Status), cd)
				continue
			}
			fee := new(big.Int).SetBytes(rc.Fee)
			diff := rig.Diff(da, db)
			allowed := map[string]string{}
			sender := rig.AcctID(x.Tx.Body.Account)
			payer := sender
			if x.Tx.Body.Type == types.TxType_FEEDELEGATION {
				payer = rig.AcctID(x.Tx.Body.Recipient)
			}
			bal := map[string]*big.Int{} // expected balance deltas
			add := func(id string, v *big.Int) {
				if bal[id] == nil {
					bal[id] = new(big.Int)
				}
				bal[id].Add(bal[id], v)
			}
			add(payer, new(big.Int).Neg(fee))
			if cb != nil {
				add(rig.AcctID(cb.Addr), fee)
			}
			if !isErr {
				amt := new(big.Int).SetBytes(x.Tx.Body.Amount)
				add(sender, new(big.Int).Neg(amt))
				add(rig.AcctID(x.Tx.Body.Recipient), amt)
			}
			_ = allowed
			var problems []string
			sawNonce := false
			for _, e := range rig.ParseDiff(diff) {
				switch {
				case e.Field == "nonce" && e.Acct == sender:
					sawNonce = true
					exp := fmt.Sprintf("->%d", x.Tx.Body.Nonce)
					if !strings.HasSuffix(e.Raw, exp) {
						problems = append(problems, "sender nonce: "+e.Raw)
					}
				case e.Field == "balance" || e.Field == "+account":
					// checked numerically below
				default:
					problems = append(problems, e.Raw)
				}
			}
			if !sawNonce {
				problems = append(problems, "sender nonce did not advance")
			}
			// numeric balance check over every account in either dump
			ids := map[string]bool{}
			for id := range da.Accounts {
				ids[id] = true
			}
			for id := range db.Accounts {
				ids[id] = true
			}
			for id := range ids {
				b0, b1 := new(big.Int), new(big.Int)
				if a := da.Accounts[id]; a != nil {
					b0.SetString(a.Balance, 10)
				}
				if a := db.Accounts[id]; a != nil {
					b1.SetString(a.Balance, 10)
				}
				want := bal[id]
				if want == nil {
					want = new(big.Int)
				}
				if got := new(big.Int).Sub(b1, b0); got.Cmp(want) != 0 {
					problems = append(problems, fmt.Sprintf("balance of %s changed by %s, expected %s", id[:12], got, want))
				}
				if da.Accounts[id] == nil && db.Accounts[id] != nil && isErr {
					problems = append(problems, "account created by a failed tx: "+id[:12])
				}
			}
			if isErr && w.Version(no) >= 3 && rc.NEvents != 0 {
				problems = append(problems, fmt.Sprintf("ERROR receipt carries %d events", rc.NEvents))
			}
			kind := "success-transfer"
			if isErr {
				kind = "runtime-error"
			}
			c.Count("txdiff/"+kind, 1)
			c.Count("txdiff/kind/"+x.Kind, 1)
			if len(problems) > 0 {
				d := cd
				d.What = fmt.Sprintf("%s tx at position %d: %s", kind, p, x.Desc)
				d.Diff = diff
				c.Violation(fmt.Sprintf("%s-residue/%s/v%d", kind, x.Kind, w.Version(no)),
					fmt.Sprintf("%s block %d tx %d (%s, receipt %s, fee %s): effects beyond the permitted ones:\n  %s\nfull diff: %v", name, no, p, x.Desc, status, fee, strings.Join(problems, "\n  "), diff), d)
			}
			c.Nontrivial(fmt.Sprintf("txdiff|%s|%d|%d|%s", name, no, p, x.Desc))
			if isErr {
				c.Sample(map[string]interface{}{"config": name, "block": no, "tx": x.Desc, "status": status, "fee": fee.String(), "diff": diff})
			}
		}
		// (5) a tx that failed at run time leaves nothing that LATER transactions of the block could see: the
		// block without it differs from the block with it by fee and nonce only. Judged only when no later
		// transaction involves the failed tx's sender or payer (a missing nonce or fee would legitimately change
		// their outcome).
		budgetRm := 2
		for p, x := range order {
			if st.Status[p] != "ERROR" || p == len(order)-1 || budgetRm == 0 {
				continue
			}
			sender := rig.AcctID(x.Tx.Body.Account)
			payer := sender
			if x.Tx.Body.Type == types.TxType_FEEDELEGATION {
				payer = rig.AcctID(x.Tx.Body.Recipient)
			}
			independent := len(x.Tx.Body.Account) == 33
			for _, y := range order[p+1:] {
				for _, id := range []string{rig.AcctID(y.Tx.Body.Account), rig.AcctID(y.Tx.Body.Recipient)} {
					if id == sender || id == payer {
						independent = false
					}
				}
				if len(y.Tx.Body.Account) != 33 || strings.HasPrefix(y.Kind, "call-nest") || y.Kind == "call-pay" || y.Kind == "call-payfail" || y.Kind == "call-guarded" {
					independent = false // named senders and calls that pay out to arbitrary accounts
				}
			}
			if !independent {
				continue
			}
			budgetRm--
			c.Eval(1)
			without := append(append([][]byte{}, incBytes[:p]...), incBytes[p+1:]...)
			ra, ok := produceTwin(without, true)
			if !ok {
				return
			}
			rb, ok := produceTwin(incBytes, true)
			if !ok {
				return
			}
			if len(ra.Receipts) != len(order)-1 || len(rb.Receipts) != len(order) {
				c.Count("removal/not-comparable", 1)
				continue
			}
			da, err1 := twin.Dump(ra.Root)
			db, err2 := twin.Dump(rb.Root)
			if err1 != nil || err2 != nil {
				c.Inconclusive(fmt.Sprintf("%s block %d: dump failed %v %v", name, no, err1, err2))
				return
			}
			var problems []string
			for q := range ra.Receipts {
				qq := q
				if q >= p {
					qq = q + 1
				}
				if ra.Receipts[q].Status != rb.Receipts[qq].Status || ra.Receipts[q].Ret != rb.Receipts[qq].Ret {
					problems = append(problems, fmt.Sprintf("tx %d (%s): %s %q with the failed tx before it, %s %q without", qq, order[qq].Desc, rb.Receipts[qq].Status, rb.Receipts[qq].Ret, ra.Receipts[q].Status, ra.Receipts[q].Ret))
				}
			}
			cbID := ""
			if cb != nil {
				cbID = rig.AcctID(cb.Addr)
			}
			for _, e := range rig.ParseDiff(rig.Diff(da, db)) {
				switch {
				case e.Field == "nonce" && e.Acct == sender:
				case e.Field == "balance" && (e.Acct == payer || e.Acct == cbID):
				default:
					problems = append(problems, e.Raw)
				}
			}
			c.Count("removal/compared", 1)
			c.Count("removal/kind/"+x.Kind, 1)
			if len(problems) > 0 {
				d := cd
				d.What = fmt.Sprintf("failed tx at position %d (%s) changes what later transactions do", p, x.Desc)
				c.Violation(fmt.Sprintf("runtime-error-visible-to-later-txs/%s/v%d", x.Kind, w.Version(no)),
					fmt.Sprintf("%s block %d: the block with and without the failed tx %d (%s) differ by more than its fee and nonce:\n  %s", name, no, p, x.Desc, strings.Join(problems, "\n  ")), d)
			}
			c.Nontrivial(fmt.Sprintf("removal|%s|%d|%d|%s", name, no, p, x.Desc))
		}
		// (4) invalid variants of this block
		blk := rig.DecBlock(rsp.Block)
		variants := invalidVariants(w, g, blk, r, no)
		if len(variants) > 0 {
			before, err := snapshot(val)
			if err != nil {
				c.Inconclusive("snapshot: " + err.Error())
				return
			}
			for _, v := range variants {
				c.Eval(1)
				ve, err := val.AddBlock(rig.EncBlock(v.blk))
				if err != nil {
					c.Violation("validator-died", fmt.Sprintf("%s block %d variant %s: %v", name, no, v.name, err), cd)
					return
				}
				c.Count("invalid/"+v.class, 1)
				d := cd
				d.What = "invalid variant: " + v.name
				if ve == "" {
					c.Violation("invalid-block-accepted/"+v.class, fmt.Sprintf("%s block %d: variant %q was accepted", name, no, v.name), d)
					return
				}
				after, err := snapshot(val)
				if err != nil {
					c.Violation("snapshot-failed-after-invalid-block/"+v.class, fmt.Sprintf("%s block %d variant %s: %v", name, no, v.name, err), d)
					return
				}
				if diffs := before.diff(after); len(diffs) > 0 {
					d.Diff = diffs
					c.Violation("invalid-block-left-trace/"+v.class, fmt.Sprintf("%s block %d: variant %q was refused (%s) but the node changed: %v", name, no, v.name, ve, diffs), d)
				}
				c.Nontrivial(fmt.Sprintf("inv|%s|%d|%s", name, no, v.name))
			}
		}
		// the valid block must (still) connect
		ve, err := val.AddBlock(rsp.Block)
		if err != nil {
			c.Violation("validator-died", fmt.Sprintf("%s block %d: %v", name, no, err), cd)
			return
		}
		if ve != "" {
			c.Violation("valid-block-refused-after-invalid-siblings", fmt.Sprintf("%s block %d (v%d): after %d refused invalid variants the valid block is refused: %s", name, no, w.Version(no), len(variants), ve), cd)
			return
		}
		vb, _ := val.Best()
		if !bytes.Equal(vb.Hash, rsp.Hash) || !bytes.Equal(vb.SdbRoot, rsp.Root) {
			c.Violation("validator-state-differs", fmt.Sprintf("%s block %d: validator best %x root %x, expected %x %x", name, no, vb.Hash, vb.SdbRoot, rsp.Hash, rsp.Root), cd)
			return
		}
		if te, err := twin.AddBlock(rsp.Block); err != nil || te != "" {
			c.Violation("twin-refused-valid-block", fmt.Sprintf("%s block %d: %v %s", name, no, err, te), cd)
			return
		}
	}
}

func isContract(g *rig.Gen, addr []byte) bool {
	for _, c := range g.Contracts {
		if bytes.Equal(c.Addr, addr) {
			return true
		}
	}
	return false
}

type snap struct {
	chainScan map[string][]byte
	best      *rig.BlockInfo
	dump      *rig.Dump
	lib       string
	coh       []string
}

func snapshot(n *rig.Client) (*snap, error) {
	s := &snap{}
	var err error
	if s.chainScan, err = n.Scan("chain"); err != nil {
		return nil, err
	}
	if s.best, err = n.Best(); err != nil {
		return nil, err
	}
	if s.dump, err = n.Dump(nil); err != nil {
		return nil, err
	}
	info, err := n.Info()
	if err != nil {
		return nil, err
	}
	s.lib = info.Consensus
	coh, err := n.Coherent(nil)
	if err != nil {
		return nil, err
	}
	s.coh = coh.Problems
	return s, nil
}

func (a *snap) diff(b *snap) []string {
	var out []string
	for _, d := range rig.DiffMaps(a.chainScan, b.chainScan) {
		out = append(out, "chainDB "+d)
	}
	if !bytes.Equal(a.best.Hash, b.best.Hash) {
		out = append(out, fmt.Sprintf("best %x -> %x", a.best.Hash, b.best.Hash))
	}
	if !bytes.Equal(a.best.SdbRoot, b.best.SdbRoot) {
		out = append(out, fmt.Sprintf("state root %x -> %x", a.best.SdbRoot, b.best.SdbRoot))
	}
	for _, d := range rig.Diff(a.dump, b.dump) {
		out = append(out, "state "+d)
	}
	if a.lib != b.lib {
		out = append(out, "consensus info "+a.lib+" -> "+b.lib)
	}
	for _, p := range b.coh {
		out = append(out, "incoherent: "+p)
	}
	return out
}

type variant struct {
	name, class string
	blk         *types.Block
}

func rehash(b *types.Block) {
	b.Hash = nil
	b.BlockHash()
}

func flip(b []byte) []byte {
	o := append([]byte(nil), b...)
	if len(o) == 0 {
		return []byte{1}
	}
	o[len(o)/2] ^= 0x5a
	return o
}

// invalidVariants derives blocks that extend the same parent and are invalid at a chosen position.
func invalidVariants(w *rig.World, g *rig.Gen, blk *types.Block, r interface{ Intn(int) int }, no uint64) []variant {
	var out []variant
	hdr := func(name string, f func(h *types.BlockHeader)) {
		b := rig.CloneBlock(blk)
		f(b.Header)
		rehash(b)
		out = append(out, variant{name: name, class: name, blk: b})
	}
	hdr("state-root-flipped", func(h *types.BlockHeader) { h.BlocksRootHash = flip(h.BlocksRootHash) })
	hdr("receipts-root-flipped", func(h *types.BlockHeader) { h.ReceiptsRootHash = flip(h.ReceiptsRootHash) })
	hdr("txs-root-flipped", func(h *types.BlockHeader) { h.TxsRootHash = flip(h.TxsRootHash) })
	txs := blk.GetBody().GetTxs()
	if len(txs) == 0 {
		return out
	}
	positions := []int{0, len(txs) - 1, r.Intn(len(txs))}
	seen := map[int]bool{}
	for _, p := range positions {
		if seen[p] {
			continue
		}
		seen[p] = true
		mk := func(class string, mut func(tx *types.Tx) bool) {
			b := rig.CloneBlock(blk)
			tx := b.Body.Txs[p]
			if !mut(tx) {
				return
			}
			b.Header.TxsRootHash = types.CalculateTxsRootHash(b.Body.Txs)
			rehash(b)
			out = append(out, variant{name: fmt.Sprintf("%s@%d/%d", class, p, len(txs)), class: class, blk: b})
		}
		signer := func(tx *types.Tx) *rig.Acct {
			for _, a := range w.Accts {
				if bytes.Equal(a.Addr, tx.Body.Account) {
					return a
				}
			}
			return nil
		}
		mk("tx-bad-signature", func(tx *types.Tx) bool {
			tx.Body.Sign = flip(tx.Body.Sign)
			rig.Rehash(tx)
			return true
		})
		mk("tx-signed-by-other-key", func(tx *types.Tx) bool {
			a := signer(tx)
			if a == nil {
				return false
			}
			other := w.Accts[0]
			if other == a {
				other = w.Accts[1]
			}
			rig.Resign(tx, other)
			return true
		})
		mk("tx-nonce-gap", func(tx *types.Tx) bool {
			a := signer(tx)
			if a == nil {
				return false
			}
			tx.Body.Nonce += 7
			rig.Resign(tx, a)
			return true
		})
		mk("tx-nonce-replay", func(tx *types.Tx) bool {
			a := signer(tx)
			if a == nil || tx.Body.Nonce < 2 {
				return false
			}
			tx.Body.Nonce = 1
			rig.Resign(tx, a)
			return true
		})
		mk("tx-insufficient-balance", func(tx *types.Tx) bool {
			a := signer(tx)
			if a == nil || tx.Body.Type != types.TxType_TRANSFER {
				return false
			}
			tx.Body.Amount = new(big.Int).Mul(rig.Aergo, big.NewInt(1e12)).Bytes()
			rig.Resign(tx, a)
			return true
		})
		mk("tx-other-chain-id", func(tx *types.Tx) bool {
			a := signer(tx)
			if a == nil {
				return false
			}
			tx.Body.ChainIdHash = flip(tx.Body.ChainIdHash)
			rig.Resign(tx, a)
			return true
		})
	}
	return out
}
