// C01 ledger conservation: executing blocks never mints or burns native coin.
package main

import (
	"time"
	"encoding/hex"
	"fmt"
	"math/big"
	"os"
	"sync"

	"verif/h/rig"
	"verif/h/vf"
)

type caseDesc struct {
	Config  string   `json:"config"`
	Block   uint64   `json:"block"`
	Version int32    `json:"version"`
	Txs     []string `json:"txs"`
	Statuses []string `json:"statuses"`
}

type cfgSpec struct {
	name     string
	public   bool
	coinbase int // -1 none, -2 dedicated account, >=0 account index that also sends
	vault    bool // fund aergo.vault so that voting rewards are paid
	postlock bool // move the chain past the 86400-block staking lock so that unstake / re-stake / re-vote succeed
}

func main() {
	if len(os.Args) > 1 && os.Args[1] == "node" {
		rig.ChildMain()
		return
	}
	c := vf.Start("C01", "exploration")
	cfgs := []cfgSpec{
		{"pub-cb", true, -2, false, false}, {"pub-nocb", true, -1, false, false}, {"pub-cbsender", true, 0, false, false},
		{"priv-cb", false, -2, false, false}, {"priv-nocb", false, -1, false, false}, {"pub-cb-vault", true, -2, true, false}, {"pub-cb-postlock", true, -2, true, true},
	}
	nblocks := c.Pick(14, 40)
	seeds := c.Pick(1, 4)
	var wg sync.WaitGroup
	sem := make(chan struct{}, 8)
	for s := 0; s < seeds; s++ {
		for _, cs := range cfgs {
			wg.Add(1)
			sem <- struct{}{}
			go func(cs cfgSpec, s int) {
				defer wg.Done()
				defer func() { <-sem }()
				runConfig(c, cs, s, nblocks)
			}(cs, s)
		}
	}
	wg.Wait()
	c.Finish("per configuration a chain is produced block by block from seeded adversarial tx mixes (transfers, governance, names, contracts on the shim VM, failing and rejected txs) crossing hardfork versions 0..5; a case = one block; non-trivial = block with >=1 included tx whose balance sum over the FULL state dump was compared on producer and on a fresh validator; distinct = hash of (config, tx descriptions, statuses)",
		c.Pick(20, 100),
		"fees are only compared with the receipts of the same execution (shim gas != real gas)",
		"contracts run on the PUC-Lua shim VM through the real host layer; SQL not executable")
}

func runConfig(c *vf.Ctx, cs cfgSpec, s int, nblocks int) {
	name := fmt.Sprintf("%s-s%d", cs.name, s)
	opts := rig.WorldOpts{Public: cs.public, NAccts: 12}
	w := rig.NewWorld(name, c.Scratch(), opts)
	var cb *rig.Acct
	switch {
	case cs.coinbase == -2:
		cb = rig.NewAcct(name+"/coinbase", 0)
	case cs.coinbase >= 0:
		cb = w.Accts[cs.coinbase]
	}
	if cb != nil {
		w.Tmpl.Coinbase = cb.B58()
	}
	defer w.CloseAll()
	prod, _, err := w.Node("prod", nil)
	if err != nil {
		c.Inconclusive("cannot start producer: " + err.Error())
		return
	}
	val, _, err := w.Node("val", nil)
	if err != nil {
		c.Inconclusive("cannot start validator: " + err.Error())
		return
	}
	g := rig.NewGen(w, c.Rand("gen/"+name))
	g.Balance = func(i int) *big.Int {
		st, err := prod.GetState(w.Accts[i].Addr)
		if err != nil {
			return nil
		}
		b, _ := new(big.Int).SetString(st.Balance, 10)
		return b
	}
	// the default mix plus transfers that empty an account down to a remainder around the base fee
	g.Kinds = append(append([]string{}, rig.DefaultKinds...), "xfer-sweep", "xfer-sweep")
	if cs.postlock {
		// most accounts hold a stake and votes when the lock period ends
		g.Kinds = []string{"stake", "stake", "stake", "votebp", "votedao", "xfer", "name", "stake-small", "xfer-self"}
	}
	// probe set U: every generated account, system accounts, coinbase
	var U [][]byte
	for _, a := range w.Accts {
		U = append(U, a.Addr)
	}
	for _, sname := range []string{"aergo.system", "aergo.name", "aergo.vault", "aergo.enterprise"} {
		U = append(U, []byte(sname))
	}
	if cb != nil {
		U = append(U, cb.Addr)
	}
	if cs.vault {
		// fund the vault by an ordinary transfer in the first block (genesis cannot name it)
	}
	prevDump, err := val.Dump(nil)
	if err != nil {
		c.Inconclusive("dump: " + err.Error())
		return
	}
	prevSum := prevDump.Sum()
	r := c.Rand("mix/" + name)
	for step := 1; step <= nblocks; step++ {
		if cs.postlock && step == 8 {
			// past the lock period: only the producer is kept (the validator would have to replay 86400 blocks)
			prod.Timeout = 20 * time.Minute
			if e, err := prod.ProduceEmpty(86400); err != nil || e != "" {
				c.Inconclusive(fmt.Sprintf("config %s: fast-forward failed: %v %s", name, err, e))
				return
			}
			val.Kill()
			val = prod
			g.Staked = map[int]bool{}
			// first only unstakes (any staking operation restarts the lock of the account), later re-stakes and votes
			g.Kinds = []string{"unstake", "unstake", "unstake", "unstake", "xfer", "name"}
			if prevDump, err = prod.Dump(nil); err != nil {
				c.Inconclusive("dump: " + err.Error())
				return
			}
			prevSum = prevDump.Sum()
		}
		if cs.postlock && step == 11 {
			g.Kinds = []string{"unstake", "unstake", "stake", "votebp", "votedao", "xfer", "unstake", "name", "name-update"}
		}
		pb, _ := prod.Best()
		no := pb.No + 1
		ntx := 3 + r.Intn(22)
		cands := g.Block(no, ntx)
		if cs.vault && step == 1 {
			// first tx: fund aergo.vault
			sp := rig.TxSpec{Type: 4, From: w.Accts[11], To: []byte("aergo.vault"), Amount: new(big.Int).Mul(big.NewInt(1000), rig.Aergo),
				Nonce: 1, ChainID: w.CIDHash(no), GasPrice: big.NewInt(50000000000)}
			// account 7 is excluded from this block's generated txs by regenerating with it last
			var filtered []*rig.GTx
			for _, x := range cands {
				if x.From != 11 {
					filtered = append(filtered, x)
				}
			}
			cands = append([]*rig.GTx{{Desc: "fund-vault a11", Kind: "xfer", From: 11, Tx: sp.Build(), Expect: "ok"}}, filtered...)
		}
		var txs [][]byte
		var descs []string
		for _, x := range cands {
			txs = append(txs, rig.EncTx(x.Tx))
			descs = append(descs, x.Desc)
		}
		// every created contract address joins U before the block runs
		for _, x := range cands {
			if x.Kind == "deploy" {
				U = append(U, contractID(x))
			}
			if x.Kind == "xfer-new" {
				U = append(U, x.Tx.Body.Recipient)
			}
		}
		rsp, err := prod.Produce(&rig.ProduceReq{Txs: txs, Connect: true, Confirms: -1, SignKey: 0, Probe: U})
		c.Eval(1)
		if err != nil {
			c.Violation("producer-died", fmt.Sprintf("config %s block %d: %v", name, no, err), caseDesc{Config: name, Block: no, Txs: descs})
			return
		}
		if rsp.Panic != "" {
			// a crash in production is C14's subject; here the case is simply not decided
			c.Count("producer_panics", 1)
			c.Inconclusive(fmt.Sprintf("config %s block %d: producer panicked: %.300s", name, no, rsp.Panic))
			return
		}
		if rsp.GenErr != "" || rsp.AddErr != "" {
			c.Inconclusive(fmt.Sprintf("config %s block %d: produce failed gen=%q add=%q", name, no, rsp.GenErr, rsp.AddErr))
			return
		}
		if os.Getenv("C01_DEBUG") != "" && cs.postlock && step >= 8 {
			fmt.Println("DEBUG", name, step, descs, rsp.SkipErrs)
		}
		var statuses []string
		fees := new(big.Int)
		for _, rc := range rsp.Receipts {
			statuses = append(statuses, rc.Status)
			fees.Add(fees, new(big.Int).SetBytes(rc.Fee))
		}
		g.Applied(cands, rsp.Included, statuses)
		{
			inc := map[string]int{}
			for i, h := range rsp.Included {
				inc[string(h)] = i
			}
			for _, x := range cands {
				if i, ok := inc[string(x.Tx.Hash)]; ok {
					c.Count("kind/"+x.Kind+"/"+statuses[i], 1)
				} else {
					c.Count("kind/"+x.Kind+"/skipped", 1)
				}
			}
		}
		cd := caseDesc{Config: name, Block: no, Version: w.Version(no), Txs: descs, Statuses: statuses}
		for _, st := range statuses {
			c.Count("receipt_"+st, 1)
		}
		c.Count("txs_candidate", len(cands))
		c.Count("txs_included", len(rsp.Included))
		c.Count(fmt.Sprintf("blocks_v%d", w.Version(no)), 1)

		// (b) per-transaction probe: sum_U balance + BpReward constant across the block
		if len(rsp.ProbeSums) > 0 {
			base := rsp.ProbeBefore
			for i, sv := range rsp.ProbeSums[:len(rsp.ProbeSums)-1] {
				c.Count("probe_points", 1)
				if sv != base {
					// U may miss an account (e.g. contract-created); (a) is the complete check. Report
					// only when the full-dump check also fails; remember the position.
					cd2 := cd
					cd2.Txs = append([]string{fmt.Sprintf("FIRST DEVIATION after applied tx #%d: %s -> %s", i, base, sv)}, cd.Txs...)
					cd = cd2
					break
				}
			}
		}
		// validator re-executes the block
		ve, err := "", error(nil)
		if val != prod {
			ve, err = val.AddBlock(rsp.Block)
		}
		if err != nil {
			c.Violation("validator-died", fmt.Sprintf("config %s block %d: %v", name, no, err), cd)
			return
		}
		if ve != "" {
			// agreement of producer and validator is C02's subject; conservation is judged on the producer's own
			// state from here on (the case is kept in the evidence, the run is not abandoned)
			c.Count("validator_rejected_a_produced_block", 1)
			c.Set("validator_rejection_example", map[string]interface{}{"config": name, "block": no, "error": ve, "txs": descs})
			val.Kill()
			val = prod
		}
		// (a) block granularity on the validator: full dumps
		d, err := val.Dump(nil)
		if err != nil {
			c.Violation("dump-failed", fmt.Sprintf("config %s block %d: %v", name, no, err), cd)
			return
		}
		sum := d.Sum()
		want := new(big.Int).Set(prevSum)
		if cb == nil {
			want.Sub(want, fees)
		}
		if sum.Cmp(want) != 0 {
			delta := new(big.Int).Sub(sum, prevSum)
			c.Violation(fmt.Sprintf("supply-changed/%s/v%d", cs.name, w.Version(no)),
				fmt.Sprintf("config %s block %d (v%d): total supply %s -> %s (delta %s), permitted delta %s (coinbase set: %v, fees in receipts %s)\nchanges: %v",
					name, no, w.Version(no), prevSum, sum, delta, new(big.Int).Sub(want, prevSum), cb != nil, fees, rig.Diff(prevDump, d)), cd)
		}
		// producer-side dump must agree too
		pd, err := prod.Dump(nil)
		if err == nil && pd.Sum().Cmp(sum) != 0 {
			c.Violation("producer-validator-sum-differ", fmt.Sprintf("config %s block %d: producer total %s validator total %s", name, no, pd.Sum(), sum), cd)
		}
		if len(rsp.Included) > 0 {
			c.Nontrivial(fmt.Sprintf("%s|%v|%v", cs.name, descs, statuses))
			c.Sample(cd)
		}
		c.Count("accounts_in_dump", len(d.Accounts))
		prevDump, prevSum = d, sum
	}
}

func contractID(x *rig.GTx) []byte {
	return rig.ContractID(x.Tx.Body.Account, x.Tx.Body.Nonce)
}

var _ = hex.EncodeToString
