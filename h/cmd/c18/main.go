// C18 P2P boundary: bounded framing, same-chain peers only, content-addressed blocks.
//
// Three parts, each in its own file(s):
//
//	framing.go / wire.go  runFraming       V030ReadWriter round trips, arbitrary streams, allocation bound
//	handshake.go / hsrig.go runHandshake   real V200 / v033 handshakers, honest pairs and single-field differences
//	blockid.go            runBlockIdentity block identity on a node rig (filled in later)
//
// The framing part runs in a CHILD PROCESS (the same binary, C18_STAGE=framing): its allocation
// monitor needs a process in which nothing else allocates, and a reader that trusts an announced
// length can die with an unrecoverable "out of memory" — the child writes the case it is about to
// execute to disk first, and the parent turns a dead child into a violation carrying that case.
package main

import (
	"verif/h/rig"
	"encoding/json"
	"fmt"
	"os"
	"os/exec"
	"path/filepath"
	"strings"
	"sync"
	"time"

	"verif/h/vf"
)

// rec is what a part records; the framing child marshals it to a file and the parent merges it
// into the vf.Ctx (the handshake part records directly through the same interface).
type violationRec struct {
	Key, Desc string
	Replay    interface{}
}

type rec struct {
	mu         sync.Mutex
	Evals      int64                  `json:"evals"`
	Counters   map[string]int64       `json:"counters"`
	Nontrivial []string               `json:"nontrivial"`
	Samples    []interface{}          `json:"samples"`
	Sets       map[string]interface{} `json:"sets"`
	Violations []violationRec         `json:"violations"`
	Inconcl    []string               `json:"inconclusive"`
	seenViol   map[string]bool
}

func newRec() *rec {
	return &rec{Counters: map[string]int64{}, Sets: map[string]interface{}{}, seenViol: map[string]bool{}}
}
func (r *rec) Eval(n int) { r.mu.Lock(); r.Evals += int64(n); r.mu.Unlock() }
func (r *rec) Count(k string, n int) {
	r.mu.Lock()
	r.Counters[k] += int64(n)
	r.mu.Unlock()
}
func (r *rec) Nontriv(k string) { r.mu.Lock(); r.Nontrivial = append(r.Nontrivial, k); r.mu.Unlock() }
func (r *rec) Sample(v interface{}) {
	r.mu.Lock()
	if len(r.Samples) < 2 && v != nil {
		r.Samples = append(r.Samples, v)
	}
	r.mu.Unlock()
}
func (r *rec) Set(k string, v interface{}) { r.mu.Lock(); r.Sets[k] = v; r.mu.Unlock() }
func (r *rec) Violation(key, desc string, replay interface{}) {
	r.mu.Lock()
	defer r.mu.Unlock()
	r.Counters["violations/"+key]++
	if r.seenViol[key] {
		return
	}
	r.seenViol[key] = true
	r.Violations = append(r.Violations, violationRec{key, desc, replay})
}
func (r *rec) Inconclusive(why string) {
	r.mu.Lock()
	r.Inconcl = append(r.Inconcl, why)
	r.mu.Unlock()
}

func (r *rec) mergeInto(c *vf.Ctx) {
	r.mu.Lock()
	defer r.mu.Unlock()
	c.Eval(int(r.Evals))
	for k, v := range r.Counters {
		c.Count(k, int(v))
	}
	for _, k := range r.Nontrivial {
		c.Nontrivial(k)
	}
	for _, s := range r.Samples {
		c.Sample(s)
	}
	for k, v := range r.Sets {
		c.Set(k, v)
	}
	for _, v := range r.Violations {
		c.Violation(v.Key, v.Desc, v.Replay)
	}
	for _, w := range r.Inconcl {
		c.Inconclusive(w)
	}
}

// replayCase is the on-disk form of any C18 case (exactly one member is set).
type replayCase struct {
	Framing   *streamCase `json:"framing,omitempty"`
	Handshake *hsCase     `json:"handshake,omitempty"`
}

func main() {
	if len(os.Args) > 1 && os.Args[1] == "node" {
		rig.ChildMain() // node rig child of part 3
		return
	}
	if os.Getenv("C18_STAGE") == "framing" {
		framingChildMain()
		return
	}
	c := vf.Start("C18", "exploration")

	if c.ReplayPath != "" {
		var rc replayCase
		if err := c.LoadReplay(&rc); err != nil {
			fmt.Println("cannot load replay:", err)
			os.Exit(2)
		}
		r := newRec()
		switch {
		case rc.Framing != nil:
			// also in a child: the case may kill the process
			runFramingChild(c, r, rc.Framing)
		case rc.Handshake != nil:
			replayHandshake(c, r, rc.Handshake)
		}
		r.mergeInto(c)
		c.Finish("replay", 0)
		return
	}

	// part 1 in a child process, concurrently with part 2 in this process
	fr := newRec()
	var wg sync.WaitGroup
	wg.Add(1)
	go func() {
		defer wg.Done()
		runFramingChild(c, fr, nil)
	}()

	hr := newRec()
	runHandshake(c, hr)
	hr.mergeInto(c)

	runBlockIdentity(c)

	wg.Wait()
	fr.mergeInto(c)

	// floor: about half of what the two parts produce (quick ~55k, thorough ~740k distinct judged cases)
	c.Finish("framing: for every generated stream an independent decoder fixes, per ReadMsg call, either the exact message "+
		"(sub-protocol, timestamp, id, original id, payload) or 'error'; the real V030ReadWriter must agree, must not panic, and "+
		"TotalAlloc delta around each ReadMsg must be <= MaxPayloadLength+64KiB. handshake: honest pairs (real code on both ends, "+
		"and captured honest status replayed) must succeed on both ends with Meta.ID = connection identity; a status that differs "+
		"in exactly one NAMED field (genesis, chain id component, sender peer id) or a connection identity that differs from the "+
		"presented one must make the checking side return an error; unnamed fields: outcome only counted.",
		c.Pick(25000, 250000),
		"the 48-byte big-endian header layout (sub-protocol, length, timestamp, id, original id) named in the property record is the wire format",
		"'compatible chain identifier' = same magic, consensus, public and mainnet flags, and version equal to the local hardfork version at the height the remote announces",
		"stub VersionedManager reproduces ChainService.ChainID (genesis id with Version=HardforkConfig.Version(height)) with the real config.HardforkConfig",
	)
}

// runFramingChild re-executes this binary with C18_STAGE=framing and merges what it recorded.
// one != nil: run only that case (replay).
func runFramingChild(c *vf.Ctx, r *rec, one *streamCase) {
	self := os.Getenv("VERIF_SELF")
	if self == "" {
		self, _ = os.Executable()
	}
	dir := filepath.Join(c.Scratch(), "framing")
	os.MkdirAll(dir, 0o755)
	resPath := filepath.Join(dir, "result.json")
	pendPath := filepath.Join(dir, "pending.json")
	errPath := filepath.Join(dir, "stderr.txt")
	os.Remove(resPath)
	os.Remove(pendPath)
	args := []string{c.Tier}
	cmd := exec.Command(self, args...)
	cmd.Env = append(os.Environ(), "C18_STAGE=framing", "C18_DIR="+dir, fmt.Sprintf("VERIF_SEED=%d", c.Seed))
	if one != nil {
		b, _ := json.Marshal(one)
		p := filepath.Join(dir, "one.json")
		os.WriteFile(p, b, 0o644)
		cmd.Env = append(cmd.Env, "C18_ONE="+p)
	}
	ef, _ := os.Create(errPath)
	cmd.Stderr = ef
	cmd.Stdout = os.Stdout
	if err := cmd.Start(); err != nil {
		r.Inconclusive("framing child could not be started: " + err.Error())
		return
	}
	done := make(chan error, 1)
	go func() { done <- cmd.Wait() }()
	limit := time.Duration(c.Pick(240, 900)) * time.Second // watchdog only
	var werr error
	select {
	case werr = <-done:
	case <-time.After(limit):
		cmd.Process.Kill()
		<-done
		ef.Close()
		r.Inconclusive("framing child exceeded its watchdog")
		return
	}
	ef.Close()
	if b, err := os.ReadFile(resPath); err == nil && werr == nil {
		var cr rec
		if json.Unmarshal(b, &cr) == nil {
			cr.seenViol = map[string]bool{}
			cr.mergeIntoRec(r)
			return
		}
	}
	// the child died
	stderr, _ := os.ReadFile(errPath)
	head := string(stderr)
	if len(head) > 1500 {
		head = head[:1500]
	}
	if pb, err := os.ReadFile(pendPath); err == nil {
		var sc streamCase
		json.Unmarshal(pb, &sc)
		r.Violation("framing/fatal/"+sc.Class,
			fmt.Sprintf("the process died (%v) inside ReadMsg on stream class %s (%s); stderr: %s", werr, sc.Class, sc.Note,
				strings.ReplaceAll(head, "\n", " | ")), replayCase{Framing: &sc})
		r.Eval(1)
		return
	}
	r.Inconclusive(fmt.Sprintf("framing child died outside a monitored call: %v; stderr: %s", werr, head))
}

func (r *rec) mergeIntoRec(dst *rec) {
	dst.Eval(int(r.Evals))
	for k, v := range r.Counters {
		dst.Count(k, int(v))
	}
	for _, k := range r.Nontrivial {
		dst.Nontriv(k)
	}
	dst.mu.Lock()
	dst.Samples = append(dst.Samples, r.Samples...)
	for k, v := range r.Sets {
		dst.Sets[k] = v
	}
	dst.Violations = append(dst.Violations, r.Violations...)
	dst.Inconcl = append(dst.Inconcl, r.Inconcl...)
	dst.mu.Unlock()
}
