package main

import "verif/h/vf"

// Part 3 — block identity (needs the node rig; filled in later).
func runBlockIdentity(c *vf.Ctx) {
}
