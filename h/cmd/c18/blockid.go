package main

import (
	"bytes"
	"fmt"

	"github.com/aergoio/aergo/v2/types"

	"verif/h/rig"
	"verif/h/vf"
)

// Part 3 — block identity: a block obtained from the network is stored and referenced only under
// the digest of its own header; content that does not hash to the announced identifier is
// discarded without affecting what the node will later accept.

func digestOfHeader(b *types.Block) []byte {
	c := &types.Block{Header: b.GetHeader()}
	return c.BlockHash() // Hash field empty -> recomputed from the header
}

type alteration struct {
	name string
	f    func(b *types.Block) bool
}

func alterations() []alteration {
	return []alteration{
		{"header-timestamp-altered-id-kept", func(b *types.Block) bool { b.Header.Timestamp += 7; return true }},
		{"header-coinbase-altered-id-kept", func(b *types.Block) bool { b.Header.CoinbaseAccount = rig.NewAcct("c18/other", 1).Addr; return true }},
		{"header-stateroot-altered-id-kept", func(b *types.Block) bool { b.Header.BlocksRootHash = rig.FlipBytes(b.Header.BlocksRootHash); return true }},
		{"header-confirms-altered-id-kept", func(b *types.Block) bool { b.Header.Confirms += 3; return true }},
		{"body-tx-dropped-id-kept", func(b *types.Block) bool {
			if len(b.Body.Txs) == 0 {
				return false
			}
			b.Body.Txs = b.Body.Txs[1:]
			return true
		}},
		{"body-tx-amount-altered-id-kept", func(b *types.Block) bool {
			if len(b.Body.Txs) == 0 {
				return false
			}
			b.Body.Txs[0].Body.Amount = append([]byte{1}, b.Body.Txs[0].Body.Amount...)
			return true
		}},
		{"body-and-txroot-altered-id-kept", func(b *types.Block) bool {
			if len(b.Body.Txs) < 2 {
				return false
			}
			b.Body.Txs = b.Body.Txs[:len(b.Body.Txs)-1]
			b.Header.TxsRootHash = types.CalculateTxsRootHash(b.Body.Txs)
			return true
		}},
		{"body-last-tx-appended-again-root-and-id-kept", func(b *types.Block) bool {
			// a tx list of odd length >= 3 and the same list plus a copy of its last tx have the same merkle root
			if n := len(b.Body.Txs); n < 3 || n%2 == 0 {
				return false
			}
			b.Body.Txs = append(b.Body.Txs, b.Body.Txs[len(b.Body.Txs)-1])
			return true
		}},
		{"id-field-altered-content-kept", func(b *types.Block) bool { b.Hash = rig.FlipBytes(b.Hash); return true }},
		{"id-of-parent-announced", func(b *types.Block) bool { b.Hash = append([]byte(nil), b.Header.PrevBlockHash...); return true }},
	}
}

func runBlockIdentity(c *vf.Ctx) {
	nscen := c.Pick(3, 12)
	for si := 0; si < nscen; si++ {
		blockIdentityScenario(c, si)
	}
}

func blockIdentityScenario(c *vf.Ctx, si int) {
	name := fmt.Sprintf("bid%d", si)
	w := rig.NewWorld(name, c.Scratch(), rig.WorldOpts{Public: true, NAccts: 8, Mempool: "recorder"})
	defer w.CloseAll()
	r := c.Rand("blockid/" + name)
	builder, _, err := w.Node("builder", nil)
	if err != nil {
		c.Inconclusive("blockid: start builder: " + err.Error())
		return
	}
	nut, _, err := w.Node("nut", nil)
	if err != nil {
		c.Inconclusive("blockid: start nut: " + err.Error())
		return
	}
	g := rig.NewGen(w, r)
	g.Kinds = []string{"xfer", "xfer", "xfer-new", "xfer-zero", "name"}
	alts := alterations()
	fail := func(key, msg string, cs interface{}) {
		c.Violation("blockid/"+key, msg, map[string]interface{}{"BlockID": cs})
	}
	for no := uint64(1); no <= uint64(c.Pick(6, 12)); no++ {
		st, err := rig.ProduceNext(builder, g, no, 3+r.Intn(4), nil)
		if err != nil || st.Bad() != "" {
			c.Inconclusive(fmt.Sprintf("blockid: builder failed: %v %s", err, st.Bad()))
			return
		}
		genuine := rig.DecBlock(st.Rsp.Block)
		// deliver up to three altered copies first (the genuine one arrives afterwards)
		perm := r.Perm(len(alts))
		for x, ai := range perm { // when the block allows it, the duplicated-last-tx copy is always among the three
			if alts[ai].name == "body-last-tx-appended-again-root-and-id-kept" {
				perm[0], perm[x] = perm[x], perm[0]
			}
		}
		delivered := 0
		for _, ai := range perm {
			if delivered >= 3 {
				break
			}
			a := alts[ai]
			cp := rig.CloneBlock(genuine)
			if !a.f(cp) {
				continue
			}
			delivered++
			c.Eval(1)
			// pushed by a peer (block notice / get-block response) or handed over by the syncer
			via := []string{"peer", "syncer"}[r.Intn(2)]
			deliver := nut.AddBlock
			if via == "syncer" {
				deliver = nut.AddBlockSync
			}
			res, err := deliver(rig.EncBlock(cp))
			c.Count("blockid_altered_via/"+via, 1)
			cd := map[string]interface{}{"scenario": name, "height": no, "alteration": a.name, "via": via, "result": res}
			if err != nil {
				fail("node-died", fmt.Sprintf("%s height %d %s: %v", name, no, a.name, err), cd)
				return
			}
			c.Count("blockid_altered/"+a.name+"/"+map[bool]string{true: "accepted", false: "refused"}[res == ""], 1)
			// nothing may be stored or referenced under an identifier that is not the digest of the stored header
			if bad := misfiled(nut); bad != "" {
				fail("stored-under-foreign-id/"+a.name, fmt.Sprintf("%s height %d after altered copy %q (%s): %s", name, no, a.name, res, bad), cd)
				return
			}
			if bb, _ := nut.Best(); bb != nil && bb.No == no && !bytes.Equal(bb.Hash, digestOfBest(nut)) {
				fail("best-id-not-digest/"+a.name, fmt.Sprintf("%s height %d: best block is announced as %x but its header hashes to %x", name, no, bb.Hash, digestOfBest(nut)), cd)
				return
			}
			c.Nontrivial(fmt.Sprintf("%s|%d|%s", name, no, a.name))
		}
		// the genuine block must still be accepted and become best
		deliverG := nut.AddBlock
		if r.Intn(2) == 0 {
			deliverG = nut.AddBlockSync
		}
		res, err := deliverG(st.Rsp.Block)
		cd := map[string]interface{}{"scenario": name, "height": no, "result": res}
		if err != nil {
			fail("node-died", fmt.Sprintf("%s height %d genuine: %v", name, no, err), cd)
			return
		}
		bb, _ := nut.Best()
		if res != "" || !bytes.Equal(bb.Hash, st.Rsp.Hash) {
			fail("genuine-block-refused-after-altered-copy", fmt.Sprintf("%s height %d: after %d relay-altered copies the genuine block %x is refused (%q); best is height %d %x", name, no, delivered, st.Rsp.Hash[:8], res, bb.No, bb.Hash[:8]), cd)
			return
		}
		if bad := misfiled(nut); bad != "" {
			fail("stored-under-foreign-id/after-genuine", fmt.Sprintf("%s height %d: %s", name, no, bad), cd)
			return
		}
		c.Count("blockid_genuine_accepted", 1)
	}
	c.Sample(map[string]interface{}{"part": "block-identity", "scenario": name})
}

func digestOfBest(n *rig.Client) []byte {
	bi, err := n.Best()
	if err != nil {
		return nil
	}
	bb, err := n.GetBlock(bi.Hash)
	if err != nil {
		return nil
	}
	return digestOfHeader(rig.DecBlock(bb))
}

// misfiled scans the raw chain store: every 32-byte key whose value decodes as a block must be the
// digest of that block's header, and every height-index entry must point to such a key.
func misfiled(n *rig.Client) string {
	scan, err := n.Scan("chain")
	if err != nil {
		return ""
	}
	for k, v := range scan {
		if len(k) != 32 {
			continue
		}
		b := rig.DecBlock(v)
		if b == nil || b.GetHeader() == nil || len(b.GetHeader().GetPrevBlockHash()) == 0 && b.GetHeader().GetBlockNo() != 0 {
			continue // a tx index entry or another 32-byte keyed record
		}
		if b.GetHeader().GetChainID() == nil {
			continue
		}
		if d := digestOfHeader(b); !bytes.Equal(d, []byte(k)) {
			return fmt.Sprintf("block stored under key %x but its header hashes to %x (height %d)", []byte(k), d, b.GetHeader().GetBlockNo())
		}
	}
	return ""
}
