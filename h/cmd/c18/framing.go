package main

// Part 1 — framing.  Runs in a child process (see main.go).
//
// Every case is a streamCase; the independent decoder (wire.go) fixes, call by call, what a
// bounded reader must return; the real V030ReadWriter.ReadMsg is run over the same bytes
// (through several io.Reader behaviours) under three monitors: no panic, agreement with the
// oracle (identical message / an error), TotalAlloc delta <= MaxPayloadLength + 64 KiB.

import (
	"bufio"
	"bytes"
	"encoding/hex"
	"encoding/json"
	"fmt"
	"io"
	"math/rand"
	"os"
	"path/filepath"
	"runtime"
	"runtime/debug"
	"strings"
	"time"

	"github.com/aergoio/aergo/v2/p2p/p2pcommon"
	v030 "github.com/aergoio/aergo/v2/p2p/v030"

	"verif/h/vf"
)

const allocSlack = 64 << 10

// development aid only (never enters a verdict): C18_TIMING=1 prints wall time per case class
var (
	timing    = os.Getenv("C18_TIMING") != ""
	classTime = map[string]time.Duration{}
)

type nopCloser struct{}

func (nopCloser) Close() error { return nil }

// ---- reader behaviours -------------------------------------------------------------------

type oneByteReader struct {
	s   []byte
	pos int
}

func (r *oneByteReader) Read(p []byte) (int, error) {
	if len(p) == 0 {
		return 0, nil
	}
	if r.pos >= len(r.s) {
		return 0, io.EOF
	}
	p[0] = r.s[r.pos]
	r.pos++
	return 1, nil
}

type chunkReader struct {
	s     []byte
	pos   int
	state uint64
	max   uint64
}

func (r *chunkReader) Read(p []byte) (int, error) {
	if len(p) == 0 {
		return 0, nil
	}
	if r.pos >= len(r.s) {
		return 0, io.EOF
	}
	n := int(mix(&r.state)%r.max) + 1
	if n > len(p) {
		n = len(p)
	}
	if n > len(r.s)-r.pos {
		n = len(r.s) - r.pos
	}
	copy(p, r.s[r.pos:r.pos+n])
	r.pos += n
	return n, nil
}

// dataErrReader returns the last bytes together with io.EOF
type dataErrReader struct {
	s   []byte
	pos int
}

func (r *dataErrReader) Read(p []byte) (int, error) {
	if r.pos >= len(r.s) {
		return 0, io.EOF
	}
	n := copy(p, r.s[r.pos:])
	r.pos += n
	if r.pos >= len(r.s) {
		return n, io.EOF
	}
	return n, nil
}

// stutterReader returns (0, nil) on every third call (allowed, if discouraged, by io.Reader)
type stutterReader struct {
	chunkReader
	calls int
}

func (r *stutterReader) Read(p []byte) (int, error) {
	r.calls++
	if r.calls%3 == 0 {
		return 0, nil
	}
	return r.chunkReader.Read(p)
}

const numReaderModes = 7

var readerModeNames = [numReaderModes]string{"plain", "bufio16", "onebyte", "chunks", "dataerr", "bufio64k", "stutter"}

func makeReader(mode int, seed uint64, s []byte) io.Reader {
	switch mode {
	case 1:
		return bufio.NewReaderSize(bytes.NewReader(s), 16)
	case 2:
		return &oneByteReader{s: s}
	case 3:
		max := uint64(97)
		if len(s) > 1<<16 {
			max = 70001
		}
		return &chunkReader{s: s, state: seed, max: max}
	case 4:
		return &dataErrReader{s: s}
	case 5:
		return bufio.NewReaderSize(bytes.NewReader(s), 1<<16)
	case 6:
		return &stutterReader{chunkReader: chunkReader{s: s, state: seed, max: 4500}}
	}
	return bytes.NewReader(s)
}

// ---- child main --------------------------------------------------------------------------

type framer struct {
	c      *vf.Ctx
	r      *rec
	limit  uint32
	pend   string
	replay bool
	cache  struct {
		key string
		s   []byte
	}
	arena             []byte
	sbuf              bytes.Buffer
	sinceGC           uint64
	hugeBad           int // circuit breaker: reads that allocated > 1 GiB
	maxHonest, maxAny uint64
}

func framingChildMain() {
	debug.SetGCPercent(-1) // collections only at points chosen below, never inside a measured window
	runtime.GOMAXPROCS(1)  // one goroutine does everything; ReadMemStats stops the world twice per call
	c := vf.Start("C18", "exploration")
	dir := os.Getenv("C18_DIR")
	f := &framer{c: c, r: newRec(), limit: p2pcommon.MaxPayloadLength, pend: filepath.Join(dir, "pending.json")}
	if one := os.Getenv("C18_ONE"); one != "" {
		var sc streamCase
		b, _ := os.ReadFile(one)
		if err := json.Unmarshal(b, &sc); err != nil {
			fmt.Println("bad replay case:", err)
			os.Exit(2)
		}
		f.replay = true
		f.runCase(&sc)
	} else {
		f.generate()
	}
	if timing {
		fmt.Fprintln(os.Stderr, "framing class times:", classTime)
	}
	f.r.Set("framing_limit", f.limit)
	f.r.Set("framing_alloc_bound", uint64(f.limit)+allocSlack)
	f.r.Set("framing_alloc_max_honest_maxsize_read", f.maxHonest)
	f.r.Set("framing_alloc_max_any_read", f.maxAny)
	b, _ := json.Marshal(f.r)
	os.WriteFile(filepath.Join(dir, "result.json"), b, 0o644)
	os.Exit(0)
}

// ---- building streams --------------------------------------------------------------------

// build returns the stream and, for ViaReal cases, the expectations derived from the SPECS
// (what was handed to the real writer), otherwise those derived from the bytes.
func (f *framer) build(sc *streamCase) ([]byte, []expect) {
	key := ""
	if len(sc.Frames) > 0 && sc.Raw == "" {
		kb, _ := json.Marshal(sc.Frames)
		key = fmt.Sprint(sc.ViaReal) + string(kb)
	}
	var full []byte
	var specExp []expect
	var accepted []bool
	var pays [][]byte
	if sc.ViaReal {
		key = "" // always through the real writer
	}
	if key != "" && key == f.cache.key {
		full = f.cache.s
	} else {
		// payloads and the stream live in buffers that are reused from case to case: the only large
		// allocation left in this process is the one under test
		need := 0
		for _, fs := range sc.Frames {
			need += fs.PayLen
		}
		if cap(f.arena) < need {
			f.arena = make([]byte, need+need/8)
		}
		arena := f.arena[:0]
		carve := func(fs frameSpec) []byte {
			n := len(arena)
			arena = arena[:n+fs.PayLen]
			fillInto(arena[n:], fs.PaySeed)
			return arena[n:len(arena):len(arena)]
		}
		buf := &f.sbuf
		buf.Reset()
		if sc.ViaReal {
			w := v030.NewV030ReadWriter(bytes.NewReader(nil), buf, nopCloser{})
			for i, fs := range sc.Frames {
				pay := carve(fs)
				pays = append(pays, pay)
				buf.Grow(hdrLen + fs.PayLen)
				msg := p2pcommon.NewMessageValue(p2pcommon.SubProtocol(fs.Sub), p2pcommon.MsgID(id16(fs.ID)), p2pcommon.MsgID(id16(fs.Org)), fs.TS, pay)
				before := buf.Len()
				err, pan := safeWrite(w, msg)
				accepted = append(accepted, err == nil && pan == "")
				if pan != "" {
					f.r.Violation("framing/write-panic", fmt.Sprintf("WriteMsg panicked on frame %d of %s: %s", i, sc.Note, pan), replayCase{Framing: sc})
					buf.Truncate(before)
					continue
				}
				if err != nil {
					buf.Truncate(before)
					if uint32(fs.PayLen) <= f.limit && fs.PayLen >= 0 {
						f.r.Violation("framing/write-rejected-valid", fmt.Sprintf("WriteMsg refused a message of %d bytes (limit %d): %v", fs.PayLen, f.limit, err), replayCase{Framing: sc})
					} else {
						f.r.Count("framing/writer_oversize_rejected", 1)
					}
					continue
				}
				if uint32(fs.PayLen) > f.limit {
					f.r.Count("framing/writer_oversize_accepted", 1)
				}
				if fs.PayLen > 1<<17 {
					continue
				}
				// independent encoding of the same message, for the evidence only
				ind := append(encodeHeader(frameSpec{Sub: fs.Sub, Len: uint32(fs.PayLen), TS: fs.TS, ID: fs.ID, Org: fs.Org}), pay...)
				if bytes.Equal(ind, buf.Bytes()[before:]) {
					f.r.Count("framing/writer_bytes_equal_independent_encoder", 1)
				} else {
					f.r.Count("framing/writer_bytes_differ_from_independent_encoder", 1)
				}
			}
		} else {
			for _, fs := range sc.Frames {
				buf.Write(encodeHeader(fs))
				buf.Write(carve(fs))
			}
		}
		if sc.Raw != "" {
			rb, _ := hex.DecodeString(sc.Raw)
			buf.Write(rb)
		}
		full = buf.Bytes()
		if key != "" && len(full) > 1<<16 {
			f.cache.key, f.cache.s = key, append(f.cache.s[:0], full...)
			full = f.cache.s
		}
	}
	s := full
	if sc.Trunc >= 0 && sc.Trunc < len(s) {
		s = s[:sc.Trunc]
	}
	if sc.ViaReal && sc.Trunc < 0 {
		// expectations from the specs: every frame the writer accepted must come back identically
		// (the stream itself is whatever the real writer produced)
		for i, fs := range sc.Frames {
			if !accepted[i] {
				continue // refused by the writer: not in the stream (a refusal of a valid message was reported above)
			}
			if uint32(fs.PayLen) > f.limit {
				specExp = append(specExp, expect{Err: true, Why: "oversize"})
				return s, specExp
			}
			e := expect{Sub: fs.Sub, TS: fs.TS, ID: id16(fs.ID), Org: id16(fs.Org), Payload: pays[i]}
			specExp = append(specExp, e)
		}
		specExp = append(specExp, expect{Err: true, Why: "eof-at-boundary"})
		return s, specExp
	}
	return s, decodeStream(s, f.limit)
}

func safeWrite(w *v030.V030ReadWriter, m p2pcommon.Message) (err error, pan string) {
	defer func() {
		if x := recover(); x != nil {
			pan = fmt.Sprint(x)
		}
	}()
	return w.WriteMsg(m), ""
}

// ---- the monitored execution -------------------------------------------------------------

type callResult struct {
	msg   p2pcommon.Message
	err   error
	pan   string
	delta uint64
}

func safeRead(rw *v030.V030ReadWriter) (m p2pcommon.Message, err error, pan string) {
	defer func() {
		if x := recover(); x != nil {
			pan = fmt.Sprintf("%v\n%s", x, debug.Stack())
		}
	}()
	m, err = rw.ReadMsg()
	return
}

// execute runs ReadMsg up to n times (stops after the first error/panic).
func execute(sc *streamCase, s []byte, n int) []callResult {
	rd := makeReader(sc.Reader, sc.RSeed, s)
	rw := v030.NewV030ReadWriter(rd, io.Discard, nopCloser{})
	out := make([]callResult, 0, n)
	var m0, m1 runtime.MemStats
	for i := 0; i < n; i++ {
		runtime.ReadMemStats(&m0)
		m, err, pan := safeRead(rw)
		runtime.ReadMemStats(&m1)
		out = append(out, callResult{m, err, pan, m1.TotalAlloc - m0.TotalAlloc})
		if err != nil || pan != "" {
			break
		}
	}
	return out
}

func caseKey(sc *streamCase) string {
	var sb strings.Builder
	fmt.Fprintf(&sb, "%s|real=%v|t=%d|r=%d|", sc.Class, sc.ViaReal, sc.Trunc, sc.Reader)
	for _, fs := range sc.Frames {
		fmt.Fprintf(&sb, "%x:%d:%d:%d:%s:%s:%x;", fs.Sub, fs.Len, fs.PayLen, fs.TS, fs.ID, fs.Org, fs.PaySeed)
	}
	sb.WriteString(sc.Raw)
	return sb.String()
}

func (f *framer) runCase(sc *streamCase) {
	if timing {
		t0 := time.Now()
		defer func() { classTime[sc.Class] += time.Since(t0) }()
	}
	s, exp := f.build(sc)
	risky := f.replay
	for _, e := range exp {
		if e.Err && e.Why == "oversize" {
			risky = true
		}
	}
	if risky {
		if f.hugeBad >= 3 && !f.replay {
			// circuit breaker: three reads already allocated > 1 GiB each (reported); running hundreds more
			// of them would only exhaust the machine
			f.r.Count("framing/oversize_cases_skipped_after_circuit_breaker", 1)
			return
		}
		b, _ := json.Marshal(sc)
		os.WriteFile(f.pend, b, 0o644)
	}
	res := execute(sc, s, len(exp))
	if risky {
		os.Remove(f.pend)
	}
	bound := uint64(f.limit) + allocSlack
	viol := func(kind, desc string) {
		f.r.Violation("framing/"+kind+"/"+sc.Class, fmt.Sprintf("%s [case %s; reader=%s; stream length %d]", desc, sc.Note, readerModeNames[sc.Reader%numReaderModes], len(s)),
			replayCase{Framing: sc})
	}
	for i, cr := range res {
		e := exp[i]
		f.r.Eval(1)
		if cr.pan != "" {
			viol("panic", fmt.Sprintf("ReadMsg call %d panicked (oracle: %s): %s", i, e, cr.pan))
			break
		}
		// allocation bound (noise can only add: re-measure and keep the minimum before alarming)
		d := cr.delta
		if d > bound {
			if d > 1<<30 {
				f.hugeBad++
				runtime.GC()
				debug.FreeOSMemory()
			} else {
				for k := 0; k < 2 && d > bound; k++ {
					again := execute(sc, s, i+1)
					if len(again) > i && again[i].delta < d {
						d = again[i].delta
					}
				}
			}
		}
		if d > f.maxAny {
			f.maxAny = d
		}
		if !e.Err && uint32(len(e.Payload)) >= f.limit-1 && d > f.maxHonest {
			f.maxHonest = d
		}
		if d > bound {
			viol("alloc-bound", fmt.Sprintf("ReadMsg call %d allocated %d bytes > limit %d + %d slack (oracle: %s)", i, d, f.limit, allocSlack, e))
			break
		}
		if e.Err {
			f.r.Count("framing/expect_error/"+e.Why, 1)
			if cr.err == nil {
				viol("no-error", fmt.Sprintf("ReadMsg call %d returned a message (sub=%#x len=%d) where a clean error is required: %s", i, cr.msg.Subprotocol().Uint32(), len(cr.msg.Payload()), e))
			}
			break
		}
		f.r.Count("framing/expect_message", 1)
		if cr.err != nil {
			if sc.Reader == 4 {
				// is the loss specific to an io.Reader that hands over its last bytes together with io.EOF
				// (allowed by the io.Reader contract)?  then it is one finding, whatever the stream class
				alt := *sc
				alt.Reader = 0
				if r2 := execute(&alt, s, i+1); len(r2) > i && r2[i].err == nil && r2[i].pan == "" {
					f.r.Violation("framing/lost-message/final-bytes-returned-with-eof", fmt.Sprintf("ReadMsg call %d failed (%v) on a complete valid frame (%s) when the underlying io.Reader returns the "+
						"frame's last bytes together with io.EOF (n>0, io.EOF — permitted by the io.Reader contract); the same stream is read correctly when EOF comes with n=0 [case %s; stream length %d]",
						i, cr.err, e, sc.Note, len(s)), replayCase{Framing: sc})
					break
				}
			}
			viol("lost-message", fmt.Sprintf("ReadMsg call %d failed (%v) on a complete valid frame: %s", i, cr.err, e))
			break
		}
		m := cr.msg
		if m == nil {
			viol("lost-message", fmt.Sprintf("ReadMsg call %d returned nil,nil; expected %s", i, e))
			break
		}
		if m.Subprotocol().Uint32() != e.Sub || m.Timestamp() != e.TS || [16]byte(m.ID()) != e.ID || [16]byte(m.OriginalID()) != e.Org ||
			!bytes.Equal(m.Payload(), e.Payload) || m.Length() != uint32(len(e.Payload)) {
			viol("not-identical", fmt.Sprintf("ReadMsg call %d returned msg{sub=%#x ts=%d id=%x org=%x len=%d/%d payloadEqual=%v}; expected %s", i,
				m.Subprotocol().Uint32(), m.Timestamp(), m.ID(), m.OriginalID(), m.Length(), len(m.Payload()), bytes.Equal(m.Payload(), e.Payload), e))
			break
		}
	}
	if len(res) > 0 && len(res) < len(exp) && res[len(res)-1].err == nil && res[len(res)-1].pan == "" {
		// cannot happen (execute only stops early on error), kept as a guard
		f.r.Count("framing/guard_short_execution", 1)
	}
	f.r.Count("framing/cases/"+sc.Class, 1)
	f.r.Count("framing/reader/"+readerModeNames[sc.Reader%numReaderModes], 1)
	f.r.Nontriv(caseKey(sc))
	if sc.Class == "huge" && sc.Reader == 3 || sc.Class == "sequence" && len(sc.Frames) == 3 {
		f.r.Sample(map[string]interface{}{"framing_case": sc, "calls": len(res), "oracle_last": exp[len(res)-1].String()})
	}
	f.sinceGC += 4096
	for _, cr := range res {
		f.sinceGC += cr.delta
	}
	if f.sinceGC > 24<<20 {
		res, s, exp = nil, nil, nil
		f.sinceGC = 0
		runtime.GC()
	}
}

// ---- case generation ---------------------------------------------------------------------

func hex16(r *rand.Rand, kind int) string {
	var b [16]byte
	switch kind % 4 {
	case 0:
		r.Read(b[:])
	case 1: // EmptyID
	case 2:
		for i := range b {
			b[i] = 0xff
		}
	case 3:
		r.Read(b[:])
		b[0], b[15] = 0, 0
	}
	return hex.EncodeToString(b[:])
}

var tsEdge = []int64{0, 1, -1, 1 << 62, -1 << 63, 1<<63 - 1, 1600000000000000000}

func (f *framer) frame(r *rand.Rand, sub uint32, n int) frameSpec {
	k := r.Intn(1000)
	ts := r.Int63()
	if k%3 == 0 {
		ts = tsEdge[k%len(tsEdge)]
	}
	return frameSpec{Sub: sub, Len: uint32(n), TS: ts, ID: hex16(r, k), Org: hex16(r, k/4+1), PayLen: n, PaySeed: r.Uint64()}
}

func (f *framer) subProtocols() (named []uint32) {
	for i := uint32(0); i < 0x8000; i++ {
		if !strings.HasPrefix(p2pcommon.SubProtocol(i).String(), "SubProtocol(") {
			named = append(named, i)
		}
	}
	return
}

func (f *framer) generate() {
	c, L := f.c, int(f.limit)
	named := f.subProtocols()
	f.r.Set("framing_subprotocols_enumerated", len(named))
	if len(named) < 20 {
		f.r.Inconclusive(fmt.Sprintf("only %d named sub-protocol ids could be enumerated", len(named)))
	}
	r := c.Rand("framing")
	ids := append([]uint32{}, named...)
	ids = append(ids, 0, 0xffffffff, 0x80000000, r.Uint32())

	// A. round trip through the real writer: every id x sizes
	var sizes []int
	for i := 0; i <= c.Pick(40, 300); i++ {
		sizes = append(sizes, i)
	}
	sizes = append(sizes, 4047, 4048, 4049, 4095, 4096, 4097, 65487, 65488, 65535, 65536, 65537, 1<<20)
	for i := 0; i < c.Pick(4, 40); i++ {
		sizes = append(sizes, 300+r.Intn(200000))
	}
	bigSizes := []int{L - 1, L, L + 1}
	n := 0
	for _, id := range ids {
		for _, sz := range sizes {
			n++
			sc := &streamCase{Class: "roundtrip", Note: fmt.Sprintf("sub=%#x size=%d", id, sz), Frames: []frameSpec{f.frame(r, id, sz)}, Trunc: -1,
				Reader: n % numReaderModes, RSeed: r.Uint64(), ViaReal: true}
			f.runCase(sc)
		}
		for _, sz := range bigSizes {
			n++
			sc := &streamCase{Class: "roundtrip", Note: fmt.Sprintf("sub=%#x size=limit%+d", id, sz-L), Frames: []frameSpec{f.frame(r, id, sz)}, Trunc: -1,
				Reader: []int{0, 3, 5, 4, 6}[n%5], RSeed: r.Uint64(), ViaReal: true}
			f.runCase(sc)
			// the same frame from the independent encoder (at limit+1 the real writer refuses, the reader must too)
			sc2 := *sc
			sc2.ViaReal, sc2.Class = false, "indep-frame"
			f.runCase(&sc2)
		}
	}

	// B. sequences of frames, real writer and independent encoder alternating
	for i := 0; i < c.Pick(2000, 20000); i++ {
		k := 1 + r.Intn(6)
		var fr []frameSpec
		for j := 0; j < k; j++ {
			sz := r.Intn(64)
			switch r.Intn(6) {
			case 0:
				sz = 0
			case 1:
				sz = r.Intn(9000)
			}
			fr = append(fr, f.frame(r, ids[r.Intn(len(ids))], sz))
		}
		sc := &streamCase{Class: "sequence", Note: fmt.Sprintf("%d frames #%d", k, i), Frames: fr, Trunc: -1, Reader: r.Intn(numReaderModes), RSeed: r.Uint64(), ViaReal: i%2 == 0}
		f.runCase(sc)
	}

	// C. every truncation offset of short streams
	shapes := [][]int{{0}, {1}, {2}, {7}, {48}, {100}, {300}, {0, 0}, {5, 0}, {0, 5}, {33, 70}, {1, 0, 9}}
	if !c.Quick() {
		shapes = append(shapes, []int{4096}, []int{4049, 3}, []int{500, 500, 500}, []int{0, 0, 0, 0})
	}
	for si, sh := range shapes {
		var fr []frameSpec
		total := 0
		for _, sz := range sh {
			fr = append(fr, f.frame(r, named[r.Intn(len(named))], sz))
			total += hdrLen + sz
		}
		for off := 0; off <= total; off++ {
			for mode := 0; mode < numReaderModes; mode++ {
				t := off
				if off == total {
					t = -1
				}
				sc := &streamCase{Class: "trunc-short", Note: fmt.Sprintf("shape#%d %v cut at %d/%d", si, sh, off, total), Frames: fr, Trunc: t, Reader: mode, RSeed: r.Uint64()}
				f.runCase(sc)
			}
		}
	}

	// D. truncation of big frames: header boundary, buffer boundaries, the end, and samples
	for _, sz := range []int{65536 + 3, 1 << 20, L - 1, L} {
		fr := []frameSpec{f.frame(r, named[r.Intn(len(named))], sz)}
		total := hdrLen + sz
		offs := []int{0, 1, 47, 48, 49, 48 + 4047, 48 + 4048, 48 + 4096, 48 + 4097, 48 + 65536, total - 4097, total - 2, total - 1}
		for i := 0; i < c.Pick(6, 60); i++ {
			offs = append(offs, r.Intn(total))
		}
		for i, off := range offs {
			sc := &streamCase{Class: "trunc-big", Note: fmt.Sprintf("size=%d cut at %d/%d", sz, off, total), Frames: fr, Trunc: off, Reader: []int{0, 3, 5}[i%3], RSeed: r.Uint64()}
			f.runCase(sc)
		}
		// and preceded by a small complete frame
		fr2 := []frameSpec{f.frame(r, named[r.Intn(len(named))], 11), fr[0]}
		for i := 0; i < 4; i++ {
			off := 59 + r.Intn(total)
			sc := &streamCase{Class: "trunc-big", Note: fmt.Sprintf("small+size=%d cut at %d", sz, off), Frames: fr2, Trunc: off, Reader: []int{0, 3, 5}[i%3], RSeed: r.Uint64()}
			f.runCase(sc)
		}
	}

	// F. headers announcing far more than the limit (2^32-1, negative-as-uint32, limit+1 ...)
	huge := []uint32{uint32(L) + 1, uint32(L) + 2, uint32(L) + allocSlack, uint32(L) + allocSlack + 4096, uint32(L) * 2, 16 << 20, 64 << 20, 1 << 30, 1<<31 - 1, 1 << 31, 1<<31 + 1,
		0x80000010, 0xc0000000, 0xffffff00, 0xfffffffe, 0xffffffff}
	for i := 0; i < c.Pick(4, 40); i++ {
		huge = append(huge, uint32(L)+1+uint32(r.Int63n(int64(0xffffffff-L))))
	}
	n = 0
	for _, hl := range huge {
		for _, present := range []int{0, 1, 1000, 70000} {
			for _, lead := range []bool{false, true} {
				n++
				fs := f.frame(r, ids[n%len(ids)], present)
				fs.Len = hl
				fr := []frameSpec{fs}
				if lead {
					fr = []frameSpec{f.frame(r, named[n%len(named)], n%37), fs}
				}
				sc := &streamCase{Class: "huge", Note: fmt.Sprintf("announced=%d present=%d lead=%v", hl, present, lead), Frames: fr, Trunc: -1, Reader: []int{0, 1, 3, 5}[n%4], RSeed: r.Uint64()}
				f.runCase(sc)
			}
		}
	}

	// E. random byte streams
	for i := 0; i < c.Pick(20000, 300000); i++ {
		var raw []byte
		kind := i % 4
		if kind == 2 && i%40 != 2 {
			kind = 1 // the near-limit kind costs an 8 MiB allocation per case: one in ten of its share
		}
		switch kind {
		case 0: // pure noise
			raw = make([]byte, r.Intn(300))
			r.Read(raw)
		case 1: // noise header(s) whose length field is near the amount of data that follows
			for k := 0; k < 1+r.Intn(3); k++ {
				rest := r.Intn(200)
				h := make([]byte, hdrLen+rest)
				r.Read(h)
				putBE32(h[4:], uint32(r.Intn(2*rest+2)))
				raw = append(raw, h...)
			}
		case 2: // length field around the limit, little data
			h := make([]byte, hdrLen+r.Intn(100))
			r.Read(h)
			putBE32(h[4:], uint32(L-3+r.Intn(7)))
			raw = h
		case 3: // a valid frame followed by noise
			fs := f.frame(r, ids[r.Intn(len(ids))], r.Intn(50))
			raw = append(encodeHeader(fs), fill(fs.PaySeed, fs.PayLen)...)
			tail := make([]byte, r.Intn(120))
			r.Read(tail)
			raw = append(raw, tail...)
		}
		sc := &streamCase{Class: "random", Note: fmt.Sprintf("kind%d #%d", kind, i), Raw: hex.EncodeToString(raw), Trunc: -1, Reader: r.Intn(numReaderModes), RSeed: r.Uint64()}
		f.runCase(sc)
	}

	// G. writer side, observed only: message whose Length() disagrees with its payload
	{
		var buf bytes.Buffer
		w := v030.NewV030ReadWriter(bytes.NewReader(nil), &buf, nopCloser{})
		err, pan := safeWrite(w, lyingMsg{p2pcommon.NewMessageValue(p2pcommon.PingRequest, p2pcommon.NewMsgID(), p2pcommon.EmptyID, 1, []byte("abc")), 7})
		switch {
		case pan != "":
			f.r.Count("framing/writer_inconsistent_length_panic", 1)
		case err != nil:
			f.r.Count("framing/writer_inconsistent_length_rejected", 1)
		default:
			f.r.Count("framing/writer_inconsistent_length_accepted", 1)
		}
	}
}

type lyingMsg struct {
	p2pcommon.Message
	l uint32
}

func (m lyingMsg) Length() uint32 { return m.l }
