package main

// In-process rig for the chain handshake: two endpoints with their own identity, best block,
// chain identifier and hard-fork schedule; hand-written stubs for the services the real
// handshakers consult; the REAL v200.V200Handshaker and v030.V033Handshaker on top.

import (
	"bytes"
	"fmt"
	"io"
	"math/rand"
	"path/filepath"
	"sync"

	"github.com/aergoio/aergo-lib/log"
	"github.com/aergoio/aergo/v2/config"
	"github.com/aergoio/aergo/v2/p2p/p2pcommon"
	"github.com/aergoio/aergo/v2/p2p/p2pkey"
	v030 "github.com/aergoio/aergo/v2/p2p/v030"
	v200 "github.com/aergoio/aergo/v2/p2p/v200"
	"github.com/aergoio/aergo/v2/types"
	"github.com/libp2p/go-libp2p/core/crypto"

	"verif/h/vf"
)

// chainCfg: what "the same chain" means for one endpoint.
type chainCfg struct {
	Name    string
	ID      types.ChainID // genesis chain id (Version 0)
	Fork    [4]uint64     // V2..V5 activation heights
	Genesis []byte        // genesis block hash
}

func (cc *chainCfg) hardfork() *config.HardforkConfig {
	return &config.HardforkConfig{V2: cc.Fork[0], V3: cc.Fork[1], V4: cc.Fork[2], V5: cc.Fork[3]}
}

// forkVersion: independent statement of the hard-fork version at a height (oracle side).
func forkVersion(fork [4]uint64, h uint64) int32 {
	v := int32(0)
	for i, at := range fork {
		if at <= h {
			v = int32(i + 2)
		}
	}
	return v
}

// stubChain reproduces ChainService.ChainID: genesis id with Version = real HardforkConfig.Version(height).
type stubChain struct {
	types.ChainAccessor // everything else: not used by the handshakers (nil -> panic -> reported)
	cfg                 *chainCfg
	hf                  *config.HardforkConfig
	best                *types.Block
}

func (s *stubChain) GetBestBlock() (*types.Block, error) { return s.best, nil }
func (s *stubChain) ChainID(no types.BlockNo) *types.ChainID {
	b, err := s.cfg.ID.Bytes()
	if err != nil {
		return nil
	}
	cid := new(types.ChainID)
	if cid.Read(b) != nil {
		return nil
	}
	cid.Version = s.hf.Version(no)
	return cid
}

type stubVM struct {
	p2pcommon.VersionedManager
	ca *stubChain
}

func (v *stubVM) GetChainID(no types.BlockNo) *types.ChainID { return v.ca.ChainID(no) }
func (v *stubVM) GetBestChainID() *types.ChainID             { return v.ca.ChainID(v.ca.best.Header.BlockNo) }

type stubIS struct {
	p2pcommon.InternalService
	meta p2pcommon.PeerMeta
	ca   *stubChain
}

func (s *stubIS) SelfMeta() p2pcommon.PeerMeta                     { return s.meta }
func (s *stubIS) SelfNodeID() types.PeerID                         { return s.meta.ID }
func (s *stubIS) GetChainAccessor() types.ChainAccessor            { return s.ca }
func (s *stubIS) CertificateManager() p2pcommon.CertificateManager { return nil }
func (s *stubIS) PeerManager() p2pcommon.PeerManager               { return nil }

type stubPM struct {
	p2pcommon.PeerManager
	meta p2pcommon.PeerMeta
}

func (s *stubPM) SelfMeta() p2pcommon.PeerMeta { return s.meta }
func (s *stubPM) SelfNodeID() types.PeerID     { return s.meta.ID }

type stubActor struct {
	p2pcommon.ActorService
	ca *stubChain
}

func (s *stubActor) GetChainAccessor() types.ChainAccessor { return s.ca }

type endpoint struct {
	id    types.PeerID
	meta  p2pcommon.PeerMeta
	chain *stubChain
	vm    *stubVM
	is    *stubIS
	pm    *stubPM
	actor *stubActor
}

var (
	hsLogger   *log.Logger
	hsInitOnce sync.Once
)

func hsInit(c *vf.Ctx) {
	hsInitOnce.Do(func() {
		hsLogger = log.NewLogger("c18")
		// v200 puts p2pkey.NodeVersion() into its status; the package needs its node info
		p2pkey.InitNodeInfo(&config.BaseConfig{AuthDir: filepath.Join(c.Scratch(), "auth")}, &config.P2PConfig{}, "v2.4.0-c18", hsLogger)
	})
}

// detID derives a secp256k1 identity from the PRNG (libp2p's generator ignores its reader).
func detID(r *rand.Rand) types.PeerID {
	for {
		k := make([]byte, 32)
		r.Read(k)
		priv, err := crypto.UnmarshalSecp256k1PrivateKey(k)
		if err != nil {
			continue
		}
		id, err := types.IDFromPublicKey(priv.GetPublic())
		if err != nil {
			continue
		}
		return id
	}
}

func newEndpoint(id types.PeerID, cfg *chainCfg, height uint64, addr string, port uint32, role types.PeerRole, hidden bool) *endpoint {
	meta := p2pcommon.NewMetaWith1Addr(id, addr, port, "v2.4.0")
	meta.Role = role
	meta.Hidden = hidden
	cidb, _ := cfg.ID.Bytes()
	best := &types.Block{Header: &types.BlockHeader{ChainID: cidb, BlockNo: height, Timestamp: int64(height) * 1e9, PrevBlockHash: bytes.Repeat([]byte{byte(height)}, 32)},
		Body: &types.BlockBody{}}
	best.BlockHash() // fix the lazily computed identifier before any goroutine sees the block
	ca := &stubChain{cfg: cfg, hf: cfg.hardfork(), best: best}
	return &endpoint{id: id, meta: meta, chain: ca, vm: &stubVM{ca: ca}, is: &stubIS{meta: meta, ca: ca}, pm: &stubPM{meta: meta},
		actor: &stubActor{ca: ca}}
}

// handshaker builds the REAL handshaker of the given protocol version for a connection whose
// authenticated remote identity is connID.
func (e *endpoint) handshaker(ver string, connID types.PeerID, rwc io.ReadWriteCloser) p2pcommon.VersionedHandshaker {
	switch ver {
	case "v200":
		return v200.NewV200VersionedHS(e.is, hsLogger, e.vm, nil, connID, rwc, e.chain.cfg.Genesis)
	case "v033":
		return v030.NewV033VersionedHS(e.pm, e.actor, hsLogger, e.vm, connID, rwc, e.chain.cfg.Genesis)
	}
	panic("unknown handshaker version " + ver)
}

// scriptConn: the remote end is a script — everything it will ever send is preloaded, everything
// the handshaker writes is kept.  Reads past the script return io.EOF, so nothing can block.
type scriptConn struct {
	rd *bytes.Reader
	wr bytes.Buffer
}

func newScriptConn(preload []byte) *scriptConn    { return &scriptConn{rd: bytes.NewReader(preload)} }
func (s *scriptConn) Read(p []byte) (int, error)  { return s.rd.Read(p) }
func (s *scriptConn) Write(p []byte) (int, error) { return s.wr.Write(p) }
func (s *scriptConn) Close() error                { return nil }

func roleDo(h p2pcommon.VersionedHandshaker, role string) (res *p2pcommon.HandshakeResult, err error, pan string) {
	defer func() {
		if x := recover(); x != nil {
			pan = fmt.Sprint(x)
		}
	}()
	if role == "inbound" {
		res, err = h.DoForInbound(hsCtx())
	} else {
		res, err = h.DoForOutbound(hsCtx())
	}
	return
}
