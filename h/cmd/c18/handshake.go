package main

// Part 2 — chain handshake.
//
//   - honest pairs: REAL handshaker on both ends of a net.Pipe (outbound A, inbound B), same chain,
//     heights on both sides of every hard-fork boundary                        => both succeed
//   - scripted remote: the honest status is CAPTURED from a real handshaker, then replayed either
//     unchanged (=> success) or with exactly one field changed; fields are enumerated by reflection
//     over types.Status (and types.PeerAddress below Sender).  Only fields the property names
//     (Genesis, ChainID components, Sender.PeerID / connection identity) carry a demand: the
//     checking side must return an error.  Every other field: outcome counted, never judged.
//   - unequal pairs: real code on both ends, endpoints configured for different chains.

import (
	"bytes"
	"context"
	"crypto/sha256"
	"fmt"
	"math"
	"net"
	"reflect"
	"sort"
	"strings"
	"time"

	"github.com/aergoio/aergo/v2/p2p/p2pcommon"
	"github.com/aergoio/aergo/v2/p2p/p2putil"
	"github.com/aergoio/aergo/v2/types"

	"verif/h/vf"
)

func hsCtx() context.Context { return context.Background() }

type hsCase struct {
	Kind    string `json:"kind"` // scripted | pair | unequal
	Ver     string `json:"ver"`
	Role    string `json:"role,omitempty"` // scripted: role of the checking side
	Cfg     int    `json:"cfg"`
	LocalH  uint64 `json:"localh"`  // scripted: checker; pair: A (outbound)
	RemoteH uint64 `json:"remoteh"` // scripted: scripted remote; pair: B (inbound)
	Field   string `json:"field,omitempty"`
	Mut     string `json:"mut,omitempty"`
}

func (h hsCase) key() string {
	return fmt.Sprintf("hs|%s|%s|%s|%d|%d|%d|%s|%s", h.Kind, h.Ver, h.Role, h.Cfg, h.LocalH, h.RemoteH, h.Field, h.Mut)
}

type hsRunner struct {
	c    *vf.Ctx
	r    *rec
	cfgs []*chainCfg
	ids  [3]types.PeerID // 0: L / A, 1: R / B, 2: a third, valid identity
	only *hsCase
}

func genesisOf(name string) []byte { s := sha256.Sum256([]byte("genesis:" + name)); return s[:] }

func newHsRunner(c *vf.Ctx, r *rec) *hsRunner {
	hsInit(c)
	h := &hsRunner{c: c, r: r}
	ir := c.Rand("handshake-ids")
	for i := range h.ids {
		h.ids[i] = detID(ir)
	}
	mx := uint64(math.MaxUint64)
	h.cfgs = []*chainCfg{
		{Name: "private-dpos", ID: types.ChainID{Magic: "c18.verif.chain", Consensus: "dpos"}, Fork: [4]uint64{100, 200, 300, 400}},
		{Name: "main-like", ID: types.ChainID{Magic: "aergo.io", Consensus: "dpos", PublicNet: true, MainNet: true}, Fork: [4]uint64{1000, 1000, 5000, 1 << 40}},
		{Name: "dev-raft", ID: types.ChainID{Magic: "dev.chain", Consensus: "raft"}, Fork: [4]uint64{0, 0, 0, 0}},
		{Name: "test-sbp", ID: types.ChainID{Magic: "x", Consensus: "sbp", PublicNet: true}, Fork: [4]uint64{50, 51, mx, mx}},
	}
	cr := c.Rand("handshake-cfgs")
	for i := 0; i < c.Pick(0, 6); i++ {
		f := [4]uint64{}
		at := uint64(0)
		for k := range f {
			at += uint64(cr.Intn(3000))
			f[k] = at
		}
		h.cfgs = append(h.cfgs, &chainCfg{Name: fmt.Sprintf("rnd%d", i), ID: types.ChainID{Magic: fmt.Sprintf("m%d.%d", i, cr.Intn(1000)), Consensus: []string{"dpos", "raft", "sbp"}[cr.Intn(3)],
			PublicNet: cr.Intn(2) == 0, MainNet: cr.Intn(2) == 0}, Fork: f})
	}
	for _, cf := range h.cfgs {
		cf.Genesis = genesisOf(cf.Name)
	}
	return h
}

// heights on both sides of every fork boundary
func (cf *chainCfg) heights() []uint64 {
	set := map[uint64]bool{0: true, 1: true, 1 << 50: true}
	for _, f := range cf.Fork {
		if f == math.MaxUint64 {
			continue
		}
		if f > 0 {
			set[f-1] = true
		}
		set[f] = true
		set[f+1] = true
	}
	set[cf.Fork[3]/2+7] = true
	out := make([]uint64, 0, len(set))
	for k := range set {
		out = append(out, k)
	}
	sort.Slice(out, func(i, j int) bool { return out[i] < out[j] })
	return out
}

func (h *hsRunner) endpoints(cfgL, cfgR *chainCfg, hl, hr uint64) (*endpoint, *endpoint) {
	L := newEndpoint(h.ids[0], cfgL, hl, "192.168.10.2", 7846, types.PeerRole_Producer, false)
	R := newEndpoint(h.ids[1], cfgR, hr, "node-b.c18.example.org", 17846, types.PeerRole_Watcher, hr%2 == 1)
	return L, R
}

func runHandshake(c *vf.Ctx, r *rec) {
	h := newHsRunner(c, r)
	h.honestPairs()
	h.scripted()
	h.unequalPairs()
	r.Set("handshake_status_fields_enumerated", h.fieldList())
}

func replayHandshake(c *vf.Ctx, r *rec, hc *hsCase) {
	h := newHsRunner(c, r)
	h.only = hc
	switch hc.Kind {
	case "pair":
		h.honestPairs()
	case "scripted":
		h.scripted()
	case "unequal":
		h.unequalPairs()
	}
}

func (h *hsRunner) skip(hc hsCase) bool {
	if h.only == nil {
		return false
	}
	o := *h.only
	if hc.Field == "" && hc.Mut == "" { // scenario-level filter
		o.Field, o.Mut = "", ""
	}
	return o != hc
}

// ---- real code on both ends -----------------------------------------------------------------

type sideResult struct {
	res *p2pcommon.HandshakeResult
	err error
	pan string
}

func (s sideResult) ok() bool { return s.err == nil && s.pan == "" && s.res != nil }
func (s sideResult) String() string {
	switch {
	case s.pan != "":
		return "panic: " + s.pan
	case s.err != nil:
		return "error: " + s.err.Error()
	case s.res == nil:
		return "nil result"
	}
	return "success"
}

// runPair: A dials (outbound) B (inbound) over net.Pipe.  aConn / bConn: the authenticated identity
// each side's transport reports for the other end.
func (h *hsRunner) runPair(A, B *endpoint, ver string, aConn, bConn types.PeerID) (ra, rb sideResult, ok bool) {
	ca, cb := net.Pipe()
	cha, chb := make(chan sideResult, 1), make(chan sideResult, 1)
	go func() {
		res, err, pan := roleDo(A.handshaker(ver, aConn, ca), "outbound")
		ca.Close()
		cha <- sideResult{res, err, pan}
	}()
	go func() {
		res, err, pan := roleDo(B.handshaker(ver, bConn, cb), "inbound")
		cb.Close()
		chb <- sideResult{res, err, pan}
	}()
	wd := time.After(30 * time.Second) // watchdog only
	got := 0
	for got < 2 {
		select {
		case ra = <-cha:
			got++
		case rb = <-chb:
			got++
		case <-wd:
			ca.Close()
			cb.Close()
			h.r.Inconclusive("handshake pair did not finish within the watchdog")
			return ra, rb, false
		}
	}
	return ra, rb, true
}

func (h *hsRunner) checkResult(hc hsCase, side string, s sideResult, peer *endpoint, conn types.PeerID) {
	if !s.ok() {
		return
	}
	if s.res.Meta.ID != conn {
		h.r.Violation("handshake/meta-id/"+hc.Ver+"/"+side, fmt.Sprintf("handshake succeeded but reports peer identity %s for a connection authenticated as %s",
			types.IDB58Encode(s.res.Meta.ID), types.IDB58Encode(conn)), replayCase{Handshake: &hc})
	}
	if peer != nil {
		if s.res.BestBlockNo == peer.chain.best.Header.BlockNo && bytes.Equal(s.res.BestBlockHash[:], peer.chain.best.BlockHash()) {
			h.r.Count("hs/result_best_block_as_announced", 1)
		} else {
			h.r.Count("hs/result_best_block_differs", 1)
		}
	}
}

func (h *hsRunner) honestPairs() {
	for ci, cf := range h.cfgs {
		hs := cf.heights()
		for _, ver := range []string{"v200", "v033"} {
			for _, ha := range hs {
				for _, hb := range hs {
					hc := hsCase{Kind: "pair", Ver: ver, Cfg: ci, LocalH: ha, RemoteH: hb}
					if h.skip(hc) {
						continue
					}
					A, B := h.endpoints(cf, cf, ha, hb)
					ra, rb, fin := h.runPair(A, B, ver, B.id, A.id)
					if !fin {
						return
					}
					h.r.Eval(2)
					h.r.Count("hs/honest_pairs/"+ver, 1)
					if !ra.ok() || !rb.ok() {
						h.r.Violation("handshake/honest-fail/"+ver, fmt.Sprintf("same chain (%s), same genesis, correct identities, heights A=%d (fork version %d) B=%d (fork version %d): outbound %s; inbound %s",
							cf.Name, ha, forkVersion(cf.Fork, ha), hb, forkVersion(cf.Fork, hb), ra, rb), replayCase{Handshake: &hc})
						continue
					}
					h.checkResult(hc, "outbound", ra, B, B.id)
					h.checkResult(hc, "inbound", rb, A, A.id)
					h.r.Nontriv(hc.key())
					if forkVersion(cf.Fork, ha) != forkVersion(cf.Fork, hb) {
						h.r.Count("hs/honest_pairs_across_fork_versions", 1)
					}
				}
			}
		}
	}
}

// ---- scripted remote ---------------------------------------------------------------------------

// captureStatus: what a real handshaker of this version, run by endpoint e towards peer `to`, sends.
func (h *hsRunner) captureStatus(e *endpoint, ver string, to types.PeerID) (*types.Status, error) {
	sc := newScriptConn(nil)
	roleDo(e.handshaker(ver, to, sc), "outbound") // sends its status, then fails reading: expected
	fr := decodeStream(sc.wr.Bytes(), p2pcommon.MaxPayloadLength)
	if len(fr) < 2 || fr[0].Err || fr[0].Sub != p2pcommon.StatusRequest.Uint32() {
		return nil, fmt.Errorf("no status frame captured (%v)", fr)
	}
	st := &types.Status{}
	if err := p2putil.UnmarshalMessageBody(fr[0].Payload, st); err != nil {
		return nil, err
	}
	return st, nil
}

func statusFrame(st *types.Status) ([]byte, error) {
	b, err := p2putil.MarshalMessageBody(st)
	if err != nil {
		return nil, err
	}
	fs := frameSpec{Sub: p2pcommon.StatusRequest.Uint32(), Len: uint32(len(b)), TS: 1700000000000000000, ID: "0102030405060708090a0b0c0d0e0f10", Org: ""}
	return append(encodeHeader(fs), b...), nil
}

func cloneStatus(st *types.Status) *types.Status {
	b, _ := p2putil.MarshalMessageBody(st)
	out := &types.Status{}
	p2putil.UnmarshalMessageBody(b, out)
	return out
}

// independent decoding of the chain identifier bytes
type cidParts struct {
	Ver       int32
	Pub, Main bool
	Magic     string
	Cons      string
}

func decodeCID(b []byte) (p cidParts, ok bool) {
	if len(b) < 6 {
		return p, false
	}
	p.Ver = int32(uint32(b[0]) | uint32(b[1])<<8 | uint32(b[2])<<16 | uint32(b[3])<<24)
	p.Pub, p.Main = b[4] != 0, b[5] != 0
	parts := strings.Split(string(b[6:]), "/")
	if len(parts) != 2 {
		return p, false
	}
	p.Magic, p.Cons = parts[0], parts[1]
	return p, true
}

// cidDemand: which component makes the presented identifier incompatible with the local chain at
// the announced height ("" = compatible or not clearly incompatible: no demand).
func cidDemand(presented []byte, cf *chainCfg, announcedHeight uint64) string {
	p, ok := decodeCID(presented)
	if !ok {
		return "unparseable"
	}
	switch {
	case p.Magic != cf.ID.Magic:
		if strings.EqualFold(p.Magic, cf.ID.Magic) {
			return ""
		}
		return "magic"
	case p.Cons != cf.ID.Consensus:
		if strings.EqualFold(p.Cons, cf.ID.Consensus) {
			return ""
		}
		return "consensus"
	case p.Pub != cf.ID.PublicNet:
		return "public"
	case p.Main != cf.ID.MainNet:
		return "mainnet"
	case p.Ver != forkVersion(cf.Fork, announcedHeight):
		return "version"
	}
	return ""
}

type mutation struct {
	Field, Name string
	apply       func(st *types.Status)
}

type mutEnv struct {
	altBytes map[string]map[string][]byte // field path -> name -> alternative value
	heights  []uint64
}

func isExported(f reflect.StructField) bool { return f.PkgPath == "" }

// enumerate walks types.Status by reflection and produces single-field changes for every exported
// field (recursing into Sender).  unhandled receives the paths whose kind has no generator.
func enumerate(st *types.Status, env mutEnv, unhandled func(string)) []mutation {
	var out []mutation
	var walk func(prefix string, path []int, v reflect.Value)
	at := func(s *types.Status, path []int) reflect.Value {
		v := reflect.ValueOf(s).Elem()
		for _, i := range path {
			for v.Kind() == reflect.Ptr {
				v = v.Elem()
			}
			v = v.Field(i)
		}
		return v
	}
	add := func(field, name string, path []int, set func(v reflect.Value)) {
		p := append([]int{}, path...)
		out = append(out, mutation{field, name, func(s *types.Status) { set(at(s, p)) }})
	}
	walk = func(prefix string, path []int, v reflect.Value) {
		t := v.Type()
		for i := 0; i < t.NumField(); i++ {
			sf := t.Field(i)
			if !isExported(sf) {
				continue
			}
			name := prefix + sf.Name
			p := append(append([]int{}, path...), i)
			fv := v.Field(i)
			switch {
			case fv.Kind() == reflect.Ptr && fv.Type().Elem().Kind() == reflect.Struct:
				add(name, "nil", p, func(x reflect.Value) { x.Set(reflect.Zero(x.Type())) })
				if !fv.IsNil() {
					walk(name+".", p, fv.Elem())
				}
			case fv.Kind() == reflect.Slice && fv.Type().Elem().Kind() == reflect.Uint8:
				orig := append([]byte{}, fv.Bytes()...)
				n := len(orig)
				setb := func(nb []byte) func(reflect.Value) { return func(x reflect.Value) { x.SetBytes(nb) } }
				flip := func(idx int, bit uint) []byte { c := append([]byte{}, orig...); c[idx] ^= 1 << bit; return c }
				if n > 0 {
					add(name, "flip[0].0", p, setb(flip(0, 0)))
					add(name, "flip[last].7", p, setb(flip(n-1, 7)))
					add(name, "flip[mid].3", p, setb(flip(n/2, 3)))
					add(name, "trunc-last", p, setb(orig[:n-1]))
					add(name, "drop-first", p, setb(orig[1:]))
					add(name, "empty", p, setb(nil))
					add(name, "refill", p, setb(fill(0xC18, n)))
					add(name, "double", p, setb(append(append([]byte{}, orig...), orig...)))
				}
				add(name, "append00", p, setb(append(append([]byte{}, orig...), 0)))
				add(name, "appendff", p, setb(append(append([]byte{}, orig...), 0xff)))
				alts := env.altBytes[name]
				keys := make([]string, 0, len(alts))
				for k := range alts {
					keys = append(keys, k)
				}
				sort.Strings(keys)
				for _, k := range keys {
					add(name, "alt:"+k, p, setb(alts[k]))
				}
				if name == "ChainID" { // every byte, every prefix
					for j := 0; j < n; j++ {
						add(name, fmt.Sprintf("flip[%d].0", j), p, setb(flip(j, 0)))
						add(name, fmt.Sprintf("flip[%d].6", j), p, setb(flip(j, 6)))
						add(name, fmt.Sprintf("prefix%d", j), p, setb(orig[:j]))
					}
				}
			case fv.Kind() == reflect.Slice && fv.Type().Elem().Kind() == reflect.String:
				add(name, "clear", p, func(x reflect.Value) { x.Set(reflect.Zero(x.Type())) })
				add(name, "append-garbage", p, func(x reflect.Value) { x.Set(reflect.Append(x, reflect.ValueOf("not/a/multiaddr"))) })
				add(name, "append-addr", p, func(x reflect.Value) { x.Set(reflect.Append(x, reflect.ValueOf("/ip4/10.9.8.7/tcp/7846"))) })
				add(name, "only-garbage", p, func(x reflect.Value) { x.Set(reflect.ValueOf([]string{"%%%"})) })
			case fv.Kind() == reflect.Slice && fv.Type().Elem().Kind() == reflect.Slice:
				add(name, "clear", p, func(x reflect.Value) { x.Set(reflect.Zero(x.Type())) })
				add(name, "append-bytes", p, func(x reflect.Value) { x.Set(reflect.Append(x, reflect.ValueOf(fill(7, 38)))) })
			case fv.Kind() == reflect.Slice && fv.Type().Elem().Kind() == reflect.Ptr:
				add(name, "clear", p, func(x reflect.Value) { x.Set(reflect.Zero(x.Type())) })
				add(name, "append-zero-element", p, func(x reflect.Value) { x.Set(reflect.Append(x, reflect.New(x.Type().Elem().Elem()))) })
			case fv.Kind() == reflect.String:
				add(name, "empty", p, func(x reflect.Value) { x.SetString("") })
				add(name, "append-x", p, func(x reflect.Value) { x.SetString(x.String() + "x") })
				add(name, "garbage", p, func(x reflect.Value) { x.SetString("!! not valid ??") })
				add(name, "other-ip", p, func(x reflect.Value) { x.SetString("10.20.30.40") })
			case fv.Kind() == reflect.Bool:
				add(name, "toggle", p, func(x reflect.Value) { x.SetBool(!x.Bool()) })
			case fv.Kind() == reflect.Uint64 || fv.Kind() == reflect.Uint32:
				max := uint64(math.MaxUint64)
				if fv.Kind() == reflect.Uint32 {
					max = math.MaxUint32
				}
				add(name, "+1", p, func(x reflect.Value) { x.SetUint((x.Uint() + 1) & max) })
				add(name, "-1", p, func(x reflect.Value) { x.SetUint((x.Uint() - 1) & max) })
				add(name, "zero", p, func(x reflect.Value) { x.SetUint(0) })
				add(name, "max", p, func(x reflect.Value) { x.SetUint(max) })
				if fv.Kind() == reflect.Uint64 {
					for _, hh := range env.heights {
						hh := hh
						add(name, fmt.Sprintf("=%d", hh), p, func(x reflect.Value) { x.SetUint(hh) })
					}
				}
			case fv.Kind() == reflect.Int32:
				for _, val := range []int64{0, 1, 2, 3, 4, 99, -1} {
					val := val
					add(name, fmt.Sprintf("=%d", val), p, func(x reflect.Value) { x.SetInt(val) })
				}
			default:
				unhandled(name + ":" + fv.Kind().String())
			}
		}
	}
	walk("", nil, reflect.ValueOf(st).Elem())
	return out
}

func (h *hsRunner) fieldList() []string {
	st := &types.Status{Sender: &types.PeerAddress{}}
	seen := map[string]bool{}
	var out []string
	for _, m := range enumerate(st, mutEnv{}, func(string) {}) {
		if !seen[m.Field] {
			seen[m.Field] = true
			out = append(out, m.Field)
		}
	}
	return out
}

// semantic chain-identifier changes (one component at a time)
func cidMutations(orig []byte, cf *chainCfg, announced uint64) []mutation {
	p, ok := decodeCID(orig)
	if !ok {
		return nil
	}
	enc := func(q cidParts) []byte {
		b := []byte{byte(q.Ver), byte(q.Ver >> 8), byte(q.Ver >> 16), byte(q.Ver >> 24), 0, 0}
		if q.Pub {
			b[4] = 1
		}
		if q.Main {
			b[5] = 1
		}
		return append(b, []byte(q.Magic+"/"+q.Cons)...)
	}
	var out []mutation
	add := func(name string, q cidParts) {
		nb := enc(q)
		out = append(out, mutation{"ChainID", name, func(s *types.Status) { s.ChainID = nb }})
	}
	for _, m := range []string{"", p.Magic + "x", "x" + p.Magic, p.Magic[:len(p.Magic)-1], strings.ToUpper(p.Magic), "aergo.io", "testnet.aergo.io", p.Magic + "/" + p.Magic} {
		if m != p.Magic {
			q := p
			q.Magic = m
			add("magic="+m, q)
		}
	}
	for _, co := range []string{"", "dpos", "raft", "sbp", p.Cons + "x", strings.ToUpper(p.Cons), p.Cons[:len(p.Cons)-1]} {
		if co != p.Cons {
			q := p
			q.Cons = co
			add("consensus="+co, q)
		}
	}
	q := p
	q.Pub = !p.Pub
	add("public-toggled", q)
	q = p
	q.Main = !p.Main
	add("mainnet-toggled", q)
	q = p
	q.Pub, q.Main = p.Main, p.Pub
	if q != p {
		add("flags-swapped", q)
	}
	for _, v := range []int32{-1, 0, 1, 2, 3, 4, 5, 6, 7, 255, 256, math.MaxInt32, math.MinInt32, p.Ver + 1, p.Ver - 1} {
		if v != p.Ver {
			q := p
			q.Ver = v
			add(fmt.Sprintf("version=%d", v), q)
		}
	}
	return out
}

func (h *hsRunner) scripted() {
	unhandled := func(s string) { h.r.Count("hs/field_kind_without_generator/"+s, 1) }
	for ci, cf := range h.cfgs {
		f := cf.Fork
		pairs := [][2]uint64{{f[0], f[0] + 1}, {f[3] + 5, f[1]}, {3, f[3] + 1000}}
		if f[0] > 0 {
			pairs = append(pairs, [2]uint64{f[0] - 1, f[0]}, [2]uint64{f[0], f[0] - 1})
		}
		if f[2] != math.MaxUint64 && f[2] > 0 {
			pairs = append(pairs, [2]uint64{0, f[2] - 1})
		}
		if !h.c.Quick() {
			for _, x := range cf.heights() {
				pairs = append(pairs, [2]uint64{f[1] + 1, x})
			}
		}
		other := h.cfgs[(ci+1)%len(h.cfgs)]
		for _, ver := range []string{"v200", "v033"} {
			for _, role := range []string{"inbound", "outbound"} {
				for pi, hp := range pairs {
					base := hsCase{Kind: "scripted", Ver: ver, Role: role, Cfg: ci, LocalH: hp[0], RemoteH: hp[1]}
					if h.skip(base) {
						continue
					}
					h.scriptedScenario(base, cf, other, unhandled, !h.c.Quick() || pi == 0 || h.only != nil)
				}
			}
		}
	}
}

func (h *hsRunner) scriptedScenario(base hsCase, cf, other *chainCfg, unhandled func(string), pairwise bool) {
	L, R := h.endpoints(cf, cf, base.LocalH, base.RemoteH)
	honest, err := h.captureStatus(R, base.Ver, L.id)
	if err != nil {
		h.r.Violation("handshake/honest-fail/"+base.Ver, "a real handshaker did not produce a status message: "+err.Error(), replayCase{Handshake: &base})
		return
	}
	run := func(st *types.Status, conn types.PeerID) sideResult {
		fr, err := statusFrame(st)
		if err != nil {
			return sideResult{err: fmt.Errorf("status not encodable: %v", err)}
		}
		sc := newScriptConn(fr)
		res, err, pan := roleDo(L.handshaker(base.Ver, conn, sc), base.Role)
		return sideResult{res, err, pan}
	}
	tag := base.Ver + "/" + base.Role

	// 1. the captured status, unchanged: must be accepted
	h.r.Eval(1)
	if s := run(cloneStatus(honest), R.id); !s.ok() {
		h.r.Violation("handshake/honest-fail/"+base.Ver+"/"+base.Role, fmt.Sprintf("the unmodified status of an honest %s peer of the same chain (%s, local height %d, remote height %d) was refused by the %s side: %s",
			base.Ver, cf.Name, base.LocalH, base.RemoteH, base.Role, s), replayCase{Handshake: &base})
		return
	} else {
		h.checkResult(base, base.Role, s, R, R.id)
		h.r.Count("hs/scripted_honest_accepted/"+tag, 1)
		h.r.Nontriv(base.key())
	}

	judge := func(hc hsCase, s sideResult, conn types.PeerID, demand string, what string) {
		h.r.Eval(1)
		out := "accepted"
		if !s.ok() {
			out = "rejected"
			if s.pan != "" {
				out = "panicked"
				h.r.Set("hs_panic_sample", map[string]interface{}{"case": hc, "panic": s.pan})
			}
		}
		if demand == "" {
			h.r.Count("hs/unjudged/"+tag+"/"+hc.Field+"/"+out, 1)
			h.checkResult(hc, base.Role, s, nil, conn)
			return
		}
		h.r.Count("hs/judged/"+tag+"/"+demand+"/"+out, 1)
		h.r.Nontriv(hc.key())
		if hc.Mut == "flip[last].7" || hc.Mut == "version=3" {
			h.r.Sample(map[string]interface{}{"handshake_case": hc, "demand": demand, "outcome": s.String()})
		}
		if s.ok() {
			h.r.Violation("handshake/accepted/"+tag+"/"+demand, fmt.Sprintf("%s %s side accepted a peer whose status differs from an acceptable one only in %s (%s) [chain %s, local height %d, announced height %d]",
				base.Ver, base.Role, hc.Field, what, cf.Name, base.LocalH, base.RemoteH), replayCase{Handshake: &hc})
		}
	}

	// 2. the connection's identity is not the presented one (status untouched)
	for _, ci := range []struct {
		name string
		conn types.PeerID
	}{{"third-party", h.ids[2]}, {"own", L.id}, {"empty", types.PeerID("")}, {"prefix", R.id[:len(R.id)-1]}} {
		hc := base
		hc.Field, hc.Mut = "connection-identity", ci.name
		if h.skip(hc) {
			continue
		}
		judge(hc, run(cloneStatus(honest), ci.conn), ci.conn, "peer-identity", "connection authenticated as "+ci.name+" identity, status presents the sender's own")
	}

	// 3. single-field differences
	env := mutEnv{heights: cf.heights(), altBytes: map[string]map[string][]byte{
		"Genesis":       {"other-chain-genesis": other.Genesis, "sha-of-own": genesisOf(string(cf.Genesis))},
		"Sender.PeerID": {"third-party-id": []byte(h.ids[2]), "checker-own-id": []byte(L.id)},
	}}
	honestBytes, _ := p2putil.MarshalMessageBody(honest)
	muts := enumerate(honest, env, unhandled)
	muts = append(muts, cidMutations(honest.ChainID, cf, honest.BestHeight)...)
	for _, m := range muts {
		hc := base
		hc.Field, hc.Mut = m.Field, m.Name
		if h.skip(hc) {
			continue
		}
		st := cloneStatus(honest)
		m.apply(st)
		mb, err := p2putil.MarshalMessageBody(st)
		if err != nil || bytes.Equal(mb, honestBytes) {
			h.r.Count("hs/mutation_without_effect", 1)
			continue
		}
		demand, what := "", m.Name
		switch m.Field {
		case "Genesis":
			demand = "genesis"
		case "Sender.PeerID":
			demand = "peer-identity"
		case "ChainID":
			if d := cidDemand(st.ChainID, cf, st.BestHeight); d != "" {
				demand = "chainid-" + d
			}
		}
		judge(hc, run(st, R.id), R.id, demand, what)
	}

	// 3b. a named difference must be refused whatever ELSE the peer changes with it (an unnamed field must not be able
	// to switch a named check off): representative named change x every unnamed single-field change
	if pairwise {
		isNamed := func(f string) bool { return f == "Genesis" || f == "ChainID" || f == "Sender.PeerID" }
		var reps []mutation
		for _, m := range muts {
			switch {
			case m.Field == "Genesis" && m.Name == "alt:other-chain-genesis", m.Field == "Genesis" && m.Name == "empty",
				m.Field == "Sender.PeerID" && m.Name == "alt:third-party-id",
				m.Field == "ChainID" && (m.Name == "magic=testnet.aergo.io" || m.Name == "consensus=" || m.Name == "public-toggled"):
				reps = append(reps, m)
			}
		}
		for _, rep := range reps {
			for _, m2 := range muts {
				if isNamed(m2.Field) || m2.Field == "Sender" {
					continue
				}
				hc := base
				hc.Field, hc.Mut = rep.Field+"+"+m2.Field, rep.Name+"+"+m2.Name
				if h.skip(hc) {
					continue
				}
				st := cloneStatus(honest)
				rep.apply(st)
				m2.apply(st)
				demand := ""
				switch {
				case !bytes.Equal(st.Genesis, cf.Genesis):
					demand = "genesis"
				case string(st.Sender.PeerID) != string(R.id):
					demand = "peer-identity"
				default:
					if d := cidDemand(st.ChainID, cf, st.BestHeight); d != "" && d != "version" {
						demand = "chainid-" + d
					}
				}
				if demand == "" {
					continue
				}
				judge(hc, run(st, R.id), R.id, demand+"+unnamed", rep.Name+" together with "+m2.Field+" "+m2.Name)
			}
		}
	}

	// 4. not single-field: what a broken or hostile peer may send instead of a status — every prefix of the honest
	// status encoding, random payloads, nothing at all.  Demand (any one suffices): payload is not a status; its
	// genesis differs; its chain id is unparseable or differs in magic/consensus/flags; its sender id is not the connection's.
	runRaw := func(stream []byte) sideResult {
		res, err, pan := roleDo(L.handshaker(base.Ver, R.id, newScriptConn(stream)), base.Role)
		return sideResult{res, err, pan}
	}
	frameOf := func(payload []byte) []byte {
		fs := frameSpec{Sub: p2pcommon.StatusRequest.Uint32(), Len: uint32(len(payload)), TS: 1700000000000000001, ID: "1102030405060708090a0b0c0d0e0f10"}
		return append(encodeHeader(fs), payload...)
	}
	rawDemand := func(payload []byte) string {
		st := &types.Status{}
		if err := p2putil.UnmarshalMessageBody(payload, st); err != nil {
			return "not-a-status"
		}
		if !bytes.Equal(st.Genesis, cf.Genesis) {
			return "genesis"
		}
		if d := cidDemand(st.ChainID, cf, st.BestHeight); d != "" && d != "version" {
			return "chainid-" + d
		}
		if st.Sender == nil || string(st.Sender.PeerID) != string(R.id) {
			return "peer-identity"
		}
		return ""
	}
	type rawCase struct {
		name   string
		stream []byte
		demand string
	}
	var raws []rawCase
	step := h.c.Pick(3, 1)
	for j := 0; j < len(honestBytes); j += step {
		raws = append(raws, rawCase{fmt.Sprintf("prefix%d", j), frameOf(honestBytes[:j]), rawDemand(honestBytes[:j])})
	}
	gr := h.c.Rand("hs-garbage/" + base.key())
	for k := 0; k < h.c.Pick(10, 40); k++ {
		pl := make([]byte, gr.Intn(2*len(honestBytes)))
		gr.Read(pl)
		if k%2 == 0 && len(pl) > 0 { // honest bytes with a random window overwritten
			pl = append([]byte{}, honestBytes...)
			at := gr.Intn(len(pl))
			for x := at; x < len(pl) && x < at+1+gr.Intn(6); x++ {
				pl[x] = byte(gr.Intn(256))
			}
		}
		if bytes.Equal(pl, honestBytes) {
			continue
		}
		raws = append(raws, rawCase{fmt.Sprintf("random%d", k), frameOf(pl), rawDemand(pl)})
	}
	full := frameOf(honestBytes)
	raws = append(raws, rawCase{"no-bytes", nil, "no-status"}, rawCase{"header-only", full[:hdrLen], "no-status"},
		rawCase{"frame-cut-short", full[:len(full)-1], "no-status"}, rawCase{"half-header", full[:hdrLen/2], "no-status"})
	for _, rc := range raws {
		hc := base
		hc.Field, hc.Mut = "payload", rc.name
		if h.skip(hc) {
			continue
		}
		judge(hc, runRaw(rc.stream), R.id, rc.demand, "status payload replaced: "+rc.name)
	}
}

// ---- real code on both ends, different chains -----------------------------------------------

func (h *hsRunner) unequalPairs() {
	for ci, cf := range h.cfgs {
		hs := cf.heights()
		type diff struct {
			name         string
			cfgB         *chainCfg
			aConn, bConn int // index into ids of the identity the transport reports
			failA, failB func(ha, hb uint64) bool
		}
		always := func(uint64, uint64) bool { return true }
		never := func(uint64, uint64) bool { return false }
		alt := func(f func(c *chainCfg)) *chainCfg { c := *cf; f(&c); return &c }
		shifted := alt(func(c *chainCfg) {
			for k := range c.Fork {
				if c.Fork[k] != math.MaxUint64 {
					c.Fork[k] += 10
				}
			}
		})
		diffs := []diff{
			{"genesis", alt(func(c *chainCfg) { c.Genesis = genesisOf(c.Name + "'") }), 1, 0, always, always},
			{"magic", alt(func(c *chainCfg) { c.ID.Magic += ".fork" }), 1, 0, always, always},
			{"consensus", alt(func(c *chainCfg) {
				c.ID.Consensus = map[string]string{"dpos": "raft", "raft": "sbp", "sbp": "dpos"}[c.ID.Consensus]
			}), 1, 0, always, always},
			{"public", alt(func(c *chainCfg) { c.ID.PublicNet = !c.ID.PublicNet }), 1, 0, always, always},
			{"mainnet", alt(func(c *chainCfg) { c.ID.MainNet = !c.ID.MainNet }), 1, 0, always, always},
			// B runs a different hard-fork schedule: B (inbound, checks first) must refuse when the version A announces for
			// its height is not B's version at that height; otherwise A must refuse when B's announced version is not A's at B's height
			{"fork-schedule", shifted, 1, 0,
				func(ha, hb uint64) bool {
					return forkVersion(cf.Fork, ha) != forkVersion(shifted.Fork, ha) || forkVersion(cf.Fork, hb) != forkVersion(shifted.Fork, hb)
				},
				func(ha, hb uint64) bool { return forkVersion(cf.Fork, ha) != forkVersion(shifted.Fork, ha) }},
			{"identity@outbound", cf, 2, 0, always, never},
			{"identity@inbound", cf, 1, 2, always, always},
		}
		for _, ver := range []string{"v200", "v033"} {
			for _, d := range diffs {
				for i, ha := range hs {
					for j, hb := range hs {
						if h.c.Quick() && d.name != "fork-schedule" && (i+2*j)%3 != 0 {
							continue
						}
						hc := hsCase{Kind: "unequal", Ver: ver, Cfg: ci, LocalH: ha, RemoteH: hb, Field: d.name}
						if h.only != nil && *h.only != hc {
							continue
						}
						A := newEndpoint(h.ids[0], cf, ha, "192.168.10.2", 7846, types.PeerRole_Producer, false)
						B := newEndpoint(h.ids[1], d.cfgB, hb, "node-b.c18.example.org", 17846, types.PeerRole_Watcher, false)
						ra, rb, fin := h.runPair(A, B, ver, h.ids[d.aConn], h.ids[d.bConn])
						if !fin {
							return
						}
						h.r.Eval(2)
						fa, fb := d.failA(ha, hb), d.failB(ha, hb)
						h.r.Count(fmt.Sprintf("hs/unequal/%s/%s/outbound_ok=%v,inbound_ok=%v", ver, d.name, ra.ok(), rb.ok()), 1)
						if fa || fb {
							h.r.Nontriv(hc.key())
						}
						if fb && rb.ok() {
							h.r.Violation("handshake/accepted/"+ver+"/inbound/pair-"+d.name, fmt.Sprintf("real %s inbound side accepted a dialing peer that differs in %s (chain %s, heights A=%d B=%d)", ver, d.name, cf.Name, ha, hb),
								replayCase{Handshake: &hc})
						}
						if fa && ra.ok() {
							h.r.Violation("handshake/accepted/"+ver+"/outbound/pair-"+d.name, fmt.Sprintf("real %s outbound side accepted a listening peer that differs in %s (chain %s, heights A=%d B=%d; inbound side: %s)", ver, d.name, cf.Name, ha, hb, rb),
								replayCase{Handshake: &hc})
						}
					}
				}
			}
		}
	}
}
