package main

// Independent description of the wire frame (from the property record: 48-byte header =
// sub-protocol, length, timestamp, id, original id; then the payload) and of a "stream case":
// a recipe from which the byte stream is rebuilt deterministically, so that replay files stay
// small even for 8 MiB frames.

import (
	"encoding/hex"
	"fmt"
)

const hdrLen = 48

type frameSpec struct {
	Sub     uint32 `json:"sub"`
	Len     uint32 `json:"len"`       // length ANNOUNCED in the header
	TS      int64  `json:"ts,string"` // 64-bit values travel as strings: JSON numbers lose precision
	ID      string `json:"id"`        // 16 bytes hex
	Org     string `json:"org"`       // 16 bytes hex
	PayLen  int    `json:"paylen"`
	PaySeed uint64 `json:"payseed,string"` // payload bytes actually present = fill(PaySeed, PayLen)
}

// streamCase: Frames (encoded one after the other) followed by Raw, cut at Trunc (if >= 0),
// presented to the reader through reader mode Reader.
type streamCase struct {
	Class   string      `json:"class"`
	Note    string      `json:"note"`
	Frames  []frameSpec `json:"frames,omitempty"`
	Raw     string      `json:"raw,omitempty"` // hex
	Trunc   int         `json:"trunc"`         // -1: none
	Reader  int         `json:"reader"`        // see readerModes
	RSeed   uint64      `json:"rseed,string"`
	ViaReal bool        `json:"viareal"` // frames are produced by the real WriteMsg (round trip) instead of the independent encoder
}

// splitmix64
func mix(x *uint64) uint64 {
	*x += 0x9e3779b97f4a7c15
	z := *x
	z = (z ^ (z >> 30)) * 0xbf58476d1ce4e5b9
	z = (z ^ (z >> 27)) * 0x94d049bb133111eb
	return z ^ (z >> 31)
}

func fill(seed uint64, n int) []byte {
	b := make([]byte, n)
	fillInto(b, seed)
	return b
}

func fillInto(b []byte, seed uint64) {
	n := len(b)
	s := seed
	i := 0
	for ; i+8 <= n; i += 8 {
		v := mix(&s)
		b[i], b[i+1], b[i+2], b[i+3] = byte(v), byte(v>>8), byte(v>>16), byte(v>>24)
		b[i+4], b[i+5], b[i+6], b[i+7] = byte(v>>32), byte(v>>40), byte(v>>48), byte(v>>56)
	}
	if i < n {
		v := mix(&s)
		for ; i < n; i++ {
			b[i] = byte(v)
			v >>= 8
		}
	}
}

func id16(h string) (out [16]byte) {
	b, _ := hex.DecodeString(h)
	copy(out[:], b)
	return
}

func putBE32(b []byte, v uint32) {
	b[0], b[1], b[2], b[3] = byte(v>>24), byte(v>>16), byte(v>>8), byte(v)
}
func putBE64(b []byte, v uint64) {
	putBE32(b, uint32(v>>32))
	putBE32(b[4:], uint32(v))
}
func be32(b []byte) uint32 {
	return uint32(b[0])<<24 | uint32(b[1])<<16 | uint32(b[2])<<8 | uint32(b[3])
}
func be64(b []byte) uint64 { return uint64(be32(b))<<32 | uint64(be32(b[4:])) }

func encodeHeader(f frameSpec) []byte {
	h := make([]byte, hdrLen)
	putBE32(h[0:], f.Sub)
	putBE32(h[4:], f.Len)
	putBE64(h[8:], uint64(f.TS))
	id, org := id16(f.ID), id16(f.Org)
	copy(h[16:32], id[:])
	copy(h[32:48], org[:])
	return h
}

// expectation for one ReadMsg call
type expect struct {
	Err     bool
	Why     string // when Err: "eof-at-boundary", "short-header", "oversize", "short-payload"
	Sub     uint32
	TS      int64
	ID, Org [16]byte
	Payload []byte // aliases the stream
}

// decodeStream is the independent oracle: what a correct bounded reader returns, call by call.
// The list always ends with exactly one Err expectation.
func decodeStream(s []byte, limit uint32) []expect {
	var out []expect
	pos := 0
	for {
		rest := len(s) - pos
		if rest == 0 {
			return append(out, expect{Err: true, Why: "eof-at-boundary"})
		}
		if rest < hdrLen {
			return append(out, expect{Err: true, Why: "short-header"})
		}
		h := s[pos : pos+hdrLen]
		l := be32(h[4:])
		if l > limit {
			return append(out, expect{Err: true, Why: "oversize"})
		}
		if uint64(rest-hdrLen) < uint64(l) {
			return append(out, expect{Err: true, Why: "short-payload"})
		}
		e := expect{Sub: be32(h), TS: int64(be64(h[8:])), Payload: s[pos+hdrLen : pos+hdrLen+int(l)]}
		copy(e.ID[:], h[16:32])
		copy(e.Org[:], h[32:48])
		out = append(out, e)
		pos += hdrLen + int(l)
	}
}

func (e expect) String() string {
	if e.Err {
		return "error(" + e.Why + ")"
	}
	return fmt.Sprintf("msg{sub=%#x ts=%d id=%x org=%x len=%d}", e.Sub, e.TS, e.ID, e.Org, len(e.Payload))
}
