package main

import (
	"bytes"
	"encoding/json"
	"fmt"
	"math/big"

	"github.com/aergoio/aergo-lib/db"
	"github.com/aergoio/aergo/v2/state/statedb"
	"github.com/aergoio/aergo/v2/types"

	tl "verif/h/trielib"
)

type sdbReplay struct {
	World  *tl.SDBWorld   `json:"world"`
	Blocks []*tl.SDBBlock `json:"blocks"`
}

// readSDB opens a new StateDB at root and compares every account / contract variable with m.
func readSDB(store db.DB, root []byte, w *tl.SDBWorld, m *tl.SDBModel) (string, int) {
	sdb := statedb.NewStateDB(store, root, false)
	n := 0
	check := func(id types.AccountID) string {
		st, err := sdb.GetAccountState(id)
		if err != nil {
			return fmt.Sprintf("GetAccountState(%x): %v", id, err)
		}
		n++
		a := m.Accts[id]
		var wantN, wantB uint64
		if a != nil {
			wantN, wantB = a.Nonce, a.Balance
		}
		gotB := new(big.Int).SetBytes(st.GetBalance()).Uint64()
		if st.GetNonce() != wantN || gotB != wantB {
			return fmt.Sprintf("account %x: nonce/balance = %d/%d, model %d/%d", id, st.GetNonce(), gotB, wantN, wantB)
		}
		if (a == nil || len(a.Storage) == 0) && len(st.GetStorageRoot()) != 0 {
			return fmt.Sprintf("account %x: storage is empty in the model but storage root is %x", id, st.GetStorageRoot())
		}
		return ""
	}
	for _, id := range w.Plain {
		if d := check(id); d != "" {
			return d, n
		}
	}
	for ci, addr := range w.Contracts {
		id := w.ContractID(ci)
		if d := check(id); d != "" {
			return d, n
		}
		cs, err := statedb.OpenContractStateAccount(addr, sdb)
		if err != nil {
			return fmt.Sprintf("OpenContractStateAccount(%x): %v", addr, err), n
		}
		a := m.Accts[id]
		for _, k := range w.VarKeys {
			got, err := cs.GetData(k)
			if err != nil {
				return fmt.Sprintf("GetData(contract %d, %x): %v", ci, k, err), n
			}
			n++
			var want []byte
			has := false
			if a != nil {
				want, has = a.Storage[string(k)]
			}
			if !has && len(got) != 0 {
				return fmt.Sprintf("contract %d var %x = %x, model: absent", ci, k, got), n
			}
			if has && !bytes.Equal(got, want) {
				return fmt.Sprintf("contract %d var %x = %x, model %x", ci, k, got, want), n
			}
			if cs.HasKey(k) != has {
				return fmt.Sprintf("contract %d HasKey(%x) = %v, model %v", ci, k, !has, has), n
			}
		}
	}
	return "", n
}

func (ck *checker) runSDBHistory(class string, w *tl.SDBWorld, blocks []*tl.SDBBlock) (held bool) {
	c := ck.c
	at := 0
	defer func() {
		if e := recover(); e != nil {
			c.Violation("panic/sdb", fmt.Sprintf("[%s] block %d: statedb/trie panicked: %v", class, at, e),
				replayCase{Part: "sdb", Class: class, SDB: &sdbReplay{World: w, Blocks: blocks[:at+1]}})
			held = false
		}
	}()
	rc := func(upTo int, note string) replayCase {
		return replayCase{Part: "sdb", Class: class, SDB: &sdbReplay{World: w, Blocks: blocks[:upTo]}, Note: note}
	}
	viol := func(kind string, upTo int, desc string) {
		c.Violation(kind+"/sdb", fmt.Sprintf("[%s] block %d: %s", class, upTo-1, desc), rc(upTo, desc))
	}
	store := tl.NewStore(ck.scratch)
	var root []byte
	m := tl.NewSDBModel()
	var snaps []tl.SDBSnapshot
	r := c.Rand("sdb-old/" + class)
	for i, b := range blocks {
		at = i
		nr, err := tl.ApplySDBBlock(store, root, w, b)
		if err != nil {
			viol("update-error", i+1, err.Error())
			return false
		}
		root = nr
		b.ApplyTo(w, m)
		c.Eval(1)
		c.Count("sdb_blocks_committed", 1)
		c.Count("sdb_account_puts", len(b.Puts))
		c.Count("sdb_var_ops", len(b.Vars))
		// (a)+(c): a new StateDB at the committed root
		d, n := readSDB(store, root, w, m)
		c.Count("sdb_reads", n)
		if d != "" {
			viol("get-mismatch-reopened", i+1, d)
			return false
		}
		// (b): same content in one block on a fresh store
		cstore := tl.NewStore(ck.scratch)
		cr, err := tl.ApplySDBBlock(cstore, nil, w, tl.CanonSDBBlock(w, m))
		if err != nil {
			viol("canonical-build-error", i+1, err.Error())
			return false
		}
		c.Count("sdb_root_vs_fresh_single_block", 1)
		if !bytes.Equal(cr, root) {
			viol("root-history-dependence", i+1, fmt.Sprintf("state root %x != root of the same accounts/storage written in one block %x", root, cr))
			return false
		}
		// storage roots against a raw trie / the reference with the same (hash(key),hash(value)) pairs
		sdb := statedb.NewStateDB(store, root, false)
		for ci := range w.Contracts {
			a := m.Accts[w.ContractID(ci)]
			if a == nil {
				continue
			}
			st, _ := sdb.GetAccountState(w.ContractID(ci))
			sm := tl.StorageModel(a)
			raw, err := ck.canonFresh(sm)
			if err == nil {
				c.Count("sdb_storage_root_vs_raw_trie", 1)
				if !bytes.Equal(raw, st.GetStorageRoot()) {
					viol("root-history-dependence-storage", i+1, fmt.Sprintf("contract %d storage root %x != raw trie with the same pairs %x", ci, st.GetStorageRoot(), raw))
					return false
				}
			}
		}
		snaps = append(snaps, tl.SDBSnapshot{Root: root, Model: m.Clone()})
		// (d)
		for n := 0; n < 2 && i > 0; n++ {
			j := r.Intn(i)
			d, k := readSDB(store, snaps[j].Root, w, snaps[j].Model)
			c.Count("sdb_reads_old_roots", k)
			if d != "" {
				viol("old-root-unreadable", i+1, fmt.Sprintf("root of block %d read after block %d: %s", j, i, d))
				return false
			}
		}
	}
	for j := range snaps {
		d, k := readSDB(store, snaps[j].Root, w, snaps[j].Model)
		c.Count("sdb_reads_old_roots", k)
		if d != "" {
			viol("old-root-unreadable", len(blocks), fmt.Sprintf("root of block %d read after the last block: %s", j, d))
			return false
		}
	}
	c.Nontrivial(fmt.Sprintf("sdb/%s/%x", class, root))
	return true
}

func (ck *checker) statedbPart() {
	c := ck.c
	type spec struct{ nPlain, nContracts, nVars, nBlocks, maxOps, count int }
	var specs []spec
	if c.Quick() {
		specs = []spec{{6, 2, 6, 30, 6, 16}, {40, 3, 30, 30, 30, 8}, {300, 4, 200, 20, 200, 2}}
	} else {
		specs = []spec{{6, 2, 6, 50, 6, 160}, {40, 3, 30, 50, 30, 64}, {300, 4, 200, 40, 200, 16}, {1000, 6, 600, 30, 600, 4}}
	}
	type task struct {
		s  spec
		id string
	}
	var tasks []task
	for si, s := range specs {
		for n := 0; n < s.count; n++ {
			tasks = append(tasks, task{s, fmt.Sprintf("sdb/%d/%d", si, n)})
		}
	}
	for i, j := 0, len(tasks)-1; i < j; i, j = i+1, j-1 {
		tasks[i], tasks[j] = tasks[j], tasks[i]
	}
	parallel(len(tasks), func(i int) {
		tk := tasks[i]
		r := c.Rand(tk.id)
		w := tl.NewSDBWorld(r, tk.s.nPlain, tk.s.nContracts, tk.s.nVars)
		blocks := tl.GenSDBHistory(r, w, tk.s.nBlocks, tk.s.maxOps)
		if ck.runSDBHistory(fmt.Sprintf("sdb-%da-%dc", tk.s.nPlain, tk.s.nContracts), w, blocks) {
			c.Count("sdb_histories", 1)
		}
	})
}

func (ck *checker) replaySDB(rc *replayCase) {
	// blocks were serialised through JSON; CNonce keys come back as strings handled by encoding/json
	b, _ := json.Marshal(rc.SDB)
	var s sdbReplay
	if err := json.Unmarshal(b, &s); err != nil || s.World == nil {
		fmt.Println("bad sdb replay")
		return
	}
	ck.runSDBHistory(rc.Class, s.World, s.Blocks)
}
