// C10: the state trie is a content-addressed, history-independent, persistent key-value map.
//
// The oracle is a plain map model observed against executions of /repo/pkg/trie (and of
// statedb.StateDB / contract storage on top of it):
//
//	(a) Get(k) == model for every key ever used plus absent probes, after every committed batch
//	(b) root == root of a fresh trie on a fresh store built from the model in one sorted batch,
//	    == root reached by a different random history with the same final content
//	(c) a new Trie instance opened on the store at the committed root answers (a)
//	(d) every earlier committed root still answers its own snapshot
//	(e) a batch that only deletes absent keys leaves the root unchanged
//	(f) two different contents never share a root (else (d) could not hold for both)
package main

import (
	"bytes"
	"encoding/hex"
	"fmt"
	"math/rand"
	"os"
	"os/exec"
	"runtime"
	"runtime/debug"
	"runtime/pprof"
	"strings"
	"sync"
	"time"

	"github.com/aergoio/aergo-lib/db"
	"github.com/aergoio/aergo/v2/pkg/trie"

	tl "verif/h/trielib"
	"verif/h/vf"
)

type replayCase struct {
	Part          string      `json:"part"`
	Class         string      `json:"class"`
	FreshPerBlock bool        `json:"fresh_per_block"`
	CacheLimit    *int        `json:"cache_height_limit,omitempty"` // the live node cache was on from this height upwards
	Probes        []string    `json:"probes,omitempty"`
	History       [][]tl.OpJ  `json:"history,omitempty"`
	SDB           *sdbReplay  `json:"sdb,omitempty"`
	Note          string      `json:"note,omitempty"`
	Extra         interface{} `json:"extra,omitempty"`
}

type checker struct {
	c       *vf.Ctx
	scratch string
	mu      sync.Mutex
	roots   map[string][32]byte // root -> content digest (f)
	prefix  [257]int64          // how many adjacent key pairs of the random universes share exactly L leading bits
}

func (ck *checker) notePrefixes(keys []tl.Key) {
	ks := append([]tl.Key(nil), keys...)
	tl.SortKeys(ks)
	ck.mu.Lock()
	for i := 0; i+1 < len(ks); i++ {
		ck.prefix[tl.CommonPrefix(ks[i], ks[i+1])]++
	}
	ck.mu.Unlock()
}

func (ck *checker) noteRoot(part string, root []byte, m tl.Model, rc func() replayCase) {
	d := m.Digest()
	ck.mu.Lock()
	prev, ok := ck.roots[string(root)]
	if !ok {
		ck.roots[string(root)] = d
	}
	ck.mu.Unlock()
	if ok && prev != d {
		ck.c.Violation("root-collision/"+part, fmt.Sprintf("two different contents committed under the same root %x", root), rc())
	}
}

// getAll compares Get on t against m for keys; returns a description of the first mismatch.
func getAll(t *trie.Trie, m tl.Model, keys []tl.Key) string {
	for _, k := range keys {
		got, err := t.Get(append([]byte(nil), k[:]...))
		if err != nil {
			return fmt.Sprintf("Get(%x) error: %v", k, err)
		}
		want, ok := m[k]
		if !ok {
			if len(got) != 0 {
				return fmt.Sprintf("Get(%x) = %x, model: absent", k, got)
			}
			continue
		}
		if !bytes.Equal(got, want[:]) {
			return fmt.Sprintf("Get(%x) = %x, model: %x", k, got, want)
		}
	}
	return ""
}

type histOpts struct {
	part, class   string
	freshPerBlock bool
	cacheLimit    *int // non-nil: Trie.CacheHeightLimit of the live instance (the node leaves the cache off; library users turn it on)
	probes        []tl.Key
	canon         func(tl.Model) ([]byte, error) // root of the model written in one batch on a fresh store
	oldEvery      bool                           // check every earlier root after every batch (small histories)
	oldSample     int                            // else: this many random earlier roots per batch
	keySample     int                            // 0 = all keys, else sample size for old-root reads
	skipReads     int                            // batches with index < skipReads get only the root oracles (their reads were checked by a sibling history)
	r             *rand.Rand
}

// runHistory executes hist on a fresh store and applies oracles (a)-(f) after every batch.
// It returns the snapshots and the store, or ok=false after the first violation.
func (ck *checker) runHistory(hist []tl.Batch, o histOpts) (store db.DB, snaps []tl.Snapshot, ok bool) {
	c := ck.c
	rc := func(upTo int, note string) replayCase {
		pr := make([]string, len(o.probes))
		for i, p := range o.probes {
			pr[i] = tl.Hex(p[:])
		}
		if upTo > len(hist) {
			upTo = len(hist)
		}
		return replayCase{Part: o.part, Class: o.class, FreshPerBlock: o.freshPerBlock, CacheLimit: o.cacheLimit, Probes: pr,
			History: tl.HistoryJ(hist[:upTo]), Note: note}
	}
	viol := func(kind string, upTo int, desc string) {
		c.Violation(kind+"/"+o.part, fmt.Sprintf("[%s] batch %d: %s", o.class, upTo-1, desc), rc(upTo, desc))
	}
	at := 0
	defer func() {
		if e := recover(); e != nil {
			// a panic of the trie in the calling goroutine (panics in the trie's own update
			// goroutines cannot be recovered and end the driver with exit status 2)
			viol("panic", at+1, fmt.Sprint("the trie panicked: ", e))
			ok = false
		}
	}()
	store = tl.NewStore(ck.scratch)
	t := tl.NewTrie(nil, store)
	if o.cacheLimit != nil {
		t.CacheHeightLimit = *o.cacheLimit
	}
	m := tl.Model{}
	ever := map[tl.Key]bool{}
	var everList []tl.Key
	for _, p := range o.probes {
		if !ever[p] {
			ever[p] = true
			everList = append(everList, p)
		}
	}
	for i, b := range hist {
		at = i
		if o.freshPerBlock {
			t = tl.NewTrie(t.Root, store)
			if o.cacheLimit != nil {
				t.CacheHeightLimit = *o.cacheLimit
				if err := t.LoadCache(t.Root); err != nil && len(t.Root) != 0 {
					viol("load-cache-error", i+1, "LoadCache at the committed root returned "+err.Error())
					return store, snaps, false
				}
			}
		}
		prevRoot := append([]byte(nil), t.Root...)
		absentOnly := b.OnlyAbsentDeletes(m)
		root, err := tl.Apply(t, b)
		if err != nil {
			viol("update-error", i+1, "Update/Commit returned "+err.Error())
			return store, snaps, false
		}
		root = append([]byte(nil), root...)
		b.ApplyTo(m)
		for _, op := range b {
			if !ever[op.K] {
				ever[op.K] = true
				everList = append(everList, op.K)
			}
		}
		c.Eval(1)
		c.Count("batches_committed", 1)
		c.Count("ops_applied", len(b))
		// (e)
		if absentOnly {
			c.Count("absent_only_delete_batches", 1)
			if !bytes.Equal(prevRoot, root) {
				viol("delete-absent-changes-root", i+1, fmt.Sprintf("deleting only absent keys changed the root %x -> %x", prevRoot, root))
				return store, snaps, false
			}
		}
		if len(m) == 0 && len(root) != 0 {
			viol("empty-content-nonempty-root", i+1, fmt.Sprintf("content is empty but root is %x", root))
			return store, snaps, false
		}
		reads := i >= o.skipReads
		// (a) on the live instance
		if reads {
			if d := getAll(t, m, everList); d != "" {
				viol("get-mismatch-live", i+1, d)
				return store, snaps, false
			}
			c.Count("gets_live", len(everList))
		}
		// (b)
		if o.canon != nil {
			cr, err := o.canon(m)
			if err != nil {
				viol("canonical-build-error", i+1, err.Error())
				return store, snaps, false
			}
			c.Count("root_vs_fresh_single_batch", 1)
			if !bytes.Equal(cr, root) {
				viol("root-history-dependence", i+1, fmt.Sprintf("root after history %x != root of the same content written in one batch %x (%d keys)", root, cr, len(m)))
				return store, snaps, false
			}
		}
		// (f)
		ck.noteRoot(o.part, root, m, func() replayCase { return rc(i+1, "root collision") })
		// (c) reopen
		if reads {
			t2 := tl.NewTrie(root, store)
			if d := getAll(t2, m, everList); d != "" {
				viol("get-mismatch-reopened", i+1, "new Trie instance at committed root: "+d)
				return store, snaps, false
			}
			c.Count("gets_reopened", len(everList))
		}
		snaps = append(snaps, tl.Snapshot{Root: root, Model: m.Clone()})
		if !reads {
			continue
		}
		// (d) earlier roots
		var olds []int
		if o.oldEvery {
			for j := 0; j < i; j++ {
				olds = append(olds, j)
			}
		} else if i > 0 {
			for n := 0; n < o.oldSample; n++ {
				olds = append(olds, o.r.Intn(i))
			}
		}
		for _, j := range olds {
			keys := everList
			if o.keySample > 0 && len(keys) > o.keySample {
				keys = make([]tl.Key, o.keySample)
				for n := range keys {
					keys[n] = everList[o.r.Intn(len(everList))]
				}
			}
			t3 := tl.NewTrie(snaps[j].Root, store)
			if d := getAll(t3, snaps[j].Model, keys); d != "" {
				viol("old-root-unreadable", i+1, fmt.Sprintf("root of batch %d read after batch %d: %s", j, i, d))
				return store, snaps, false
			}
			c.Count("gets_old_roots", len(keys))
			if o.cacheLimit != nil {
				// (d') the live, caching instance is pointed back at the earlier root the way StateDB.SetRoot does
				// (Trie.Root = root, cache kept), read, and returned to the tip
				d := func() (d string) {
					cur := t.Root
					defer func() {
						t.Root = cur
						if e := recover(); e != nil {
							d = fmt.Sprint("panic while reading: ", e)
						}
					}()
					t.Root = snaps[j].Root
					return getAll(t, snaps[j].Model, keys)
				}()
				if d != "" {
					viol("old-root-unreadable-cached-instance", i+1, fmt.Sprintf("root of batch %d read through the caching instance (CacheHeightLimit %d) after batch %d: %s", j, *o.cacheLimit, i, d))
					return store, snaps, false
				}
				c.Count("gets_old_roots_cached_instance", len(keys))
			}
		}
	}
	return store, snaps, true
}

// canonFresh writes the model in one sorted batch into a fresh trie on a fresh store.
func (ck *checker) canonFresh(m tl.Model) ([]byte, error) {
	store := tl.NewStore(ck.scratch)
	t := tl.NewTrie(nil, store)
	root, err := tl.Apply(t, tl.OneBatch(m))
	if err != nil {
		return nil, err
	}
	return append([]byte(nil), root...), nil
}

func parallel(n int, f func(i int)) {
	w := runtime.NumCPU()
	if w > 16 {
		w = 16
	}
	if w > n {
		w = n
	}
	var wg sync.WaitGroup
	ch := make(chan int)
	for j := 0; j < w; j++ {
		wg.Add(1)
		go func() {
			defer wg.Done()
			for i := range ch {
				f(i)
			}
		}()
	}
	for i := 0; i < n; i++ {
		ch <- i
	}
	close(ch)
	wg.Wait()
}

// ---------------------------------------------------------------- part A: exhaustive

func (ck *checker) exhaustive() {
	c := ck.c
	r := c.Rand("universes4")
	nU := c.Pick(3, 20)
	us := tl.Universes4(r, nU)
	type uctx struct {
		u      *tl.Universe4
		vals   [4][2]tl.Val
		probes []tl.Key
		canon  map[[32]byte][]byte
	}
	ucs := make([]*uctx, len(us))
	for i := range us {
		uc := &uctx{u: &us[i], canon: map[[32]byte][]byte{}}
		for k := 0; k < 4; k++ {
			uc.vals[k][0], uc.vals[k][1] = tl.RandVal(r), tl.RandVal(r)
		}
		inU := map[tl.Key]bool{}
		for _, k := range us[i].Keys {
			inU[k] = true
		}
		for _, k := range us[i].Keys {
			uc.probes = append(uc.probes, k)
		}
		// absent probes: close neighbours of universe keys that are not in it, one random key
		for _, k := range []tl.Key{tl.Sibling(us[i].Keys[0], 254), tl.Sibling(us[i].Keys[3], 255), tl.Sibling(us[i].Keys[2], 250)} {
			if !inU[k] {
				uc.probes = append(uc.probes, k)
			}
		}
		// canonical roots of the 81 contents, each from a fresh trie on a fresh store, one batch
		for code := 0; code < 81; code++ {
			m := tl.Model{}
			x := code
			for k := 0; k < 4; k++ {
				switch x % 3 {
				case 1:
					m[us[i].Keys[k]] = uc.vals[k][0]
				case 2:
					m[us[i].Keys[k]] = uc.vals[k][1]
				}
				x /= 3
			}
			root, err := ck.canonFresh(m)
			if err != nil {
				c.Violation("canonical-build-error/exh", err.Error(), replayCase{Part: "exh", Class: us[i].Name, History: tl.HistoryJ([]tl.Batch{tl.OneBatch(m)})})
				return
			}
			uc.canon[m.Digest()] = root
			if ref := tl.RefRoot(m); !bytes.Equal(ref, root) {
				c.Count("reference_root_disagreements", 1)
			} else {
				c.Count("reference_root_agreements", 1)
			}
		}
		ucs[i] = uc
	}
	runOne := func(uc *uctx, codes []int, skip int) {
		hist := make([]tl.Batch, len(codes))
		for i, code := range codes {
			hist[i] = tl.Batch4(uc.u, &uc.vals, code)
		}
		_, _, ok := ck.runHistory(hist, histOpts{part: "exh", class: "u4/" + uc.u.Name, probes: uc.probes, oldEvery: true, skipReads: skip,
			freshPerBlock: codes[0]&1 == 1, // alternate long-lived instance / instance per block
			canon: func(m tl.Model) ([]byte, error) {
				return uc.canon[m.Digest()], nil
			}})
		if ok {
			c.Nontrivial(fmt.Sprintf("exh/%s/%v", uc.u.Name, codes))
		}
	}
	// all 2-batch histories
	parallel(len(ucs)*256, func(i int) {
		uc := ucs[i/256]
		b1 := i % 256
		for b2 := 0; b2 < 256; b2++ {
			skip := 1 // the state after b1 alone is read in full once (b2 == 0), not 256 times
			if b2 == 0 {
				skip = 0
			}
			runOne(uc, []int{b1, b2}, skip)
		}
		c.Count("exhaustive_2batch_histories", 256)
	})
	// sampled 3-batch histories
	n3 := c.Pick(4000, 8000)
	type t3 struct{ u, a, b, d int }
	r3 := c.Rand("exh3")
	tasks := make([]t3, len(ucs)*n3)
	for i := range tasks {
		tasks[i] = t3{i / n3, 1 + r3.Intn(255), 1 + r3.Intn(255), 1 + r3.Intn(255)}
	}
	parallel(len(tasks), func(i int) {
		x := tasks[i]
		runOne(ucs[x.u], []int{x.a, x.b, x.d}, 1)
		c.Count("sampled_3batch_histories", 1)
	})
	names := make([]string, len(us))
	for i := range us {
		names[i] = us[i].Name
	}
	c.Set("exhaustive_subspace", map[string]interface{}{
		"exhaustive":        true,
		"sub_space":         "all 2-batch histories: 4-key universe, per batch every key in {untouched,set v1,set v2,delete} (256 x 256 per universe), from the empty trie",
		"universes":         names,
		"histories_per_u":   65536,
		"contents_per_u":    81,
		"sampled_3batch":    len(tasks),
		"not_exhaustive":    "3-batch histories are sampled; key universes are a fixed adversarial list with random base keys",
		"checked_per_batch": "root oracles (b),(e),(f) after every batch; read oracles (a),(c),(d incl. every earlier root) after the last batch of each history and, for the state after batch 1 alone, once per first batch (history with an empty second batch)",
	})
}

// ---------------------------------------------------------------- part B: random / adversarial long histories

type randSpec struct {
	nKeys, nBatches, maxBatch, count int
	oldEvery                         bool
}

func (ck *checker) random() {
	c := ck.c
	var specs []randSpec
	if c.Quick() {
		specs = []randSpec{{8, 50, 4, 48, true}, {40, 50, 12, 16, true}, {300, 40, 80, 4, false}, {2000, 30, 400, 1, false}}
	} else {
		specs = []randSpec{{6, 50, 4, 600, true}, {12, 50, 6, 400, true}, {40, 50, 12, 240, true}, {120, 50, 40, 80, false},
			{300, 50, 80, 48, false}, {1000, 50, 250, 16, false}, {2000, 50, 400, 16, false}}
	}
	if os.Getenv("VERIF_ONLY") == "race-small" { // developer aid: a workload small enough for a -race build
		specs = []randSpec{{300, 12, 80, 4, false}, {2000, 6, 400, 1, false}}
	}
	type task struct {
		s  randSpec
		id string
	}
	var tasks []task
	for si, s := range specs {
		for n := 0; n < s.count; n++ {
			tasks = append(tasks, task{s, fmt.Sprintf("rand/%d/%d", si, n)})
		}
	}
	// big ones first for load balance
	for i, j := 0, len(tasks)-1; i < j; i, j = i+1, j-1 {
		tasks[i], tasks[j] = tasks[j], tasks[i]
	}
	parallel(len(tasks), func(i int) {
		tk := tasks[i]
		r := c.Rand(tk.id)
		uni := tl.Universe(r, tk.s.nKeys)
		ck.notePrefixes(uni)
		hist := tl.GenHistory(r, uni, tk.s.nBatches, tk.s.maxBatch)
		var probes []tl.Key
		for n := 0; n < 6 && n < len(uni); n++ {
			nb := tl.Neighbours(uni[r.Intn(len(uni))])
			probes = append(probes, nb[r.Intn(len(nb))])
		}
		probes = append(probes, tl.RandKey(r))
		class := fmt.Sprintf("rand-%dk", tk.s.nKeys)
		o := histOpts{part: "rand", class: class, probes: probes, canon: ck.canonFresh, oldEvery: tk.s.oldEvery,
			oldSample: 2, keySample: 64, r: r, freshPerBlock: i%2 == 1}
		// half of the histories run with the live node cache on (all levels, the top 24, the top 8); the decision
		// and the limit come from the task index, so a seed determines them
		if i%4 >= 2 {
			lim := []int{0, 232, 248}[(i/4)%3]
			o.cacheLimit = &lim
			c.Count("random_histories_with_live_cache", 1)
		}
		store, snaps, ok := ck.runHistory(hist, o)
		if !ok {
			return
		}
		c.Count("random_histories", 1)
		final := snaps[len(snaps)-1]
		// (b) second, different history with the same final content; also at a middle point
		for _, at := range []int{len(snaps) / 2, len(snaps) - 1} {
			target := snaps[at]
			alt := tl.AltHistory(r, target.Model, 2+r.Intn(5))
			_, _, asn, err := tl.Build(ck.scratch, alt, r.Intn(2) == 0)
			if err != nil {
				c.Violation("update-error/rand-alt", err.Error(), replayCase{Part: "rand-alt", Class: class, History: tl.HistoryJ(alt)})
				return
			}
			c.Count("alt_history_root_comparisons", 1)
			if got := asn[len(asn)-1].Root; !bytes.Equal(got, target.Root) {
				c.Violation("root-history-dependence/rand-alt",
					fmt.Sprintf("[%s] two histories with the same final content (%d keys) end in roots %x and %x", class, len(target.Model), target.Root, got),
					replayCase{Part: "rand-alt", Class: class, History: tl.HistoryJ(hist[:at+1]), Extra: tl.HistoryJ(alt)})
				return
			}
		}
		if ref := tl.RefRoot(final.Model); !bytes.Equal(ref, final.Root) {
			c.Count("reference_root_disagreements", 1)
		} else {
			c.Count("reference_root_agreements", 1)
		}
		// (d) at the end: every committed root, all keys (sampled for the large ones)
		var all []tl.Key
		seen := map[tl.Key]bool{}
		for _, b := range hist {
			for _, op := range b {
				if !seen[op.K] {
					seen[op.K] = true
					all = append(all, op.K)
				}
			}
		}
		all = append(all, probes...)
		keys := all
		if len(keys) > 400 {
			keys = make([]tl.Key, 400)
			for n := range keys {
				keys[n] = all[r.Intn(len(all))]
			}
		}
		for j := range snaps {
			t := tl.NewTrie(snaps[j].Root, store)
			if d := getAll(t, snaps[j].Model, keys); d != "" {
				c.Violation("old-root-unreadable/rand-final", fmt.Sprintf("[%s] root of batch %d read after the last batch: %s", class, j, d),
					replayCase{Part: "rand", Class: class, History: tl.HistoryJ(hist), Note: d})
				return
			}
			c.Count("gets_old_roots", len(keys))
		}
		// persistence through the store's file form: close (gob dump), load again, read the last root
		if tk.s.nKeys <= 300 {
			dir := fmt.Sprintf("%s/persist-%d", ck.scratch, i)
			os.MkdirAll(dir, 0o755)
			st2 := tl.NewStoreAt(dir)
			t := tl.NewTrie(nil, st2)
			bad := false
			for _, b := range hist {
				if _, err := tl.Apply(t, b); err != nil {
					bad = true
					break
				}
			}
			if !bad {
				st2.Close()
				st3 := tl.NewStoreAt(dir)
				t3 := tl.NewTrie(final.Root, st3)
				if d := getAll(t3, final.Model, keys); d != "" {
					c.Violation("get-mismatch-reloaded-store", fmt.Sprintf("[%s] after closing and reloading the store: %s", class, d),
						replayCase{Part: "rand", Class: class, History: tl.HistoryJ(hist), Note: d})
					return
				}
				c.Count("store_reload_checks", 1)
				os.RemoveAll(dir)
			}
		}
		c.Nontrivial(tk.id + fmt.Sprintf("/%x", final.Root))
		c.Sample(map[string]interface{}{"class": class, "batches": len(hist), "keys_ever": len(all), "final_keys": len(final.Model),
			"final_root": tl.Hex(final.Root), "fresh_per_block": o.freshPerBlock})
	})
}

// ---------------------------------------------------------------- replay

func (ck *checker) replay() {
	c := ck.c
	var rc replayCase
	if err := c.LoadReplay(&rc); err != nil {
		fmt.Println("cannot load replay:", err)
		os.Exit(2)
	}
	if rc.SDB != nil {
		ck.replaySDB(&rc)
		return
	}
	hist, err := tl.HistoryFromJ(rc.History)
	if err != nil {
		fmt.Println("bad replay:", err)
		os.Exit(2)
	}
	var probes []tl.Key
	for _, p := range rc.Probes {
		var k tl.Key
		b, err := hex.DecodeString(p)
		if err != nil || len(b) != 32 {
			continue
		}
		copy(k[:], b)
		probes = append(probes, k)
	}
	r := c.Rand("replay")
	_, snaps, ok := ck.runHistory(hist, histOpts{part: rc.Part, class: rc.Class, probes: probes, canon: ck.canonFresh,
		oldEvery: true, freshPerBlock: rc.FreshPerBlock, cacheLimit: rc.CacheLimit, r: r})
	if ok && rc.Extra != nil && len(snaps) > 0 {
		// alt-history case: Extra holds the second history
		if raw, ok2 := rc.Extra.([]interface{}); ok2 {
			var hj [][]tl.OpJ
			for _, bi := range raw {
				var bj []tl.OpJ
				for _, oi := range bi.([]interface{}) {
					om := oi.(map[string]interface{})
					o := tl.OpJ{}
					o.K, _ = om["k"].(string)
					o.V, _ = om["v"].(string)
					o.D, _ = om["del"].(bool)
					bj = append(bj, o)
				}
				hj = append(hj, bj)
			}
			if alt, err := tl.HistoryFromJ(hj); err == nil {
				_, _, asn, err := tl.Build(ck.scratch, alt, false)
				if err == nil && len(asn) > 0 && !bytes.Equal(asn[len(asn)-1].Root, snaps[len(snaps)-1].Root) {
					c.Violation("root-history-dependence/rand-alt", "replayed: two histories, same content, different roots", rc)
				}
			}
		}
	}
}

type tailBuf struct {
	mu  sync.Mutex
	buf []byte
}

func (t *tailBuf) Write(p []byte) (int, error) {
	t.mu.Lock()
	t.buf = append(t.buf, p...)
	if len(t.buf) > 1<<16 {
		t.buf = t.buf[len(t.buf)-(1<<16):]
	}
	t.mu.Unlock()
	return os.Stderr.Write(p)
}

func superviseChild(c *vf.Ctx) {
	exe, err := os.Executable()
	if err != nil {
		c.Inconclusive("cannot locate own executable: " + err.Error())
		c.Finish("supervisor", 0)
	}
	cmd := exec.Command(exe, os.Args[1:]...)
	cmd.Env = append(os.Environ(), "VERIF_C10_CHILD=1")
	cmd.Stdout = os.Stdout
	tb := &tailBuf{}
	cmd.Stderr = tb
	cmd.Run()
	code := -1
	if cmd.ProcessState != nil {
		code = cmd.ProcessState.ExitCode()
	}
	out := string(tb.buf)
	crashed := strings.Contains(out, "panic:") || strings.Contains(out, "fatal error:")
	if code == 0 || code == 1 || !crashed {
		if code < 0 {
			code = 2
		}
		os.Exit(code) // the child wrote the evidence file
	}
	head := out
	if i := strings.Index(out, "panic:"); i >= 0 {
		head = out[i:]
	} else if i := strings.Index(out, "fatal error:"); i >= 0 {
		head = out[i:]
	}
	if len(head) > 1500 {
		head = head[:1500]
	}
	c.Violation("driver-crash/trie-goroutine-panic", "the trie crashed the process while applying a valid batch (panic outside the calling goroutine):\n"+head, nil)
	c.Finish("supervisor: workload process crashed inside the code under test", 0)
}

func main() {
	c := vf.Start("C10", "exploration")
	if c.ReplayPath != "" {
		ck := &checker{c: c, scratch: c.Scratch(), roots: map[string][32]byte{}}
		ck.replay()
		c.Finish("replay", 0)
		return
	}
	if os.Getenv("VERIF_C10_CHILD") == "" {
		// The trie updates subtrees in goroutines of its own; a panic there cannot be recovered
		// and would end the driver with the Go runtime's status 2.  Run the workload in a child
		// and turn such a crash into what it is: the trie failing on a valid batch.
		superviseChild(c)
		return
	}
	ck := &checker{c: c, scratch: c.Scratch(), roots: map[string][32]byte{}}
	if p := os.Getenv("VERIF_PROF"); p != "" { // developer aid only
		if f, err := os.Create(p); err == nil {
			pprof.StartCPUProfile(f)
		}
	}
	// the workload is allocation-bound (every Get on a reopened trie parses up to 64 node
	// batches); let the heap grow instead of collecting every few milliseconds
	debug.SetGCPercent(-1)
	lim := int64(6 << 30)
	if v := os.Getenv("VERIF_MEMLIMIT_MB"); v != "" {
		var mb int64
		fmt.Sscan(v, &mb)
		lim = mb << 20
	}
	debug.SetMemoryLimit(lim)
	t0 := time.Now()
	if os.Getenv("VERIF_ONLY") == "" || os.Getenv("VERIF_ONLY") == "exh" {
		ck.exhaustive()
	}
	tA := time.Since(t0)
	only := os.Getenv("VERIF_ONLY") // developer aid only
	if only == "" || only == "rand" || only == "race-small" {
		ck.random()
	}
	tB := time.Since(t0) - tA
	if only == "" || only == "sdb" {
		ck.statedbPart()
	}
	tC := time.Since(t0) - tA - tB
	fmt.Printf("phase wall: exhaustive=%.1fs random=%.1fs statedb=%.1fs\n", tA.Seconds(), tB.Seconds(), tC.Seconds())
	pprof.StopCPUProfile()
	ck.mu.Lock()
	c.Set("distinct_roots_seen", len(ck.roots))
	covered, missing, mod := 0, []int{}, map[string]int64{}
	for L := 0; L < 256; L++ {
		if ck.prefix[L] > 0 {
			covered++
		} else {
			missing = append(missing, L)
		}
		mod[fmt.Sprintf("L%%4==%d", L%4)] += ck.prefix[L]
	}
	c.Set("random_universes_adjacent_common_prefix", map[string]interface{}{"lengths_covered_of_256": covered, "lengths_missing": missing,
		"pairs_by_L_mod_4": mod, "pairs_L_252_to_255": ck.prefix[252] + ck.prefix[253] + ck.prefix[254] + ck.prefix[255]})
	ck.mu.Unlock()
	c.Finish("model equivalence of Get on live/reopened/old roots + root equality with single-batch fresh build and alternative histories, after every committed batch",
		c.Pick(50000, 500000),
		"sha256 is collision-free on the inputs seen",
		"memorydb (aergo-lib) stands in for the node's badger store",
		"trie values are 32-byte hashes as produced by statedb; keys are 32 bytes")
}
