// C04 authorisation and replay protection for executed transactions.
package main

import (
	"bytes"
	"encoding/hex"
	"fmt"
	"math/big"
	"os"
	"sync"

	"github.com/aergoio/aergo/v2/types"
	"github.com/btcsuite/btcd/btcec/v2"
	"github.com/btcsuite/btcd/btcec/v2/ecdsa"

	"verif/h/rig"
	"verif/h/vf"
)

type caseDesc struct {
	Scenario string   `json:"scenario"`
	Step     string   `json:"step"`
	Detail   []string `json:"detail,omitempty"`
}

func main() {
	if len(os.Args) > 1 && os.Args[1] == "node" {
		rig.ChildMain()
		return
	}
	c := vf.Start("C04", "exploration")
	n := c.Pick(6, 40)
	var wg sync.WaitGroup
	sem := make(chan struct{}, c.Pick(6, 6))
	for i := 0; i < n; i++ {
		wg.Add(1)
		sem <- struct{}{}
		go func(i int) {
			defer wg.Done()
			defer func() { <-sem }()
			run(c, i)
		}(i)
	}
	wg.Wait()
	c.Finish("per scenario: a node with the REAL mempool follows branch A, is offered valid and forged transactions (wrong key, transplanted signature, body altered after signing, other chain id / other hardfork's chain id, nonce 0/low/same/gap/max, replays of included txs, named sender signed by non-owner or previous owner), is reorganised onto branch B (shared and conflicting txs), re-mines returned txs from its own pool, and is then sent blocks built by a malicious producer that contain forged-signature transactions with fully consistent roots, alone and right after a validly signed but unexecutable block. Monitors: executed-tx ledger along the main chain after every step (nonces 1,2,3.., unique hashes, independent ECDSA verification against the sender address or the name owner of the parent state, chain-id binding); forged txs never accepted by pool or chain, node unchanged. A case = one adversarial submission or ledger evaluation; non-trivial = those where the forged item was otherwise executable; distinct = hash(scenario, step)",
		c.Pick(80, 600),
		"forged-signature blocks are built through the real production path, which (like a malicious producer) does not check signatures",
		"named senders: only v1createName/v1updateName ownership as recorded in state")
}

type ledgerAcct struct {
	next uint64
}

// ledger walks the main chain of n and applies the monitor. owners[name] lists (height, owner) changes known to the driver.
func ledger(c *vf.Ctx, w *rig.World, n *rig.Client, scen, step string, nameOwners map[string][][2]interface{}) bool {
	best, err := n.Best()
	if err != nil {
		c.Violation("node-died", fmt.Sprintf("%s %s: %v", scen, step, err), caseDesc{scen, step, nil})
		return false
	}
	c.Eval(1)
	nonces := map[string]uint64{}
	seen := map[string]uint64{}
	ntx := 0
	for no := uint64(1); no <= best.No; no++ {
		bb, err := n.GetBlockByNo(no)
		if err != nil {
			c.Violation("main-chain-block-missing", fmt.Sprintf("%s %s: height %d: %v", scen, step, no, err), caseDesc{scen, step, nil})
			return false
		}
		blk := rig.DecBlock(bb)
		cid := w.CIDHash(no)
		for i, tx := range blk.GetBody().GetTxs() {
			ntx++
			b := tx.Body
			id := hex.EncodeToString(tx.Hash)
			fail := func(key, msg string) {
				c.Violation(key, fmt.Sprintf("%s after %s: main chain height %d tx %d (%s, nonce %d, account %x): %s", scen, step, no, i, id[:16], b.Nonce, b.Account, msg),
					caseDesc{scen, step, []string{msg}})
			}
			if h, ok := seen[id]; ok {
				fail("tx-executed-twice", fmt.Sprintf("already executed at height %d", h))
				return false
			}
			seen[id] = no
			if !bytes.Equal(tx.Hash, tx.CalculateTxHash()) {
				fail("tx-hash-not-digest-of-body", "stored hash is not the digest of the body")
				return false
			}
			signer := b.Account
			if len(b.Account) == 12 {
				// named sender: owner according to the driver's knowledge at this height
				var owner []byte
				for _, ch := range nameOwners[string(b.Account)] {
					if ch[0].(uint64) < no {
						owner = ch[1].([]byte)
					}
				}
				if owner == nil {
					fail("named-sender-without-owner", "name had no owner before this block")
					return false
				}
				signer = owner
			}
			acct := hex.EncodeToString(signer)
			if b.Nonce != nonces[acct]+1 {
				fail("nonce-sequence-broken", fmt.Sprintf("executed nonce %d but the account's previous executed nonce is %d", b.Nonce, nonces[acct]))
				return false
			}
			nonces[acct] = b.Nonce
			if !bytes.Equal(b.ChainIdHash, cid) {
				fail("chain-id-not-bound", fmt.Sprintf("carries chain id hash %x, this chain at this height has %x", b.ChainIdHash, cid))
				return false
			}
			sig, err := ecdsa.ParseSignature(b.Sign)
			pub, err2 := btcec.ParsePubKey(signer)
			if err != nil || err2 != nil || !sig.Verify(rig.IndependentSigningDigest(b), pub) {
				fail("executed-tx-signature-invalid", fmt.Sprintf("signature does not verify for the sender key (parse: %v %v)", err, err2))
				return false
			}
		}
	}
	c.Count("ledger_txs_checked", ntx)
	c.Count("ledger_walks", 1)
	return true
}

type forged struct {
	name string
	tx   *types.Tx
	exec bool // otherwise executable (only the authorisation is wrong)
}

// variants derives unauthorised / replay / wrong-chain variants from a valid signed tx of account a.
func variants(w *rig.World, base *types.Tx, a *rig.Acct, other *rig.Acct, otherTx *types.Tx, height uint64) []forged {
	var out []forged
	mk := func(name string, exec bool, f func(tx *types.Tx)) {
		tx := rig.CloneTx(base)
		f(tx)
		out = append(out, forged{name, tx, exec})
	}
	mk("signed-by-other-key", true, func(tx *types.Tx) { rig.Resign(tx, other) })
	mk("signature-bitflip", true, func(tx *types.Tx) { tx.Body.Sign = rig.FlipBytes(tx.Body.Sign); rig.Rehash(tx) })
	if otherTx != nil {
		mk("signature-transplanted", true, func(tx *types.Tx) { tx.Body.Sign = append([]byte(nil), otherTx.Body.Sign...); rig.Rehash(tx) })
	}
	mk("amount-altered-after-signing", true, func(tx *types.Tx) {
		tx.Body.Amount = new(big.Int).Add(new(big.Int).SetBytes(tx.Body.Amount), big.NewInt(1)).Bytes()
		rig.Rehash(tx)
	})
	mk("recipient-altered-after-signing", true, func(tx *types.Tx) { tx.Body.Recipient = rig.NewAcct("c04/thief", 1).Addr; rig.Rehash(tx) })
	mk("amount-altered-hash-not-recomputed", false, func(tx *types.Tx) {
		tx.Body.Amount = new(big.Int).Add(new(big.Int).SetBytes(tx.Body.Amount), big.NewInt(1)).Bytes()
	})
	mk("nonce-altered-after-signing", true, func(tx *types.Tx) { tx.Body.Nonce++; rig.Rehash(tx) })
	mk("empty-signature", true, func(tx *types.Tx) { tx.Body.Sign = nil; rig.Rehash(tx) })
	mk("other-chain-id", false, func(tx *types.Tx) { tx.Body.ChainIdHash = rig.FlipBytes(tx.Body.ChainIdHash); rig.Resign(tx, a) })
	{
		v := w.Version(height)
		for h := uint64(0); h < 64; h++ {
			if w.Version(h) != v {
				oh := w.CIDHash(h)
				mk("other-hardfork-chain-id", false, func(tx *types.Tx) { tx.Body.ChainIdHash = oh; rig.Resign(tx, a) })
				break
			}
		}
	}
	mk("nonce-zero", false, func(tx *types.Tx) { tx.Body.Nonce = 0; rig.Resign(tx, a) })
	if base.Body.Nonce > 1 {
		mk("nonce-replayed", false, func(tx *types.Tx) { tx.Body.Nonce--; rig.Resign(tx, a) })
	}
	return out
}

func run(c *vf.Ctx, si int) {
	scen := fmt.Sprintf("sc%d", si)
	// all activity of a scenario happens in one hardfork version (chain id hashes of txs waiting in the
	// pool would otherwise expire at the next fork height)
	tv := []int{5, 0, 2, 3, 4}[si%5]
	hf := map[string]uint64{}
	for v := 2; v <= 5; v++ {
		if v <= tv {
			hf[fmt.Sprintf("V%d", v)] = 1
		} else {
			hf[fmt.Sprintf("V%d", v)] = 1 << 40
		}
	}
	c.Count(fmt.Sprintf("scenarios_v%d", tv), 1)
	w := rig.NewWorld(scen, c.Scratch(), rig.WorldOpts{Public: true, NAccts: 12, Mempool: "recorder", HF: hf})
	cb := rig.NewAcct(scen+"/cb", 0)
	w.Tmpl.Coinbase = cb.B58()
	defer w.CloseAll()
	r := c.Rand("run/" + scen)
	t := rig.NewTree(w)
	t.Kinds = []string{"xfer", "xfer", "xfer-new", "xfer-zero", "name", "stake", "deploy", "call-inc", "call-fail", "xfer-poor", "feedeleg", "feedeleg-fail", "feedeleg-fail"}
	t.MaxTx = 5
	t.MaxAcct = 5 // accounts 5..11 are driven by the scenario itself
	add := func(p int, mode string) int {
		b, err := t.Add(p, r, mode)
		if err != nil {
			c.Inconclusive(scen + ": build failed: " + err.Error())
			return -2
		}
		return b.Idx
	}
	fork := r.Intn(3)
	la := 1 + r.Intn(3)
	lb := la + 1 + r.Intn(2)
	tip := -1
	var P, A, B []int
	for i := 0; i < fork; i++ {
		if tip = add(tip, "fresh"); tip == -2 {
			return
		}
		P = append(P, tip)
	}
	modes := []string{"shared", "mixed", "conflict", "fresh"}
	p := tip
	for i := 0; i < la; i++ {
		if p = add(p, "fresh"); p == -2 {
			return
		}
		A = append(A, p)
	}
	p = tip
	for i := 0; i < lb; i++ {
		m := "fresh"
		if i == 0 {
			m = modes[r.Intn(len(modes))]
		}
		if p = add(p, m); p == -2 {
			return
		}
		B = append(B, p)
	}
	t.Close()
	nut, _, err := w.Node("nut", func(cfg *rig.NodeConfig) { cfg.Mempool = "real" })
	if err != nil {
		c.Inconclusive("start NUT: " + err.Error())
		return
	}
	owners := map[string][][2]interface{}{}
	for _, i := range append(append([]int(nil), P...), A...) {
		if e, err := nut.AddBlock(t.Blocks[i].Bytes); err != nil || e != "" {
			c.Inconclusive(fmt.Sprintf("%s: NUT refused branch A: %v %s", scen, err, e))
			return
		}
	}
	if !ledger(c, w, nut, scen, "branch A", owners) {
		return
	}
	// --- pool admission of forged txs -------------------------------------------------------
	best, _ := nut.Best()
	height := best.No + 1
	stateNonce := func(a *rig.Acct) uint64 {
		st, _ := nut.GetState(a.Addr)
		return st.Nonce
	}
	poolSig := func() string {
		s, _ := nut.MempoolSnapshot()
		return snapSig(s)
	}
	a0, a1 := w.Accts[6], w.Accts[7]
	gp := big.NewInt(50000000000)
	mkValid := func(a *rig.Acct, nonce uint64, amt int64) *types.Tx {
		return rig.TxSpec{Type: types.TxType_TRANSFER, From: a, To: a1.Addr, Nonce: nonce, Amount: big.NewInt(amt), GasPrice: gp, ChainID: w.CIDHash(height)}.Build()
	}
	base := mkValid(a0, stateNonce(a0)+1, 1000)
	otherTx := mkValid(a0, stateNonce(a0)+2, 7)
	for _, f := range variants(w, base, a0, a1, otherTx, height) {
		before := poolSig()
		res, err := nut.MempoolPut(rig.EncTx(f.tx))
		c.Eval(1)
		if err != nil {
			c.Violation("node-died", fmt.Sprintf("%s pool put %s: %v", scen, f.name, err), caseDesc{scen, "pool/" + f.name, nil})
			return
		}
		c.Count("pool_forged_submitted", 1)
		if res == "" {
			c.Violation("pool-admitted-unauthorised-tx/"+f.name, fmt.Sprintf("%s: the pool admitted variant %q of a transfer of account %x", scen, f.name, a0.Addr[:6]), caseDesc{scen, "pool/" + f.name, nil})
			return
		}
		if after := poolSig(); after != before {
			c.Violation("pool-changed-by-refused-tx/"+f.name, fmt.Sprintf("%s: refused variant %q (%s) changed the pool: %s -> %s", scen, f.name, res, before, after), caseDesc{scen, "pool/" + f.name, nil})
			return
		}
		c.Count("pool_refused/"+f.name, 1)
		if f.exec {
			c.Nontrivial(scen + "|pool|" + f.name)
		}
	}
	// valid future txs go in (the genuine ones), incl. one that will also be on branch B? (B is fixed already)
	if res, _ := nut.MempoolPut(rig.EncTx(base)); res != "" {
		c.Inconclusive(fmt.Sprintf("%s: pool refused the genuine tx: %s", scen, res))
		return
	}
	nut.MempoolPut(rig.EncTx(otherTx))
	// exact replay of the same tx object
	if res, _ := nut.MempoolPut(rig.EncTx(base)); res == "" {
		c.Violation("pool-admitted-duplicate", scen+": the same tx was admitted twice", caseDesc{scen, "pool/duplicate", nil})
		return
	}
	// replay of txs already included on the main chain
	replays := 0
	for _, i := range A {
		blk := rig.DecBlock(t.Blocks[i].Bytes)
		for _, tx := range blk.GetBody().GetTxs() {
			res, _ := nut.MempoolPut(rig.EncTx(tx))
			c.Eval(1)
			replays++
			if res == "" {
				c.Violation("pool-admitted-replay-of-included-tx", fmt.Sprintf("%s: tx %x of main-chain block %d was admitted again", scen, tx.Hash[:8], blk.BlockNo()), caseDesc{scen, "pool/replay", nil})
				return
			}
			c.Nontrivial(fmt.Sprintf("%s|replay|%x", scen, tx.Hash[:8]))
		}
	}
	c.Count("pool_replays_refused", replays)
	// --- reorganisation: abandoned txs return to the pool, then are re-mined by this node --------
	order := append([]int(nil), B...)
	if r.Intn(2) == 0 {
		for i, j := 0, len(order)-1; i < j; i, j = i+1, j-1 {
			order[i], order[j] = order[j], order[i]
		}
	}
	for _, i := range order {
		if _, err := nut.AddBlock(t.Blocks[i].Bytes); err != nil {
			c.Violation("node-died", fmt.Sprintf("%s delivering branch B: %v", scen, err), caseDesc{scen, "reorg", nil})
			return
		}
	}
	for _, i := range B {
		nut.AddBlock(t.Blocks[i].Bytes)
	}
	nb, _ := nut.Best()
	if !bytes.Equal(nb.Hash, t.Blocks[B[len(B)-1]].Hash) {
		c.Inconclusive(scen + ": reorganisation to branch B did not happen (C07's subject)")
		return
	}
	c.Count("reorgs", 1)
	if !ledger(c, w, nut, scen, "reorg to B", owners) {
		return
	}
	nut.MempoolSync()
	for k := 0; k < 3; k++ {
		rsp, err := nut.Produce(&rig.ProduceReq{FromMempool: true, Connect: true, Confirms: -1, SignKey: 0})
		if err != nil {
			c.Violation("node-died", fmt.Sprintf("%s producing from the pool: %v", scen, err), caseDesc{scen, "remine", nil})
			return
		}
		if rsp.Panic != "" || rsp.GenErr != "" || rsp.AddErr != "" {
			c.Inconclusive(fmt.Sprintf("%s: production from pool failed: %.200s %s %s", scen, rsp.Panic, rsp.GenErr, rsp.AddErr))
			return
		}
		c.Count("remined_txs", len(rsp.Included))
		nut.MempoolSync()
		if !ledger(c, w, nut, scen, fmt.Sprintf("re-mined block %d", k), owners) {
			return
		}
		c.Nontrivial(fmt.Sprintf("%s|remine|%d|%d", scen, k, len(rsp.Included)))
	}
	// replay of an old-branch block after the reorg
	for _, i := range A {
		nut.AddBlock(t.Blocks[i].Bytes)
	}
	if !ledger(c, w, nut, scen, "old branch replayed", owners) {
		return
	}
	// --- named sender ---------------------------------------------------------------------------
	best, _ = nut.Best()
	owner, thief, heir := w.Accts[8], w.Accts[9], w.Accts[10]
	nm := fmt.Sprintf("v%011d", si)
	cid := func() []byte { b, _ := nut.Best(); return w.CIDHash(b.No + 1) }
	produce := func(step string, txs ...*types.Tx) *rig.ProduceRsp {
		var enc [][]byte
		for _, tx := range txs {
			enc = append(enc, rig.EncTx(tx))
		}
		rsp, err := nut.Produce(&rig.ProduceReq{Txs: enc, Connect: true, Confirms: -1, SignKey: 0})
		if err != nil {
			c.Violation("node-died", fmt.Sprintf("%s %s: %v", scen, step, err), caseDesc{scen, step, nil})
			return nil
		}
		if rsp.Panic != "" || rsp.GenErr != "" || rsp.AddErr != "" {
			c.Inconclusive(fmt.Sprintf("%s %s: %.200s %s %s", scen, step, rsp.Panic, rsp.GenErr, rsp.AddErr))
			return nil
		}
		return rsp
	}
	create := rig.TxSpec{Type: types.TxType_GOVERNANCE, From: owner, To: []byte(types.AergoName), Nonce: stateNonce(owner) + 1, Amount: rig.Aergo,
		Payload: rig.GovPayload("v1createName", nm), GasPrice: gp, ChainID: cid()}.Build()
	rsp := produce("create name", create)
	if rsp == nil {
		return
	}
	if len(rsp.Included) == 1 && rsp.Receipts[0].Status == "SUCCESS" {
		b, _ := nut.Best()
		owners[nm] = append(owners[nm], [2]interface{}{b.No, owner.Addr})
		// fund the name (its destination is the owner address) - not needed; named sender spends the owner's account
		named := func(signer *rig.Acct, nonce uint64) *types.Tx {
			return rig.TxSpec{Type: types.TxType_TRANSFER, From: signer, Account: []byte(nm), To: a1.Addr, Nonce: nonce, Amount: big.NewInt(5), GasPrice: gp, ChainID: cid()}.Build()
		}
		tryPool := func(step string, tx *types.Tx, mustRefuse bool) bool {
			res, err := nut.MempoolPut(rig.EncTx(tx))
			c.Eval(1)
			if err != nil {
				c.Violation("node-died", fmt.Sprintf("%s %s: %v", scen, step, err), caseDesc{scen, step, nil})
				return false
			}
			c.Count("named/"+step+"/"+map[bool]string{true: "admitted", false: "refused"}[res == ""], 1)
			if mustRefuse && res == "" {
				c.Violation("pool-admitted-unauthorised-tx/named-sender-"+step, fmt.Sprintf("%s: tx with sender name %s %s was admitted", scen, nm, step), caseDesc{scen, "named/" + step, nil})
				return false
			}
			c.Nontrivial(scen + "|named|" + step)
			return true
		}
		if !tryPool("signed-by-non-owner", named(thief, stateNonce(owner)+1), true) {
			return
		}
		// a named-sender tx admitted while its signer owns the name must not execute after the name moved on:
		// heir gets state nonce 2, the owner's pooled tx carries nonce 3 (= owner nonce after the update + 1)
		h1 := rig.TxSpec{Type: types.TxType_TRANSFER, From: heir, To: a1.Addr, Nonce: stateNonce(heir) + 1, Amount: big.NewInt(1), GasPrice: gp, ChainID: cid()}.Build()
		h2 := rig.TxSpec{Type: types.TxType_TRANSFER, From: heir, To: a1.Addr, Nonce: stateNonce(heir) + 2, Amount: big.NewInt(1), GasPrice: gp, ChainID: cid()}.Build()
		if produce("heir txs", h1, h2) == nil {
			return
		}
		pending := named(owner, stateNonce(owner)+2)
		if res, _ := nut.MempoolPut(rig.EncTx(pending)); res != "" {
			c.Count("named/pending-owner-tx/refused", 1)
		} else {
			c.Count("named/pending-owner-tx/admitted", 1)
		}
		// ownership moves to heir
		upd := rig.TxSpec{Type: types.TxType_GOVERNANCE, From: owner, To: []byte(types.AergoName), Nonce: stateNonce(owner) + 1, Amount: rig.Aergo,
			Payload: rig.GovPayload("v1updateName", nm, heir.B58()), GasPrice: gp, ChainID: cid()}.Build()
		if rsp := produce("update name", upd); rsp != nil && len(rsp.Included) == 1 && rsp.Receipts[0].Status == "SUCCESS" {
			b, _ := nut.Best()
			owners[nm] = append(owners[nm], [2]interface{}{b.No, heir.Addr})
			// the producer now fetches from the pool: the previous owner's pending tx must not be executed
			nut.MempoolSync()
			if rsp := func() *rig.ProduceRsp {
				r, err := nut.Produce(&rig.ProduceReq{FromMempool: true, Connect: true, Confirms: -1, SignKey: 0})
				if err != nil || r.Panic != "" || r.GenErr != "" || r.AddErr != "" {
					return nil
				}
				return r
			}(); rsp != nil {
				for _, h := range rsp.Included {
					if bytes.Equal(h, pending.Hash) {
						c.Violation("chain-executed-unauthorised-tx/named-sender-owner-changed-while-pooled", fmt.Sprintf("%s: a tx with sender name %s signed by its owner, admitted to the pool and still waiting when the name was transferred, was executed against the NEW owner's account", scen, nm), caseDesc{scen, "named/pending", nil})
						return
					}
				}
				c.Count("named/pending-owner-tx/not-executed-after-transfer", 1)
				c.Nontrivial(scen + "|named|pending-after-transfer")
			}
			if !tryPool("signed-by-previous-owner", named(owner, stateNonce(heir)+1), true) {
				return
			}
			// a malicious producer includes the previous owner's tx in a block
			if rsp := produceOn(c, w, nut, scen, "named-previous-owner", named(owner, stateNonce(heir)+1)); rsp == "accepted" {
				c.Violation("chain-executed-unauthorised-tx/named-sender-previous-owner", scen+": block with a named-sender tx signed by the previous owner was accepted", caseDesc{scen, "named/block", nil})
				return
			}
			// hand-over and use in ONE block of a malicious producer: [heir hands the name to thief][a tx from the
			// name, signed by heir, with the nonce that is next for thief]. If the name is resolved to thief for
			// the second tx while the signature is checked against heir, thief's account pays for and counts a
			// transaction it never signed; the ledger below decides.
			upd2 := rig.TxSpec{Type: types.TxType_GOVERNANCE, From: heir, To: []byte(types.AergoName), Nonce: stateNonce(heir) + 1, Amount: rig.Aergo,
				Payload: rig.GovPayload("v1updateName", nm, thief.B58()), GasPrice: gp, ChainID: cid()}.Build()
			thiefBefore := stateNonce(thief)
			res := produceOn(c, w, nut, scen, "named-handover-and-use-in-one-block", upd2, named(heir, thiefBefore+1))
			c.Count("named/handover-and-use-in-one-block/"+res, 1)
			c.Eval(1)
			if res == "accepted" {
				b, _ := nut.Best()
				owners[nm] = append(owners[nm], [2]interface{}{b.No, thief.Addr})
				if stateNonce(thief) != thiefBefore {
					c.Violation("chain-executed-unauthorised-tx/named-sender-handover-and-use-in-one-block", fmt.Sprintf("%s: block [name %s handed from a10 to a9][tx from the name signed by a10]: the nonce of a9, who signed nothing, went from %d to %d", scen, nm, thiefBefore, stateNonce(thief)), caseDesc{scen, "named/one-block", nil})
					return
				}
			}
			c.Nontrivial(scen + "|named|one-block-handover")
		}
	}
	if !ledger(c, w, nut, scen, "named sender", owners) {
		return
	}
	// --- a fee-delegated call that fails at run time must still consume the sender's nonce -----------
	if tv >= 2 {
		dep := w.Accts[10]
		if pl, err := rig.DeployPayload(rig.LuaBank, nil, int32(tv)); err == nil {
			dtx := rig.TxSpec{Type: types.TxType_DEPLOY, From: dep, Nonce: stateNonce(dep) + 1, Amount: new(big.Int).Mul(big.NewInt(100), rig.Aergo), Payload: pl, GasPrice: gp, ChainID: cid()}.Build()
			if rsp := produce("deploy for fee delegation", dtx); rsp != nil && len(rsp.Included) == 1 && rsp.Receipts[0].Status == "CREATED" {
				caddr := rig.ContractID(dep.Addr, dtx.Body.Nonce)
				for _, fn := range []string{"fdfail", "fd"} {
					ftx := rig.TxSpec{Type: types.TxType_FEEDELEGATION, From: a0, To: caddr, Nonce: stateNonce(a0) + 1, Amount: big.NewInt(0),
						Payload: []byte(fmt.Sprintf(`{"Name":%q,"Args":["k"]}`, fn)), GasPrice: gp, ChainID: cid()}.Build()
					rsp := produce("fee-delegated "+fn, ftx)
					if rsp == nil {
						return
					}
					if len(rsp.Included) != 1 {
						c.Count("feedelegation/"+fn+"/not-included", 1)
						continue
					}
					c.Count("feedelegation/"+fn+"/"+rsp.Receipts[0].Status, 1)
					c.Eval(1)
					// the identical tx again: pool and chain must refuse it
					if res, _ := nut.MempoolPut(rig.EncTx(ftx)); res == "" {
						c.Violation("pool-admitted-replay-of-included-tx/fee-delegated-"+rsp.Receipts[0].Status, fmt.Sprintf("%s: fee-delegated call %s (receipt %s) was admitted to the pool again after it had been executed", scen, fn, rsp.Receipts[0].Status), caseDesc{scen, "feedelegation/" + fn, nil})
						return
					}
					if out := produceOn(c, w, nut, scen, "feedelegation-replay/"+fn, ftx); out == "accepted" {
						c.Violation("tx-executed-twice/fee-delegated-"+rsp.Receipts[0].Status, fmt.Sprintf("%s: a block replaying the executed fee-delegated call %s (receipt %s) was accepted", scen, fn, rsp.Receipts[0].Status), caseDesc{scen, "feedelegation/" + fn, nil})
						return
					}
					c.Nontrivial(scen + "|feedelegation|" + fn)
				}
				if !ledger(c, w, nut, scen, "fee delegation", owners) {
					return
				}
			}
		}
	}
	// --- blocks from a malicious producer ---------------------------------------------------------
	bb, _ := nut.Best()
	nvar := len(variants(w, mkValidAt(w, nut, a0, a1, stateNonce(a0)+1, 4242), a0, a1, mkValidAt(w, nut, a0, a1, stateNonce(a0)+2, 9), bb.No+1))
	for vi := 0; vi < nvar; vi++ {
		for _, pre := range []string{"alone", "after-unexecutable-validly-signed-block", "after-valid-block"} {
			before, _ := nut.Best()
			switch pre {
			case "after-unexecutable-validly-signed-block":
				// validly signed txs, but execution fails (nonce gap): the signature check result of this
				// block must not be taken for the next one
				gapTx := mkValidAt(w, nut, a1, a0, stateNonce(a1)+5, 1)
				okTx := mkValidAt(w, nut, w.Accts[11], a0, stateNonce(w.Accts[11])+1, 1)
				x := craftBlock(c, w, nut, scen, []*types.Tx{okTx}, func(b *types.Block) {
					b.Body.Txs = append(b.Body.Txs, gapTx)
					b.Header.TxsRootHash = types.CalculateTxsRootHash(b.Body.Txs)
				})
				if x == nil {
					return
				}
				if res, _ := nut.AddBlock(x); res == "" {
					c.Violation("unexecutable-block-accepted", scen+": block with a nonce-gap tx was accepted", caseDesc{scen, pre, nil})
					return
				}
			case "after-valid-block":
				okTx := mkValidAt(w, nut, w.Accts[11], a0, stateNonce(w.Accts[11])+1, 1)
				if rsp := produce(pre, okTx); rsp == nil {
					return
				}
				before, _ = nut.Best()
			}
			// forged variants are derived from a tx that is valid for the node's current state
			base = mkValidAt(w, nut, a0, a1, stateNonce(a0)+1, 4242)
			otherTx = mkValidAt(w, nut, a0, a1, stateNonce(a0)+2, 9)
			f := variants(w, base, a0, a1, otherTx, before.No+1)[vi]
			if !f.exec && pre != "alone" {
				continue // variants the production path itself refuses are tried once
			}
			step := "evil-block/" + f.name + "/" + pre
			c.Eval(1)
			out := produceOn(c, w, nut, scen, step, f.tx)
			c.Count("evil_blocks/"+pre+"/"+out, 1)
			after, _ := nut.Best()
			if out == "accepted" || !bytes.Equal(after.Hash, before.Hash) || !bytes.Equal(after.SdbRoot, before.SdbRoot) {
				c.Violation("chain-executed-unauthorised-tx/"+f.name+"/"+pre, fmt.Sprintf("%s: a block whose only defect is the %q transaction of account %x (built with consistent roots by a producer that skips signature checks), delivered %s, was accepted (best %x -> %x)", scen, f.name, a0.Addr[:6], pre, before.Hash[:6], after.Hash[:6]), caseDesc{scen, step, nil})
				return
			}
			if out == "refused" {
				c.Nontrivial(scen + "|" + step)
			}
		}
	}
	// governance transactions with a nonce gap (validly signed): the executed nonces of an account are 1, 2, 3, ...
	// for every transaction type
	for gi, gtx := range []*types.Tx{
		rig.TxSpec{Type: types.TxType_GOVERNANCE, From: a0, To: []byte(types.AergoSystem), Nonce: stateNonce(a0) + 3, Amount: new(big.Int).Mul(big.NewInt(10000), rig.Aergo), Payload: rig.GovPayload("v1stake"), GasPrice: gp, ChainID: cid()}.Build(),
		rig.TxSpec{Type: types.TxType_GOVERNANCE, From: a1, To: []byte(types.AergoName), Nonce: stateNonce(a1) + 2, Amount: rig.Aergo, Payload: rig.GovPayload("v1createName", fmt.Sprintf("g%011d", si)), GasPrice: gp, ChainID: cid()}.Build(),
	} {
		before, _ := nut.Best()
		step := fmt.Sprintf("evil-block/governance-nonce-gap/%d", gi)
		c.Eval(1)
		out := produceOn(c, w, nut, scen, step, gtx)
		c.Count("evil_blocks/governance-nonce-gap/"+out, 1)
		after, _ := nut.Best()
		if out == "accepted" || !bytes.Equal(after.Hash, before.Hash) {
			c.Violation("chain-executed-unauthorised-tx/governance-nonce-gap", fmt.Sprintf("%s: a block with a governance transaction whose nonce skips ahead of the sender's next nonce was accepted (best %x -> %x)", scen, before.Hash[:6], after.Hash[:6]), caseDesc{scen, step, nil})
			return
		}
		c.Nontrivial(scen + "|" + step)
	}
	if !ledger(c, w, nut, scen, "evil blocks", owners) {
		return
	}
	// long blocks: a block whose FIRST tx carries a bad signature is refused; the next block of the same
	// length carries its forged tx LAST (signature results of one block must not be counted for the next)
	{
		senders := append([]*rig.Acct{}, w.Accts[5:12]...)
		mk := func(forgeAt int, amt int64) []*types.Tx {
			var txs []*types.Tx
			for k := 0; k < 14; k++ {
				a := senders[k%len(senders)]
				tx := mkValidAt(w, nut, a, a1, stateNonce(a)+1+uint64(k/len(senders)), amt+int64(k))
				if k == forgeAt {
					tx.Body.Sign = rig.FlipBytes(tx.Body.Sign)
					rig.Rehash(tx)
				}
				txs = append(txs, tx)
			}
			return txs
		}
		many := func(step string, txs []*types.Tx) string {
			b := evilBuilder(c, w, nut, scen)
			if b == nil {
				return "harness"
			}
			defer b.Kill()
			var enc [][]byte
			for _, tx := range txs {
				enc = append(enc, rig.EncTx(tx))
			}
			rsp, err := b.Produce(&rig.ProduceReq{Txs: enc, Connect: false, Confirms: -1, SignKey: 0})
			if err != nil || rsp.Panic != "" || rsp.GenErr != "" || len(rsp.Included) != len(txs) {
				return "not-buildable"
			}
			res, err := nut.AddBlock(rsp.Block)
			if err != nil {
				c.Violation("node-died", fmt.Sprintf("%s %s: %v", scen, step, err), caseDesc{scen, step, nil})
				return "died"
			}
			if res == "" {
				return "accepted"
			}
			return "refused"
		}
		before, _ := nut.Best()
		r1 := many("long-block/forged-first", mk(0, 100))
		r2 := many("long-block/forged-last", mk(13, 200))
		c.Eval(2)
		c.Count("evil_long_blocks/forged-first/"+r1, 1)
		c.Count("evil_long_blocks/forged-last-after-it/"+r2, 1)
		after, _ := nut.Best()
		if r1 == "accepted" || r2 == "accepted" || !bytes.Equal(before.Hash, after.Hash) {
			c.Violation("chain-executed-unauthorised-tx/long-block-forged-last-after-refused-block", fmt.Sprintf("%s: 14-tx block with a forged signature on its first tx: %s; following 14-tx block with the forged tx last: %s", scen, r1, r2), caseDesc{scen, "long-blocks", nil})
			return
		}
		if r1 == "refused" && r2 == "refused" {
			c.Nontrivial(scen + "|long-blocks")
		}
	}
	// the node must still accept honest blocks afterwards
	okTx := mkValidAt(w, nut, w.Accts[11], a0, stateNonce(w.Accts[11])+1, 1)
	if rsp := produce("honest block after attacks", okTx); rsp == nil {
		return
	}
	ledger(c, w, nut, scen, "end", owners)
	c.Sample(map[string]interface{}{"scenario": scen, "fork": fork, "len_a": la, "len_b": lb, "final_height": func() uint64 { b, _ := nut.Best(); return b.No }()})
}

func mkValidAt(w *rig.World, nut *rig.Client, a, to *rig.Acct, nonce uint64, amt int64) *types.Tx {
	b, _ := nut.Best()
	return rig.TxSpec{Type: types.TxType_TRANSFER, From: a, To: to.Addr, Nonce: nonce, Amount: big.NewInt(amt), GasPrice: big.NewInt(50000000000), ChainID: w.CIDHash(b.No + 1)}.Build()
}

var evilSeq int

// evilBuilder returns a node synced to nut's main chain (a producer that does not check signatures).
func evilBuilder(c *vf.Ctx, w *rig.World, nut *rig.Client, scen string) *rig.Client {
	evilSeq++
	b, _, err := w.Node(fmt.Sprintf("evil%d", evilSeq), func(cfg *rig.NodeConfig) { cfg.Mempool = "recorder" })
	if err != nil {
		c.Inconclusive("start evil builder: " + err.Error())
		return nil
	}
	best, _ := nut.Best()
	for no := uint64(1); no <= best.No; no++ {
		bb, err := nut.GetBlockByNo(no)
		if err != nil {
			c.Inconclusive("sync evil builder: " + err.Error())
			b.Kill()
			return nil
		}
		if e, err := b.AddBlock(bb); err != nil || e != "" {
			c.Inconclusive(fmt.Sprintf("evil builder refused main chain block %d: %v %s", no, err, e))
			b.Kill()
			return nil
		}
	}
	return b
}

// produceOn lets a malicious producer build a block with the given candidate on nut's tip and delivers it to nut.
func produceOn(c *vf.Ctx, w *rig.World, nut *rig.Client, scen, step string, txs ...*types.Tx) string {
	b := evilBuilder(c, w, nut, scen)
	if b == nil {
		return "harness"
	}
	defer b.Kill()
	var enc [][]byte
	for _, tx := range txs {
		enc = append(enc, rig.EncTx(tx))
	}
	rsp, err := b.Produce(&rig.ProduceReq{Txs: enc, Connect: false, Confirms: -1, SignKey: 0})
	if err != nil || rsp.Panic != "" || rsp.GenErr != "" {
		return "not-buildable"
	}
	if len(rsp.Included) < len(txs) {
		c.Count("evil_not_executable_reason/"+reason(rsp.SkipErrs), 1)
		return "not-executable" // the production path itself refused the tx: nothing to deliver
	}
	res, err := nut.AddBlock(rsp.Block)
	if err != nil {
		c.Violation("node-died", fmt.Sprintf("%s %s: %v", scen, step, err), caseDesc{scen, step, nil})
		return "died"
	}
	if res == "" {
		return "accepted"
	}
	return "refused"
}

// craftBlock builds a valid block on nut's tip and lets mut alter it (hash recomputed).
func craftBlock(c *vf.Ctx, w *rig.World, nut *rig.Client, scen string, txs []*types.Tx, mut func(b *types.Block)) []byte {
	b := evilBuilder(c, w, nut, scen)
	if b == nil {
		return nil
	}
	defer b.Kill()
	var enc [][]byte
	for _, tx := range txs {
		enc = append(enc, rig.EncTx(tx))
	}
	rsp, err := b.Produce(&rig.ProduceReq{Txs: enc, Connect: false, Confirms: -1, SignKey: 0})
	if err != nil || rsp.Panic != "" || rsp.GenErr != "" {
		c.Inconclusive(scen + ": cannot craft block")
		return nil
	}
	blk := rig.DecBlock(rsp.Block)
	mut(blk)
	blk.Hash = nil
	blk.BlockHash()
	return rig.EncBlock(blk)
}

func snapSig(s interface{}) string {
	return fmt.Sprintf("%+v", canonSnap(s))
}

func reason(errs []string) string {
	if len(errs) == 0 {
		return "none"
	}
	e := errs[0]
	if i := len("000000000000: "); len(e) > i {
		e = e[i:]
	}
	if len(e) > 50 {
		e = e[:50]
	}
	return e
}
