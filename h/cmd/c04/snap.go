package main

import (
	"encoding/hex"
	"fmt"
	"sort"

	"github.com/aergoio/aergo/v2/mempool"
)

// canonSnap renders a pool snapshot canonically (account order and cache order are map orders).
func canonSnap(x interface{}) []string {
	s, ok := x.(*mempool.VerifSnap)
	if !ok || s == nil {
		return nil
	}
	var out []string
	out = append(out, fmt.Sprintf("len=%d orphan=%d cache=%d", s.Length, s.Orphan, len(s.CacheKeys)))
	for _, a := range s.Accounts {
		l := fmt.Sprintf("%s base=%d ready=%d nonces=%v", hex.EncodeToString(a.Account[:6]), a.BaseNonce, a.Ready, a.Nonces)
		for _, h := range a.Hashes {
			l += " " + hex.EncodeToString(h[:4])
		}
		out = append(out, l)
	}
	sort.Strings(out[1:])
	return out
}
