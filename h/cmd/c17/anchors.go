package main

import (
	"bytes"
	"fmt"

	noderig "verif/h/rig"
	"verif/h/vf"
)

// runAnchors checks the two chain-service sides of the finder's light scan against REAL chain services
// (the session rig answers GetAnchors from its own model chain, so chain/chainanchor.go never runs there):
//   - local side (message.GetAnchors -> getAnchorsNew): every anchor is a block of the main chain, heights strictly
//     descend, and LastNo - the height the finder takes as the top of its full scan [0, LastNo-1] when no anchor is
//     shared - is not below the lowest anchor (otherwise heights between would never be examined) nor above the best;
//   - remote side (message.GetAncestor -> findAncestor): the answer is a block both chains have, and it is the highest
//     anchor that the serving chain has.
func runAnchors(c *vf.Ctx) {
	w := noderig.NewWorld("anch", c.Scratch(), noderig.WorldOpts{Public: false, NAccts: 2, Mempool: "recorder"})
	defer w.CloseAll()
	a, _, err1 := w.Node("local", nil)
	b, _, err2 := w.Node("remote", nil)
	if err1 != nil || err2 != nil {
		c.Inconclusive(fmt.Sprintf("anchors: start nodes: %v %v", err1, err2))
		return
	}
	r := c.Rand("anchors")
	grow := func(n *noderig.Client, k int, what string) bool {
		if k <= 0 {
			return true
		}
		if e, err := n.ProduceEmpty(k); err != nil || e != "" {
			c.Inconclusive(fmt.Sprintf("anchors: %s: %v %s", what, err, e))
			return false
		}
		return true
	}
	fork := func(n *noderig.Client, off int64) bool { // one block with another timestamp: the chains part here
		best, _ := n.Best()
		p, err := n.Produce(&noderig.ProduceReq{TS: best.TS + off, Connect: true, Confirms: -1, SignKey: -1})
		if err != nil || p.Panic != "" || p.GenErr != "" || p.AddErr != "" {
			c.Inconclusive(fmt.Sprintf("anchors: fork block: %v %+v", err, p))
			return false
		}
		return true
	}
	common := 20 + r.Intn(30)
	if !grow(a, common, "common prefix") || !grow(b, common, "common prefix") {
		return
	}
	ba, _ := a.Best()
	bb, _ := b.Best()
	if !bytes.Equal(ba.Hash, bb.Hash) {
		c.Inconclusive("anchors: the two nodes did not build the same prefix")
		return
	}
	if !fork(a, 2e9) || !fork(b, 3e9) || !grow(b, 40+r.Intn(40), "remote branch") {
		return
	}
	// heights at which the local chain is examined: around the powers of two of the anchor spacing and around
	// the point where 32 anchors no longer reach genesis
	targets := []int{common + 1, common + 2, common + 3, common + 7, common + 15, common + 16, common + 17, 100, 127, 128, 129, 255, 256, 257, 300, 400, 480, 495, 496, 497, 498, 499, 505, 511, 512, 513, 520, 530, 560, 600}
	if !c.Quick() {
		for h := 600; h <= 1400; h += 37 {
			targets = append(targets, h)
		}
	}
	cur := common + 1
	fail := func(key, msg string, cd interface{}) { c.Violation("C17/anchors/"+key, msg, cd) }
	for _, h := range targets {
		if h < cur {
			continue
		}
		if !grow(a, h-cur, "local branch") {
			return
		}
		cur = h
		rsp, err := a.Anchors()
		c.Eval(1)
		cd := map[string]interface{}{"part": "anchors", "local_height": h, "fork_height": common, "last_no": rsp.LastNo, "anchors": len(rsp.Hashes)}
		if err != nil {
			fail("node-died", err.Error(), cd)
			return
		}
		if rsp.Err != "" || len(rsp.Hashes) == 0 {
			fail("no-anchors", fmt.Sprintf("local height %d: GetAnchors answered %q with %d hashes", h, rsp.Err, len(rsp.Hashes)), cd)
			return
		}
		var nos []uint64
		prev := uint64(1 << 62)
		for i, hs := range rsp.Hashes {
			blk, err := a.GetBlock(hs)
			if err != nil || blk == nil {
				fail("anchor-unknown", fmt.Sprintf("local height %d: anchor %d (%x) is not a stored block", h, i, hs), cd)
				return
			}
			no := noderig.DecBlock(blk).BlockNo()
			mb, err := a.GetBlockByNo(no)
			if err != nil || !bytes.Equal(noderig.DecBlock(mb).BlockHash(), hs) {
				fail("anchor-not-on-main-chain", fmt.Sprintf("local height %d: anchor %d (height %d) is not the main-chain block of its height", h, i, no), cd)
				return
			}
			if no >= prev {
				fail("anchors-not-descending", fmt.Sprintf("local height %d: anchor heights %v then %d", h, nos, no), cd)
				return
			}
			prev = no
			nos = append(nos, no)
		}
		lowest := nos[len(nos)-1]
		cd["anchor_heights"] = nos
		if rsp.LastNo < lowest {
			fail("last-no-below-lowest-anchor", fmt.Sprintf("local height %d: %d anchors, the lowest at height %d, but LastNo=%d: the finder's full scan [0, LastNo-1] would never examine heights %d..%d", h, len(nos), lowest, rsp.LastNo, rsp.LastNo, lowest-1), cd)
			return
		}
		if rsp.LastNo > uint64(h) {
			fail("last-no-above-best", fmt.Sprintf("local height %d: LastNo=%d", h, rsp.LastNo), cd)
			return
		}
		if lowest > 0 {
			c.Count("anchor_lists_not_reaching_genesis", 1)
		}
		// remote side
		anc, err := b.Ancestor(rsp.Hashes)
		if err != nil {
			fail("node-died", err.Error(), cd)
			return
		}
		want := -1 // index of the highest anchor the remote chain has (anchors at or below the fork height)
		for i, no := range nos {
			if no <= uint64(common) {
				want = i
				break
			}
		}
		switch {
		case want < 0:
			if len(anc.Hash) != 0 {
				fail("ancestor-not-shared", fmt.Sprintf("local height %d: no anchor is at or below the fork height %d, yet the remote node names %x (height %d) as common ancestor", h, common, anc.Hash, anc.No), cd)
				return
			}
			c.Count("light_scan_finds_nothing", 1)
			if rsp.LastNo == 0 || rsp.LastNo-1 < uint64(common) {
				fail("full-scan-range-misses-fork-point", fmt.Sprintf("local height %d: fork point %d is outside the full scan range [0, %d-1]", h, common, rsp.LastNo), cd)
				return
			}
		default:
			if !bytes.Equal(anc.Hash, rsp.Hashes[want]) {
				fail("ancestor-not-highest-shared-anchor", fmt.Sprintf("local height %d: the highest anchor the remote chain has is #%d (height %d); the remote node answered %x (height %d, err %q)", h, want, nos[want], anc.Hash, anc.No, anc.Err), cd)
				return
			}
			c.Count("light_scan_finds_anchor", 1)
		}
		c.Nontrivial(fmt.Sprintf("anchors|%d|%d", common, h))
		if h == targets[0] || h == 520 {
			c.Sample(cd)
		}
	}
	// A responder that once FOLLOWED the requester's branch and then reorganised to a longer one forking below all
	// of the requester's anchors: it has every anchor in its block store, none on its main chain. Naming any of
	// them as common ancestor would give the finder a block the remote chain lacks.
	d, _, err3 := w.Node("remote2", nil)
	e, _, err4 := w.Node("builder2", nil)
	if err3 != nil || err4 != nil {
		c.Inconclusive(fmt.Sprintf("anchors: start nodes: %v %v", err3, err4))
		return
	}
	if !grow(d, common, "common prefix") || !grow(e, common, "common prefix") {
		return
	}
	feed := func(to *noderig.Client, from *noderig.Client, lo, hi int) bool {
		for h := lo; h <= hi; h++ {
			blk, err := from.GetBlockByNo(uint64(h))
			if err != nil {
				c.Inconclusive("anchors: read block: " + err.Error())
				return false
			}
			if res, err := to.AddBlock(blk); err != nil || res != "" {
				c.Inconclusive(fmt.Sprintf("anchors: feeding block %d: %v %s", h, err, res))
				return false
			}
		}
		return true
	}
	if !feed(d, a, common+1, cur) { // d follows the requester's branch up to its tip
		return
	}
	if !fork(e, 4e9) || !grow(e, cur-common+8, "second remote branch") || !feed(d, e, common+1, cur+9) {
		return
	}
	db, _ := d.Best()
	eb, _ := e.Best()
	if !bytes.Equal(db.Hash, eb.Hash) {
		c.Inconclusive("anchors: the second responder did not reorganise to the longer branch")
		return
	}
	rsp, err := a.Anchors()
	c.Eval(1)
	if err != nil || rsp.Err != "" || len(rsp.Hashes) == 0 {
		c.Inconclusive("anchors: no anchors for the reorganised responder")
		return
	}
	lowestOnA := uint64(0)
	if blk, err := a.GetBlock(rsp.Hashes[len(rsp.Hashes)-1]); err == nil {
		lowestOnA = noderig.DecBlock(blk).BlockNo()
	}
	anc, err := d.Ancestor(rsp.Hashes)
	if err != nil {
		fail("node-died", err.Error(), nil)
		return
	}
	cd := map[string]interface{}{"part": "anchors/responder-reorganised-away", "local_height": cur, "fork_height": common, "lowest_anchor": lowestOnA, "answer_height": anc.No, "answer_err": anc.Err}
	if lowestOnA <= uint64(common) {
		c.Count("reorganised_responder/lowest-anchor-shared", 1)
	} else {
		c.Count("reorganised_responder/all-anchors-off-its-main-chain", 1)
		if len(anc.Hash) != 0 {
			mb, err := d.GetBlockByNo(anc.No)
			onMain := err == nil && bytes.Equal(noderig.DecBlock(mb).BlockHash(), anc.Hash)
			fail("ancestor-not-on-responders-main-chain", fmt.Sprintf("the responder followed the requester's branch to height %d, then reorganised to a branch forking at %d; all %d anchors (lowest at %d) are in its store but off its main chain, yet it names %x (height %d, on its main chain: %v) as common ancestor", cur, common, len(rsp.Hashes), lowestOnA, anc.Hash, anc.No, onMain), cd)
			return
		}
	}
	c.Nontrivial(fmt.Sprintf("anchors|reorganised|%d|%d", common, cur))
	c.Sample(cd)

}
