// C17: block sync delivers a gap-free ascending chain from a true common ancestor.
//
// The real syncer.Syncer runs on a real component hub; a hostile requester (rig.go) captures every
// message it emits and answers from scripted peers, a scripted remote chain and a model chain
// service.  Monitors over the recorded history decide (see evalSession).
//
// Process layout: the parent generates the seed-determined scenario list, shards it over child
// processes (same binary, "child" argv), merges their JSONL results into the vf evidence.
package main

import (
	"bufio"
	"bytes"
	"encoding/json"
	"fmt"
	"os"
	"os/exec"
	"path/filepath"
	"sort"
	"strings"
	"sync"
	"sync/atomic"
	"time"
	noderig "verif/h/rig"

	"github.com/aergoio/aergo/v2/syncer"
	"github.com/aergoio/aergo/v2/types"
	"github.com/aergoio/aergo/v2/types/message"

	"verif/h/vf"
)

type viol struct {
	Key  string    `json:"key"`
	Desc string    `json:"desc"`
	Case *Scenario `json:"case"`
}

type scResult struct {
	ID           int            `json:"id"`
	Class        string         `json:"class"`
	Viols        []viol         `json:"viols,omitempty"`
	Inconclusive []string       `json:"inconclusive,omitempty"`
	Counters     map[string]int `json:"counters"`
	Nontrivial   []string       `json:"nontrivial,omitempty"`
	Sample       interface{}    `json:"sample,omitempty"`
	Evals        int            `json:"evals"`
	Attempts     int            `json:"attempts"`
	honestFail   []viol         // honest session ended with an error: a violation only if it does so in every attempt
}

func (res *scResult) count(name string, n int) { res.Counters[name] += n }

type outcome struct {
	expectStart bool
	notified    int
	err         error
	stalled     bool
	actorDead   bool
	watchdog    bool
	dump        string
	disturbed   bool
}

// ---- running one session -----------------------------------------------------------------------

func (r *rig) runSession(plan *sessPlan, remoteView *mchain) (*session, *outcome) {
	s := &session{plan: plan, notifyC: make(chan error, 8), local0: r.local.snapshot(), remote: remoteView, side: r.side, target: plan.target}
	o := &outcome{expectStart: plan.target > s.local0.best()}
	r.mu.Lock()
	r.sess = s
	r.mu.Unlock()
	start := time.Now()
	r.tell(&message.SyncStart{PeerID: r.peers[0], TargetNo: plan.target, NotifyC: s.notifyC})
	if !o.expectStart {
		if !r.barrier(5 * time.Second) {
			o.actorDead = true
		}
		time.Sleep(30 * time.Millisecond)
		o.notified = len(s.notifyC)
		r.endSession(s)
		return s, o
	}
	tk := time.NewTicker(driverTick)
	defer tk.Stop()
	idle, last := 0, atomic.LoadInt64(&r.activity)
loop:
	for {
		select {
		case err := <-s.notifyC:
			o.notified++
			o.err = err
			break loop
		case <-tk.C:
			act, pend := atomic.LoadInt64(&r.activity), atomic.LoadInt64(&r.pending)
			if act == last && pend == 0 {
				idle++
			} else {
				idle = 0
			}
			last = act
			if idle >= stallTicks {
				// A deadlock is permanent, starvation on a loaded machine is not: before calling it a stall
				// wait once more, much longer, for any sign of life (activity, pending reply, notification).
				if r.confirmStall(s, o, last) {
					o.stalled = true
					break loop
				}
				if o.notified > 0 {
					break loop
				}
				idle, last = 0, atomic.LoadInt64(&r.activity)
				r.slowProgress++
			}
			if time.Since(start) > watchdog {
				o.watchdog = true
				break loop
			}
		}
	}
	if o.stalled || o.watchdog {
		o.dump = r.syncerGoroutines()
		o.actorDead = !r.barrier(3 * time.Second)
		r.endSession(s)
		return s, o
	}
	// the actor must still be responsive; then look for a second notification
	if !r.barrier(5 * time.Second) {
		o.actorDead = true
		o.dump = r.syncerGoroutines()
	}
	time.Sleep(20 * time.Millisecond)
	for len(s.notifyC) > 0 {
		<-s.notifyC
		o.notified++
	}
	r.endSession(s)
	return s, o
}

// confirmStall waits up to stallConfirm for any progress after the stall rule fired. It returns true when the
// session stayed completely silent (a real stall), false when it moved again or ended.
func (r *rig) confirmStall(s *session, o *outcome, last int64) bool {
	deadline := time.Now().Add(stallConfirm)
	for time.Now().Before(deadline) {
		select {
		case err := <-s.notifyC:
			o.notified++
			o.err = err
			return false
		case <-time.After(driverTick):
		}
		if atomic.LoadInt64(&r.activity) != last || atomic.LoadInt64(&r.pending) != 0 {
			return false
		}
	}
	return true
}

func (r *rig) endSession(s *session) {
	r.mu.Lock()
	s.ended = true
	r.mu.Unlock()
}

// ---- monitors ----------------------------------------------------------------------------------

func errStr(e error) string {
	if e == nil {
		return "<nil>"
	}
	return e.Error()
}

func (r *rig) describeSession(s *session, o *outcome, what string) string {
	var b strings.Builder
	sc := r.sc
	fmt.Fprintf(&b, "%s\nscenario #%d class=%s cfg{hashReq=%d blockReq=%d tasks=%d pending=%d fullScanOnly=%v} chains{fork=%d localBest=%d remoteBest=%d sideFork=%d} target=%d peers=%d followUp=%v stale=%v\n",
		what, sc.ID, sc.Class, sc.HashReq, sc.BlockReq, sc.Tasks, sc.Pending, sc.FullScan, sc.Fork, s.local0.best(), s.remote.best(), sc.SideFork, s.target, sc.NPeers, s.plan.followUp, s.plan.stale)
	fmt.Fprintf(&b, "outcome: notified=%d err=%s stalled=%v actorUnresponsive=%v seq=%d highestCommon=%d maxReplyLag=%v", o.notified, errStr(o.err), o.stalled, o.actorDead, s.seq, highestCommon(s.local0, s.remote), s.maxLag)
	if s.accepted != nil {
		fmt.Fprintf(&b, " ancestor=%d", s.accepted.No)
	}
	b.WriteString("\ndelivered:")
	for i, d := range s.deliv {
		if i >= 40 {
			b.WriteString(" ...")
			break
		}
		fmt.Fprintf(&b, " %d(%x<-%x)", d.no, short(d.hash), short(d.prev))
	}
	b.WriteString("\nhistory (last 60):\n")
	ev := s.events
	if len(ev) > 60 {
		ev = ev[len(ev)-60:]
	}
	for _, e := range ev {
		fmt.Fprintf(&b, "  %3d %-3s %-28s seq=%d %s\n", e.Step, e.Dir, e.Kind, e.Seq, e.Info)
	}
	if o.dump != "" {
		b.WriteString("goroutines in package syncer:\n" + o.dump + "\n")
	}
	return b.String()
}

// evalSession applies monitors (1)-(3) and the bounded-progress monitor to one finished session.
func (r *rig) evalSession(res *scResult, s *session, o *outcome, mustSucceed bool, tag string) {
	sc := r.sc
	V := func(mon, what string) {
		key := fmt.Sprintf("C17/%s/%s%s", mon, sc.Class, tag)
		for _, sus := range suspectClasses {
			if sc.Class == sus { // one key per suspect class, whatever monitor fires (it depends on timing)
				key = "C17/finding/" + sc.Class
				what = mon + ": " + what
			}
		}
		v := viol{Key: key, Desc: r.describeSession(s, o, what), Case: sc}
		if mon == "honest-session-failed" {
			res.honestFail = append(res.honestFail, v)
			return
		}
		res.Viols = append(res.Viols, v)
	}
	r.mu.Lock()
	defer r.mu.Unlock()
	res.Evals++
	res.count("sessions"+tag, 1)
	if r.slowProgress > 0 {
		res.count("stall rule fired but the session moved again (starvation, not judged)", r.slowProgress)
		r.slowProgress = 0
	}
	for k, n := range s.faultsUsed {
		if !strings.HasSuffix(k, ":ok") {
			res.count("fault "+k, n)
		}
	}
	for k, n := range s.poisoned {
		res.count("stale "+k, n)
	}
	for _, e := range s.events {
		if e.Dir == "out" {
			res.count("out "+e.Kind, 1)
		}
	}
	if s.stopDone {
		res.count("stop injected", 1)
	}
	if !o.expectStart {
		res.count("sessions not started (target<=best)", 1)
		if len(s.deliv) > 0 {
			V("delivery-without-session", "blocks were submitted although the target is not above the local best")
		}
		if o.actorDead {
			V("actor-unresponsive", "syncer actor does not answer after a refused SyncStart")
		}
		return
	}
	if o.watchdog {
		res.Inconclusive = append(res.Inconclusive, fmt.Sprintf("scenario %d (%s%s): wall-clock watchdog fired\n%s", sc.ID, sc.Class, tag, r.describeSession(s, o, "watchdog")))
		return
	}
	// bounded progress: nothing emitted, nothing pending for stallTicks driver ticks, no final notification
	if o.stalled {
		kind := "session-idle-forever"
		if o.actorDead {
			kind = "actor-blocked"
		} else if s.outSteps == 0 {
			kind = "sync-start-not-accepted"
		}
		res.count("stalls", 1)
		// like an honest session ending with an error, a stall is judged only if it shows in every attempt
		// (first under full parallel load, then up to three times on an otherwise idle child)
		o.disturbed = true
		pre := len(res.Viols)
		defer func() {
			res.honestFail = append(res.honestFail, res.Viols[pre:]...)
			res.Viols = res.Viols[:pre]
		}()
		if o.actorDead {
			// keyed by the call site at which the actor goroutine is blocked, whatever scenario class led there
			site := blockedSite(o.dump, fmt.Sprintf("%p", r.syn))
			res.count("actor blocked in "+site+" (class "+sc.Class+tag+")", 1)
			res.Viols = append(res.Viols, viol{Key: "C17/actor-blocked/" + site, Case: sc, Desc: r.describeSession(s, o,
				fmt.Sprintf("no final notification and the syncer actor no longer processes its mailbox: it is blocked in %s (nothing emitted, no reply outstanding for %d driver ticks of %v)", site, stallTicks, driverTick))})
			return
		}
		if kind == "session-idle-forever" && !isSuspect(sc.Class) {
			// keyed by the last message the syncer emitted before it went silent (stable across scenario classes)
			lastOut := "nothing"
			for _, e := range s.events {
				if e.Dir == "out" {
					lastOut = e.Kind
				}
			}
			res.Viols = append(res.Viols, viol{Key: "C17/no-progress:session-idle-forever/after-" + lastOut + tag, Case: sc, Desc: r.describeSession(s, o,
				fmt.Sprintf("no final notification; the syncer emitted nothing and no reply was outstanding for %d consecutive driver ticks of %v (fetch timeout %v, hash timeout %v); the actor still answers", stallTicks, driverTick, fetchTimeout, hashTimeout))})
			return
		}
		V("no-progress:"+kind, fmt.Sprintf("no final notification; the syncer emitted nothing and no reply was outstanding for %d consecutive driver ticks of %v (fetch timeout %v, hash timeout %v)", stallTicks, driverTick, fetchTimeout, hashTimeout))
		return
	}
	if o.actorDead {
		V("actor-unresponsive", "session notified its end but the syncer actor no longer answers")
	}
	// (3) exactly one final notification
	if o.notified != 1 {
		V("notify-count", fmt.Sprintf("%d final notifications for one session", o.notified))
	}
	if o.err == nil {
		res.count("ended: success", 1)
	} else {
		res.count("ended: error", 1)
		res.count("end error: "+trimErr(o.err), 1)
	}
	// (1) ancestor
	anc := s.accepted
	if anc != nil {
		res.count("ancestor accepted", 1)
		if !s.local0.has(anc.No, anc.Hash) {
			V("ancestor-not-on-local-chain", fmt.Sprintf("ancestor %d/%x is not on the local main chain", anc.No, short(anc.Hash)))
		}
		if !s.finderLied {
			res.count("ancestor judged against remote chain", 1)
			hc := highestCommon(s.local0, s.remote)
			if !s.remote.has(anc.No, anc.Hash) {
				V("ancestor-not-on-remote-chain", fmt.Sprintf("ancestor %d/%x is not on the remote chain (highest common %d)", anc.No, short(anc.Hash), hc))
			} else if sc.FullScan || s.lightNil {
				res.count("ancestor judged highest (full scan)", 1)
				if int(anc.No) != hc {
					V("ancestor-not-highest", fmt.Sprintf("full scan chose %d, highest common block is %d", anc.No, hc))
				}
			}
		}
	}
	// (2) deliveries
	res.count("blocks delivered", len(s.deliv))
	if len(s.deliv) > 0 && anc == nil {
		V("delivery-without-ancestor", "blocks submitted before any ancestor was fixed")
	} else if anc != nil {
		prev, expect := anc.Hash, anc.No+1
		truthful := !s.hashLied && !s.forged && !s.finderLied
		for i, d := range s.deliv {
			if d.no != expect {
				if d.no < expect {
					V("delivery-duplicate-or-backward", fmt.Sprintf("submission #%d has height %d, expected %d", i, d.no, expect))
				} else {
					V("delivery-gap", fmt.Sprintf("submission #%d has height %d, expected %d", i, d.no, expect))
				}
				break
			}
			if !bytes.Equal(d.prev, prev) {
				mon := "delivery-not-child"
				if s.edgeLie || s.forgedFirst {
					mon = "delivery-not-child@chunk-boundary"
				}
				V(mon, fmt.Sprintf("submission #%d (height %d) has parent %x, previous submission / ancestor is %x", i, d.no, short(d.prev), short(prev)))
				break
			}
			if d.no > s.target {
				V("delivery-beyond-target", fmt.Sprintf("submission #%d has height %d above target %d", i, d.no, s.target))
				break
			}
			if truthful && !s.remote.has(d.no, d.hash) {
				V("delivery-not-remote-block", fmt.Sprintf("submission #%d (height %d) is not the remote chain's block", i, d.no))
				break
			}
			prev, expect = d.hash, expect+1
		}
	}
	// (3) success means the target was delivered
	if o.err == nil && !(s.stopDone && sc.StopNil && !s.plan.followUp) {
		ok := anc != nil && len(s.deliv) > 0 && s.deliv[len(s.deliv)-1].no == s.target && uint64(len(s.deliv)) == s.target-anc.No
		if !ok {
			V("success-without-target", fmt.Sprintf("success reported, %d blocks delivered, target %d", len(s.deliv), s.target))
		}
	}
	if mustSucceed && o.err != nil {
		// The statement allows "stops and reports an error"; an honest session that fails once may be a
		// scheduling accident (e.g. a reply overtaking the finder's select).  It is retried and reported
		// only when it fails in every attempt.
		o.disturbed = true
		res.count("honest session ended with error (retried)", 1)
		V("honest-session-failed", fmt.Sprintf("all peers answered truthfully and in time, nobody asked to stop, yet the session ended with error %s in the loaded run and in each of 3 re-runs on an idle process (max reply lag %v)", errStr(o.err), s.maxLag))
	}
}

// blockedSite extracts the syncer function in which a goroutine of the dump sits in a channel send.
func blockedSite(dump, synPtr string) string {
	for _, g := range strings.Split(dump, "\n\n") {
		if !strings.Contains(g, "[chan send") || !strings.Contains(g, "(*Syncer).handleMessage("+synPtr) {
			continue
		}
		for _, l := range strings.Split(g, "\n") {
			if strings.HasPrefix(l, "github.com/aergoio/aergo/v2/syncer.") {
				fn := strings.TrimPrefix(l, "github.com/aergoio/aergo/v2/syncer.")
				if i := strings.LastIndex(fn, "("); i > 0 {
					fn = fn[:i]
				}
				return fn
			}
		}
	}
	return "unknown"
}

func trimErr(e error) string {
	s := e.Error()
	if i := strings.Index(s, ":"); i > 0 && strings.HasPrefix(s, "Error sync message") {
		s = s[:i]
	}
	if len(s) > 60 {
		s = s[:60]
	}
	return s
}

// ---- one scenario: faulty session, stale messages while idle, honest follow-up ----------------------

// runScenario: one attempt under full parallel load.  An honest session that ends with an error (which the
// statement allows, and which CPU starvation of the syncer's real timers can cause) is not judged here: the
// scenario is flagged and re-run by the child on an otherwise idle process (runQuiet).
func runScenario(sc *Scenario) (*scResult, bool) {
	res, disturbed := runScenarioOnce(sc)
	res.Attempts = 1
	return res, disturbed
}

func runQuiet(sc *Scenario) *scResult {
	var res *scResult
	for attempt := 2; attempt <= 4; attempt++ {
		var disturbed bool
		res, disturbed = runScenarioOnce(sc)
		res.Attempts = attempt
		if !disturbed {
			return res
		}
		time.Sleep(100 * time.Millisecond)
	}
	res.Viols = append(res.Viols, res.honestFail...)
	return res
}

func runScenarioOnce(sc *Scenario) (*scResult, bool) {
	res := &scResult{ID: sc.ID, Class: sc.Class, Counters: map[string]int{}}
	r := newRig(sc)
	alive := true
	defer func() { r.close(alive) }()

	viewA := &mchain{blocks: r.remote.blocks[:sc.Fork+sc.RemoteExtra+1]}
	planA := &sessPlan{sc: sc, target: uint64(sc.Fork + sc.RemoteExtra - sc.TargetBack)}
	sA, oA := r.runSession(planA, viewA)
	r.evalSession(res, sA, oA, sc.faultFree(), "")
	if oA.disturbed {
		return res, true
	}
	endA := "error"
	if oA.err == nil {
		endA = "success"
	}
	if oA.stalled {
		endA = "stalled"
	}
	if !oA.expectStart {
		endA = "notstarted"
	}
	res.Nontrivial = append(res.Nontrivial, sc.key()+"|"+endA)
	res.count("scenario "+sc.Class+" first session "+endA, 1)
	if oA.actorDead || oA.watchdog || oA.stalled {
		alive = !oA.actorDead
		return res, false
	}
	if !sc.Restart {
		return res, false
	}
	// Replies of the first session that are still on their way (late / slow ones) are let through first:
	// AddBlockRsp carries no sequence number, and a late one reaching the next session is outside the
	// statement (class stale-addrsp demonstrates what it does).
	for i := 0; i < 200 && atomic.LoadInt64(&r.pending) > 0; i++ {
		time.Sleep(10 * time.Millisecond)
	}
	// (5a) previous-sequence messages while idle change nothing
	if sc.Stale && sA.seq != 0 {
		r.mu.Lock()
		idle0 := len(r.idleOut)
		msgs := []interface{}{
			&message.SyncStop{Seq: sA.seq, FromWho: "c17-stale", Err: errInjected},
			&message.FinderResult{Seq: sA.seq, Ancestor: &types.BlockInfo{Hash: sA.local0.hashAt(0), No: 0}},
			&message.GetHashesRsp{Seq: sA.seq, PrevInfo: &types.BlockInfo{Hash: sA.local0.hashAt(0), No: 0}, Hashes: []message.BlockHash{viewA.hashAt(1)}, Count: 1},
			&message.GetHashByNoRsp{Seq: sA.seq, BlockHash: viewA.hashAt(0)},
			&message.GetSyncAncestorRsp{Seq: sA.seq},
			&message.GetBlockChunksRsp{Seq: sA.seq, ToWhom: r.peers[0], Blocks: []*types.Block{viewA.blocks[1]}},
			&message.GetBlockChunksRsp{Seq: sA.seq, ToWhom: r.peers[0], Err: message.RemotePeerFailError},
			&message.CloseFetcher{Seq: sA.seq, FromWho: syncer.NameHashFetcher},
			&message.AddBlockRsp{BlockNo: 1, BlockHash: viewA.hashAt(1)},
		}
		n := len(sA.inbox)
		if n > 12 {
			n = 12
		}
		msgs = append(msgs, sA.inbox[:n]...)
		r.mu.Unlock()
		for _, m := range msgs {
			r.tell(m)
		}
		res.count("stale while idle", len(msgs))
		if !r.barrier(5 * time.Second) {
			alive = false
			res.Viols = append(res.Viols, viol{Key: "C17/actor-unresponsive-after-stale/" + sc.Class, Desc: r.describeSession(sA, oA, "syncer actor stopped answering after previous-sequence messages were sent while idle"), Case: sc})
			return res, false
		}
		r.mu.Lock()
		extra := append([]event{}, r.idleOut[idle0:]...)
		r.mu.Unlock()
		res.Evals++
		if len(extra) > 0 || len(sA.notifyC) > 0 {
			res.Viols = append(res.Viols, viol{Key: "C17/stale-while-idle-had-effect/" + sc.Class,
				Desc: r.describeSession(sA, oA, fmt.Sprintf("messages with the finished session's sequence number made the idle syncer emit %v (extra notifications %d)", extra, len(sA.notifyC))), Case: sc})
		}
	}
	// (4)+(5b) honest follow-up session on a grown remote chain
	grow := 1 + int(h64(sc.Seed, "grow")%5)
	viewB := &mchain{blocks: r.remote.blocks[:sc.Fork+sc.RemoteExtra+1+grow]}
	planB := &sessPlan{followUp: true, target: viewB.best(), stale: sc.Stale}
	lb, _ := r.local.GetBestBlock()
	if planB.target <= lb.GetHeader().GetBlockNo() {
		res.count("follow-up not possible (local already above)", 1)
		return res, false
	}
	r.mu.Lock()
	planB.replay = append([]interface{}{}, sA.inbox...)
	r.mu.Unlock()
	tag := "/restart"
	if sc.Stale {
		tag = "/restart+stale"
	}
	sB, oB := r.runSession(planB, viewB)
	r.evalSession(res, sB, oB, true, tag)
	if oB.actorDead {
		alive = false
	}
	if oB.err == nil && !oB.stalled && !oB.watchdog {
		res.count("follow-up sessions completed", 1)
	}
	if len(res.Viols) == 0 && sc.ID%97 == 0 {
		res.Sample = map[string]interface{}{"scenario": sc, "first_session_end": endA, "first_session_events": len(sA.events),
			"first_session_delivered": len(sA.deliv), "followup_delivered": len(sB.deliv), "followup_err": errStr(oB.err)}
	}
	return res, oB.disturbed
}

// ---- child process --------------------------------------------------------------------------------

func childMain(args []string) {
	// args: <scenario-list.json> <result.jsonl> <workers>
	syncer.VerifSetTimers(hashTimeout, schedTick)
	var list []*Scenario
	b, err := os.ReadFile(args[0])
	if err == nil {
		err = json.Unmarshal(b, &list)
	}
	if err != nil {
		fmt.Fprintln(os.Stderr, "c17 child: ", err)
		os.Exit(4)
	}
	workers := 4
	fmt.Sscan(args[2], &workers)
	out, err := os.Create(args[1])
	if err != nil {
		fmt.Fprintln(os.Stderr, "c17 child: ", err)
		os.Exit(4)
	}
	var mu sync.Mutex
	var quiet []*Scenario
	w := bufio.NewWriter(out)
	// Phase 1: regular classes in parallel.  Phase 2: suspect classes (they stall by design, and every
	// stall takes a stop-the-world goroutine dump that would delay the replies of unrelated scenarios).
	var phases [2][]*Scenario
	for _, sc := range list {
		if isSuspect(sc.Class) {
			phases[1] = append(phases[1], sc)
		} else {
			phases[0] = append(phases[0], sc)
		}
	}
	for _, part := range phases {
		ch := make(chan *Scenario)
		var wg sync.WaitGroup
		for i := 0; i < workers; i++ {
			wg.Add(1)
			go func() {
				defer wg.Done()
				for sc := range ch {
					res, again := runScenario(sc)
					mu.Lock()
					if again {
						quiet = append(quiet, sc)
					} else {
						j, _ := json.Marshal(res)
						w.Write(j)
						w.WriteByte('\n')
						w.Flush()
					}
					mu.Unlock()
				}
			}()
		}
		for _, sc := range part {
			ch <- sc
		}
		close(ch)
		wg.Wait()
	}
	for _, sc := range quiet { // one at a time, nothing else running in this process
		j, _ := json.Marshal(runQuiet(sc))
		w.Write(j)
		w.WriteByte('\n')
		w.Flush()
	}
	out.Close()
	os.Exit(0)
}

// ---- parent ---------------------------------------------------------------------------------------

func readSkip() map[string]bool {
	skip := map[string]bool{}
	b, err := os.ReadFile(filepath.Join(vf.Root, "h/cmd/c17/SKIP_CLASSES"))
	if err != nil {
		return skip
	}
	for _, l := range strings.Split(string(b), "\n") {
		l = strings.TrimSpace(l)
		if l != "" && !strings.HasPrefix(l, "#") {
			skip[l] = true
		}
	}
	return skip
}

func main() {
	if len(os.Args) > 1 && os.Args[1] == "child" {
		childMain(os.Args[2:])
		return
	}
	if len(os.Args) > 1 && os.Args[1] == "node" {
		noderig.ChildMain()
		return
	}
	c := vf.Start("C17", "exploration")
	skip := readSkip()
	var list []*Scenario
	if c.ReplayPath != "" {
		var sc Scenario
		if err := c.LoadReplay(&sc); err != nil {
			fmt.Println("replay:", err)
			os.Exit(2)
		}
		list = []*Scenario{&sc}
	} else {
		list = genScenarios(c.Rand("scenarios"), c.Quick(), skip)
	}
	nchild := c.Pick(6, 10)
	workers := c.Pick(4, 4)
	if len(list) < nchild {
		nchild = len(list)
	}
	self := os.Getenv("VERIF_SELF")
	if self == "" {
		self, _ = os.Executable()
	}
	dir := c.Scratch()
	type childT struct {
		cmd     *exec.Cmd
		in, out string
		errf    string
		ids     map[int]*Scenario
	}
	var kids []*childT
	for k := 0; k < nchild; k++ {
		var part []*Scenario
		ids := map[int]*Scenario{}
		for i := k; i < len(list); i += nchild {
			part = append(part, list[i])
			ids[list[i].ID] = list[i]
		}
		in := filepath.Join(dir, fmt.Sprintf("in%d.json", k))
		b, _ := json.Marshal(part)
		os.WriteFile(in, b, 0o644)
		kd := &childT{in: in, out: filepath.Join(dir, fmt.Sprintf("out%d.jsonl", k)), errf: filepath.Join(dir, fmt.Sprintf("err%d.txt", k)), ids: ids}
		kd.cmd = exec.Command(self, "child", kd.in, kd.out, fmt.Sprint(workers))
		ef, _ := os.Create(kd.errf)
		kd.cmd.Stderr = ef
		kd.cmd.Stdout = ef
		kd.cmd.Env = append(os.Environ(), "ARGLIB_LEVEL=fatal",
			"GORACE=log_path="+filepath.Join(dir, fmt.Sprintf("race%d", k))+" exitcode=0 halt_on_error=0")
		if err := kd.cmd.Start(); err != nil {
			c.Inconclusive("cannot start child: " + err.Error())
			continue
		}
		kids = append(kids, kd)
	}
	limit := time.Duration(c.Pick(170, 900)) * time.Second
	deadline := time.Now().Add(limit)
	for _, kd := range kids {
		done := make(chan error, 1)
		go func() { done <- kd.cmd.Wait() }()
		var werr error
		select {
		case werr = <-done:
		case <-time.After(time.Until(deadline)):
			kd.cmd.Process.Kill()
			werr = fmt.Errorf("killed after the %v tier limit", limit)
		}
		f, err := os.Open(kd.out)
		if err == nil {
			scn := bufio.NewScanner(f)
			scn.Buffer(make([]byte, 1<<20), 64<<20)
			for scn.Scan() {
				var res scResult
				if json.Unmarshal(scn.Bytes(), &res) != nil {
					continue
				}
				delete(kd.ids, res.ID)
				merge(c, &res)
			}
			f.Close()
		}
		if len(kd.ids) > 0 {
			var missing []string
			for id, sc := range kd.ids {
				missing = append(missing, fmt.Sprintf("%d(%s)", id, sc.Class))
			}
			sort.Strings(missing)
			tail, _ := os.ReadFile(kd.errf)
			if len(tail) > 3000 {
				tail = tail[len(tail)-3000:]
			}
			keep := filepath.Join(vf.Root, "replays", "C17")
			os.MkdirAll(keep, 0o755)
			kp := filepath.Join(keep, fmt.Sprintf("child-stderr-seed%d-%s.txt", c.Seed, filepath.Base(kd.errf)))
			full, _ := os.ReadFile(kd.errf)
			os.WriteFile(kp, full, 0o644)
			c.Inconclusive(fmt.Sprintf("child ended (%v) without results for scenarios %v; stderr kept in %s; tail:\n%s", werr, missing, kp, tail))
		}
	}
	if c.ReplayPath == "" {
		runAnchors(c)
	}
	// race detector reports (only when built with -race): reports that involve package syncer frames
	races, _ := filepath.Glob(filepath.Join(dir, "race*"))
	nrace, nsyn := 0, 0
	for _, p := range races {
		b, _ := os.ReadFile(p)
		for _, rep := range strings.Split(string(b), "==================") {
			if !strings.Contains(rep, "DATA RACE") {
				continue
			}
			nrace++
			if fn := raceSite(rep); fn != "" {
				nsyn++
				c.Violation("C17/data-race/"+fn, "race detector report involving the syncer:\n"+truncate(rep, 3500), nil)
			}
		}
	}
	if raceEnabled {
		c.Set("race_detector", map[string]int{"reports": nrace, "reports_in_syncer": nsyn})
	}
	c.Set("skipped_classes", keys(skip))
	c.Set("timing", map[string]string{"fetch_timeout": fetchTimeout.String(), "hash_timeout": hashTimeout.String(), "sched_tick": schedTick.String(),
		"stall_rule": fmt.Sprintf("%d silent ticks of %v", stallTicks, driverTick), "watchdog": watchdog.String()})
	c.Finish("every recorded session history satisfies: ancestor on both chains (highest after a failed anchor comparison / full scan); AddBlock submissions contiguous from ancestor+1, each the child of the previous, never beyond target, no duplicate; exactly one final notification, success only with the target delivered; no stall; honest follow-up session completes exactly, also under previous-sequence messages",
		c.Pick(300, 4000),
		"peers are modelled at the syncer's requester boundary (message.* values), i.e. what the p2p receivers would hand over, plus malformed variants they would filter",
		"the chain service is a model: it connects a block iff its parent is on the model main chain; what the real chain does with a submitted block is out of scope",
		"time is real (the syncer uses real timers): fetch timeout 200ms, hash fetcher timeout 500ms via verif hook; a stall is 50 consecutive 100ms driver ticks without any emission and without outstanding reply; the 60s wall watchdog only yields inconclusive",
		"sessions in which the sync peer lies about hashes in the finder phase are exempt from the on-remote/highest ancestor monitors; sessions with lying hash lists or forged headers are exempt from the equals-remote-block monitor only")
}

func keys(m map[string]bool) []string {
	var out []string
	for k := range m {
		out = append(out, k)
	}
	sort.Strings(out)
	return out
}

func truncate(s string, n int) string {
	if len(s) > n {
		return s[:n] + "..."
	}
	return s
}

// raceSite returns a stable "funcA" label when the report's top frames are in package syncer.
func raceSite(rep string) string {
	var fns []string
	lines := strings.Split(rep, "\n")
	for i, l := range lines {
		l = strings.TrimSpace(l)
		if strings.HasPrefix(l, "github.com/aergoio/aergo/v2/syncer.") && i+1 < len(lines) &&
			strings.Contains(lines[i+1], "/syncer/") && !strings.Contains(lines[i+1], "verif_hooks") {
			fn := strings.TrimPrefix(l, "github.com/aergoio/aergo/v2/syncer.")
			if i := strings.Index(fn, "()"); i > 0 {
				fn = fn[:i]
			}
			fns = append(fns, fn)
			if len(fns) == 2 {
				break
			}
		}
	}
	return strings.Join(fns, "+")
}

var naturalBlocked []interface{}

func isSuspect(class string) bool {
	for _, s := range suspectClasses {
		if s == class {
			return true
		}
	}
	return false
}

func merge(c *vf.Ctx, res *scResult) {
	c.Eval(res.Evals)
	for _, k := range res.Nontrivial {
		c.Nontrivial(k)
	}
	for k, n := range res.Counters {
		c.Count(k, n)
	}
	if res.Attempts > 1 {
		c.Count("scenarios retried (timing disturbed)", res.Attempts-1)
	}
	if res.Sample != nil {
		c.Sample(res.Sample)
	}
	for _, v := range res.Viols {
		if strings.HasPrefix(v.Key, "C17/actor-blocked/") && !isSuspect(v.Case.Class) && len(naturalBlocked) < 4 {
			// the same call site reached without any scripted duplicate / at-timeout reply: keep an example
			naturalBlocked = append(naturalBlocked, map[string]interface{}{"key": v.Key, "scenario": v.Case, "history": truncate(v.Desc, 2500)})
			c.Set("actor_blocked_in_regular_classes_examples", naturalBlocked)
		}
		c.Violation(v.Key, v.Desc, v.Case)
	}
	for _, s := range res.Inconclusive {
		c.Inconclusive(s)
	}
}
