package main

// Model chains, scenario description (JSON, replayable) and the seed-determined generator.

import (
	"bytes"
	"encoding/binary"
	"fmt"
	"hash/fnv"
	"math/rand"

	"github.com/aergoio/aergo/v2/types"
)

// ---- model chain ---------------------------------------------------------------------------

type mchain struct {
	blocks []*types.Block // index == height
}

func mkBlock(prev *types.Block, salt uint64) *types.Block {
	bi := &types.BlockHeaderInfo{ChainId: []byte("c17-chain"), Ts: int64(salt)}
	if prev != nil {
		bi.No = prev.GetHeader().GetBlockNo() + 1
		bi.PrevBlockHash = prev.GetHash()
	}
	b := types.NewBlock(bi, nil, nil, nil, nil, nil)
	b.BlockHash() // fills Hash with the real header digest
	return b
}

// extend returns a chain that shares c[0..upto] and continues with n fresh blocks.
func (c *mchain) extend(upto int, n int, salt uint64) *mchain {
	nc := &mchain{blocks: append([]*types.Block{}, c.blocks[:upto+1]...)}
	for i := 0; i < n; i++ {
		nc.blocks = append(nc.blocks, mkBlock(nc.blocks[len(nc.blocks)-1], salt<<20+uint64(i)+1))
	}
	return nc
}

func newChain(n int, salt uint64) *mchain {
	c := &mchain{blocks: []*types.Block{mkBlock(nil, salt<<20)}}
	return c.extend(0, n, salt)
}

func (c *mchain) best() uint64 { return uint64(len(c.blocks) - 1) }
func (c *mchain) hashAt(no uint64) []byte {
	if no >= uint64(len(c.blocks)) {
		return nil
	}
	return c.blocks[no].GetHash()
}
func (c *mchain) has(no uint64, h []byte) bool {
	x := c.hashAt(no)
	return x != nil && bytes.Equal(x, h)
}
func (c *mchain) clone() *mchain { return &mchain{blocks: append([]*types.Block{}, c.blocks...)} }

func highestCommon(a, b *mchain) int {
	hc := -1
	for i := 0; i < len(a.blocks) && i < len(b.blocks); i++ {
		if bytes.Equal(a.blocks[i].GetHash(), b.blocks[i].GetHash()) {
			hc = i
		} else {
			break
		}
	}
	return hc
}

// ---- scenario ------------------------------------------------------------------------------

// Fault codes (per request, consumed in request order; after a script ends the peer is honest
// unless BlkForever is set):
//
//	block chunks : ok slow late silent err few many range fork unlinked forgefirst dup empty
//	hashes       : ok slow late silent err few many manycount prev midfork edgefork empty dup
//	ancestor     : ok slow late silent nil bogus above low dup
//	hash-by-no   : ok slow late silent err wrong nilhash dup edge
//	anchors      : ok slow err
//	add block    : ok slow err dup wronghash
type Scenario struct {
	ID    int    `json:"id"`
	Class string `json:"class"`
	Seed  int64  `json:"seed"`

	HashReq  int  `json:"hash_req"`
	BlockReq int  `json:"block_req"`
	Tasks    int  `json:"tasks"`
	Pending  int  `json:"pending"`
	FullScan bool `json:"full_scan_only"`

	Fork        int `json:"fork"`         // height of the last common block of local and remote
	LocalExtra  int `json:"local_extra"`  // local-only blocks above the fork point
	RemoteExtra int `json:"remote_extra"` // remote-only blocks above the fork point
	TargetBack  int `json:"target_back"`  // target = remote best - TargetBack
	SideFork    int `json:"side_fork"`    // height at which the adversary's side chain F leaves the remote chain

	NPeers     int        `json:"n_peers"`
	Delay      string     `json:"delay"` // none | jitter | reverse
	Anchors    []string   `json:"anchors,omitempty"`
	Anc        []string   `json:"anc,omitempty"`
	Hno        []string   `json:"hno,omitempty"`
	Hash       []string   `json:"hash,omitempty"`
	Blk        [][]string `json:"blk,omitempty"`
	BlkForever []string   `json:"blk_forever,omitempty"`
	Add        []string   `json:"add,omitempty"`
	NoPeers    bool       `json:"no_peers,omitempty"`

	StopAt  int  `json:"stop_at,omitempty"` // inject SyncStop right after the k-th outbound message (1-based)
	StopNil bool `json:"stop_nil,omitempty"`

	Restart bool `json:"restart"` // run an honest follow-up session
	Stale   bool `json:"stale"`   // replay / forge previous-sequence messages before and during the follow-up
}

func (s *Scenario) key() string {
	return fmt.Sprintf("%s|h%d b%d t%d p%d fs%v|f%d l%d r%d tb%d sf%d|n%d %s|%v|%v|%v|%v|%v|%v|%v|%v|stop%d %v|%v %v",
		s.Class, s.HashReq, s.BlockReq, s.Tasks, s.Pending, s.FullScan, s.Fork, s.LocalExtra, s.RemoteExtra, s.TargetBack,
		s.SideFork, s.NPeers, s.Delay, s.Anchors, s.Anc, s.Hno, s.Hash, s.Blk, s.BlkForever, s.Add, s.NoPeers, s.StopAt, s.StopNil,
		s.Restart, s.Stale)
}

func benignCode(c string) bool { return c == "" || c == "ok" || c == "slow" }

func allBenign(l []string) bool {
	for _, c := range l {
		if !benignCode(c) {
			return false
		}
	}
	return true
}

// faultFree: every scripted reply is truthful, complete and in time; no stop is injected.
func (s *Scenario) faultFree() bool {
	if s.StopAt != 0 || s.NoPeers {
		return false
	}
	if !allBenign(s.Anchors) || !allBenign(s.Anc) || !allBenign(s.Hno) || !allBenign(s.Hash) || !allBenign(s.Add) || !allBenign(s.BlkForever) {
		return false
	}
	for _, p := range s.Blk {
		if !allBenign(p) {
			return false
		}
	}
	return true
}

func hasCode(l []string, codes ...string) bool {
	for _, c := range l {
		for _, d := range codes {
			if c == d {
				return true
			}
		}
	}
	return false
}

// h64 derives a deterministic value from the scenario seed and labels (used instead of a shared PRNG
// because requests arrive from concurrent goroutines).
func h64(seed int64, parts ...interface{}) uint64 {
	h := fnv.New64a()
	var b [8]byte
	binary.LittleEndian.PutUint64(b[:], uint64(seed))
	h.Write(b[:])
	fmt.Fprint(h, parts...)
	return h.Sum64()
}

// ---- generator -----------------------------------------------------------------------------

var blkFaults = []string{"slow", "late", "silent", "err", "few", "many", "range", "fork", "unlinked", "dup", "empty"}
var hashFaults = []string{"slow", "late", "silent", "err", "few", "many", "manycount", "prev", "midfork", "empty"}
var ancFaults = []string{"slow", "late", "silent", "nil", "bogus", "above", "low", "dup"}
var hnoFaults = []string{"slow", "late", "silent", "err", "wrong", "nilhash"}
var addFaults = []string{"slow", "err", "dup", "wronghash"}

// classes whose trigger is a response the real p2p layer cannot produce twice / a lying hash
// list; listed in SKIP_CLASSES they are not generated (see main.go).
var suspectClasses = []string{"hno-at-timeout", "dup-hno", "dup-hash", "edgefork", "forgefirst", "nopeers", "stale-addrsp"}

func baseScenario(r *rand.Rand, id int) *Scenario {
	s := &Scenario{ID: id, Seed: r.Int63()}
	s.HashReq = 1 + r.Intn(6)
	s.BlockReq = 1 + r.Intn(4)
	s.Tasks = 1 + r.Intn(5)
	s.Pending = 1 + r.Intn(4)
	s.FullScan = r.Intn(3) != 0
	s.Fork = r.Intn(9)
	s.LocalExtra = r.Intn(7)
	s.RemoteExtra = s.LocalExtra + 1 + r.Intn(10)
	if r.Intn(4) == 0 {
		s.TargetBack = r.Intn(s.RemoteExtra - s.LocalExtra)
	}
	s.SideFork = r.Intn(s.Fork + 1)
	if r.Intn(2) == 0 {
		s.SideFork = s.Fork
	}
	s.NPeers = 1 + r.Intn(5)
	s.Delay = []string{"none", "jitter", "jitter", "reverse"}[r.Intn(4)]
	s.Restart = true
	s.Stale = r.Intn(2) == 0
	return s
}

func pick(r *rand.Rand, l []string) string { return l[r.Intn(len(l))] }

func script(r *rand.Rand, faults []string, maxLen int, pFault float64) []string {
	n := 1 + r.Intn(maxLen)
	out := make([]string, n)
	for i := range out {
		if r.Float64() < pFault {
			out[i] = pick(r, faults)
		} else {
			out[i] = "ok"
		}
	}
	return out
}

// genScenarios returns the case list for a tier; it depends only on the PRNG handed in.
func genScenarios(r *rand.Rand, quick bool, skip map[string]bool) []*Scenario {
	var out []*Scenario
	id := 0
	add := func(class string, f func(s *Scenario)) {
		s := baseScenario(r, id)
		s.Class = class
		if f != nil {
			f(s)
		}
		id++
		if s.Class != "skip" {
			if mb := s.RemoteExtra - s.LocalExtra - 1; s.TargetBack > mb {
				s.TargetBack = mb
			}
		}
		if s.SideFork > s.Fork {
			s.SideFork = s.Fork
		}
		for _, sus := range suspectClasses {
			if s.Class == sus {
				s.Restart = s.Class == "stale-addrsp"
			}
		}
		if skip[s.Class] {
			return
		}
		out = append(out, s)
	}
	mul := 3
	if !quick {
		mul = 40
	}
	// 1. honest peers, all chain pairs (fork point 0..8, local ahead of / equal to / behind the fork).
	for i := 0; i < 27*mul; i++ {
		i := i
		add("honest", func(s *Scenario) {
			s.Fork = i % 9
			s.LocalExtra = []int{0, 1 + r.Intn(3), 4 + r.Intn(5)}[(i/9)%3]
			s.RemoteExtra = s.LocalExtra + 1 + r.Intn(10)
			s.TargetBack = 0
			s.SideFork = s.Fork
		})
	}
	// 2. light scan truthfully finds no common anchor (long chains, deep fork): full scan must give the highest.
	for i := 0; i < 3*mul; i++ {
		add("long", func(s *Scenario) {
			s.FullScan = false
			s.LocalExtra = 500 + r.Intn(40)
			s.RemoteExtra = s.LocalExtra + 1 + r.Intn(6)
			s.SideFork = s.Fork
			s.HashReq = 40 + r.Intn(60)
			s.BlockReq = 10 + r.Intn(20)
			s.Tasks = 2 + r.Intn(4)
			s.Pending = 2 + r.Intn(3)
			s.Stale = false
		})
	}
	// 3. SyncStop at every step index of an otherwise honest session.
	nstop := 2
	if !quick {
		nstop = 16
	}
	for k := 0; k < nstop; k++ {
		proto := baseScenario(r, 0)
		proto.Fork = r.Intn(9)
		proto.RemoteExtra = proto.LocalExtra + 3 + r.Intn(4)
		proto.TargetBack = 0
		proto.HashReq = 2 + r.Intn(3)
		proto.BlockReq = 1 + r.Intn(2)
		for step := 1; step <= 40; step++ {
			step := step
			add("stop", func(s *Scenario) {
				seed := s.Seed
				*s = *proto
				s.ID, s.Seed, s.Class = id, seed, "stop"
				s.StopAt = step
				s.StopNil = step%5 == 0
				s.Stale = step%2 == 0
			})
		}
	}
	// 4. block-chunk faults, some peers recover.
	for i := 0; i < 40*mul; i++ {
		add("blk", func(s *Scenario) {
			s.NPeers = 2 + r.Intn(4)
			s.Blk = make([][]string, s.NPeers)
			for p := range s.Blk {
				if r.Intn(4) != 0 {
					s.Blk[p] = script(r, blkFaults, 6, 0.6)
				}
			}
			if r.Intn(5) == 0 {
				s.Delay = "reverse"
			}
		})
	}
	// 5. one fault kind on every peer for ever (all peers bad).
	for i := 0; i < len(blkFaults)*mul; i++ {
		i := i
		add("allbad", func(s *Scenario) {
			f := blkFaults[i%len(blkFaults)]
			s.BlkForever = make([]string, s.NPeers)
			for p := range s.BlkForever {
				s.BlkForever[p] = f
			}
			if f == "slow" || f == "dup" {
				s.Class = "allbad-benign"
			}
		})
	}
	// 6. hash-list faults.
	for i := 0; i < 2*len(hashFaults)*mul; i++ {
		i := i
		add("hash", func(s *Scenario) {
			f := hashFaults[i%len(hashFaults)]
			n := r.Intn(3)
			for j := 0; j < n; j++ {
				s.Hash = append(s.Hash, "ok")
			}
			s.Hash = append(s.Hash, f)
			s.RemoteExtra = s.LocalExtra + 4 + r.Intn(8)
			if f == "midfork" {
				s.BlockReq = 2 + r.Intn(3)
				s.HashReq = s.BlockReq + r.Intn(4)
				s.SideFork = r.Intn(s.Fork + 1)
			}
		})
	}
	for i := 0; i < 3*mul; i++ {
		add("hash", func(s *Scenario) { // one hash too many in every answer, also in the one that reaches the target
			s.Hash = []string{"many", "many", "many", "many", "many", "many", "many", "many", "many", "many", "many", "many"}
			s.RemoteExtra = s.LocalExtra + 3 + r.Intn(8)
			s.TargetBack = 1 + r.Intn(2)
		})
	}
	// 7. finder faults.
	for i := 0; i < 2*len(ancFaults)*mul; i++ {
		i := i
		add("anc", func(s *Scenario) {
			s.FullScan = false
			s.Anc = []string{ancFaults[i%len(ancFaults)]}
			if i%3 == 0 { // long chains: a nil light answer is followed by a real full scan
				s.LocalExtra = 500 + r.Intn(30)
				s.RemoteExtra = s.LocalExtra + 1 + r.Intn(5)
				s.HashReq, s.BlockReq = 50+r.Intn(50), 10+r.Intn(20)
				s.Stale = false
			}
		})
	}
	for i := 0; i < 2*len(hnoFaults)*mul; i++ {
		i := i
		add("hno", func(s *Scenario) {
			s.FullScan = true
			n := r.Intn(4)
			for j := 0; j < n; j++ {
				s.Hno = append(s.Hno, "ok")
			}
			s.Hno = append(s.Hno, hnoFaults[i%len(hnoFaults)])
			s.LocalExtra = r.Intn(12)
			s.RemoteExtra = s.LocalExtra + 1 + r.Intn(6)
		})
	}
	for i := 0; i < 2*mul; i++ {
		i := i
		add("anchors", func(s *Scenario) {
			s.FullScan = false
			s.Anchors = []string{[]string{"slow", "err"}[i%2]}
		})
	}
	add("nopeers", func(s *Scenario) { s.NoPeers = true })
	// 8. chain service answers.
	for i := 0; i < len(addFaults)*mul; i++ {
		i := i
		add("add", func(s *Scenario) {
			n := r.Intn(4)
			for j := 0; j < n; j++ {
				s.Add = append(s.Add, "ok")
			}
			s.Add = append(s.Add, addFaults[i%len(addFaults)])
			s.RemoteExtra = s.LocalExtra + 3 + r.Intn(6)
		})
	}
	// 9. target not above the local best: no session may start.
	for i := 0; i < 2*mul; i++ {
		add("skip", func(s *Scenario) {
			s.LocalExtra = 3 + r.Intn(5)
			s.RemoteExtra = 1 + r.Intn(s.LocalExtra)
			s.TargetBack = 0
		})
	}
	// 10. everything at once.
	for i := 0; i < 40*mul; i++ {
		add("mixed", func(s *Scenario) {
			s.NPeers = 1 + r.Intn(5)
			s.Blk = make([][]string, s.NPeers)
			for p := range s.Blk {
				if r.Intn(3) != 0 {
					s.Blk[p] = script(r, blkFaults, 5, 0.5)
				}
			}
			if r.Intn(3) == 0 {
				s.Hash = script(r, hashFaults, 3, 0.4)
			}
			if r.Intn(4) == 0 {
				if s.FullScan {
					s.Hno = script(r, hnoFaults, 4, 0.3)
				} else {
					s.Anc = script(r, ancFaults, 1, 0.5)
				}
			}
			if r.Intn(4) == 0 {
				s.Add = script(r, addFaults, 5, 0.3)
			}
			if r.Intn(3) == 0 {
				s.StopAt = 1 + r.Intn(45)
				s.StopNil = r.Intn(4) == 0
			}
		})
	}
	// 11. suspect classes (duplicate replies the real p2p receivers never emit; lying hash lists that
	//     change fork exactly at a chunk boundary; forged first block of a chunk). Few cases each.
	nsus := 2
	if !quick {
		nsus = 8
	}
	for i := 0; i < nsus; i++ {
		add("dup-hno", func(s *Scenario) {
			s.FullScan = true
			s.LocalExtra = 2 + r.Intn(8)
			s.RemoteExtra = s.LocalExtra + 2 + r.Intn(5)
			n := r.Intn(3)
			for j := 0; j < n; j++ {
				s.Hno = append(s.Hno, "ok")
			}
			s.Hno = append(s.Hno, "dup")
		})
		add("dup-hash", func(s *Scenario) {
			s.RemoteExtra = s.LocalExtra + 8 + r.Intn(8)
			s.HashReq = 3 + r.Intn(3)
			s.BlockReq = 1
			s.Tasks = 1
			s.Delay = "jitter"
			s.Hash = []string{"ok", "dup", "dup"}
			s.BlkForever = make([]string, s.NPeers)
			for p := range s.BlkForever {
				s.BlkForever[p] = "slow"
			}
		})
		add("edgefork", func(s *Scenario) {
			s.RemoteExtra = s.LocalExtra + 5 + r.Intn(8)
			s.BlockReq = 1 + r.Intn(3)
			s.HashReq = s.BlockReq * (1 + r.Intn(3))
			s.SideFork = r.Intn(s.Fork + 1)
			s.Hash = []string{"edgefork", "edgefork", "edgefork"}
		})
		for j := 0; j < 4; j++ {
			add("hno-at-timeout", func(s *Scenario) {
				s.FullScan = true
				s.LocalExtra = 2 + r.Intn(8)
				s.RemoteExtra = s.LocalExtra + 2 + r.Intn(5)
				s.Hno = []string{"edge"}
			})
		}
		add("stale-addrsp", func(s *Scenario) {
			s.Stale = true
		})
		add("forgefirst", func(s *Scenario) {
			s.RemoteExtra = s.LocalExtra + 5 + r.Intn(8)
			s.BlkForever = make([]string, s.NPeers)
			for p := range s.BlkForever {
				s.BlkForever[p] = "forgefirst"
			}
		})
	}
	return out
}
