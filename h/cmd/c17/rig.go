package main

// The rig: the real syncer.Syncer on a real component hub, with a hostile requester that
// captures every outbound message and answers from scripted peers / a model chain service.

import (
	"bytes"
	"errors"
	"fmt"
	"math/big"
	"runtime"
	"strings"
	"sync"
	"sync/atomic"
	"time"

	"github.com/aergoio/aergo/v2/pkg/component"
	"github.com/aergoio/aergo/v2/syncer"
	"github.com/aergoio/aergo/v2/types"
	"github.com/aergoio/aergo/v2/types/message"
	"google.golang.org/protobuf/proto"
)

const (
	fetchTimeout = 200 * time.Millisecond
	hashTimeout  = 500 * time.Millisecond
	schedTick    = 25 * time.Millisecond
	driverTick   = 100 * time.Millisecond
	stallTicks   = 50  // consecutive silent driver ticks (nothing emitted, no reply pending) => stalled
	stallConfirm = 12 * time.Second // ... confirmed by this much more silence (starvation ends, a deadlock does not)
	watchdog     = 60 * time.Second
)

var (
	errInjected  = errors.New("c17: injected stop")
	errPeer      = errors.New("c17: remote peer failure")
	errChain     = errors.New("c17: chain service rejected block")
	errAnchors   = errors.New("c17: get anchors failed")
	hubStartLock sync.Mutex
)

// ---- local chain (ChainAccessor + model chain service) ---------------------------------------

type localChain struct {
	mu sync.Mutex
	c  *mchain
}

func (l *localChain) snapshot() *mchain {
	l.mu.Lock()
	defer l.mu.Unlock()
	return l.c.clone()
}
func (l *localChain) GetGenesisInfo() *types.Genesis { return nil }
func (l *localChain) GetConsensusInfo() string       { return "" }
func (l *localChain) GetChainStats() string          { return "" }
func (l *localChain) GetBestBlock() (*types.Block, error) {
	l.mu.Lock()
	defer l.mu.Unlock()
	return l.c.blocks[len(l.c.blocks)-1], nil
}
func (l *localChain) GetBlock(h []byte) (*types.Block, error) {
	l.mu.Lock()
	defer l.mu.Unlock()
	for _, b := range l.c.blocks {
		if bytes.Equal(b.GetHash(), h) {
			return b, nil
		}
	}
	return nil, errors.New("c17: block not found")
}
func (l *localChain) GetHashByNo(no types.BlockNo) ([]byte, error) {
	l.mu.Lock()
	defer l.mu.Unlock()
	if no >= uint64(len(l.c.blocks)) {
		return nil, errors.New("c17: no such height")
	}
	return l.c.blocks[no].GetHash(), nil
}
func (l *localChain) GetSystemValue(types.SystemValue) (*big.Int, error)          { return nil, nil }
func (l *localChain) GetEnterpriseConfig(string) (*types.EnterpriseConfig, error) { return nil, nil }
func (l *localChain) ChainID(types.BlockNo) *types.ChainID                        { return nil }
func (l *localChain) HardforkHeights() map[string]types.BlockNo                   { return nil }

// anchors as chain/chainanchor.go:getAnchorsNew does (best, best-16, ..., 0; at most 32).
func (l *localChain) anchors() ([][]byte, uint64) {
	l.mu.Lock()
	defer l.mu.Unlock()
	var out [][]byte
	no := uint64(len(l.c.blocks) - 1)
	last := no
	for i := 0; i < 32; i++ {
		out = append(out, l.c.blocks[no].GetHash())
		last = no
		if no == 0 {
			break
		} else if no < 16 {
			no = 0
		} else {
			no -= 16
		}
	}
	return out, last
}

// connect is the model chain service: a block that extends the tip is appended, a block whose
// parent is an earlier main-chain block reorganises, anything else is refused.
func (l *localChain) connect(b *types.Block) error {
	l.mu.Lock()
	defer l.mu.Unlock()
	no := b.GetHeader().GetBlockNo()
	if no == 0 || no > uint64(len(l.c.blocks)) {
		return errChain
	}
	if !bytes.Equal(l.c.blocks[no-1].GetHash(), b.GetHeader().GetPrevBlockHash()) {
		return errChain
	}
	l.c.blocks = append(append([]*types.Block{}, l.c.blocks[:no]...), b)
	return nil
}

// ---- recorded history ------------------------------------------------------------------------

type event struct {
	Step int    `json:"step"`
	Dir  string `json:"dir"` // out (emitted by the syncer) | in (sent to the syncer)
	Kind string `json:"kind"`
	Seq  uint64 `json:"seq,omitempty"`
	Info string `json:"info,omitempty"`
}

type delivery struct {
	no   uint64
	hash []byte
	prev []byte
	blk  *types.Block
}

type session struct {
	plan      *sessPlan
	seq       uint64
	notifyC   chan error
	local0    *mchain // local main chain when the session was requested
	remote    *mchain
	side      *mchain
	target    uint64
	events    []event
	outSteps  int
	inbox     []interface{} // sequence-carrying messages sent to the syncer (for stale replay)
	deliv     []delivery
	accepted  *types.BlockInfo // PrevInfo of the first GetHashes == ancestor the syncer works from
	finderRes *message.FinderResult
	lightNil  bool // the truthful answer to the anchor comparison was "no common anchor"
	// what the adversary did
	finderLied  bool // untruthful content in the finder phase
	hashLied    bool // hash list not the remote main chain
	edgeLie     bool // ... switching fork exactly at a chunk boundary
	forged      bool // blocks whose header does not match the announced hash were served
	forgedFirst bool
	faultsUsed  map[string]int
	stopDone    bool
	edgeReply   *message.GetHashByNoRsp
	poisoned    map[string]int
	maxLag      time.Duration // worst (actual - planned) reply delay: timing disturbance indicator
	// per request counters
	nAnchors, nAnc, nHno, nHash, nAdd int
	nBlk                              []int
	ended                             bool
}

type sessPlan struct {
	sc       *Scenario // nil => honest follow-up
	followUp bool
	target   uint64
	stale    bool
	staleSeq uint64
	replay   []interface{}
}

type rig struct {
	sc     *Scenario
	slowProgress int // stall rule fired but the session moved again during the confirmation wait
	syn    *syncer.Syncer
	hub    *component.ComponentHub
	local  *localChain
	remote *mchain
	side   *mchain
	peers  []types.PeerID
	store  map[string]*types.Block

	mu       sync.Mutex
	sess     *session
	activity int64
	pending  int64
	closed   int32
	idleOut  []event // outbound messages seen while no session was active
}

func newRig(sc *Scenario) *rig {
	r := &rig{sc: sc, store: map[string]*types.Block{}}
	base := newChain(sc.Fork, uint64(sc.Seed)&0xfffff)
	r.local = &localChain{c: base.extend(sc.Fork, sc.LocalExtra, uint64(sc.Seed)&0xfffff+1)}
	r.remote = base.extend(sc.Fork, sc.RemoteExtra+6, uint64(sc.Seed)&0xfffff+2)
	sf := sc.SideFork
	if sf > sc.Fork {
		sf = sc.Fork
	}
	r.side = r.remote.extend(sf, len(r.remote.blocks)-1-sf, uint64(sc.Seed)&0xfffff+3)
	for _, c := range []*mchain{r.remote, r.side} {
		for _, b := range c.blocks {
			r.store[string(b.GetHash())] = b
		}
	}
	for i := 0; i < sc.NPeers; i++ {
		r.peers = append(r.peers, types.PeerID(fmt.Sprintf("peer-%d", i)))
	}
	cfg := syncer.VerifConfig(uint64(sc.HashReq), sc.BlockReq, sc.Tasks, sc.Pending, fetchTimeout, sc.FullScan)
	r.syn = syncer.NewSyncer(nil, r.local, cfg)
	r.syn.SetRequester(r)
	r.hub = component.NewComponentHub()
	r.hub.Register(r.syn)
	// component.hubInit is a package global meant for one hub per process: serialise the starts.
	// (The race detector still reports hubInitSync.begin vs wait of the previous hub: a rig artefact in
	// pkg/component, counted but not judged; only reports with frames in /syncer/*.go are.)
	hubStartLock.Lock()
	r.hub.Start()
	hubStartLock.Unlock()
	return r
}

func (r *rig) close(actorAlive bool) {
	// The hub is deliberately not stopped: component.Stop runs Syncer.BeforeStop on the caller's
	// goroutine (outside the actor), which is not part of the property and crashes on a half-reset
	// syncer.  The idle actor is left behind; the child process is short-lived.
	atomic.StoreInt32(&r.closed, 1)
	_ = actorAlive
}

// ---- scheduling of replies -------------------------------------------------------------------

func (r *rig) tell(m interface{}) {
	if atomic.LoadInt32(&r.closed) == 1 {
		return
	}
	r.syn.Tell(m)
}

// reply sends m to the syncer after d; honest marks replies whose lateness would disturb timing.
func (r *rig) reply(s *session, d time.Duration, m interface{}, kind string, more ...interface{}) {
	atomic.AddInt64(&r.pending, 1)
	t0 := time.Now()
	fire := func() {
		lag := time.Since(t0) - d
		r.mu.Lock()
		if lag > s.maxLag {
			s.maxLag = lag
		}
		r.recordIn(s, kind, m)
		for _, x := range more {
			r.recordIn(s, kind+"(duplicate)", x)
		}
		r.mu.Unlock()
		r.tell(m)
		for _, x := range more {
			r.tell(x)
		}
		atomic.AddInt64(&r.activity, 1)
		atomic.AddInt64(&r.pending, -1)
	}
	if d <= 0 {
		go fire()
	} else {
		time.AfterFunc(d, fire)
	}
}

func seqOf(m interface{}) uint64 {
	switch x := m.(type) {
	case *message.GetSyncAncestorRsp:
		return x.Seq
	case *message.FinderResult:
		return x.Seq
	case *message.GetHashesRsp:
		return x.Seq
	case *message.GetHashByNoRsp:
		return x.Seq
	case *message.GetBlockChunksRsp:
		return x.Seq
	case *message.SyncStop:
		return x.Seq
	case *message.CloseFetcher:
		return x.Seq
	case *message.GetAnchors:
		return x.Seq
	case *message.GetSyncAncestor:
		return x.Seq
	case *message.GetHashByNo:
		return x.Seq
	case *message.GetHashes:
		return x.Seq
	case *message.GetBlockChunks:
		return x.Seq
	}
	return 0
}

func describe(m interface{}) string {
	switch x := m.(type) {
	case *message.GetSyncAncestor:
		return fmt.Sprintf("to=%s anchors=%d", x.ToWhom, len(x.Hashes))
	case *message.GetSyncAncestorRsp:
		if x.Ancestor == nil {
			return "ancestor=nil"
		}
		return fmt.Sprintf("ancestor=%d", x.Ancestor.No)
	case *message.FinderResult:
		if x.Ancestor == nil {
			return fmt.Sprintf("ancestor=nil err=%v", x.Err)
		}
		return fmt.Sprintf("ancestor=%d err=%v", x.Ancestor.No, x.Err)
	case *message.GetHashByNo:
		return fmt.Sprintf("no=%d", x.BlockNo)
	case *message.GetHashByNoRsp:
		return fmt.Sprintf("hash=%x err=%v", short(x.BlockHash), x.Err)
	case *message.GetHashes:
		return fmt.Sprintf("prev=%d count=%d", x.PrevInfo.No, x.Count)
	case *message.GetHashesRsp:
		return fmt.Sprintf("n=%d count=%d err=%v", len(x.Hashes), x.Count, x.Err)
	case *message.GetBlockChunks:
		return fmt.Sprintf("to=%s n=%d first=%x", x.ToWhom, len(x.Hashes), short(x.Hashes[0]))
	case *message.GetBlockChunksRsp:
		s := fmt.Sprintf("from=%s n=%d err=%v", x.ToWhom, len(x.Blocks), x.Err)
		if len(x.Blocks) > 0 {
			s += fmt.Sprintf(" firstNo=%d", x.Blocks[0].GetHeader().GetBlockNo())
		}
		return s
	case *message.AddBlock:
		return fmt.Sprintf("no=%d hash=%x prev=%x", x.Block.GetHeader().GetBlockNo(), short(x.Block.GetHash()), short(x.Block.GetHeader().GetPrevBlockHash()))
	case *message.AddBlockRsp:
		return fmt.Sprintf("no=%d err=%v", x.BlockNo, x.Err)
	case *message.SyncStop:
		return fmt.Sprintf("from=%s err=%v", x.FromWho, x.Err)
	case *message.CloseFetcher:
		return "from=" + x.FromWho
	}
	return ""
}

func short(b []byte) []byte {
	if len(b) > 4 {
		return b[:4]
	}
	return b
}

func kindOf(m interface{}) string {
	return strings.TrimPrefix(strings.TrimPrefix(fmt.Sprintf("%T", m), "*"), "message.")
}

// recordIn: r.mu held.
func (r *rig) recordIn(s *session, kind string, m interface{}) {
	s.events = append(s.events, event{Step: s.outSteps, Dir: "in", Kind: kind, Seq: seqOf(m), Info: describe(m)})
	switch m.(type) {
	case *message.AddBlockRsp:
	default:
		s.inbox = append(s.inbox, m)
	}
}

// ---- the hostile requester -------------------------------------------------------------------

// out records an outbound message and returns the session it belongs to (nil when idle).
func (r *rig) out(m interface{}) *session {
	atomic.AddInt64(&r.activity, 1)
	r.mu.Lock()
	s := r.sess
	if s == nil || s.ended {
		r.idleOut = append(r.idleOut, event{Dir: "out", Kind: kindOf(m), Seq: seqOf(m), Info: describe(m)})
		r.mu.Unlock()
		return nil
	}
	s.outSteps++
	s.events = append(s.events, event{Step: s.outSteps, Dir: "out", Kind: kindOf(m), Seq: seqOf(m), Info: describe(m)})
	if sq := seqOf(m); sq != 0 && s.seq == 0 {
		s.seq = sq
	}
	var inject []interface{}
	if sc := s.plan.sc; sc != nil && sc.StopAt == s.outSteps && !s.stopDone && s.seq != 0 {
		s.stopDone = true
		st := &message.SyncStop{Seq: s.seq, FromWho: "c17", Err: errInjected}
		if sc.StopNil {
			st.Err = nil
		}
		inject = append(inject, st)
		r.recordIn(s, "SyncStop(injected)", st)
	}
	if s.plan.stale && s.seq != 0 {
		inject = append(inject, r.poison(s, m)...)
	}
	r.mu.Unlock()
	for _, x := range inject {
		r.tell(x)
	}
	return s
}

func (r *rig) TellTo(target string, m interface{}) {
	if fr, ok := m.(*message.FinderResult); ok {
		r.mu.Lock()
		if r.sess != nil && !r.sess.ended && r.sess.finderRes == nil {
			r.sess.finderRes = fr
		}
		r.mu.Unlock()
	}
	s := r.out(m)
	switch target {
	case message.SyncerSvc:
		if st, ok := m.(*message.SyncStop); ok && s != nil && st.FromWho == syncer.NameFinder {
			r.mu.Lock()
			late := s.edgeReply
			s.edgeReply = nil
			if late != nil {
				r.recordIn(s, "GetHashByNoRsp(at finder timeout)", late)
			}
			r.mu.Unlock()
			if late != nil {
				r.tell(late)
			}
		}
		r.tell(m) // finder / fetchers talking to their own syncer: delivered as is
	case message.P2PSvc:
		if s == nil {
			return
		}
		switch x := m.(type) {
		case *message.GetSyncAncestor:
			r.onGetSyncAncestor(s, x)
		case *message.GetHashByNo:
			r.onGetHashByNo(s, x)
		case *message.GetHashes:
			r.onGetHashes(s, x)
		case *message.GetBlockChunks:
			r.onGetBlockChunks(s, x)
		}
	}
}

func (r *rig) RequestTo(target string, m interface{}) {
	ab, ok := m.(*message.AddBlock)
	s := r.out(m)
	if !ok || target != message.ChainSvc {
		return
	}
	if s == nil {
		return
	}
	r.onAddBlock(s, ab)
}

func (r *rig) RequestToFutureResult(target string, m interface{}, timeout time.Duration, tip string) (interface{}, error) {
	s := r.out(m)
	switch x := m.(type) {
	case *message.GetAnchors:
		code := "ok"
		if s != nil && s.plan.sc != nil {
			r.mu.Lock()
			code = at(s.plan.sc.Anchors, s.nAnchors)
			s.nAnchors++
			s.use("anchors:" + code)
			r.mu.Unlock()
		}
		switch code {
		case "slow":
			time.Sleep(70 * time.Millisecond)
		case "err":
			return nil, errAnchors
		}
		hs, last := r.local.anchors()
		return message.GetAnchorsRsp{Seq: x.Seq, Hashes: hs, LastNo: last}, nil
	case *message.GetPeers:
		rsp := &message.GetPeersRsp{}
		if !(s != nil && s.plan.sc != nil && s.plan.sc.NoPeers) {
			for _, p := range r.peers {
				rsp.Peers = append(rsp.Peers, &message.PeerInfo{Addr: &types.PeerAddress{PeerID: []byte(p)}, State: types.RUNNING, CheckTime: time.Now()})
			}
		}
		return rsp, nil
	}
	return nil, fmt.Errorf("c17: unexpected future request %T", m)
}

func at(l []string, i int) string {
	if i < len(l) && l[i] != "" {
		return l[i]
	}
	return "ok"
}

func (s *session) use(code string) {
	if s.faultsUsed == nil {
		s.faultsUsed = map[string]int{}
	}
	s.faultsUsed[code]++
}

// honest reply delay for the scenario's delay profile.
func (r *rig) baseDelay(s *session, label string, n uint64) time.Duration {
	prof := "jitter"
	seed := int64(7)
	if s.plan.sc != nil {
		prof, seed = s.plan.sc.Delay, s.plan.sc.Seed
	} else {
		seed = r.sc.Seed + 1
	}
	switch prof {
	case "none":
		return 0
	case "reverse":
		if label == "blk" {
			k := int64(n) - int64(s.acceptedNo())
			d := 70 - 12*k
			if d < 0 {
				d = 0
			}
			return time.Duration(d) * time.Millisecond
		}
		return 0
	}
	return time.Duration(h64(seed, label, n, s.outSteps)%15) * time.Millisecond
}

func (s *session) acceptedNo() uint64 {
	if s.accepted != nil {
		return s.accepted.No
	}
	return 0
}

const (
	slowDelay = 70 * time.Millisecond
	lateDelay = fetchTimeout + 180*time.Millisecond
)

func (r *rig) onGetSyncAncestor(s *session, m *message.GetSyncAncestor) {
	r.mu.Lock()
	code := "ok"
	if s.plan.sc != nil {
		code = at(s.plan.sc.Anc, s.nAnc)
	}
	s.nAnc++
	s.use("anc:" + code)
	// truthful answer: the first (= highest) anchor on the remote main chain
	var truth *types.BlockInfo
	for _, h := range m.Hashes {
		if b := r.store[string(h)]; b != nil && s.remote.has(b.GetHeader().GetBlockNo(), h) {
			truth = &types.BlockInfo{Hash: b.GetHash(), No: b.GetHeader().GetBlockNo()}
			break
		}
	}
	if truth == nil {
		s.lightNil = true
	}
	d := r.baseDelay(s, "anc", 0)
	if d < 3*time.Millisecond {
		d = 3 * time.Millisecond // an instant reply can overtake the finder's select and is then dropped by the syncer
	}
	send := func(a *types.BlockInfo, d time.Duration, dup ...bool) {
		if len(dup) > 0 {
			r.reply(s, d, &message.GetSyncAncestorRsp{Seq: m.Seq, Ancestor: a}, "GetSyncAncestorRsp", &message.GetSyncAncestorRsp{Seq: m.Seq, Ancestor: a})
			return
		}
		r.reply(s, d, &message.GetSyncAncestorRsp{Seq: m.Seq, Ancestor: a}, "GetSyncAncestorRsp")
	}
	switch code {
	case "ok":
		send(truth, d)
	case "slow":
		send(truth, slowDelay)
	case "late":
		send(truth, lateDelay)
	case "silent":
	case "dup":
		send(truth, d, true)
	case "nil": // error status from the remote peer => Ancestor nil
		s.finderLied = s.finderLied || truth != nil
		send(nil, d)
	case "bogus":
		s.finderLied = true
		send(&types.BlockInfo{Hash: bytes.Repeat([]byte{0xee}, 32), No: s.local0.best()}, d)
	case "above": // a local block the remote chain does not have
		s.finderLied = true
		b := s.local0.blocks[len(s.local0.blocks)-1]
		send(&types.BlockInfo{Hash: b.GetHash(), No: b.GetHeader().GetBlockNo()}, d)
	case "low": // an answer below the last anchor (ignored by the finder), then the truth
		if truth != nil && truth.No > 0 {
			s.finderLied = true
			send(&types.BlockInfo{Hash: s.remote.hashAt(0), No: 0}, 0)
		}
		send(truth, 20*time.Millisecond)
	}
	r.mu.Unlock()
}

func (r *rig) onGetHashByNo(s *session, m *message.GetHashByNo) {
	r.mu.Lock()
	code := "ok"
	if s.plan.sc != nil {
		code = at(s.plan.sc.Hno, s.nHno)
	}
	s.nHno++
	s.use("hno:" + code)
	truth := &message.GetHashByNoRsp{Seq: m.Seq, BlockHash: s.remote.hashAt(m.BlockNo)}
	if truth.BlockHash == nil {
		truth.Err = message.RemotePeerFailError
	}
	d := r.baseDelay(s, "hno", m.BlockNo)
	send := func(x *message.GetHashByNoRsp, d time.Duration) { r.reply(s, d, x, "GetHashByNoRsp") }
	switch code {
	case "ok":
		send(truth, d)
	case "slow":
		send(truth, slowDelay)
	case "late":
		send(truth, lateDelay)
	case "silent":
	case "dup":
		c := *truth
		r.reply(s, d, truth, "GetHashByNoRsp", &c)
	case "edge":
		// The truthful answer is slow and reaches the syncer's mailbox in the instant between the finder's
		// timer firing and the finder's own SyncStop being enqueued (both are concurrent producers of one
		// mailbox).  The rig realises exactly this order in TellTo when it sees that SyncStop.
		s.edgeReply = truth
	case "err":
		send(&message.GetHashByNoRsp{Seq: m.Seq, Err: message.RemotePeerFailError}, d)
	case "wrong":
		s.finderLied = true
		h := s.side.hashAt(m.BlockNo)
		if h == nil || bytes.Equal(h, truth.BlockHash) {
			h = bytes.Repeat([]byte{0xdd}, 32)
		}
		send(&message.GetHashByNoRsp{Seq: m.Seq, BlockHash: h}, d)
	case "nilhash":
		s.finderLied = true
		send(&message.GetHashByNoRsp{Seq: m.Seq}, d)
	}
	r.mu.Unlock()
}

func (r *rig) onGetHashes(s *session, m *message.GetHashes) {
	r.mu.Lock()
	if s.accepted == nil {
		s.accepted = &types.BlockInfo{Hash: m.PrevInfo.Hash, No: m.PrevInfo.No}
	}
	code := "ok"
	if s.plan.sc != nil {
		code = at(s.plan.sc.Hash, s.nHash)
	}
	s.nHash++
	prev, cnt := m.PrevInfo.No, m.Count
	mk := func(c *mchain, from, n uint64) []message.BlockHash {
		var hs []message.BlockHash
		for i := from; i < from+n && i < uint64(len(c.blocks)); i++ {
			hs = append(hs, c.blocks[i].GetHash())
		}
		return hs
	}
	var truth *message.GetHashesRsp
	if !s.remote.has(prev, m.PrevInfo.Hash) || prev >= s.remote.best() {
		truth = &message.GetHashesRsp{Seq: m.Seq, PrevInfo: m.PrevInfo, Err: message.RemotePeerFailError}
	} else {
		hs := mk(s.remote, prev+1, cnt)
		truth = &message.GetHashesRsp{Seq: m.Seq, PrevInfo: m.PrevInfo, Hashes: hs, Count: uint64(len(hs))}
	}
	d := r.baseDelay(s, "hash", prev)
	send := func(x *message.GetHashesRsp, d time.Duration) { r.reply(s, d, x, "GetHashesRsp") }
	if truth.Err != nil && code != "silent" && code != "late" {
		code = "ok" // nothing to corrupt
	}
	// position of a fork switch inside the requested list (index j>=1 so that hashes[j-1] is remote)
	forkList := func(edge bool) []message.BlockHash {
		hs := append([]message.BlockHash{}, truth.Hashes...)
		br := uint64(r.sc.BlockReq)
		var cands []int
		for j := 0; j < len(hs); j++ {
			no := prev + 1 + uint64(j)
			sideH := s.side.hashAt(no)
			if sideH == nil || bytes.Equal(sideH, hs[j]) {
				continue
			}
			// unlinked at j: side[no].prev != hash of position j-1 (remote[no-1])
			if bytes.Equal(s.side.blocks[no].GetHeader().GetPrevBlockHash(), s.remote.hashAt(no-1)) {
				continue
			}
			isEdge := uint64(j)%br == 0
			if isEdge == edge {
				cands = append(cands, j)
			}
		}
		if len(cands) == 0 {
			return nil
		}
		j := cands[int(h64(r.sc.Seed, "forkpos", prev)%uint64(len(cands)))]
		for k := j; k < len(hs); k++ {
			hs[k] = s.side.hashAt(prev + 1 + uint64(k))
		}
		return hs
	}
	switch code {
	case "ok":
		send(truth, d)
	case "slow":
		send(truth, slowDelay)
	case "late":
		send(truth, hashTimeout+150*time.Millisecond)
	case "silent":
	case "dup":
		c := *truth
		r.reply(s, d, truth, "GetHashesRsp", &c)
	case "err":
		send(&message.GetHashesRsp{Seq: m.Seq, PrevInfo: m.PrevInfo, Err: message.RemotePeerFailError}, d)
	case "few":
		if len(truth.Hashes) > 1 {
			hs := truth.Hashes[:len(truth.Hashes)-1]
			send(&message.GetHashesRsp{Seq: m.Seq, PrevInfo: m.PrevInfo, Hashes: hs, Count: uint64(len(hs))}, d)
		} else {
			code = "ok"
			send(truth, d)
		}
	case "many":
		hs := mk(s.remote, prev+1, cnt+1)
		// claims the requested count but carries one more hash
		send(&message.GetHashesRsp{Seq: m.Seq, PrevInfo: m.PrevInfo, Hashes: hs, Count: cnt}, d)
	case "manycount":
		hs := mk(s.remote, prev+1, cnt+1)
		send(&message.GetHashesRsp{Seq: m.Seq, PrevInfo: m.PrevInfo, Hashes: hs, Count: uint64(len(hs))}, d)
	case "prev":
		pi := &types.BlockInfo{Hash: s.remote.hashAt(prev + 1), No: prev + 1}
		hs := mk(s.remote, prev+2, cnt)
		send(&message.GetHashesRsp{Seq: m.Seq, PrevInfo: pi, Hashes: hs, Count: uint64(len(hs))}, d)
	case "empty":
		send(&message.GetHashesRsp{Seq: m.Seq, PrevInfo: m.PrevInfo, Hashes: nil, Count: 0}, d)
	case "midfork", "edgefork":
		hs := forkList(code == "edgefork")
		if hs == nil {
			code = "ok"
			send(truth, d)
		} else {
			s.hashLied = true
			if code == "edgefork" {
				s.edgeLie = true
			}
			send(&message.GetHashesRsp{Seq: m.Seq, PrevInfo: m.PrevInfo, Hashes: hs, Count: uint64(len(hs))}, d)
		}
	}
	s.use("hash:" + code)
	r.mu.Unlock()
}

func (r *rig) peerIdx(id types.PeerID) int {
	for i, p := range r.peers {
		if p == id {
			return i
		}
	}
	return -1
}

func (r *rig) onGetBlockChunks(s *session, m *message.GetBlockChunks) {
	r.mu.Lock()
	defer r.mu.Unlock()
	p := r.peerIdx(m.ToWhom)
	if p < 0 {
		r.reply(s, 0, &message.GetBlockChunksRsp{Seq: m.Seq, ToWhom: m.ToWhom, Err: message.PeerNotFoundError}, "GetBlockChunksRsp")
		return
	}
	if s.nBlk == nil {
		s.nBlk = make([]int, len(r.peers))
	}
	code := "ok"
	if sc := s.plan.sc; sc != nil {
		if p < len(sc.Blk) && s.nBlk[p] < len(sc.Blk[p]) {
			code = at(sc.Blk[p], s.nBlk[p])
		} else if p < len(sc.BlkForever) {
			code = at(sc.BlkForever, p)
		}
	}
	s.nBlk[p]++
	var blocks []*types.Block
	var lookupErr error
	for _, h := range m.Hashes {
		b := r.store[string(h)]
		if b == nil {
			lookupErr = message.MissingHashError
			break
		}
		blocks = append(blocks, b)
	}
	truth := &message.GetBlockChunksRsp{Seq: m.Seq, ToWhom: m.ToWhom, Blocks: blocks, Err: lookupErr}
	if lookupErr != nil {
		truth.Blocks = nil
		if code != "silent" {
			code = "ok"
		}
	}
	firstNo := uint64(0)
	if len(blocks) > 0 {
		firstNo = blocks[0].GetHeader().GetBlockNo()
	}
	d := r.baseDelay(s, "blk", firstNo)
	send := func(x *message.GetBlockChunksRsp, d time.Duration) { r.reply(s, d, x, "GetBlockChunksRsp") }
	mkRsp := func(bs []*types.Block) *message.GetBlockChunksRsp {
		return &message.GetBlockChunksRsp{Seq: m.Seq, ToWhom: m.ToWhom, Blocks: bs}
	}
	forge := func(idx int) []*types.Block {
		bs := append([]*types.Block{}, blocks...)
		c := proto.Clone(bs[idx]).(*types.Block)
		c.Header.PrevBlockHash = bytes.Repeat([]byte{0xcc}, 32)
		bs[idx] = c
		return bs
	}
	n := len(blocks)
	switch code {
	case "ok":
		send(truth, d)
	case "slow":
		send(truth, slowDelay)
	case "late":
		send(truth, lateDelay)
	case "silent":
	case "err":
		send(&message.GetBlockChunksRsp{Seq: m.Seq, ToWhom: m.ToWhom, Err: message.RemotePeerFailError}, d)
	case "dup":
		c := *truth
		r.reply(s, d, truth, "GetBlockChunksRsp", &c)
	case "empty":
		send(mkRsp(nil), d)
	case "few":
		if n > 1 {
			send(mkRsp(blocks[:n-1]), d)
		} else {
			send(mkRsp(nil), d)
		}
	case "many":
		bs := append([]*types.Block{}, blocks...)
		last := blocks[n-1].GetHeader().GetBlockNo()
		if nb := s.remote.blocks; last+1 < uint64(len(nb)) {
			bs = append(bs, nb[last+1])
		} else {
			bs = append(bs, blocks[n-1])
		}
		send(mkRsp(bs), d)
	case "range": // blocks of other heights (wrong-height answer)
		var bs []*types.Block
		for i := 0; i < n; i++ {
			no := firstNo + uint64(n+i)
			if no >= uint64(len(s.remote.blocks)) {
				no = uint64(1 + i%len(s.remote.blocks))
				if no >= uint64(len(s.remote.blocks)) {
					no = 0
				}
			}
			bs = append(bs, s.remote.blocks[no])
		}
		send(mkRsp(bs), d)
	case "fork": // same heights on the adversary's side chain
		var bs []*types.Block
		for i := 0; i < n; i++ {
			no := firstNo + uint64(i)
			if no < uint64(len(s.side.blocks)) {
				bs = append(bs, s.side.blocks[no])
			}
		}
		send(mkRsp(bs), d)
	case "unlinked": // requested hashes announced, but a non-first block does not point to its predecessor
		if n >= 2 {
			s.forged = true
			send(mkRsp(forge(1+int(h64(r.sc.Seed, "forge", firstNo)%uint64(n-1)))), d)
		} else {
			code = "err"
			send(&message.GetBlockChunksRsp{Seq: m.Seq, ToWhom: m.ToWhom, Err: message.RemotePeerFailError}, d)
		}
	case "forgefirst":
		s.forged, s.forgedFirst = true, true
		send(mkRsp(forge(0)), d)
	}
	s.use("blk:" + code)
}

func (r *rig) onAddBlock(s *session, m *message.AddBlock) {
	r.mu.Lock()
	defer r.mu.Unlock()
	b := m.Block
	s.deliv = append(s.deliv, delivery{no: b.GetHeader().GetBlockNo(), hash: b.GetHash(), prev: b.GetHeader().GetPrevBlockHash(), blk: b})
	code := "ok"
	if s.plan.sc != nil {
		code = at(s.plan.sc.Add, s.nAdd)
	}
	s.nAdd++
	s.use("add:" + code)
	send := func(x *message.AddBlockRsp, d time.Duration) { r.reply(s, d, x, "AddBlockRsp") }
	if code == "err" {
		send(&message.AddBlockRsp{BlockNo: b.GetHeader().GetBlockNo(), BlockHash: b.GetHash(), Err: errChain}, 0)
		return
	}
	err := r.local.connect(b)
	rsp := &message.AddBlockRsp{BlockNo: b.GetHeader().GetBlockNo(), BlockHash: b.GetHash(), Err: err}
	switch code {
	case "ok":
		send(rsp, 0)
	case "slow":
		send(rsp, slowDelay)
	case "dup":
		c := *rsp
		r.reply(s, 0, rsp, "AddBlockRsp", &c)
	case "wronghash":
		send(&message.AddBlockRsp{BlockNo: rsp.BlockNo, BlockHash: bytes.Repeat([]byte{0xab}, 32), Err: err}, 0)
	}
}

// ---- stale (previous sequence number) messages -------------------------------------------------

// poison is called (r.mu held) for every outbound message of a follow-up session that has the
// stale monitor on; it returns messages carrying the PREVIOUS sequence number, tailored to hurt
// at this very moment if the sequence check were missing, plus recorded messages of the
// previous session.
func (r *rig) poison(s *session, m interface{}) []interface{} {
	old := s.seq - 1
	if s.poisoned == nil {
		s.poisoned = map[string]int{}
	}
	var out []interface{}
	add := func(kind string, x interface{}) {
		s.poisoned[kind]++
		s.events = append(s.events, event{Step: s.outSteps, Dir: "in", Kind: "STALE " + kind, Seq: old, Info: describe(x)})
		out = append(out, x)
	}
	if r.sc.Class == "stale-addrsp" {
		// a chain-service answer to the previous session's last AddBlock arrives now (it has no sequence number)
		if _, ok := m.(*message.GetBlockChunks); ok && s.poisoned["AddBlockRsp(no seq)"] == 0 {
			add("AddBlockRsp(no seq)", &message.AddBlockRsp{BlockNo: 1, BlockHash: s.remote.hashAt(1)})
		}
		return out
	}
	sel := func(label string, mod uint64) bool { return h64(r.sc.Seed, "poison", label, s.outSteps)%mod == 0 }
	switch x := m.(type) {
	case *message.GetAnchors:
		add("FinderResult", &message.FinderResult{Seq: old, Ancestor: &types.BlockInfo{Hash: s.local0.hashAt(0), No: 0}})
	case *message.GetSyncAncestor:
		if sel("anc", 2) {
			add("GetSyncAncestorRsp", &message.GetSyncAncestorRsp{Seq: old, Ancestor: nil})
		} else {
			add("GetSyncAncestorRsp", &message.GetSyncAncestorRsp{Seq: old, Ancestor: &types.BlockInfo{Hash: s.local0.hashAt(s.local0.best()), No: s.local0.best()}})
		}
	case *message.GetHashByNo:
		if s.nHno == 0 && sel("fr", 2) {
			add("FinderResult", &message.FinderResult{Seq: old, Ancestor: &types.BlockInfo{Hash: s.local0.hashAt(0), No: 0}})
		}
		if sel("hno", 2) {
			add("GetHashByNoRsp", &message.GetHashByNoRsp{Seq: old, BlockHash: bytes.Repeat([]byte{0x11}, 32)})
		} else if sel("hno2", 2) {
			add("GetHashByNoRsp", &message.GetHashByNoRsp{Seq: old, Err: message.RemotePeerFailError})
		}
	case *message.GetHashes:
		switch h64(r.sc.Seed, "poison-hash", s.outSteps) % 3 {
		case 0:
			add("GetHashesRsp", &message.GetHashesRsp{Seq: old, PrevInfo: x.PrevInfo, Err: message.RemotePeerFailError})
		case 1:
			var hs []message.BlockHash
			for i := uint64(0); i < x.Count; i++ {
				hs = append(hs, bytes.Repeat([]byte{0x22, byte(i)}, 16))
			}
			add("GetHashesRsp", &message.GetHashesRsp{Seq: old, PrevInfo: x.PrevInfo, Hashes: hs, Count: x.Count})
		case 2:
			add("CloseFetcher", &message.CloseFetcher{Seq: old, FromWho: syncer.NameHashFetcher})
		}
	case *message.GetBlockChunks:
		for i := 0; i < 3; i++ {
			add("GetBlockChunksRsp", &message.GetBlockChunksRsp{Seq: old, ToWhom: x.ToWhom, Err: message.RemotePeerFailError})
		}
	case *message.AddBlock:
		switch h64(r.sc.Seed, "poison-add", s.outSteps) % 4 {
		case 0:
			add("SyncStop", &message.SyncStop{Seq: old, FromWho: "c17-stale", Err: errInjected})
		case 1:
			add("CloseFetcher", &message.CloseFetcher{Seq: old, FromWho: syncer.NameBlockFetcher})
		case 2:
			add("SyncStop", &message.SyncStop{Seq: old, FromWho: "c17-stale", Err: nil})
		}
	}
	// recorded messages of the previous session, a few per step
	for i := 0; i < 2 && len(s.plan.replay) > 0; i++ {
		x := s.plan.replay[0]
		s.plan.replay = s.plan.replay[1:]
		if seqOf(x) == old {
			add("replayed "+kindOf(x), x)
		}
	}
	return out
}

// ---- actor barrier / goroutine dump ----------------------------------------------------------------

// barrier returns true when the syncer actor answered a status request, i.e. has processed
// everything that was in its mailbox before.
func (r *rig) barrier(d time.Duration) bool {
	f := r.syn.RequestFuture(&component.CompStatReq{SentTime: time.Now()}, d, "c17")
	_, err := f.Result()
	return err == nil
}

// syncerGoroutines dumps the goroutines of package syncer; those that mention this rig's Syncer
// (receiver pointer in the frame arguments) come first.
func (r *rig) syncerGoroutines() string {
	buf := make([]byte, 8<<20)
	buf = buf[:runtime.Stack(buf, true)]
	ptr := fmt.Sprintf("%p", r.syn)
	all := strings.Split(string(buf), "\n\n")
	var mine, others []string
	for _, g := range all {
		if strings.Contains(g, "aergo/v2/syncer.") {
			if strings.Contains(g, ptr) {
				mine = append(mine, g)
			} else {
				others = append(others, g)
			}
		}
	}
	var keep []string
	for _, g := range append(mine, others...) {
		if strings.Contains(g, "aergo/v2/syncer.") {
			lines := strings.Split(g, "\n")
			if len(lines) > 18 {
				lines = lines[:18]
			}
			keep = append(keep, strings.Join(lines, "\n"))
		}
		if len(keep) >= 8 {
			break
		}
	}
	return strings.Join(keep, "\n\n")
}
