// C02 deterministic execution: same block + same prior state => same roots everywhere.
package main

import (
	"bytes"
	"math/big"
	"fmt"
	"os"
	"sync"

	"verif/h/rig"
	"verif/h/vf"
)

type caseDesc struct {
	Config   string   `json:"config"`
	Block    uint64   `json:"block"`
	Version  int32    `json:"version"`
	Mix      string   `json:"mix"`
	Txs      []string `json:"txs"`
	Statuses []string `json:"statuses"`
	Root     string   `json:"root"`
}

var mixes = map[string][]string{
	"default": nil,
	"gov": {"stake", "stake", "votebp", "votebp", "votebp", "votedao", "votedao", "xfer", "name", "name-update", "votebp-nostake", "unstake"},
	"wide": {"xfer", "xfer-new", "xfer", "xfer-zero"},
	"ties":     {"stake", "stake", "votedao", "votedao", "votedao", "xfer"},
	"contract": {"deploy", "call-inc", "call-inc", "call-pay", "call-payfail", "call-fail", "call-guarded", "call-nested", "call-nestfail", "call-default", "feedeleg", "xfer"},
}

func main() {
	if len(os.Args) > 1 && os.Args[1] == "node" {
		rig.ChildMain()
		return
	}
	c := vf.Start("C02", "exploration")
	type cfg struct {
		name   string
		public bool
		vault  bool // fund aergo.vault so that the per-block voting reward is paid
	}
	cfgs := []cfg{{"pub", true, false}, {"priv", false, false}, {"pub-vault", true, true}}
	nblocks := c.Pick(16, 40)
	nval := c.Pick(3, 8)
	seeds := c.Pick(1, 3)
	var wg sync.WaitGroup
	sem := make(chan struct{}, c.Pick(2, 4))
	for s := 0; s < seeds; s++ {
		for _, cf := range cfgs {
			wg.Add(1)
			sem <- struct{}{}
			go func(name string, public, vault bool, s int) {
				defer wg.Done()
				defer func() { <-sem }()
				run(c, fmt.Sprintf("%s-s%d", name, s), public, vault, nblocks, nval)
			}(cf.name, cf.public, cf.vault, s)
		}
	}
	wg.Wait()
	c.Finish("a chain is produced block by block (real producer path) from seeded mixes incl. several governance txs on the same tallies, >=64 accounts touched in one block and contracts; every block is (1) re-produced from the same candidate list by each validator process before it sees the block and (2) re-executed by R fresh validator processes with GOMAXPROCS 1/2/4/16 (each process re-randomises map iteration); a case = one block; non-trivial = block with >=1 tx for which state root, raw stored receipts bytes and receipts root were compared across all processes; distinct = hash(config, txs, statuses)",
		c.Pick(20, 80),
		"producer-only candidate lists bypass the mempool (signatures are checked by the validators)",
		"the property's static scan for wall-clock/unseeded randomness is not an execution and is not performed")
}

func run(c *vf.Ctx, name string, public, vault bool, nblocks, nval int) {
	w := rig.NewWorld(name, c.Scratch(), rig.WorldOpts{Public: public, NAccts: 70})
	cb := rig.NewAcct(name+"/cb", 0)
	w.Tmpl.Coinbase = cb.B58()
	gmp := []string{"1", "16", "4", "2", "8", "3", "16", "1"}
	w.NodeEnv = map[string][]string{}
	for i := 0; i < nval; i++ {
		w.NodeEnv[fmt.Sprintf("val%d", i)] = []string{"GOMAXPROCS=" + gmp[i%len(gmp)]}
	}
	defer w.CloseAll()
	prod, _, err := w.Node("prod", nil)
	if err != nil {
		c.Inconclusive("start producer: " + err.Error())
		return
	}
	var vals []*rig.Client
	for i := 0; i < nval; i++ {
		v, _, err := w.Node(fmt.Sprintf("val%d", i), nil)
		if err != nil {
			c.Inconclusive("start validator: " + err.Error())
			return
		}
		vals = append(vals, v)
	}
	// second, independent producer: builds AND connects the same candidate lists
	prod2, _, err := w.Node("prod2", nil)
	if err != nil {
		c.Inconclusive("start producer 2: " + err.Error())
		return
	}
	// node D: validator that additionally runs a block production that is then discarded
	// (what the block factory does when its block turns out stale) before validating the block
	dnode, _, err := w.Node("discard", nil)
	if err != nil {
		c.Inconclusive("start discard node: " + err.Error())
		return
	}
	dAlive := true
	g := rig.NewGen(w, c.Rand("gen/"+name))
	g.MaxAcct = len(w.Accts) - 1 // the last account is the scenario's own (vault funding)
	r := c.Rand("mix/" + name)
	mixNames := []string{"default", "gov", "wide", "contract", "ties", "gov", "ties"}
	for no := uint64(1); no <= uint64(nblocks); no++ {
		mix := mixNames[r.Intn(len(mixNames))]
		if no%4 == 3 {
			mix = "ties" // a fixed share of blocks with equal stakes and competing parameter candidates
		}
		if vault && no <= 4 {
			mix = "gov" // voters first: the reward goes to a voter picked from the voting-power ranking
		}
		g.Kinds = mixes[mix]
		g.Ties = mix == "ties"
		ntx := 6 + r.Intn(20)
		if mix == "wide" {
			ntx = 70 + r.Intn(30)
		}
		best, _ := prod.Best()
		ts := best.TS + 1e9
		st := &rig.Step{No: no, Cands: g.Block(no, ntx)}
		if vault && no == 1 {
			last := w.Accts[len(w.Accts)-1]
			ftx := rig.TxSpec{Type: 4, From: last, To: []byte("aergo.vault"), Amount: new(big.Int).Mul(big.NewInt(5000), rig.Aergo), Nonce: 1,
				ChainID: w.CIDHash(no), GasPrice: big.NewInt(50000000000)}.Build()
			st.Cands = append([]*rig.GTx{{Desc: "fund-vault", Kind: "xfer", From: len(w.Accts) - 1, Tx: ftx, Expect: "ok"}}, st.Cands...)
		}
		for _, x := range st.Cands {
			st.Descs = append(st.Descs, x.Desc)
		}
		txs := st.TxBytes()
		// every fourth block the production slot runs out while the k-th candidate is being executed: what was
		// executed is in the block, nothing else (both producers stop at the same candidate)
		deadlineAt := 0
		if no%4 == 1 && len(txs) > 1 {
			deadlineAt = 1 + r.Intn(len(txs))
			c.Count("blocks_cut_by_the_production_deadline", 1)
		}
		rsp, err := prod.Produce(&rig.ProduceReq{Txs: txs, TS: ts, Connect: true, Confirms: -1, SignKey: 0, DeadlineAtTx: deadlineAt})
		c.Eval(1)
		if vault && rsp != nil && len(rsp.Consensus) > 0 {
			c.Count("blocks_with_voting_reward_winner", 1)
		}
		if err != nil {
			c.Violation("producer-died", fmt.Sprintf("%s block %d: %v", name, no, err), caseDesc{Config: name, Block: no, Txs: st.Descs})
			return
		}
		st.Rsp = rsp
		if bad := st.Bad(); bad != "" {
			c.Inconclusive(fmt.Sprintf("%s block %d: %.300s", name, no, bad))
			return
		}
		for _, rc := range rsp.Receipts {
			st.Status = append(st.Status, rc.Status)
		}
		g.Applied(st.Cands, rsp.Included, st.Status)
		cd := caseDesc{Config: name, Block: no, Version: w.Version(no), Mix: mix, Txs: st.Descs, Statuses: st.Status, Root: rig.Hx(rsp.Root)}
		c.Count("blocks/"+mix, 1)
		c.Count("txs_included", len(rsp.Included))
		pStored, _ := prod.StoredReceipts(rsp.Hash, no)
		if len(rsp.Included) > 0 && (pStored.Err != "" || !bytes.Equal(pStored.Bytes, rsp.RcptBytes)) {
			c.Violation("producer-stored-receipts-differ", fmt.Sprintf("%s block %d: receipts the producer stored differ from the ones it executed (%s)", name, no, pStored.Err), cd)
		}
		// (1) second producer from the same parent and candidate list: must build the identical block
		r2, err := prod2.Produce(&rig.ProduceReq{Txs: txs, TS: ts, Connect: true, Confirms: -1, SignKey: 0, DeadlineAtTx: deadlineAt})
		if err != nil {
			c.Violation("producer2-died", fmt.Sprintf("%s block %d: %v", name, no, err), cd)
			return
		}
		c.Count("reproductions", 1)
		if r2.Panic != "" || r2.GenErr != "" || r2.AddErr != "" {
			c.Violation("reproduce-failed", fmt.Sprintf("%s block %d: second producer failed on the same candidate list: %.300s %s %s", name, no, r2.Panic, r2.GenErr, r2.AddErr), cd)
			return
		}
		if !bytes.Equal(r2.Root, rsp.Root) {
			c.Violation("producer-root-differs/"+mix, fmt.Sprintf("%s block %d (%s): two producers executing the same candidate list on the same parent give state roots %x vs %x", name, no, mix, rsp.Root, r2.Root), cd)
		}
		if !bytes.Equal(r2.RcptBytes, rsp.RcptBytes) || !bytes.Equal(r2.RcptRoot, rsp.RcptRoot) {
			c.Violation("producer-receipts-differ/"+mix, fmt.Sprintf("%s block %d (%s): two producers give different receipts (root %x vs %x): %s", name, no, mix, rsp.RcptRoot, r2.RcptRoot, firstDiff(rsp.RcptBytes, r2.RcptBytes)), cd)
		}
		if !bytes.Equal(r2.Hash, rsp.Hash) {
			c.Violation("producer-block-differs/"+mix, fmt.Sprintf("%s block %d: block ids %x vs %x (included %d vs %d)", name, no, rsp.Hash, r2.Hash, len(rsp.Included), len(r2.Included)), cd)
			return
		}
		for vi, v := range vals {
			// (2) validation path
			ve, err := v.AddBlock(rsp.Block)
			if err != nil {
				c.Violation("validator-died", fmt.Sprintf("%s block %d val%d: %v", name, no, vi, err), cd)
				return
			}
			c.Count("validations", 1)
			if ve != "" {
				c.Violation("produced-block-rejected/"+mix, fmt.Sprintf("%s block %d (%s, v%d): block built by the production path is rejected by validator %d (GOMAXPROCS=%s): %s", name, no, mix, w.Version(no), vi, gmp[vi%len(gmp)], ve), cd)
				return
			}
			bi, _ := v.Best()
			if !bytes.Equal(bi.Hash, rsp.Hash) || !bytes.Equal(bi.SdbRoot, rsp.Root) {
				c.Violation("validator-root-differs/"+mix, fmt.Sprintf("%s block %d: validator %d best %x sdb root %x, producer block %x root %x", name, no, vi, bi.Hash, bi.SdbRoot, rsp.Hash, rsp.Root), cd)
			}
			if len(rsp.Included) > 0 {
				vs, _ := v.StoredReceipts(rsp.Hash, no)
				if vs.Err != "" || !bytes.Equal(vs.Bytes, rsp.RcptBytes) || !bytes.Equal(vs.Root, rsp.RcptRoot) {
					c.Violation("stored-receipts-differ/"+mix, fmt.Sprintf("%s block %d: receipts differ between producer and validator %d (%s): %s", name, no, vi, vs.Err, firstDiff(rsp.RcptBytes, vs.Bytes)), cd)
				}
				c.Count("receipt_bytes_compared", len(vs.Bytes))
			}
		}
		// (3) repetition on ONE node: a production run whose block is discarded, then validation of the block
		if dAlive {
			d1, err := dnode.Produce(&rig.ProduceReq{Txs: txs, TS: ts, Connect: false, Confirms: -1, SignKey: 0, DeadlineAtTx: deadlineAt})
			if err != nil {
				c.Violation("discard-node-died", fmt.Sprintf("%s block %d: %v", name, no, err), cd)
				dAlive = false
			} else {
				c.Count("discarded_productions", 1)
				if d1.Panic == "" && d1.GenErr == "" && !bytes.Equal(d1.Root, rsp.Root) {
					c.Violation("repeat-production-root-differs/"+mix, fmt.Sprintf("%s block %d: node that only validated so far produces root %x from the same list, producer %x", name, no, d1.Root, rsp.Root), cd)
				}
				ve, err := dnode.AddBlock(rsp.Block)
				if err != nil {
					c.Violation("discard-node-died", fmt.Sprintf("%s block %d: %v", name, no, err), cd)
					dAlive = false
				} else if ve != "" {
					c.Violation("block-rejected-after-discarded-production", fmt.Sprintf("%s block %d (%s, v%d): a node that ran block production on this candidate list and discarded the result (as the block factory does for a stale block) afterwards rejects the very same block that every other validator accepts: %s", name, no, mix, w.Version(no), ve), cd)
					dAlive = false
				}
			}
		}
		if len(rsp.Included) > 0 {
			c.Nontrivial(fmt.Sprintf("%s|%v|%v", name, st.Descs, st.Status))
			c.Sample(cd)
			c.Count("roots_compared", 2*len(vals)+2)
		}
	}
}

func firstDiff(a, b []byte) string {
	n := len(a)
	if len(b) < n {
		n = len(b)
	}
	for i := 0; i < n; i++ {
		if a[i] != b[i] {
			lo, hi := i-40, i+24
			if lo < 0 {
				lo = 0
			}
			if hi > n {
				hi = n
			}
			return fmt.Sprintf("first difference at offset %d: producer ...%q validator ...%q", i, a[lo:hi], b[lo:hi])
		}
	}
	return "one is a prefix of the other"
}
