// C12 — state snapshots: reverting restores exactly the earlier visible state.
//
// Real code under observation: statedb.StateDB / ContractState (Snapshot, Rollback, PutState,
// SetData, DeleteData, StageContractState, Update, Commit), state.BlockState.Snapshot/Rollback and
// the state.AccountState.PutState path, all over an in-memory store.  Oracle: a naive model with an
// explicit stack of deep-copied snapshots (model.go), a fresh StateDB on a fresh store fed only the
// surviving writes (state root), a StateDB reopened at the committed root, and a raw scan of the
// store for uniquely tagged values whose write was reverted.
package main

import (
	"fmt"
	"math/rand"
	"os"
	"path/filepath"
	"runtime"
	"runtime/debug"
	"runtime/pprof"
	"strings"
	"sync"
	"sync/atomic"
	"time"

	"verif/h/vf"
)

type Case struct {
	Level  string `json:"level"` // "S" statedb.StateDB, "B" state.BlockState
	NA     int    `json:"accounts"`
	NK     int    `json:"keys"`
	Nest   int    `json:"nest"`
	IDSeed int64  `json:"id_seed"`
	Ops    []Op   `json:"ops"`
	Text   string `json:"text,omitempty"`
}

const workers = 16

var failures int64 // failing cases seen (enumeration stops early when a changed tree fails everywhere)

const maxFailures = 400

func trimStack(s string) string {
	lines := strings.Split(s, "\n")
	out := []string{}
	for _, l := range lines {
		if strings.Contains(l, "aergoio/aergo/v2") || strings.Contains(l, vf.RepoDir()+"/") {
			out = append(out, strings.TrimSpace(l))
		}
		if len(out) >= 12 {
			break
		}
	}
	return strings.Join(out, "\n")
}

var uniMu sync.Mutex
var unis = map[[3]int64]*universe{}

func getUniverse(seed int64, na, nk int) *universe {
	uniMu.Lock()
	defer uniMu.Unlock()
	k := [3]int64{seed, int64(na), int64(nk)}
	if u, ok := unis[k]; ok {
		return u
	}
	u := newUniverse(seed, na, nk)
	unis[k] = u
	return u
}

// runCase executes the sequence against the real code next to the model; with checkAll the oracle
// runs after every op, otherwise only after the last one (its prefixes are cases of their own).
func runCase(cs *Case, u *universe, checkAll bool, st *stats) (f *failure, m *model) {
	if u == nil {
		u = getUniverse(cs.IDSeed, cs.NA, cs.NK)
	}
	r := newRun(cs.Level[0], u, cs.Nest, st)
	m = r.m
	defer r.release()
	defer func() {
		if p := recover(); p != nil {
			f = &failure{key: fmt.Sprintf("%c/panic/after-%s", r.level, r.lastOp),
				desc: fmt.Sprintf("panic in the code under test: %v\n%s", p, trimStack(string(debug.Stack())))}
		}
	}()
	for i, op := range cs.Ops {
		r.step(op, checkAll || i == len(cs.Ops)-1)
		if r.fail != nil {
			return r.fail, m
		}
	}
	return nil, m
}

func report(c *vf.Ctx, cs *Case, f *failure) {
	atomic.AddInt64(&failures, 1)
	cc := *cs
	cc.Ops = append([]Op(nil), cs.Ops...)
	cc.Text = opsString(cc.Ops)
	desc := f.desc
	if len(cc.Text) < 600 {
		desc = "sequence: " + cc.Text + "\n" + desc
	}
	c.Violation(f.key, desc, &cc)
}

// ---------------- exhaustive ----------------

func alphabet(m *model, nest int, exhaustive bool) []Op {
	var out []Op
	add := func(o Op) {
		if m.enabled(o, nest) {
			out = append(out, o)
		}
	}
	for a := 0; a < m.na; a++ {
		add(Op{K: "put", A: a})
	}
	for a := 0; a < m.na; a++ {
		for k := 0; k < m.nk; k++ {
			add(Op{K: "set", A: a, Key: k})
			add(Op{K: "del", A: a, Key: k})
		}
		add(Op{K: "stage", A: a})
	}
	add(Op{K: "snap"})
	for i := range m.main {
		add(Op{K: "rb", I: i})
	}
	if m.level == 'S' {
		for a := 0; a < m.na; a++ {
			add(Op{K: "cssnap", A: a})
			if o := m.obj[a]; o != nil {
				for i := range o.cs {
					add(Op{K: "csrb", A: a, I: i})
				}
			}
		}
	}
	add(Op{K: "update"})
	add(Op{K: "commit"})
	if m.sinceOpen > 0 {
		add(Op{K: "reopen"})
	}
	return out
}

type exhResult struct {
	Level     string         `json:"level"`
	FullLen   int            `json:"all_sequences_up_to_len"`
	MaxLen    int            `json:"one_per_renaming_class_up_to_len"`
	Accounts  int            `json:"accounts"`
	Keys      int            `json:"keys"`
	Nest      int            `json:"max_nesting"`
	Sequences int64          `json:"sequences_checked"`
	PerLen    map[string]int `json:"sequences_per_length"`
	WithRb    int64          `json:"sequences_with_nonvacuous_rollback"`
	Complete  bool           `json:"complete"`
	Alphabet  string         `json:"alphabet"`
}

func dryFrom(level byte, u *universe, nest int, ops []Op) *run {
	r := &run{level: level, u: u, nest: nest, dry: true, st: nil}
	r.m = newModel(level, len(u.ids), len(u.keys))
	for _, o := range ops {
		r.step(o, false)
	}
	return r
}

// canonical: accounts and keys are first mentioned in index order (representative of the class of
// sequences equal up to renaming accounts / keys).
func canonical(ops []Op) bool {
	sa, sk := 0, 0
	for _, o := range ops {
		switch o.K {
		case "put", "set", "del", "stage", "cssnap", "csrb", "open", "drop":
			if o.A > sa {
				return false
			}
			if o.A == sa {
				sa++
			}
		}
		if o.K == "set" || o.K == "del" {
			if o.Key > sk {
				return false
			}
			if o.Key == sk {
				sk++
			}
		}
	}
	return true
}

// exhaustive: every valid sequence of length <= fullLen, and for fullLen < length <= maxLen one
// representative per renaming class (canonical sequences).
func exhaustive(c *vf.Ctx, level byte, fullLen, maxLen, na, nk, nest int, total *stats) {
	countOnly := os.Getenv("C12_COUNT") != ""
	u := getUniverse(c.Seed, na, nk)
	const split = 2
	tasks := make(chan []Op, 1024)
	var wg sync.WaitGroup
	var mu sync.Mutex
	perLen := map[string]int{}
	var nseq, nrb int64
	stop := func() bool { return atomic.LoadInt64(&failures) >= maxFailures }

	visit := func(ops []Op, st *stats, local map[int]int) {
		if countOnly {
			local[len(ops)]++
			return
		}
		cs := &Case{Level: string(level), NA: na, NK: nk, Nest: nest, IDSeed: c.Seed, Ops: ops}
		f, m := runCase(cs, u, false, st)
		st.seqs++
		local[len(ops)]++
		if f != nil {
			report(c, cs, f)
			return
		}
		if m.reverted > 0 {
			atomic.AddInt64(&nrb, 1)
			if len(ops) <= 5 {
				c.Nontrivial(string(level) + ":" + opsString(ops))
			}
		}
		if m.dropped > 0 {
			st.dropped++
		}
		st.deadTags += len(m.dead)
		if m.maxNest > st.maxNest {
			st.maxNest = m.maxNest
		}
	}

	var dfs func(d *run, ops []Op, st *stats, local map[int]int, top bool)
	dfs = func(d *run, ops []Op, st *stats, local map[int]int, top bool) {
		if stop() {
			return
		}
		if len(ops) >= fullLen && maxLen > fullLen && !canonical(ops) {
			if len(ops) == fullLen && !(top && len(ops) == split) {
				visit(ops, st, local)
			}
			return
		}
		if len(ops) > 0 && !(top && len(ops) == split) {
			visit(ops, st, local)
		}
		if len(ops) >= maxLen {
			return
		}
		if top && len(ops) == split {
			tasks <- append([]Op(nil), ops...)
			return
		}
		for _, o := range alphabet(d.m, nest, true) {
			n := &run{level: level, u: u, nest: nest, dry: true, m: d.m.clone()}
			n.step(o, false)
			dfs(n, append(ops[:len(ops):len(ops)], o), st, local, top)
		}
	}

	merge := func(st *stats, local map[int]int) {
		mu.Lock()
		total.merge(st)
		for l, n := range local {
			perLen[fmt.Sprint(l)] += n
			nseq += int64(n)
			c.Eval(n)
		}
		mu.Unlock()
	}

	for w := 0; w < workers; w++ {
		wg.Add(1)
		go func() {
			defer wg.Done()
			st, local := newStats(), map[int]int{}
			for p := range tasks {
				dfs(dryFrom(level, u, nest, p), p, st, local, false)
			}
			merge(st, local)
		}()
	}
	st, local := newStats(), map[int]int{}
	dfs(dryFrom(level, u, nest, nil), nil, st, local, maxLen > split)
	close(tasks)
	wg.Wait()
	merge(st, local)

	res := exhResult{Level: string(level), FullLen: fullLen, MaxLen: maxLen, Accounts: na, Keys: nk, Nest: nest, Sequences: nseq,
		PerLen: perLen, WithRb: nrb, Complete: !stop(),
		Alphabet: "put(a) set(c,k) del(c,k) stage(c) snap rb(any earlier) update commit(=update+commit) reopen"}
	if level == 'S' {
		res.Alphabet += " cssnap(c) csrb(c, any earlier)"
	}
	c.Set("exhaustive_"+string(level), res)
	fmt.Printf("  per length: %v\n", perLen)
	fmt.Printf("exhaustive level=%c len<=%d sequences=%d with-nonvacuous-rollback=%d t=%.1fs\n", level, maxLen, nseq, nrb, time.Since(t0).Seconds())
}

func (t *stats) merge(s *stats) {
	for k, v := range s.ops {
		t.ops[k] += v
	}
	t.checks += s.checks
	t.reads += s.reads
	t.rootCmp += s.rootCmp
	t.reopenCmp += s.reopenCmp
	t.rawScans += s.rawScans
	t.rawVals += s.rawVals
	t.rawTagged += s.rawTagged
	t.replayRootCmp += s.replayRootCmp
	t.replayStoreCmp += s.replayStoreCmp
	t.replayStoreKeys += s.replayStoreKeys
	t.dropped += s.dropped
	t.deadTags += s.deadTags
	t.seqs += s.seqs
	if s.maxNest > t.maxNest {
		t.maxNest = s.maxNest
	}
	for r := range s.roots {
		if len(t.roots) < 500000 {
			t.roots[r] = struct{}{}
		}
	}
}

// ---------------- random ----------------

type profile struct {
	name string
	w    map[string]int
}

var profiles = []profile{
	{"balanced", map[string]int{"put": 14, "open": 4, "set": 22, "del": 8, "stage": 10, "drop": 2, "snap": 10, "rb": 8, "cssnap": 5, "csrb": 5, "update": 4, "commit": 3, "reopen": 1}},
	{"nesting", map[string]int{"put": 14, "open": 2, "set": 20, "del": 6, "stage": 8, "drop": 1, "snap": 18, "rb": 14, "cssnap": 8, "csrb": 8, "update": 1, "commit": 1, "reopen": 0}},
	{"staging", map[string]int{"put": 6, "open": 8, "set": 20, "del": 8, "stage": 18, "drop": 4, "snap": 12, "rb": 12, "cssnap": 3, "csrb": 3, "update": 3, "commit": 3, "reopen": 1}},
	{"commits", map[string]int{"put": 12, "open": 3, "set": 18, "del": 8, "stage": 10, "drop": 1, "snap": 8, "rb": 8, "cssnap": 3, "csrb": 3, "update": 10, "commit": 10, "reopen": 4}},
}

var kinds = []string{"put", "open", "set", "del", "stage", "drop", "snap", "rb", "cssnap", "csrb", "update", "commit", "reopen"}

func randomOp(m *model, rng *rand.Rand, p *profile, nest int) Op {
	tot := 0
	for _, k := range kinds {
		tot += p.w[k]
	}
	if m.updated {
		if rng.Intn(8) == 0 {
			return Op{K: "reopen"}
		}
		return Op{K: "commit"}
	}
	for try := 0; try < 200; try++ {
		x := rng.Intn(tot)
		var k string
		for _, kk := range kinds {
			if x < p.w[kk] {
				k = kk
				break
			}
			x -= p.w[kk]
		}
		o := Op{K: k}
		switch k {
		case "put", "open", "stage", "drop", "cssnap":
			o.A = rng.Intn(m.na)
			o.S = rng.Intn(2)
		case "set", "del":
			o.A = rng.Intn(m.na)
			o.Key = rng.Intn(m.nk)
			o.S = rng.Intn(2)
		case "rb":
			if len(m.main) == 0 {
				continue
			}
			// favour the innermost snapshots but reach every depth
			if rng.Intn(3) == 0 {
				o.I = rng.Intn(len(m.main))
			} else {
				o.I = len(m.main) - 1 - rng.Intn(min(2, len(m.main)))
			}
		case "csrb":
			o.A = rng.Intn(m.na)
			if m.level != 'S' || m.obj[o.A] == nil || len(m.obj[o.A].cs) == 0 {
				continue
			}
			o.I = rng.Intn(len(m.obj[o.A].cs))
		}
		if k == "put" || k == "open" || k == "cssnap" {
			o.S = 0
		}
		if m.enabled(o, nest) {
			return o
		}
	}
	return Op{K: "put", A: 0}
}

func randomPhase(c *vf.Ctx, level byte, nseq int, total *stats) {
	var wg sync.WaitGroup
	var mu sync.Mutex
	next := int64(-1)
	var nontriv int64
	for w := 0; w < workers; w++ {
		wg.Add(1)
		go func() {
			defer wg.Done()
			st := newStats()
			for {
				i := int(atomic.AddInt64(&next, 1))
				if i >= nseq || atomic.LoadInt64(&failures) >= maxFailures {
					break
				}
				rng := c.Rand(fmt.Sprintf("random-%c-%d", level, i))
				p := &profiles[i%len(profiles)]
				na, nk := 8, 16
				switch rng.Intn(4) {
				case 0:
					na, nk = 1+rng.Intn(3), 1+rng.Intn(3) // many same-key writes on both sides of snapshots
				case 1:
					na, nk = 2+rng.Intn(7), 2+rng.Intn(15)
				}
				nops := 20 + rng.Intn(181)
				cs := &Case{Level: string(level), NA: na, NK: nk, Nest: 6, IDSeed: c.Seed*1000 + int64(i%7)}
				f, m := runRandom(cs, rng, p, nops, st)
				c.Eval(len(cs.Ops))
				st.seqs++
				if f != nil {
					report(c, cs, f)
					continue
				}
				if m.reverted > 0 {
					atomic.AddInt64(&nontriv, 1)
					c.Nontrivial(fmt.Sprintf("random:%c:%d:%s", level, i, opsString(cs.Ops)))
				}
				if m.dropped > 0 {
					st.dropped += m.dropped
				}
				st.deadTags += len(m.dead)
				if m.maxNest > st.maxNest {
					st.maxNest = m.maxNest
				}
				if i < 2 {
					t := opsString(cs.Ops)
					if len(t) > 400 {
						t = t[:400] + " ..."
					}
					c.Sample(map[string]interface{}{"level": string(level), "profile": p.name, "accounts": na, "keys": nk,
						"ops": len(cs.Ops), "reverted_writes": m.reverted, "contracts_dropped": m.dropped, "max_nesting": m.maxNest, "prefix": t})
				}
			}
			mu.Lock()
			total.merge(st)
			mu.Unlock()
		}()
	}
	wg.Wait()
	c.Set("random_"+string(level), map[string]interface{}{"sequences": nseq, "with_nonvacuous_rollback": nontriv,
		"max_ops": 200, "accounts_max": 8, "keys_max": 16, "max_nesting": 6, "oracle": "after every op"})
	fmt.Printf("random level=%c sequences=%d with-nonvacuous-rollback=%d t=%.1fs\n", level, nseq, nontriv, time.Since(t0).Seconds())
}

func runRandom(cs *Case, rng *rand.Rand, p *profile, nops int, st *stats) (f *failure, m *model) {
	r := newRun(cs.Level[0], getUniverse(cs.IDSeed, cs.NA, cs.NK), cs.Nest, st)
	m = r.m
	defer r.release()
	defer func() {
		if p := recover(); p != nil {
			f = &failure{key: fmt.Sprintf("%c/panic/after-%s", r.level, r.lastOp),
				desc: fmt.Sprintf("panic in the code under test: %v\n%s", p, trimStack(string(debug.Stack())))}
		}
	}()
	for i := 0; i < nops; i++ {
		op := randomOp(r.m, rng, p, cs.Nest)
		cs.Ops = append(cs.Ops, op)
		r.step(op, true)
		if r.fail != nil {
			return r.fail, m
		}
	}
	return nil, m
}

var t0 = time.Now()
var ballast []byte

func main() {
	c := vf.Start("C12", "exploration")
	storeBase = filepath.Join(c.Scratch(), "stores")
	runtime.GOMAXPROCS(workers)
	// tiny live heap + very high allocation rate (trie batches, hashers): without help the collector
	// runs continuously. An untouched no-scan ballast makes a cycle start every ~ballast bytes.
	bal := 64
	if v := os.Getenv("C12_BALLAST_MB"); v != "" {
		fmt.Sscan(v, &bal)
	}
	ballast = make([]byte, bal<<20)

	if c.ReplayPath != "" {
		var cs Case
		if err := c.LoadReplay(&cs); err != nil {
			fmt.Println("cannot load replay:", err)
			os.Exit(2)
		}
		st := newStats()
		f, _ := runCase(&cs, nil, true, st)
		if f != nil && os.Getenv("C12_SHRINK") != "" {
			// development aid: greedy removal of ops while the same class of failure remains
			kind := strings.SplitN(f.key, "/after-", 2)[0]
			for changed := true; changed; {
				changed = false
				for i := len(cs.Ops) - 1; i >= 0; i-- {
					t := cs
					t.Ops = append(append([]Op(nil), cs.Ops[:i]...), cs.Ops[i+1:]...)
					if g, _ := runCase(&t, nil, true, newStats()); g != nil && strings.HasPrefix(g.key, kind) {
						cs, f, changed = t, g, true
					}
				}
			}
			fmt.Println("SHRUNK:", opsString(cs.Ops))
		}
		c.Eval(len(cs.Ops))
		if f != nil {
			report(c, &cs, f)
		}
		c.Finish("replay of one sequence, oracle after every op", 0)
		return
	}

	// watchdog only: never a verdict
	go func() {
		time.Sleep(time.Duration(c.Pick(10, 30)) * time.Minute)
		c.Inconclusive("watchdog: run exceeded its wall-clock budget")
		c.Finish("watchdog", 0)
	}()

	if pf := os.Getenv("C12_PROF"); pf != "" {
		f, _ := os.Create(pf)
		pprof.StartCPUProfile(f)
		defer pprof.StopCPUProfile()
	}
	total := newStats()
	// (all sequences up to, one per renaming class up to): B quick (6,6) thorough (6,7);
	// S (larger alphabet: separate account / per-contract snapshot stacks) quick (5,5) thorough (5,6)
	fB, mB, fS, mS := 6, c.Pick(6, 7), 5, c.Pick(5, 6)
	if v := os.Getenv("C12_LENS"); v != "" { // development only; recorded in the evidence
		fmt.Sscan(v, &fB, &mB, &fS, &mS)
		c.Set("dev_override_C12_LENS", v)
	}
	exhaustive(c, 'B', fB, mB, 2, 2, 6, total)
	exhaustive(c, 'S', fS, mS, 2, 2, 6, total)
	nr := c.Pick(800, 20000)
	if v := os.Getenv("C12_NR"); v != "" { // development only; recorded in the evidence
		fmt.Sscan(v, &nr)
		c.Set("dev_override_C12_NR", v)
	}
	randomPhase(c, 'B', nr, total)
	randomPhase(c, 'S', nr, total)

	for k, v := range total.ops {
		c.Count("op."+k, v)
	}
	c.Count("oracle.read_checks", total.checks)
	c.Count("oracle.reads_compared", total.reads)
	c.Count("oracle.root_vs_fresh_statedb", total.rootCmp)
	c.Count("oracle.reopened_statedb_compared", total.reopenCmp)
	c.Count("oracle.root_vs_replay_without_reverted_writes", total.replayRootCmp)
	c.Count("oracle.store_vs_replay_compared", total.replayStoreCmp)
	c.Count("oracle.store_vs_replay_keys_equal", total.replayStoreKeys)
	c.Count("oracle.raw_store_scans", total.rawScans)
	c.Count("oracle.raw_store_values_scanned", total.rawVals)
	c.Count("oracle.raw_store_tagged_values_found", total.rawTagged)
	c.Count("seen.sequences", total.seqs)
	c.Count("seen.sequences_dropping_staged_contracts", total.dropped)
	c.Count("seen.reverted_write_tags", total.deadTags)
	c.Count("seen.distinct_state_roots", len(total.roots))
	c.Count("seen.max_nesting", total.maxNest)

	pprof.StopCPUProfile()
	runtime.KeepAlive(ballast)
	c.Finish("every read (GetState/GetAccountState/GetData/GetInitialData, live handles and freshly opened ones) equals a deep-copy snapshot-stack model after the op; "+
		"state root after Update equals a fresh StateDB on a fresh store fed only the surviving writes; after Commit a StateDB reopened at the root equals the model "+
		"and no uniquely tagged value of a reverted write is anywhere in the raw store; "+
		"a second StateDB+store replaying the same history with the reverted writes erased (no Snapshot/Rollback calls) has the same root after Update and a byte-identical store after Commit",
		c.Pick(2000, 20000),
		"Update and Commit invalidate outstanding snapshots (the node reverts only inside block execution, before Update); Commit is always preceded by exactly one Update and after Update only Commit or abandoning the StateDB follows (Update;Update without Commit loses trie nodes in pkg/trie - outside the node's use, reported separately)",
		"the content-based root oracle presumes pkg/trie roots are a function of the content (holds since /repo commit f02b841f)",
		"snapshot ids taken after a snapshot are invalid once that snapshot has been reverted to; the reverted-to id stays usable",
		"one storage object per contract at a time (staged, shared by later opens, or a single not-yet-staged handle); not-yet-staged handles are private scratch and are discarded by a block-level rollback, as the node does with the handles of a failed tx",
		"block level additionally allows per-contract ContractState.Snapshot/Rollback nested properly inside block snapshots (VM recovery points)")
}
