package main

import (
	"crypto/sha256"
	"fmt"
	"sort"
	"bytes"

	"github.com/aergoio/aergo-lib/db"
	"github.com/aergoio/aergo/v2/pkg/trie"
)

func h(b ...[]byte) []byte {
	s := sha256.New()
	for _, x := range b {
		s.Write(x)
	}
	return s.Sum(nil)
}

func main() {
	for seed := 0; seed < 2000; seed++ {
		k := make([][]byte, 3)
		for i := range k {
			k[i] = h([]byte(fmt.Sprintf("key-%d-%d", seed, i)))
		}
		v := func(i int) []byte { return h([]byte(fmt.Sprintf("val-%d", i))) }
		// A: {k2} committed, then batch {k0,k1,+del k2}
		sa := db.NewDB(db.MemoryImpl, fmt.Sprintf("/var/tmp/nonexist-%d-a", seed))
		a := trie.NewTrie(nil, h, sa)
		a.Update([][]byte{k[2]}, [][]byte{v(2)})
		a.Commit()
		type kv struct{ k, v []byte }
		l := []kv{{k[0], v(0)}, {k[1], v(1)}, {k[2], trie.DefaultLeaf}}
		sort.Slice(l, func(i, j int) bool { return bytes.Compare(l[i].k, l[j].k) < 0 })
		ks, vs := [][]byte{}, [][]byte{}
		for _, e := range l {
			ks = append(ks, e.k); vs = append(vs, e.v)
		}
		ra, err := a.Update(ks, vs)
		// B: fresh {k0,k1}
		b := trie.NewTrie(nil, h, db.NewDB(db.MemoryImpl, fmt.Sprintf("/var/tmp/nonexist-%d-b", seed)))
		l = []kv{{k[0], v(0)}, {k[1], v(1)}}
		sort.Slice(l, func(i, j int) bool { return bytes.Compare(l[i].k, l[j].k) < 0 })
		rb, _ := b.Update([][]byte{l[0].k, l[1].k}, [][]byte{l[0].v, l[1].v})
		if !bytes.Equal(ra, rb) {
			g0, _ := a.Get(k[0]); g1, _ := a.Get(k[1]); g2, _ := a.Get(k[2])
			fmt.Printf("seed %d: roots differ %x vs %x err=%v  firstbits k0=%08b k1=%08b k2=%08b get: %v %v del=%x\n", seed, ra[:4], rb[:4], err, k[0][0], k[1][0], k[2][0], bytes.Equal(g0, v(0)), bytes.Equal(g1, v(1)), g2)
		}
	}
}
