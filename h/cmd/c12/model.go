package main

// Reference model for C12.  It is deliberately naive: a snapshot is a full deep copy of
// (accounts map, per-contract storage maps of the staged objects, staged set); a rollback restores
// the copy.  Nothing in here mirrors the entry-log / index-stack implementation under test.
//
// Contract of the code as the node uses it (what the model assumes and the generators respect):
//   * a snapshot id stays usable after rolling back to it; ids taken after it are invalidated;
//   * Update / Commit are barriers: every outstanding snapshot is invalidated (the node snapshots
//     and reverts only inside block execution, Update+Commit follow);
//   * Commit is always preceded by exactly one Update (the op "commit" performs Update unless one
//     is pending); after "update" only "commit" or "reopen" (abandon) may follow;
//   * per contract there is at most one storage object alive: either the one staged in the
//     StateDB (handles opened later share it) or a single freshly opened, not yet staged handle;
//   * a not-yet-staged handle is private scratch: it is not part of the working state; the
//     block-level rollback discards such handles (the node opens them inside the tx it reverts).

import (
	"fmt"
	"sort"
	"strings"
)

type Op struct {
	K   string `json:"k"`           // put open set del stage drop snap rb cssnap csrb update commit reopen
	A   int    `json:"a,omitempty"` // account / contract
	Key int    `json:"key,omitempty"`
	S   int    `json:"s,omitempty"` // handle selector
	I   int    `json:"i,omitempty"` // snapshot index
}

func (o Op) String() string {
	switch o.K {
	case "put":
		return fmt.Sprintf("put%d", o.A)
	case "open":
		return fmt.Sprintf("open%d", o.A)
	case "set", "del":
		return fmt.Sprintf("%s%d.%d/%d", o.K, o.A, o.Key, o.S)
	case "stage", "drop":
		return fmt.Sprintf("%s%d/%d", o.K, o.A, o.S)
	case "rb":
		return fmt.Sprintf("rb@%d", o.I)
	case "cssnap":
		return fmt.Sprintf("cssnap%d", o.A)
	case "csrb":
		return fmt.Sprintf("csrb%d@%d", o.A, o.I)
	}
	return o.K
}

func opsString(ops []Op) string {
	p := make([]string, len(ops))
	for i, o := range ops {
		p[i] = o.String()
	}
	return strings.Join(p, " ")
}

type accVal struct {
	Exists bool
	Nonce  uint64
	Tag    uint64 // balance = tagBytes(Tag); 0 = no balance
	SRoot  []byte // storage root (value learned from the independent fresh-StateDB oracle)
}

type content map[int]uint64 // key index -> tag of the visible value (absent: no value)

func (c content) clone() content {
	n := make(content, len(c))
	for k, v := range c {
		n[k] = v
	}
	return n
}

func (c content) eq(d content) bool {
	if len(c) != len(d) {
		return false
	}
	for k, v := range c {
		if w, ok := d[k]; !ok || w != v {
			return false
		}
	}
	return true
}

func (c content) keys() []int {
	ks := make([]int, 0, len(c))
	for k := range c {
		ks = append(ks, k)
	}
	sort.Ints(ks)
	return ks
}

type object struct {
	id       int
	base     content // content at the object's trie root (GetInitialData)
	cur      content // content visible through its handles
	upd      content // content at the last Update (or creation)
	dirty    bool
	staged   bool
	updSince bool // Update since last Commit: GetInitialData not defined
	journal  []uint64
	cs       []snap // level S: the contract's own snapshot stack
}

func (o *object) clone() *object {
	n := *o
	n.base, n.cur, n.upd = o.base.clone(), o.cur.clone(), o.upd.clone()
	n.journal = append([]uint64(nil), o.journal...)
	n.cs = append([]snap(nil), o.cs...)
	return &n
}

type snapObj struct {
	id  int
	cur content
}

type snap struct {
	kind byte   // 'A' accounts (level S), 'B' block (level B), 'C' one contract object
	seq  uint64 // tag counter when taken: tags >= seq were written after it
	acc  []accVal
	objs map[int]snapObj // 'B': staged objects per contract
	c    int             // 'C': contract
	obj  snapObj         // 'C'
	real interface{}     // the real snapshot id
}

type model struct {
	level     byte // 'S' statedb.StateDB, 'B' state.BlockState
	na, nk    int
	acc       []accVal
	cAcc      []accVal
	cStor     []content
	obj       []*object
	nh        []int // live handles per contract
	main      []snap
	next      uint64
	nextObj   int
	dead      map[uint64]struct{}
	accJ      []uint64
	reverted  int // writes reverted so far (non-vacuity)
	dropped   int // staged contracts dropped by block rollback
	maxNest   int
	sinceOpen int      // ops since start / reopen (pruning of no-op sequences)
	slog      []sEntry // surviving history (what the replay oracle executes), see shadow.go
	applied   int      // prefix of slog already executed by the replay oracle
	updated   bool     // Update done, Commit pending: only commit / reopen may follow (see main.go, assumptions)
}

// sEntry is one operation of the history "with the reverted writes erased".
type sEntry struct {
	seq uint64
	dim int // 0 account write, >0 storage object id, -1 never erased (barriers, discards)
	K   string
	A   int
	Key int
	T   uint64
}

func (m *model) log(e sEntry) { m.slog = append(m.slog, e) }

// eraseWrites removes the not yet replayed writes of one dimension made at or after seq.
func (m *model) eraseWrites(dim int, seq uint64) {
	out := m.slog[:m.applied:m.applied]
	for _, e := range m.slog[m.applied:] {
		if e.dim == dim && e.seq >= seq && (e.K == "put" || e.K == "set" || e.K == "del") {
			continue
		}
		out = append(out, e)
	}
	m.slog = out
}

// eraseObj removes everything not yet replayed of a storage object that ceased to exist without
// ever having been part of a committed state since, and tells the replay to forget its handle.
func (m *model) eraseObj(id, c int) {
	out := m.slog[:m.applied:m.applied]
	for _, e := range m.slog[m.applied:] {
		if e.dim == id {
			continue
		}
		out = append(out, e)
	}
	m.slog = append(out, sEntry{dim: -1, K: "dropfresh", A: c})
}

func newModel(level byte, na, nk int) *model {
	m := &model{level: level, na: na, nk: nk, next: 1, dead: map[uint64]struct{}{}}
	m.acc = make([]accVal, na)
	m.cAcc = make([]accVal, na)
	m.cStor = make([]content, na)
	for i := range m.cStor {
		m.cStor[i] = content{}
	}
	m.obj = make([]*object, na)
	m.nh = make([]int, na)
	return m
}

func cloneAcc(a []accVal) []accVal { return append([]accVal(nil), a...) }

// clone is used by the enumerator only (model-only simulation of enabledness).
func (m *model) clone() *model {
	n := *m
	n.acc, n.cAcc = cloneAcc(m.acc), cloneAcc(m.cAcc)
	n.cStor = make([]content, len(m.cStor))
	for i, c := range m.cStor {
		n.cStor[i] = c.clone()
	}
	n.obj = make([]*object, len(m.obj))
	for i, o := range m.obj {
		if o != nil {
			n.obj[i] = o.clone()
		}
	}
	n.nh = append([]int(nil), m.nh...)
	n.main = append([]snap(nil), m.main...)
	n.dead = map[uint64]struct{}{} // not needed for enabledness
	n.accJ = append([]uint64(nil), m.accJ...)
	n.slog = nil // the enumerator does not need the history
	return &n
}

func (m *model) newTag() uint64 { t := m.next; m.next++; return t }

// visible is the storage content of contract c that is part of the working state.
func (m *model) visible(c int) content {
	if o := m.obj[c]; o != nil && o.staged {
		return o.cur
	}
	return m.cStor[c]
}

func (m *model) kill(j []uint64, seq uint64) []uint64 {
	n := len(j)
	for n > 0 && j[n-1] >= seq {
		m.dead[j[n-1]] = struct{}{}
		n--
		m.reverted++
	}
	return j[:n]
}

// ---- enabledness (shared by enumerator, random generator and replay validation) ----

func (m *model) enabled(op Op, nest int) bool {
	inA := op.A >= 0 && op.A < m.na
	if m.updated && op.K != "commit" && op.K != "reopen" {
		return false
	}
	switch op.K {
	case "put":
		return inA
	case "open":
		if !inA {
			return false
		}
		o := m.obj[op.A]
		if o == nil {
			return true
		}
		return o.staged && m.nh[op.A] < 2
	case "set", "del":
		return inA && op.Key >= 0 && op.Key < m.nk
	case "stage", "drop":
		return inA && m.nh[op.A] > 0
	case "snap":
		return len(m.main) < nest
	case "rb":
		return op.I >= 0 && op.I < len(m.main)
	case "cssnap":
		if !inA {
			return false
		}
		if m.level == 'B' {
			return len(m.main) < nest
		}
		return m.obj[op.A] == nil || len(m.obj[op.A].cs) < nest
	case "csrb":
		return m.level == 'S' && inA && m.obj[op.A] != nil && op.I >= 0 && op.I < len(m.obj[op.A].cs)
	case "update", "commit", "reopen":
		return true
	}
	return false
}

// ---- transitions (model side only; the rig calls these next to the real operation) ----

func (m *model) put(a int) uint64 {
	t := m.newTag()
	m.acc[a] = accVal{Exists: true, Nonce: t, Tag: t, SRoot: m.acc[a].SRoot}
	m.accJ = append(m.accJ, t)
	m.log(sEntry{seq: t, dim: 0, K: "put", A: a, T: t})
	return t
}

// ensureObj returns the contract's storage object, creating a fresh (unstaged) one if needed.
func (m *model) ensureObj(c int) *object {
	if m.obj[c] == nil {
		m.nextObj++
		b := m.cStor[c]
		m.obj[c] = &object{id: m.nextObj, base: b.clone(), cur: b.clone(), upd: b.clone()}
	}
	return m.obj[c]
}

func (m *model) set(c, k int) uint64 {
	o := m.obj[c]
	t := m.newTag()
	o.cur[k] = t
	o.journal = append(o.journal, t)
	m.log(sEntry{seq: t, dim: o.id, K: "set", A: c, Key: k, T: t})
	return t
}

func (m *model) del(c, k int) {
	o := m.obj[c]
	delete(o.cur, k)
	m.log(sEntry{seq: m.newTag(), dim: o.id, K: "del", A: c, Key: k})
}

func (m *model) stage(c int) {
	o := m.obj[c]
	if !o.staged {
		m.log(sEntry{seq: m.newTag(), dim: o.id, K: "stage", A: c})
	}
	o.staged = true
	m.nh[c]--
}

func (m *model) drop(c int) {
	m.nh[c]--
	if o := m.obj[c]; !o.staged {
		m.eraseObj(o.id, c)
		m.obj[c] = nil
		m.purgeDeadObjSnaps()
	}
}

func (m *model) snapMain(real interface{}) {
	s := snap{seq: m.next, acc: cloneAcc(m.acc), real: real}
	if m.level == 'B' {
		s.kind = 'B'
		s.objs = map[int]snapObj{}
		for c, o := range m.obj {
			if o != nil && o.staged {
				s.objs[c] = snapObj{o.id, o.cur.clone()}
			}
		}
	} else {
		s.kind = 'A'
	}
	m.main = append(m.main, s)
	if len(m.main) > m.maxNest {
		m.maxNest = len(m.main)
	}
}

func (m *model) snapCs(c int, real interface{}) {
	o := m.obj[c]
	s := snap{kind: 'C', seq: m.next, c: c, obj: snapObj{o.id, o.cur.clone()}, real: real}
	if m.level == 'B' {
		m.main = append(m.main, s)
		if len(m.main) > m.maxNest {
			m.maxNest = len(m.main)
		}
	} else {
		o.cs = append(o.cs, s)
		if len(o.cs) > m.maxNest {
			m.maxNest = len(o.cs)
		}
	}
}

// purgeDeadObjSnaps removes contract-level snapshots whose object no longer exists.
func (m *model) purgeDeadObjSnaps() {
	out := m.main[:0:0]
	for _, s := range m.main {
		if s.kind == 'C' && (m.obj[s.c] == nil || m.obj[s.c].id != s.obj.id) {
			continue
		}
		out = append(out, s)
	}
	m.main = out
}

// rbMain reverts to main[i]. It returns the contracts whose handles the rig must forget.
func (m *model) rbMain(i int) (forget []int) {
	s := m.main[i]
	m.main = m.main[:i+1]
	switch s.kind {
	case 'A':
		m.acc = cloneAcc(s.acc)
		m.accJ = m.kill(m.accJ, s.seq)
		m.eraseWrites(0, s.seq)
	case 'C':
		o := m.obj[s.c]
		o.cur = s.obj.cur.clone()
		o.journal = m.kill(o.journal, s.seq)
		m.eraseWrites(o.id, s.seq)
	case 'B':
		m.acc = cloneAcc(s.acc)
		m.accJ = m.kill(m.accJ, s.seq)
		m.eraseWrites(0, s.seq)
		for c, o := range m.obj {
			if o == nil {
				continue
			}
			if !o.staged {
				// private scratch handle: discarded with the reverted transaction
				m.eraseObj(o.id, c)
				m.obj[c], m.nh[c] = nil, 0
				forget = append(forget, c)
				continue
			}
			if e, ok := s.objs[c]; ok && e.id == o.id {
				o.cur = e.cur.clone()
				o.journal = m.kill(o.journal, s.seq)
				m.eraseWrites(o.id, s.seq)
				continue
			}
			// staged after the snapshot: dropped
			m.kill(o.journal, s.seq)
			m.eraseObj(o.id, c)
			m.obj[c], m.nh[c] = nil, 0
			m.dropped++
			forget = append(forget, c)
		}
		m.purgeDeadObjSnaps()
	}
	return forget
}

func (m *model) rbCs(c, i int) {
	o := m.obj[c]
	s := o.cs[i]
	o.cs = o.cs[:i+1]
	o.cur = s.obj.cur.clone()
	o.journal = m.kill(o.journal, s.seq)
	m.eraseWrites(o.id, s.seq)
}

func (m *model) clearSnaps() {
	m.main = nil
	for _, o := range m.obj {
		if o != nil {
			o.cs = nil
		}
	}
}

// update returns the contracts whose account state receives a new storage root.
func (m *model) update() (dirty []int) {
	for c, o := range m.obj {
		if o == nil || !o.staged {
			continue
		}
		if !o.cur.eq(o.upd) {
			o.dirty = true
		}
		o.upd = o.cur.clone()
		o.updSince = true
		if o.dirty {
			m.acc[c].Exists = true
			dirty = append(dirty, c)
		}
	}
	m.clearSnaps()
	m.updated = true
	m.log(sEntry{dim: -1, K: "update"})
	return dirty
}

func (m *model) commit() {
	m.cAcc = cloneAcc(m.acc)
	for c, o := range m.obj {
		if o == nil || !o.staged {
			continue
		}
		o.base = o.cur.clone()
		o.updSince = false
		m.cStor[c] = o.cur.clone()
	}
	m.clearSnaps()
	m.updated = false
	m.log(sEntry{dim: -1, K: "commit"})
}

func (m *model) reopen() {
	m.acc = cloneAcc(m.cAcc)
	for c := range m.obj {
		m.obj[c], m.nh[c] = nil, 0
	}
	m.main = nil
	m.accJ = nil
	m.updated = false
	m.log(sEntry{dim: -1, K: "reopen"})
}
