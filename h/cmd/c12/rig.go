package main

import (
	"bytes"
	"encoding/binary"
	"fmt"
	"math/big"
	"path/filepath"
	"sync/atomic"

	"github.com/aergoio/aergo-lib/db"
	"github.com/aergoio/aergo/v2/state"
	"github.com/aergoio/aergo/v2/state/statedb"
	"github.com/aergoio/aergo/v2/types"
)

// every written value carries magic||id so that a raw scan of the store can decide which write
// a persisted value came from.
var magic = []byte{0xC1, 0x2A, 0x5E, 0x7D, 0x91, 0xB3, 0x4F, 0xE6}

func tagBytes(t uint64) []byte {
	b := make([]byte, 16)
	copy(b, magic)
	binary.BigEndian.PutUint64(b[8:], t)
	return b
}

func storVal(t uint64) []byte {
	b := tagBytes(t)
	for i := uint64(0); i < t%5; i++ {
		b = append(b, 0xEE)
	}
	return b
}

type universe struct {
	ids  [][]byte
	aids []types.AccountID
	keys [][]byte
}

func newUniverse(idSeed int64, na, nk int) *universe {
	u := &universe{}
	for i := 0; i < na; i++ {
		id := make([]byte, types.AddressLength)
		copy(id, fmt.Sprintf("\x03c12-%d-acct-%02d", idSeed, i))
		u.ids = append(u.ids, id)
		u.aids = append(u.aids, types.ToAccountID(id))
	}
	for i := 0; i < nk; i++ {
		u.keys = append(u.keys, []byte(fmt.Sprintf("c12/%d/key-%02d", idSeed, i)))
	}
	return u
}

var storeSeq int64
var storeBase string

func newStore() db.DB {
	n := atomic.AddInt64(&storeSeq, 1)
	// the path is never created: memorydb only reads it on open and writes it on Close (never called)
	return db.NewDB(db.MemoryImpl, filepath.Join(storeBase, fmt.Sprintf("m%d", n)))
}

type failure struct {
	key, desc string
}

type stats struct {
	ops             map[string]int
	checks          int
	reads           int
	rootCmp         int
	reopenCmp       int
	rawScans        int
	rawVals         int
	rawTagged       int
	replayRootCmp   int
	replayStoreCmp  int
	replayStoreKeys int
	reverted        int
	dropped         int
	deadTags        int
	seqs            int
	roots           map[string]struct{}
	maxNest         int

	// per-worker reusable resources (a stats object belongs to exactly one goroutine)
	free []db.DB           // emptied memorydb instances ("fresh store" = a store with no keys)
	bsw  *state.BlockState // built once by state.NewBlockState, re-pointed at each new StateDB
}

// getStore returns an empty store. Constructing a memorydb costs a viper/logger set-up per call,
// so emptied instances are reused; a memorydb is a plain map, an emptied one is as good as new.
func (st *stats) getStore() db.DB {
	if n := len(st.free); n > 0 {
		s := st.free[n-1]
		st.free = st.free[:n-1]
		return s
	}
	return newStore()
}

// putStore takes a store back; wrote=false: nothing was ever flushed to it (the code under test
// writes to the store only in Commit).
func (st *stats) putStore(s db.DB, wrote bool) {
	if wrote {
		for it := s.Iterator(nil, nil); it.Valid(); it.Next() {
			s.Delete(it.Key())
		}
	}
	st.free = append(st.free, s)
}

func (st *stats) blockState(sdb *statedb.StateDB) *state.BlockState {
	if st.bsw == nil {
		st.bsw = state.NewBlockState(sdb)
	}
	st.bsw.StateDB = sdb
	return st.bsw
}

func newStats() *stats { return &stats{ops: map[string]int{}, roots: map[string]struct{}{}} }

type run struct {
	level    byte
	nest     int
	u        *universe
	m        *model
	store    db.DB
	sdb      *statedb.StateDB
	bs       *state.BlockState
	h        [][]*statedb.ContractState
	lastRoot []byte
	fail     *failure
	st       *stats
	lastOp   string
	sh       *shadow // replay oracle (shadow.go), built lazily
	wrote    bool    // Commit was called on r.store
	dry      bool    // model-only simulation (enumerator): no real calls
}

func newRun(level byte, u *universe, nest int, st *stats) *run {
	r := &run{level: level, u: u, nest: nest, st: st}
	r.m = newModel(level, len(u.ids), len(u.keys))
	r.store = st.getStore()
	r.attach(nil)
	return r
}

func (r *run) release() {
	if r.store != nil {
		r.st.putStore(r.store, r.wrote)
		r.store = nil
	}
	if r.sh != nil {
		r.st.putStore(r.sh.store, r.sh.wrote)
		r.sh = nil
	}
}

func (r *run) attach(root []byte) {
	r.sdb = statedb.NewStateDB(r.store, root, false)
	r.bs = nil
	if r.level == 'B' {
		r.bs = r.st.blockState(r.sdb)
	}
	r.h = make([][]*statedb.ContractState, len(r.u.ids))
}

func (r *run) failf(kind, format string, a ...interface{}) {
	if r.fail == nil {
		r.fail = &failure{key: fmt.Sprintf("%c/%s/after-%s", r.level, kind, r.lastOp), desc: fmt.Sprintf(format, a...)}
	}
}

func (r *run) openReal(c int) (*statedb.ContractState, error) {
	if r.level == 'B' {
		// the node's pattern (chain/chainhandle.go executeTx -> contract.Execute)
		as, err := state.GetAccountState(r.u.ids[c], r.sdb)
		if err != nil {
			return nil, err
		}
		return statedb.OpenContractState(as.ID(), as.State(), r.sdb)
	}
	return statedb.OpenContractStateAccount(r.u.ids[c], r.sdb)
}

// handle returns a live handle of contract c (opening one if there is none).
func (r *run) handle(c, sel int) *statedb.ContractState {
	if r.m.nh[c] == 0 {
		r.open(c)
		if r.fail != nil {
			return nil
		}
	}
	if r.dry {
		return dryHandle
	}
	if sel < 0 {
		sel = -sel
	}
	return r.h[c][sel%len(r.h[c])]
}

var dryHandle = &statedb.ContractState{}

func (r *run) open(c int) {
	r.m.ensureObj(c)
	r.m.nh[c]++
	if r.dry {
		return
	}
	cs, err := r.openReal(c)
	if err != nil {
		r.failf("open-error", "open contract %d: %v", c, err)
		return
	}
	r.h[c] = append(r.h[c], cs)
}

func (r *run) putReal(a int, t uint64) error {
	if r.level == 'B' {
		// state.AccountState path used by the chain (GetAccountState -> mutate -> PutState)
		as, err := state.GetAccountState(r.u.ids[a], r.sdb)
		if err != nil {
			return err
		}
		as.SubBalance(as.Balance())
		as.AddBalance(new(big.Int).SetBytes(tagBytes(t)))
		as.SetNonce(t)
		return as.PutState()
	}
	return r.sdb.PutState(r.u.aids[a], &types.State{Nonce: t, Balance: tagBytes(t),
		StorageRoot: append([]byte(nil), r.m.acc[a].SRoot...)})
}

// step performs op on the real code and on the model. check: run the full oracle afterwards.
// With r.dry only the model side is executed (the enumerator uses this to decide enabledness).
func (r *run) step(op Op, check bool) {
	m := r.m
	if !m.enabled(op, r.nest) {
		r.failf("harness", "op %v not enabled (bad replay case?)", op)
		return
	}
	real := !r.dry
	r.lastOp = op.K
	if real {
		r.st.ops[op.K]++
	}
	m.sinceOpen++
	rbErr := func(err error) {
		if err != nil {
			r.failf("rollback-error", "%v", err)
		}
	}
	switch op.K {
	case "put":
		t := m.put(op.A)
		if real {
			// note: putReal reads m.acc[a].SRoot, which put() preserves
			if err := r.putReal(op.A, t); err != nil {
				r.failf("put-error", "%v", err)
			}
		}
	case "open":
		r.open(op.A)
	case "set", "del":
		h := r.handle(op.A, op.S)
		if h == nil {
			return
		}
		if op.K == "set" {
			t := m.set(op.A, op.Key)
			if real {
				if err := h.SetData(r.u.keys[op.Key], storVal(t)); err != nil {
					r.failf("set-error", "%v", err)
				}
			}
		} else {
			m.del(op.A, op.Key)
			if real {
				if err := h.DeleteData(r.u.keys[op.Key]); err != nil {
					r.failf("del-error", "%v", err)
				}
			}
		}
	case "stage", "drop":
		var h *statedb.ContractState
		if real {
			i := op.S % len(r.h[op.A])
			h = r.h[op.A][i]
			r.h[op.A] = append(append([]*statedb.ContractState(nil), r.h[op.A][:i]...), r.h[op.A][i+1:]...)
		}
		if op.K == "stage" {
			if real {
				if err := statedb.StageContractState(h, r.sdb); err != nil {
					r.failf("stage-error", "%v", err)
				}
			}
			m.stage(op.A)
		} else {
			m.drop(op.A)
		}
	case "snap":
		var id interface{}
		if real {
			if r.level == 'B' {
				id = r.bs.Snapshot()
			} else {
				id = r.sdb.Snapshot()
			}
		}
		m.snapMain(id)
	case "cssnap":
		h := r.handle(op.A, op.S)
		if h == nil {
			return
		}
		var id interface{}
		if real {
			id = h.Snapshot()
		}
		m.snapCs(op.A, id)
	case "rb":
		s := m.main[op.I]
		before := m.reverted
		switch s.kind {
		case 'B':
			if real {
				rbErr(r.bs.Rollback(s.real.(state.BlockSnapshot)))
			}
		case 'A':
			if real {
				rbErr(r.sdb.Rollback(s.real.(statedb.Snapshot)))
			}
		case 'C':
			h := r.handle(s.c, 0)
			if h == nil {
				return
			}
			if real {
				rbErr(h.Rollback(s.real.(statedb.Snapshot)))
			}
		}
		for _, c := range m.rbMain(op.I) {
			if real {
				r.h[c] = nil
			}
		}
		if real && m.reverted > before {
			r.st.ops["rb-nonvacuous"]++
		}
	case "csrb":
		s := m.obj[op.A].cs[op.I]
		h := r.handle(op.A, 0)
		if h == nil {
			return
		}
		before := m.reverted
		if real {
			rbErr(h.Rollback(s.real.(statedb.Snapshot)))
		}
		m.rbCs(op.A, op.I)
		if real && m.reverted > before {
			r.st.ops["rb-nonvacuous"]++
		}
	case "update":
		r.update(check)
	case "commit":
		if !m.updated {
			r.update(check)
		}
		if r.fail != nil {
			return
		}
		if real {
			r.wrote = true
			if err := r.sdb.Commit(); err != nil {
				r.failf("commit-error", "%v", err)
				return
			}
		}
		m.commit()
		if real {
			r.lastRoot = append([]byte(nil), r.sdb.GetRoot()...)
			if check {
				r.checkCommitted()
				if r.fail == nil {
					r.checkStoreVsReplay()
				}
			}
		}
	case "reopen":
		m.reopen()
		m.sinceOpen = 0
		if real {
			r.attach(r.lastRoot)
		}
	}
	if real && check && r.fail == nil {
		r.checkReads()
	}
}

func (r *run) update(check bool) {
	m := r.m
	if r.dry {
		m.update()
		return
	}
	if err := r.sdb.Update(); err != nil {
		r.failf("update-error", "%v", err)
		return
	}
	dirty := m.update()
	if !check {
		// prefix replay: the prefix was checked as its own case; keep the model's storage roots in step
		for _, c := range dirty {
			st, _ := r.sdb.GetAccountState(r.u.aids[c])
			if st != nil {
				m.acc[c].SRoot = append([]byte(nil), st.StorageRoot...)
			}
		}
		return
	}
	root, sroots := r.freshRoot()
	if r.fail != nil {
		return
	}
	for _, c := range dirty {
		m.acc[c].SRoot = sroots[c]
	}
	r.st.rootCmp++
	got := r.sdb.GetRoot()
	if len(r.st.roots) < 200000 {
		r.st.roots[string(got)] = struct{}{}
	}
	if !bytes.Equal(got, root) {
		r.failf("root-vs-fresh", "state root after Update is %x, a fresh StateDB fed only the surviving writes has %x\nmodel: %s",
			got, root, r.describeModel())
		return
	}
	r.checkRootVsReplay()
}

// freshRoot feeds a fresh StateDB on a fresh store with exactly the model's visible state.
func (r *run) freshRoot() ([]byte, [][]byte) {
	m := r.m
	fs := r.st.getStore()
	defer r.st.putStore(fs, false)
	sdb := statedb.NewStateDB(fs, nil, false)
	for a, v := range m.acc {
		if v.Exists {
			st := &types.State{Nonce: v.Nonce}
			if v.Tag != 0 {
				st.Balance = tagBytes(v.Tag)
			}
			if err := sdb.PutState(r.u.aids[a], st); err != nil {
				r.failf("harness", "fresh put: %v", err)
				return nil, nil
			}
		}
	}
	for c := range m.obj {
		vis := m.visible(c)
		if len(vis) == 0 {
			continue
		}
		cs, err := statedb.OpenContractStateAccount(r.u.ids[c], sdb)
		if err != nil {
			r.failf("harness", "fresh open: %v", err)
			return nil, nil
		}
		for _, k := range vis.keys() {
			cs.SetData(r.u.keys[k], storVal(vis[k]))
		}
		statedb.StageContractState(cs, sdb)
	}
	if err := sdb.Update(); err != nil {
		r.failf("harness", "fresh update: %v", err)
		return nil, nil
	}
	sroots := make([][]byte, len(m.acc))
	for c := range m.acc {
		st, _ := sdb.GetAccountState(r.u.aids[c])
		if st != nil {
			sroots[c] = append([]byte(nil), st.StorageRoot...)
		}
	}
	return sdb.GetRoot(), sroots
}

func valDesc(b []byte) string {
	if len(b) == 0 {
		return "<none>"
	}
	if len(b) >= 16 && bytes.Equal(b[:8], magic) {
		return fmt.Sprintf("write#%d", binary.BigEndian.Uint64(b[8:16]))
	}
	return fmt.Sprintf("%x", b)
}

func tagDesc(t uint64, ok bool) string {
	if !ok || t == 0 {
		return "<none>"
	}
	return fmt.Sprintf("write#%d", t)
}

func (r *run) cmpAccount(sdb *statedb.StateDB, a int, want accVal, kind string) {
	r.st.reads += 2
	st, err := sdb.GetState(r.u.aids[a])
	if err != nil {
		r.failf(kind+"-account-error", "GetState(account %d): %v", a, err)
		return
	}
	if (st != nil) != want.Exists {
		r.failf(kind+"-account-existence", "account %d: GetState non-nil=%v, model exists=%v\nmodel: %s", a, st != nil, want.Exists, r.describeModel())
		return
	}
	ast, err := sdb.GetAccountState(r.u.aids[a])
	if err != nil || ast == nil {
		r.failf(kind+"-account-error", "GetAccountState(account %d): %v", a, err)
		return
	}
	var wb []byte
	if want.Tag != 0 {
		wb = tagBytes(want.Tag)
	}
	if ast.Nonce != want.Nonce || !bytes.Equal(ast.Balance, wb) {
		r.failf(kind+"-account-value", "account %d reads nonce=%d balance=%s, model (most recent non-reverted write) nonce=%d balance=%s\nmodel: %s",
			a, ast.Nonce, valDesc(ast.Balance), want.Nonce, tagDesc(want.Tag, true), r.describeModel())
		return
	}
	if !bytes.Equal(ast.StorageRoot, want.SRoot) {
		r.failf(kind+"-account-storageroot", "account %d storage root %x, expected %x (root of the surviving storage content)\nmodel: %s",
			a, ast.StorageRoot, want.SRoot, r.describeModel())
	}
}

func (r *run) cmpData(h *statedb.ContractState, c int, want content, kind string, initial bool) {
	for k := range r.u.keys {
		var got []byte
		var err error
		if initial {
			got, err = h.GetInitialData(r.u.keys[k])
		} else {
			got, err = h.GetData(r.u.keys[k])
		}
		r.st.reads++
		if err != nil {
			r.failf(kind+"-error", "contract %d key %d: %v", c, k, err)
			return
		}
		t, ok := want[k]
		var wb []byte
		if ok {
			wb = storVal(t)
		}
		if !bytes.Equal(got, wb) && !(len(got) == 0 && len(wb) == 0) {
			r.failf(kind, "contract %d key %d reads %s, model says %s\nmodel: %s", c, k, valDesc(got), tagDesc(t, ok), r.describeModel())
			return
		}
	}
}

// checkReads: every read API equals the model.
func (r *run) checkReads() {
	m := r.m
	r.st.checks++
	for a := range m.acc {
		r.cmpAccount(r.sdb, a, m.acc[a], "read")
		if r.fail != nil {
			return
		}
	}
	for c := range m.obj {
		// live handles
		if o := m.obj[c]; o != nil {
			for _, h := range r.h[c] {
				r.cmpData(h, c, o.cur, "read-handle-data", false)
				if !o.updSince {
					r.cmpData(h, c, o.base, "read-handle-initial", true)
				}
				if r.fail != nil {
					return
				}
			}
		}
		// what a reader opening the contract now sees (the working state)
		t, err := statedb.OpenContractStateAccount(r.u.ids[c], r.sdb)
		if err != nil {
			r.failf("read-open-error", "%v", err)
			return
		}
		r.cmpData(t, c, m.visible(c), "read-working-data", false)
		if r.fail != nil {
			return
		}
	}
}

// checkCommitted: a StateDB reopened at the committed root equals the model; the raw store holds
// no value whose only write was reverted.
func (r *run) checkCommitted() {
	m := r.m
	r.st.reopenCmp++
	sdb := statedb.NewStateDB(r.store, r.lastRoot, false)
	for a := range m.acc {
		r.cmpAccount(sdb, a, m.cAcc[a], "reopened")
		if r.fail != nil {
			return
		}
	}
	for c := range m.cStor {
		t, err := statedb.OpenContractStateAccount(r.u.ids[c], sdb)
		if err != nil {
			r.failf("reopened-open-error", "%v", err)
			return
		}
		r.cmpData(t, c, m.cStor[c], "reopened-data", false)
		r.cmpData(t, c, m.cStor[c], "reopened-initial", true)
		if r.fail != nil {
			return
		}
	}
	r.st.rawScans++
	for it := r.store.Iterator(nil, nil); it.Valid(); it.Next() {
		v := it.Value()
		r.st.rawVals++
		for off := 0; ; {
			i := bytes.Index(v[off:], magic)
			if i < 0 || off+i+16 > len(v) {
				break
			}
			t := binary.BigEndian.Uint64(v[off+i+8 : off+i+16])
			r.st.rawTagged++
			if _, dead := m.dead[t]; dead && t < m.next {
				r.failf("raw-store-reverted-value", "after Commit the store holds write#%d (key %x), which was made after a snapshot that was reverted\nmodel: %s",
					t, it.Key(), r.describeModel())
				return
			}
			off += i + 16
		}
	}
}

func (r *run) describeModel() string {
	m := r.m
	var b bytes.Buffer
	for a, v := range m.acc {
		if v.Exists {
			fmt.Fprintf(&b, "acc%d=write#%d ", a, v.Nonce)
		}
	}
	for c := range m.obj {
		vis := m.visible(c)
		if len(vis) > 0 {
			fmt.Fprintf(&b, "stor%d{", c)
			for _, k := range vis.keys() {
				fmt.Fprintf(&b, "%d:#%d ", k, vis[k])
			}
			fmt.Fprintf(&b, "} ")
		}
		if o := m.obj[c]; o != nil {
			fmt.Fprintf(&b, "obj%d(staged=%v,handles=%d) ", c, o.staged, m.nh[c])
		}
	}
	fmt.Fprintf(&b, "snapshots=%d", len(m.main))
	return b.String()
}
