package main

// Replay oracle: a second StateDB on its own store executes the same history with the reverted
// writes erased and without a single Snapshot/Rollback call.  If reverting restores exactly the
// earlier state, the run under observation and this replay are indistinguishable: equal state root
// after Update, identical persisted store after Commit.

import (
	"bytes"
	"fmt"
	"math/big"

	"github.com/aergoio/aergo-lib/db"
	"github.com/aergoio/aergo/v2/state"
	"github.com/aergoio/aergo/v2/state/statedb"
	"github.com/aergoio/aergo/v2/types"
)

type shadow struct {
	level    byte
	u        *universe
	store    db.DB
	sdb      *statedb.StateDB
	h        []*statedb.ContractState
	lastRoot []byte
	wrote    bool
}

func (r *run) shadowRig() *shadow {
	if r.sh == nil {
		r.sh = &shadow{level: r.level, u: r.u, store: r.st.getStore()}
		r.sh.attach(nil)
	}
	return r.sh
}

func (s *shadow) attach(root []byte) {
	s.sdb = statedb.NewStateDB(s.store, root, false)
	s.h = make([]*statedb.ContractState, len(s.u.ids))
}

func (s *shadow) handle(c int) (*statedb.ContractState, error) {
	if s.h[c] == nil {
		var err error
		if s.level == 'B' {
			var as *state.AccountState
			if as, err = state.GetAccountState(s.u.ids[c], s.sdb); err == nil {
				s.h[c], err = statedb.OpenContractState(as.ID(), as.State(), s.sdb)
			}
		} else {
			s.h[c], err = statedb.OpenContractStateAccount(s.u.ids[c], s.sdb)
		}
		if err != nil {
			return nil, err
		}
	}
	return s.h[c], nil
}

func (s *shadow) apply(e sEntry) error {
	switch e.K {
	case "put":
		if s.level == 'B' {
			as, err := state.GetAccountState(s.u.ids[e.A], s.sdb)
			if err != nil {
				return err
			}
			as.SubBalance(as.Balance())
			as.AddBalance(new(big.Int).SetBytes(tagBytes(e.T)))
			as.SetNonce(e.T)
			return as.PutState()
		}
		cur, err := s.sdb.GetAccountState(s.u.aids[e.A])
		if err != nil {
			return err
		}
		return s.sdb.PutState(s.u.aids[e.A], &types.State{Nonce: e.T, Balance: tagBytes(e.T),
			StorageRoot: append([]byte(nil), cur.StorageRoot...)})
	case "set", "del":
		h, err := s.handle(e.A)
		if err != nil {
			return err
		}
		if e.K == "set" {
			return h.SetData(s.u.keys[e.Key], storVal(e.T))
		}
		return h.DeleteData(s.u.keys[e.Key])
	case "stage":
		h, err := s.handle(e.A)
		if err != nil {
			return err
		}
		s.h[e.A] = nil
		return statedb.StageContractState(h, s.sdb)
	case "dropfresh":
		s.h[e.A] = nil
	case "update":
		return s.sdb.Update()
	case "commit":
		s.wrote = true
		if err := s.sdb.Commit(); err != nil {
			return err
		}
		s.lastRoot = append([]byte(nil), s.sdb.GetRoot()...)
	case "reopen":
		s.attach(s.lastRoot)
	}
	return nil
}

func (r *run) flushShadow() *shadow {
	sh := r.shadowRig()
	m := r.m
	for m.applied < len(m.slog) {
		e := m.slog[m.applied]
		m.applied++
		if err := sh.apply(e); err != nil {
			r.failf("replay-error", "replaying %s of the surviving history: %v", e.K, err)
			break
		}
	}
	return sh
}

func (r *run) checkRootVsReplay() {
	sh := r.flushShadow()
	if r.fail != nil {
		return
	}
	r.st.replayRootCmp++
	if got, want := r.sdb.GetRoot(), sh.sdb.GetRoot(); !bytes.Equal(got, want) {
		r.failf("root-vs-replay", "state root after Update is %x; the same history without the reverted writes (no snapshot calls) gives %x\nmodel: %s",
			got, want, r.describeModel())
	}
}

func (r *run) checkStoreVsReplay() {
	sh := r.flushShadow()
	if r.fail != nil {
		return
	}
	r.st.replayStoreCmp++
	a, b := r.store.Iterator(nil, nil), sh.store.Iterator(nil, nil)
	for a.Valid() || b.Valid() {
		switch {
		case !b.Valid() || (a.Valid() && bytes.Compare(a.Key(), b.Key()) < 0):
			r.failf("store-vs-replay", "after Commit the store holds key %x = %s which the history without the reverted writes never persists\nmodel: %s",
				a.Key(), valDescIn(a.Value()), r.describeModel())
			return
		case !a.Valid() || bytes.Compare(a.Key(), b.Key()) > 0:
			r.failf("store-vs-replay", "after Commit the store lacks key %x = %s which the history without the reverted writes persists\nmodel: %s",
				b.Key(), valDescIn(b.Value()), r.describeModel())
			return
		case !bytes.Equal(a.Value(), b.Value()):
			r.failf("store-vs-replay", "after Commit key %x holds %s, in the history without the reverted writes %s\nmodel: %s",
				a.Key(), valDescIn(a.Value()), valDescIn(b.Value()), r.describeModel())
			return
		}
		r.st.replayStoreKeys++
		a.Next()
		b.Next()
	}
}

func valDescIn(v []byte) string {
	if i := bytes.Index(v, magic); i >= 0 && i+16 <= len(v) {
		return fmt.Sprintf("a value of %s", valDesc(v[i:i+16]))
	}
	return fmt.Sprintf("%d bytes (trie node / marker)", len(v))
}
