package main

import (
	"bytes"
	"fmt"
	"math/big"
	"os"

	"github.com/aergoio/aergo/v2/state/statedb"
	"github.com/aergoio/aergo/v2/types"
	"github.com/golang/protobuf/proto"

	tl "verif/h/trielib"
)

func balBytes(b uint64) []byte {
	if b == 0 {
		return nil
	}
	return new(big.Int).SetUint64(b).Bytes()
}

// stateHash is what the account trie stores for an account: sha256(proto(State)).
func stateHash(st *types.State) []byte {
	b, err := proto.Marshal(st)
	if err != nil {
		return nil
	}
	return tl.Hasher(b)
}

// acctTrieModel renders the model of a StateDB snapshot as the content of the account trie,
// independently of /repo: id -> sha256(proto(State{nonce, balance, storageRoot})), the storage
// root being the reference root of the contract's (hash(key) -> hash(value)) pairs.
func acctTrieModel(m *tl.SDBModel) tl.Model {
	out := tl.Model{}
	for id, a := range m.Accts {
		st := &types.State{Nonce: a.Nonce, Balance: balBytes(a.Balance)}
		if a.Storage != nil {
			st.StorageRoot = tl.RefRoot(tl.StorageModel(a))
		}
		var v tl.Val
		copy(v[:], stateHash(st))
		out[tl.Key(id)] = v
	}
	return out
}

func (ck *checker) sdbPart() {
	c := ck.c
	type spec struct{ nPlain, nContracts, nVars, nBlocks, maxOps, count, perClass int }
	var specs []spec
	if c.Quick() {
		specs = []spec{{8, 2, 8, 12, 8, 12, 5}, {40, 3, 30, 15, 30, 6, 6}, {300, 4, 100, 10, 150, 1, 8}}
	} else {
		specs = []spec{{8, 2, 8, 20, 8, 60, 5}, {40, 3, 30, 25, 30, 30, 8}, {300, 4, 100, 20, 150, 6, 10}, {1000, 6, 400, 15, 500, 1, 12}}
	}
	type task struct {
		s  spec
		id string
	}
	var tasks []task
	for si, s := range specs {
		for n := 0; n < s.count; n++ {
			tasks = append(tasks, task{s, fmt.Sprintf("sdb/%d/%d", si, n)})
		}
	}
	for i, j := 0, len(tasks)-1; i < j; i, j = i+1, j-1 {
		tasks[i], tasks[j] = tasks[j], tasks[i]
	}
	parallel(len(tasks), func(i int) {
		tk := tasks[i]
		r := c.Rand(tk.id)
		w := tl.NewSDBWorld(r, tk.s.nPlain, tk.s.nContracts, tk.s.nVars)
		blocks := tl.GenSDBHistory(r, w, tk.s.nBlocks, tk.s.maxOps)
		store := tl.NewStore(ck.scratch)
		var root []byte
		m := tl.NewSDBModel()
		var snaps []tl.SDBSnapshot
		for _, b := range blocks {
			nr, err := tl.ApplySDBBlock(store, root, w, b)
			if err != nil {
				c.Count("scenario_build_errors", 1)
				return
			}
			root = nr
			b.ApplyTo(w, m)
			snaps = append(snaps, tl.SDBSnapshot{Root: root, Model: m.Clone()})
		}
		// account trie family
		afam := &family{name: fmt.Sprintf("accounts/%d", i), models: map[string]tl.Model{}}
		for _, s := range snaps {
			am := acctTrieModel(s.Model)
			if ref := tl.RefRoot(am); !bytes.Equal(ref, s.Root) {
				// the state root is not what the model predicts: C10's domain, nothing can be decided here
				c.Inconclusive(fmt.Sprintf("state root %x differs from the reference root %x of the account model", s.Root, ref))
				return
			}
			afam.add(s.Root, am)
		}
		// storage families, one per contract
		sfam := make([]*family, len(w.Contracts))
		for ci := range w.Contracts {
			sfam[ci] = &family{name: fmt.Sprintf("storage/%d/%d", i, ci), models: map[string]tl.Model{}}
			for _, s := range snaps {
				if a := s.Model.Accts[w.ContractID(ci)]; a != nil && len(a.Storage) > 0 {
					sm := tl.StorageModel(a)
					sfam[ci].add(tl.RefRoot(sm), sm)
				}
			}
		}
		sdb := statedb.NewStateDB(store, root, false)
		var universe []tl.Key
		for _, id := range w.Plain {
			universe = append(universe, tl.Key(id))
		}
		for ci := range w.Contracts {
			universe = append(universe, tl.Key(w.ContractID(ci)))
		}
		pick := []int{len(snaps) - 1}
		for n := 0; n < 2 && len(snaps) > 1; n++ {
			pick = append(pick, r.Intn(len(snaps)))
		}
		done := map[string]bool{}
		for pi, si := range pick {
			snap := snaps[si]
			if done[string(snap.Root)] {
				continue
			}
			done[string(snap.Root)] = true
			rootArg := snap.Root
			if pi == 0 {
				rootArg = nil // "latest": the node's default
				c.Count("roots_current", 1)
			} else {
				c.Count("roots_historical", 1)
			}
			am := afam.models[string(snap.Root)]
			ks := keysFor(am, universe, r, tk.s.perClass)
			for _, compressed := range []bool{false, true} {
				type hk struct {
					p     *proofObj
					kind  string
					state *types.State
				}
				var hs []hk
				var all []*proofObj
				for _, kind := range []tl.PathKind{tl.Present, tl.AbsentEmpty, tl.AbsentLeaf} {
					for _, k := range ks[kind] {
						ap, err := sdb.GetAccountAndProof(append([]byte(nil), k[:]...), rootArg, compressed)
						p := &proofObj{Compressed: compressed, Root: cp(snap.Root), Key: cp(k[:])}
						var included bool
						var pk, pv []byte
						var verr error
						var st *types.State
						if err == nil {
							p.AP, p.Bitmap, p.Height = ap.AuditPath, ap.Bitmap, int(ap.Height)
							included, pk = ap.Inclusion, ap.ProofKey
							if included {
								st = ap.State
								if st == nil {
									verr = fmt.Errorf("GetAccountAndProof: Inclusion without State")
								} else {
									a := snap.Model.Accts[types.AccountID(k)]
									if a == nil || st.GetNonce() != a.Nonce || new(big.Int).SetBytes(st.GetBalance()).Uint64() != a.Balance {
										verr = fmt.Errorf("GetAccountAndProof returned state nonce=%d balance=%x, model %+v", st.GetNonce(), st.GetBalance(), a)
									}
									pv = stateHash(st) // what a wallet computes from the returned state
								}
							} else {
								pv = ap.ProofVal
							}
						}
						hp, kn, ok := ck.checkHonest(p, included, pk, pv, err, afam, "account", kind, am, verr)
						if ok {
							hs = append(hs, hk{hp, kn, st})
							all = append(all, hp)
						}
					}
				}
				for _, h := range hs {
					var extra []mutant
					if h.state != nil {
						// deterministic order (no map iteration)
						type sm struct {
							name string
							f    func(*types.State)
						}
						for _, x := range []sm{
							{"state-nonce+1", func(s *types.State) { s.Nonce++ }},
							{"state-balance-changed", func(s *types.State) { s.Balance = append(cp(s.Balance), 1) }},
							{"state-storageroot-changed", func(s *types.State) { y := tl.RandKey(r); s.StorageRoot = y[:] }},
							{"state-codehash-set", func(s *types.State) { s.CodeHash = []byte{1, 2, 3} }},
						} {
							s2 := h.state.Clone()
							x.f(s2)
							q := h.p.clone()
							q.Value = stateHash(s2)
							extra = append(extra, mutant{x.name, q})
						}
					}
					ck.soundness(afam, h.p, h.kind, all, r, "account", extra...)
				}
			}
			// contract variable proofs at this snapshot
			for ci := range w.Contracts {
				a := snap.Model.Accts[w.ContractID(ci)]
				if a == nil || len(a.Storage) == 0 {
					c.Count("contracts_with_empty_storage_skipped", 1)
					continue
				}
				sm := tl.StorageModel(a)
				sroot := tl.RefRoot(sm)
				// the storage root the node would use: from the account state at this root
				st, err := statedb.NewStateDB(store, snap.Root, false).GetAccountState(w.ContractID(ci))
				if err != nil || !bytes.Equal(st.GetStorageRoot(), sroot) {
					c.Inconclusive(fmt.Sprintf("storage root %x differs from the reference root %x of the storage model", st.GetStorageRoot(), sroot))
					return
				}
				fam := sfam[ci]
				raw := map[tl.Key][]byte{}
				var vuni []tl.Key
				for _, vk := range w.VarKeys {
					var hk tl.Key
					copy(hk[:], tl.Hasher(vk))
					vuni = append(vuni, hk)
					if v, ok := a.Storage[string(vk)]; ok {
						raw[hk] = v
					}
				}
				vks := keysFor(sm, vuni, r, tk.s.perClass)
				for _, compressed := range []bool{false, true} {
					type hk struct {
						p    *proofObj
						kind string
					}
					var hs []hk
					var all []*proofObj
					for _, kind := range []tl.PathKind{tl.Present, tl.AbsentEmpty, tl.AbsentLeaf} {
						for _, k := range vks[kind] {
							vp, err := sdb.GetVarAndProof(append([]byte(nil), k[:]...), sroot, compressed)
							p := &proofObj{Compressed: compressed, Root: cp(sroot), Key: cp(k[:])}
							var included bool
							var pk, pv []byte
							var verr error
							if err == nil {
								p.AP, p.Bitmap, p.Height = vp.AuditPath, vp.Bitmap, int(vp.Height)
								included, pk = vp.Inclusion, vp.ProofKey
								if included {
									if want, ok := raw[k]; !ok || !bytes.Equal(want, vp.Value) {
										verr = fmt.Errorf("GetVarAndProof returned value %x, model %x", vp.Value, want)
									}
									pv = tl.Hasher(vp.Value)
								} else {
									pv = vp.ProofVal
								}
							}
							hp, kn, ok := ck.checkHonest(p, included, pk, pv, err, fam, "variable", kind, sm, verr)
							if ok {
								hs = append(hs, hk{hp, kn})
								all = append(all, hp)
							}
						}
					}
					for _, h := range hs {
						ck.soundness(fam, h.p, h.kind, all, r, "variable")
					}
				}
			}
		}
		c.Count("scenarios_statedb", 1)
	})
}

// replay re-submits the stored proof object to the repo verifier.
func (ck *checker) replay() {
	c := ck.c
	var rc struct {
		Mutation string    `json:"mutation"`
		Honest   *proofObj `json:"honest"`
		Mutated  *proofObj `json:"mutated"`
		Level    string    `json:"level"`
		Kind     string    `json:"kind"`
	}
	if err := c.LoadReplay(&rc); err != nil {
		fmt.Println("cannot load replay:", err)
		os.Exit(2)
	}
	switch {
	case rc.Mutated != nil:
		// stored only when the claim of Mutated was false in the model
		ok, panicked := verifyRepo(rc.Mutated)
		fmt.Printf("replay: %s on the mutated proof (%s): accepted=%v panicked=%v; independent verifier: %v\n",
			rc.Mutated.verifierName(), rc.Mutation, ok, panicked, verifyIndep(rc.Mutated))
		if ok {
			c.Violation("replayed/"+rc.Mutated.verifierName()+"/"+rc.Mutation, "the repo verifier still accepts the stored false claim", rc)
		}
	case rc.Honest != nil:
		ok, panicked := verifyRepo(rc.Honest)
		ind := verifyIndep(rc.Honest)
		fmt.Printf("replay: honest proof: repo accepted=%v panicked=%v independent=%v\n", ok, panicked, ind)
		if !ok || !ind {
			c.Violation("replayed/complete/"+rc.Honest.verifierName(), "honest proof still rejected", rc)
		}
	}
}
