// C11: Merkle proofs of the state trie are complete and sound.
//
// Completeness: for every committed root reached by the C10 histories (current and historical),
// for present keys, absent keys with an empty subtree on the path and absent keys with a
// foreign leaf on the path, the plain and the compressed proof produced by /repo is accepted
// by /repo's verifier and by an independent verifier written here (leaf -> root re-hash,
// height byte included).
//
// Soundness: the claim of a proof object is (root, key, value | absent).  Every single-field
// mutation of an honest proof object is fed to /repo's verifier; IF it accepts, the claim of
// the mutated object must be true in the model at that root.  Mutations that keep the claim
// true are legitimately accepted.  A verifier panic on a malformed object is counted, never
// flagged and never counted as "held".
package main

import (
	"bytes"
	"fmt"
	"math/rand"
	"os"
	"runtime"
	"sort"
	"sync"

	"github.com/aergoio/aergo/v2/pkg/trie"

	tl "verif/h/trielib"
	"verif/h/vf"
)

var defaultLeaf = []byte{0}

// proofObj is everything a verifier is handed.
type proofObj struct {
	Compressed bool     `json:"compressed"`
	Inclusion  bool     `json:"inclusion"`
	Root       []byte   `json:"root"`
	Key        []byte   `json:"key"`
	Value      []byte   `json:"value,omitempty"`    // inclusion: claimed (hashed) value
	ProofKey   []byte   `json:"proofKey,omitempty"` // non-inclusion
	ProofVal   []byte   `json:"proofVal,omitempty"`
	AP         [][]byte `json:"ap"`
	Bitmap     []byte   `json:"bitmap,omitempty"`
	Height     int      `json:"height"`
}

func cp(b []byte) []byte {
	if b == nil {
		return nil
	}
	return append([]byte{}, b...)
}

func (p *proofObj) clone() *proofObj {
	q := *p
	q.Root, q.Key, q.Value, q.ProofKey, q.ProofVal, q.Bitmap = cp(p.Root), cp(p.Key), cp(p.Value), cp(p.ProofKey), cp(p.ProofVal), cp(p.Bitmap)
	q.AP = make([][]byte, len(p.AP))
	for i, a := range p.AP {
		q.AP[i] = cp(a)
	}
	return &q
}

func (p *proofObj) verifierName() string {
	n := "VerifyInclusion"
	if !p.Inclusion {
		n = "VerifyNonInclusion"
	}
	if p.Compressed {
		n += "C"
	}
	return n
}

// verifyRepo hands p to /repo's verifier.
func verifyRepo(p *proofObj) (ok bool, panicked bool) {
	defer func() {
		if r := recover(); r != nil {
			ok, panicked = false, true
		}
	}()
	tv := trie.NewTrie(p.Root, tl.Hasher, nil)
	switch {
	case !p.Compressed && p.Inclusion:
		return tv.VerifyInclusion(p.AP, p.Key, p.Value), false
	case !p.Compressed && !p.Inclusion:
		return tv.VerifyNonInclusion(p.AP, p.Key, p.ProofVal, p.ProofKey), false
	case p.Compressed && p.Inclusion:
		return tv.VerifyInclusionC(p.Bitmap, p.Key, p.Value, p.AP, p.Height), false
	default:
		return tv.VerifyNonInclusionC(p.AP, p.Height, p.Bitmap, p.Key, p.ProofVal, p.ProofKey), false
	}
}

func bit(b []byte, i int) bool { return b[i/8]&(1<<uint(7-i%8)) != 0 }

// verifyIndep is the independent verifier: strict about shapes, re-hashes leaf -> root.
func verifyIndep(p *proofObj) bool {
	if len(p.Key) != 32 || len(p.Root) != 32 {
		return false
	}
	full := p.AP
	if p.Compressed {
		n := p.Height
		if n < 0 || n > 256 || len(p.Bitmap)*8 < n {
			return false
		}
		full = make([][]byte, n)
		j := 0
		for i := 0; i < n; i++ {
			if bit(p.Bitmap, i) {
				if j >= len(p.AP) {
					return false
				}
				full[i] = p.AP[j]
				j++
			} else {
				full[i] = defaultLeaf
			}
		}
		if j != len(p.AP) {
			return false
		}
	}
	n := len(full)
	if n > 256 {
		return false
	}
	var cur []byte
	switch {
	case p.Inclusion:
		if len(p.Value) != 32 {
			return false
		}
		cur = tl.Hasher(p.Key, p.Value, []byte{byte(256 - n)})
	case len(p.ProofKey) == 0:
		cur = defaultLeaf
	default:
		if len(p.ProofKey) != 32 || len(p.ProofVal) != 32 || bytes.Equal(p.ProofKey, p.Key) {
			return false
		}
		for i := 0; i < n; i++ {
			if bit(p.Key, i) != bit(p.ProofKey, i) {
				return false
			}
		}
		cur = tl.Hasher(p.ProofKey, p.ProofVal, []byte{byte(256 - n)})
	}
	for i := 0; i < n; i++ {
		depth := n - 1 - i
		sib := full[i]
		if len(sib) != 32 && !bytes.Equal(sib, defaultLeaf) {
			return false
		}
		if bit(p.Key, depth) {
			cur = tl.Hasher(sib, cur)
		} else {
			cur = tl.Hasher(cur, sib)
		}
	}
	return bytes.Equal(cur, p.Root)
}

// pathNodes returns the on-path node hash below each audit path element (plain proofs):
// nodes[i] is the hash that is combined with AP[i].
func pathNodes(p *proofObj) [][]byte {
	n := len(p.AP)
	var cur []byte
	switch {
	case p.Inclusion:
		cur = tl.Hasher(p.Key, p.Value, []byte{byte(256 - n)})
	case len(p.ProofKey) == 0:
		cur = defaultLeaf
	default:
		cur = tl.Hasher(p.ProofKey, p.ProofVal, []byte{byte(256 - n)})
	}
	out := make([][]byte, n)
	for i := 0; i < n; i++ {
		out[i] = cur
		if bit(p.Key, n-1-i) {
			cur = tl.Hasher(p.AP[i], cur)
		} else {
			cur = tl.Hasher(cur, p.AP[i])
		}
	}
	return out
}

// ---------------------------------------------------------------- scenario

// family is a set of committed roots of one trie with the model content of each.
type family struct {
	name   string
	roots  [][]byte
	models map[string]tl.Model
}

func (f *family) add(root []byte, m tl.Model) {
	if len(root) == 0 {
		return
	}
	if _, ok := f.models[string(root)]; !ok {
		f.roots = append(f.roots, root)
		f.models[string(root)] = m
	}
}

// claimTrue decides the claim (root, key, value|absent) of p in the model.
func (f *family) claimTrue(p *proofObj) bool {
	m, ok := f.models[string(p.Root)]
	if !ok || len(p.Key) != 32 {
		return false
	}
	var k tl.Key
	copy(k[:], p.Key)
	v, has := m[k]
	if p.Inclusion {
		return has && bytes.Equal(v[:], p.Value)
	}
	return !has
}

type mutant struct {
	name string
	p    *proofObj
}

type stats struct {
	mu       sync.Mutex
	perMut   map[string]*[4]int64 // tried, accepted(true claim), rejected, panicked
	disagree map[string]int64
}

func (s *stats) add(name string, idx int) {
	s.mu.Lock()
	a := s.perMut[name]
	if a == nil {
		a = &[4]int64{}
		s.perMut[name] = a
	}
	a[0]++
	a[idx]++
	s.mu.Unlock()
}

type checker struct {
	c       *vf.Ctx
	scratch string
	st      *stats
}

// sampleIdx picks audit-path positions to mutate: all when short, else ends, 4-level
// boundaries and a few random ones.
func sampleIdx(n int, r *rand.Rand, max int) []int {
	if n <= max {
		out := make([]int, n)
		for i := range out {
			out[i] = i
		}
		return out
	}
	set := map[int]bool{0: true, 1: true, n - 1: true, n - 2: true, 3: true, 4: true}
	for len(set) < max {
		set[r.Intn(n)] = true
	}
	out := make([]int, 0, len(set))
	for i := range set {
		if i >= 0 && i < n {
			out = append(out, i)
		}
	}
	sort.Ints(out)
	return out
}

// mutants enumerates the single-field mutations of the honest proof p.
// others: honest proofs for other keys at the same root (same encoding) for transplants.
func (ck *checker) mutants(p *proofObj, f *family, others []*proofObj, r *rand.Rand) []mutant {
	var out []mutant
	add := func(name string, q *proofObj) { out = append(out, mutant{name, q}) }
	m := f.models[string(p.Root)]
	n := len(p.AP)
	depth := n // number of path bits consumed
	if p.Compressed {
		depth = p.Height
	}
	var key tl.Key
	copy(key[:], p.Key)

	// --- audit path elements
	for _, i := range sampleIdx(n, r, 10) {
		q := p.clone()
		if len(q.AP[i]) == 32 {
			q.AP[i][r.Intn(32)] ^= 1 << uint(r.Intn(8))
		} else {
			q.AP[i] = []byte{1}
		}
		add("ap-bitflip", q)

		q = p.clone()
		q.AP = append(q.AP[:i:i], q.AP[i+1:]...)
		add("ap-remove", q)

		q = p.clone()
		dup := make([][]byte, 0, n+1)
		dup = append(dup, q.AP[:i+1]...)
		dup = append(dup, cp(p.AP[i]))
		dup = append(dup, q.AP[i+1:]...)
		q.AP = dup
		add("ap-duplicate", q)

		if i+1 < n && !bytes.Equal(p.AP[i], p.AP[i+1]) {
			q = p.clone()
			q.AP[i], q.AP[i+1] = q.AP[i+1], q.AP[i]
			add("ap-swap-adjacent", q)
		}
		if !bytes.Equal(p.AP[i], defaultLeaf) {
			q = p.clone()
			q.AP[i] = cp(defaultLeaf)
			add("ap-to-default", q)
		} else {
			q = p.clone()
			q.AP[i] = make([]byte, 32)
			add("ap-default-to-zero32", q)
		}
		if !p.Compressed {
			nodes := pathNodes(p)
			if !bytes.Equal(nodes[i], p.AP[i]) {
				q = p.clone()
				q.AP[i] = cp(nodes[i])
				add("ap-swap-with-path-node", q)
			}
		}
	}
	{
		q := p.clone()
		q.AP = append([][]byte{cp(defaultLeaf)}, q.AP...)
		add("ap-prepend-default", q)
		q = p.clone()
		x := tl.RandKey(r)
		q.AP = append(q.AP, x[:])
		add("ap-append-random", q)
	}
	if len(others) > 0 {
		o := others[r.Intn(len(others))]
		if !bytes.Equal(o.Key, p.Key) {
			q := p.clone()
			oc := o.clone()
			q.AP, q.Bitmap, q.Height = oc.AP, oc.Bitmap, oc.Height
			add("ap-transplant-from-other-proof", q)
		}
	}

	// --- key
	sorted := m.Sorted()
	var otherKeys []tl.Key
	if len(sorted) > 0 {
		otherKeys = append(otherKeys, sorted[r.Intn(len(sorted))])
		// nearest present neighbours in key order
		idx := sort.Search(len(sorted), func(i int) bool { return bytes.Compare(sorted[i][:], key[:]) >= 0 })
		for _, j := range []int{idx - 1, idx, idx + 1} {
			if j >= 0 && j < len(sorted) {
				otherKeys = append(otherKeys, sorted[j])
			}
		}
	}
	for _, L := range []int{depth - 2, depth - 1, depth, depth + 1, 255, 0} {
		if L >= 0 && L < 256 {
			otherKeys = append(otherKeys, tl.Sibling(key, L))
		}
	}
	otherKeys = append(otherKeys, tl.RandKey(r))
	seenK := map[tl.Key]bool{key: true}
	for _, k := range otherKeys {
		if seenK[k] {
			continue
		}
		seenK[k] = true
		q := p.clone()
		q.Key = cp(k[:])
		if _, has := m[k]; has {
			add("key-to-other-present", q)
		} else {
			add("key-to-other-absent", q)
		}
	}
	if !p.Inclusion && len(p.ProofKey) == 32 {
		q := p.clone()
		q.Key = cp(p.ProofKey)
		add("key-to-proofKey", q)
	}

	// --- value / proofVal
	var someVal []byte
	for _, k := range sorted {
		v := m[k]
		if !bytes.Equal(v[:], p.Value) && !bytes.Equal(v[:], p.ProofVal) {
			someVal = cp(v[:])
			break
		}
	}
	if p.Inclusion {
		q := p.clone()
		q.Value[r.Intn(32)] ^= 1 << uint(r.Intn(8))
		add("value-bitflip", q)
		q = p.clone()
		q.Value = nil
		add("value-empty", q)
		q = p.clone()
		q.Value = cp(defaultLeaf)
		add("value-defaultleaf", q)
		if someVal != nil {
			q = p.clone()
			q.Value = someVal
			add("value-to-other-present-value", q)
		}
		// inclusion presented as non-inclusion
		q = p.clone()
		q.Inclusion, q.Value = false, nil
		add("kind-incl-as-nonincl-empty-proofkey", q)
		q = p.clone()
		q.Inclusion, q.ProofKey, q.ProofVal, q.Value = false, cp(p.Key), cp(p.Value), nil
		add("kind-incl-as-nonincl-proofkey-is-key", q)
		q = p.clone()
		q.Inclusion, q.ProofKey, q.ProofVal, q.Value = false, nil, cp(p.Value), nil
		add("kind-incl-as-nonincl-value-only", q)
		// the leaf digest is hash(key || value || height) without length prefixes: the same bytes with the
		// key/value border moved are the same leaf under a "different" key
		for _, sh := range []int{-1, -8, -31, 1, 8} {
			kv := append(cp(p.Key), p.Value...)
			b := 32 + sh
			q = p.clone()
			q.Inclusion, q.ProofKey, q.ProofVal, q.Value = false, cp(kv[:b]), cp(kv[b:]), nil
			add(fmt.Sprintf("kind-incl-as-nonincl-border-shift%+d", sh), q)
		}
	} else if len(p.ProofKey) != 0 {
		q := p.clone()
		q.ProofVal[r.Intn(32)] ^= 1 << uint(r.Intn(8))
		add("proofVal-bitflip", q)
		q = p.clone()
		q.ProofVal = nil
		add("proofVal-empty", q)
		if someVal != nil {
			q = p.clone()
			q.ProofVal = someVal
			add("proofVal-to-other-present-value", q)
		}
		for _, L := range []int{0, depth - 1, depth, depth + 1, 255} {
			if L >= 0 && L < 256 {
				q = p.clone()
				q.ProofKey[L/8] ^= 1 << uint(7-L%8)
				add("proofKey-bitflip", q)
			}
		}
		q = p.clone()
		q.ProofKey = cp(p.Key)
		add("proofKey-to-key", q)
		q = p.clone()
		q.ProofKey = nil
		add("proofKey-empty", q)
		for _, k := range sorted {
			if !bytes.Equal(k[:], p.ProofKey) {
				q = p.clone()
				q.ProofKey = cp(k[:])
				add("proofKey-to-other-present", q)
				break
			}
		}
		// non-inclusion presented as inclusion
		q = p.clone()
		q.Inclusion, q.Value, q.ProofKey, q.ProofVal = true, cp(p.ProofVal), nil, nil
		add("kind-nonincl-as-incl-of-key", q)
		q = p.clone()
		q.Inclusion, q.Key, q.Value, q.ProofKey, q.ProofVal = true, cp(p.ProofKey), cp(p.ProofVal), nil, nil
		add("kind-nonincl-as-incl-of-proofKey", q) // true claim: legitimately accepted
	} else {
		// default-leaf non-inclusion
		q := p.clone()
		x, y := tl.RandKey(r), tl.RandVal(r)
		q.ProofKey, q.ProofVal = cp(x[:]), cp(y[:])
		add("proofKey-invented", q)
		q = p.clone()
		q.Inclusion, q.Value = true, cp(defaultLeaf)
		add("kind-nonincl-default-as-incl-defaultleaf", q)
		q = p.clone()
		q.Inclusion, q.Value = true, make([]byte, 32)
		add("kind-nonincl-default-as-incl-zero32", q)
		if someVal != nil {
			q = p.clone()
			q.Inclusion, q.Value = true, someVal
			add("kind-nonincl-default-as-incl-other-value", q)
		}
	}
	// transplant proofKey/proofVal from another non-inclusion proof at the same root
	if !p.Inclusion {
		for _, o := range others {
			if !o.Inclusion && len(o.ProofKey) != 0 && !bytes.Equal(o.ProofKey, p.ProofKey) {
				q := p.clone()
				q.ProofKey, q.ProofVal = cp(o.ProofKey), cp(o.ProofVal)
				add("proofKV-transplant", q)
				break
			}
		}
	}

	// --- root
	nr := 0
	for _, or := range f.roots {
		if bytes.Equal(or, p.Root) {
			continue
		}
		q := p.clone()
		q.Root = cp(or)
		add("root-to-other-historical", q)
		if nr++; nr >= 6 {
			break
		}
	}
	{
		q := p.clone()
		q.Root = nil
		add("root-nil", q)
		q = p.clone()
		q.Root[r.Intn(32)] ^= 1 << uint(r.Intn(8))
		add("root-bitflip", q) // unknown root: can never be a true claim
	}

	// --- compressed-only fields
	if p.Compressed {
		for _, i := range sampleIdx(p.Height, r, 12) {
			q := p.clone()
			q.Bitmap[i/8] ^= 1 << uint(7-i%8)
			add("bitmap-flip-inside", q)
		}
		for i := p.Height; i < len(p.Bitmap)*8; i++ {
			q := p.clone()
			q.Bitmap[i/8] ^= 1 << uint(7-i%8)
			add("bitmap-flip-beyond-height", q) // ignored by construction: claim unchanged
			if i > p.Height+2 {
				break
			}
		}
		q := p.clone()
		q.Bitmap = q.Bitmap[:len(q.Bitmap)-1]
		add("bitmap-truncate", q)
		for _, d := range []int{-1, 1, 256, -256} {
			q = p.clone()
			q.Height += d
			add(fmt.Sprintf("height%+d", d), q)
		}
		q = p.clone()
		q.Height = 0
		if p.Height != 0 {
			add("height-zero", q)
		}
	}
	return out
}

// soundness runs every mutant of honest proof p.
func (ck *checker) soundness(fam *family, p *proofObj, kind string, others []*proofObj, r *rand.Rand, level string, extra ...mutant) {
	c := ck.c
	enc := "plain"
	if p.Compressed {
		enc = "compressed"
	}
	for mi, mu := range append(ck.mutants(p, fam, others, r), extra...) {
		ok, panicked := verifyRepo(mu.p)
		c.Eval(1)
		tag := enc + "/" + kind + "/" + mu.name
		switch {
		case panicked:
			ck.st.add(tag, 3)
			c.Count("mutants_verifier_panicked", 1)
			continue
		case !ok:
			ck.st.add(tag, 2)
			c.Count("mutants_rejected", 1)
			if verifyIndep(mu.p) && !fam.claimTrue(mu.p) {
				// harness self-check: the independent verifier must be sound as well
				c.Inconclusive("independent verifier accepted a false claim: " + tag)
			}
		default:
			if fam.claimTrue(mu.p) {
				ck.st.add(tag, 1)
				c.Count("mutants_accepted_claim_still_true", 1)
			} else {
				key := fmt.Sprintf("sound/%s/%s/%s/%s", level, mu.p.verifierName(), kind, mu.name)
				if !mu.p.Inclusion && len(mu.p.ProofKey) != 0 && bytes.Equal(mu.p.ProofKey, mu.p.Key) {
					// one root cause, many mutation routes: key it by the verifier only
					key = "noninclusion-accepts-proofkey-equal-key/" + mu.p.verifierName()
				}
				what := "absent"
				if mu.p.Inclusion {
					what = fmt.Sprintf("value %x", mu.p.Value)
				}
				c.Violation(key, fmt.Sprintf("%s accepted a mutated proof (%s of an honest %s %s proof, family %s) whose claim is false in the model: root %x key %x %s",
					mu.p.verifierName(), mu.name, enc, kind, fam.name, mu.p.Root, mu.p.Key, what),
					map[string]interface{}{"mutation": mu.name, "honest": p, "mutated": mu.p, "level": level})
			}
		}
		if verifyIndep(mu.p) != ok {
			ck.st.mu.Lock()
			ck.st.disagree[tag]++
			ck.st.mu.Unlock()
		}
		c.Nontrivial(fmt.Sprintf("%s/%x/%x/%s/%d", fam.name, p.Root, p.Key, tag, mi))
	}
}

func kindName(k tl.PathKind) string {
	switch k {
	case tl.Present:
		return "present"
	case tl.AbsentEmpty:
		return "absent-empty-subtree"
	}
	return "absent-foreign-leaf"
}

func (ck *checker) honestK(t *trie.Trie, fam *family, root []byte, cur bool, key tl.Key, compressed bool, level string, kind tl.PathKind, m tl.Model) (rp *proofObj, rk string, rok bool) {
	p := &proofObj{Compressed: compressed, Root: cp(root), Key: cp(key[:])}
	var included bool
	var pk, pv []byte
	var err error
	kb := cp(key[:])
	defer func() {
		if e := recover(); e != nil {
			enc := "plain"
			if compressed {
				enc = "compressed"
			}
			ck.c.Violation(fmt.Sprintf("complete/%s/%s/%s/prover-panics", level, enc, kindName(kind)),
				fmt.Sprintf("proof generation panicked for root %x key %x: %v", root, key, e), map[string]interface{}{"honest": p})
			rp, rk, rok = nil, kindName(kind), false
		}
	}()
	switch {
	case !compressed && cur:
		p.AP, included, pk, pv, err = t.MerkleProof(kb)
	case !compressed:
		p.AP, included, pk, pv, err = t.MerkleProofR(kb, root)
	case cur:
		p.Bitmap, p.AP, p.Height, included, pk, pv, err = t.MerkleProofCompressed(kb)
	default:
		p.Bitmap, p.AP, p.Height, included, pk, pv, err = t.MerkleProofCompressedR(kb, root)
	}
	return ck.checkHonest(p, included, pk, pv, err, fam, level, kind, m, nil)
}

// checkHonest applies the completeness oracle to what the prover returned.  For an included
// key pv is the (hashed) value the verifier has to be given; valueErr reports a mismatch
// between the returned plain value/state and the model found by the caller.
func (ck *checker) checkHonest(p *proofObj, included bool, pk, pv []byte, err error, fam *family, level string, kind tl.PathKind, m tl.Model, valueErr error) (*proofObj, string, bool) {
	c := ck.c
	var key tl.Key
	copy(key[:], p.Key)
	enc := "plain"
	if p.Compressed {
		enc = "compressed"
	}
	kn := kindName(kind)
	c.Eval(1)
	c.Count("honest_proofs_"+level+"_"+enc+"_"+kn, 1)
	rc := func() interface{} {
		return map[string]interface{}{"level": level, "family": fam.name, "kind": kn, "honest": p}
	}
	bad := func(what, desc string) (*proofObj, string, bool) {
		c.Violation(fmt.Sprintf("complete/%s/%s/%s/%s", level, enc, kn, what), desc+fmt.Sprintf(" (root %x key %x)", p.Root, p.Key), rc())
		return nil, kn, false
	}
	if err != nil {
		return bad("prover-error", "proof generation failed: "+err.Error())
	}
	p.Inclusion = included
	if included != (kind == tl.Present) {
		return bad("wrong-inclusion-flag", fmt.Sprintf("prover says included=%v for a key that is %s in the model", included, kn))
	}
	if included {
		if valueErr != nil {
			return bad("wrong-value", valueErr.Error())
		}
		want := m[key]
		if !bytes.Equal(pv, want[:]) {
			return bad("wrong-value", fmt.Sprintf("prover returned value (hash) %x, model %x", pv, want))
		}
		p.Value = cp(pv)
	} else {
		p.ProofKey, p.ProofVal = cp(pk), cp(pv)
	}
	ok, panicked := verifyRepo(p)
	if panicked {
		return bad("repo-verifier-panics", p.verifierName()+" panicked on the honest proof")
	}
	if !ok {
		return bad("repo-verifier-rejects", p.verifierName()+" rejected the honest proof")
	}
	if !verifyIndep(p) {
		return bad("independent-verifier-rejects", "the independent verifier (leaf->root re-hash with height byte) rejected the honest proof accepted by "+p.verifierName())
	}
	c.Count("honest_proofs_accepted_by_both", 1)
	return p, kn, true
}

// keysFor selects keys of each class at a root.
func keysFor(m tl.Model, universe []tl.Key, r *rand.Rand, perClass int) map[tl.PathKind][]tl.Key {
	sorted := m.Sorted()
	out := map[tl.PathKind][]tl.Key{}
	seen := map[tl.Key]bool{}
	consider := func(k tl.Key) {
		if seen[k] {
			return
		}
		seen[k] = true
		kind, _, _ := tl.Classify(m, sorted, k)
		if len(out[kind]) < perClass {
			out[kind] = append(out[kind], k)
		}
	}
	perm := r.Perm(len(sorted))
	for _, i := range perm {
		if len(out[tl.Present]) >= perClass {
			break
		}
		consider(sorted[i])
	}
	// absent candidates: neighbours of present keys at all depths, universe keys, random keys
	for _, i := range perm {
		if len(out[tl.AbsentEmpty]) >= perClass && len(out[tl.AbsentLeaf]) >= perClass {
			break
		}
		for _, nb := range tl.Neighbours(sorted[i]) {
			consider(nb)
		}
		consider(tl.Sibling(sorted[i], r.Intn(256)))
	}
	for _, k := range universe {
		consider(k)
	}
	for i := 0; i < 2*perClass; i++ {
		consider(tl.RandKey(r))
	}
	return out
}

// proveFamily: completeness + soundness over selected roots of one raw trie history.
func (ck *checker) proveFamily(t *trie.Trie, fam *family, universe []tl.Key, r *rand.Rand, nRoots, perClass int, level string) {
	c := ck.c
	if len(fam.roots) == 0 {
		return
	}
	curRoot := t.Root
	pick := []int{len(fam.roots) - 1}
	for i := 0; i < nRoots-1 && len(fam.roots) > 1; i++ {
		pick = append(pick, r.Intn(len(fam.roots)))
	}
	done := map[int]bool{}
	for _, ri := range pick {
		if done[ri] {
			continue
		}
		done[ri] = true
		root := fam.roots[ri]
		cur := bytes.Equal(root, curRoot)
		if cur {
			c.Count("roots_current", 1)
		} else {
			c.Count("roots_historical", 1)
		}
		m := fam.models[string(root)]
		ks := keysFor(m, universe, r, perClass)
		for _, compressed := range []bool{false, true} {
			var all []*proofObj
			type hk struct {
				p    *proofObj
				kind string
			}
			var hs []hk
			for _, kind := range []tl.PathKind{tl.Present, tl.AbsentEmpty, tl.AbsentLeaf} {
				for _, k := range ks[kind] {
					p, kn, ok := ck.honestK(t, fam, root, cur, k, compressed, level, kind, m)
					if ok {
						all = append(all, p)
						hs = append(hs, hk{p, kn})
					}
				}
			}
			for _, h := range hs {
				ck.soundness(fam, h.p, h.kind, all, r, level)
			}
			if !compressed && len(all) > 0 {
				ck.craftedProbe(all[0])
			}
		}
	}
}

// craftedProbe is an OBSERVATION outside the statement's domain (values are 32-byte hashes):
// leaf = H(key ‖ value ‖ height) and interior = H(left ‖ right) share a preimage format when
// the value is 31 bytes long, so the root node (left,right) with right[31] == byte(256) == 0
// verifies as the "leaf" key=left, value=right[:31] with an empty audit path.  Counted only.
func (ck *checker) craftedProbe(p *proofObj) {
	n := len(p.AP)
	if n == 0 || p.Compressed {
		return
	}
	nodes := pathNodes(p)
	l, rgt := nodes[n-1], p.AP[n-1]
	if bit(p.Key, 0) {
		l, rgt = rgt, l
	}
	if len(l) != 32 || len(rgt) != 32 {
		return
	}
	ck.c.Count("crafted_probe_roots_with_two_children", 1)
	if rgt[31] != 0 {
		return
	}
	ck.c.Count("crafted_probe_candidates(right_child_ends_in_00)", 1)
	q := &proofObj{Inclusion: true, Root: cp(p.Root), Key: cp(l), Value: cp(rgt[:31])}
	if ok, _ := verifyRepo(q); ok {
		ck.c.Count("crafted_interior_node_as_leaf_with_31_byte_value_ACCEPTED(out_of_domain,not_flagged)", 1)
	}
}

func parallel(n int, f func(i int)) {
	w := runtime.NumCPU()
	if w > 16 {
		w = 16
	}
	if w > n {
		w = n
	}
	var wg sync.WaitGroup
	ch := make(chan int)
	for j := 0; j < w; j++ {
		wg.Add(1)
		go func() {
			defer wg.Done()
			for i := range ch {
				f(i)
			}
		}()
	}
	for i := 0; i < n; i++ {
		ch <- i
	}
	close(ch)
	wg.Wait()
}

// rawPart: tries reached by the C10 histories (4-key adversarial universes and random ones).
func (ck *checker) rawPart() {
	c := ck.c
	// (1) 4-key universes: random 3-batch histories out of the C10 exhaustive space
	r0 := c.Rand("universes4")
	us := tl.Universes4(r0, c.Pick(8, 20))
	nH := c.Pick(24, 100)
	parallel(len(us)*nH, func(i int) {
		u := &us[i/nH]
		r := c.Rand(fmt.Sprintf("u4/%d", i))
		var vals [4][2]tl.Val
		for k := range vals {
			vals[k][0], vals[k][1] = tl.RandVal(r), tl.RandVal(r)
		}
		hist := []tl.Batch{tl.Batch4(u, &vals, 1+r.Intn(255)), tl.Batch4(u, &vals, 1+r.Intn(255)), tl.Batch4(u, &vals, 1+r.Intn(255))}
		_, t, snaps, err := tl.Build(ck.scratch, hist, i%2 == 0)
		if err != nil {
			c.Count("scenario_build_errors", 1)
			return
		}
		fam := &family{name: "u4/" + u.Name, models: map[string]tl.Model{}}
		for _, s := range snaps {
			fam.add(s.Root, s.Model)
		}
		ck.proveFamily(t, fam, u.Keys[:], r, 3, 6, "trie")
		c.Count("scenarios_u4", 1)
	})
	// (2) random adversarial histories
	type spec struct{ nKeys, nBatches, maxBatch, count, nRoots, perClass int }
	var specs []spec
	if c.Quick() {
		specs = []spec{{8, 20, 4, 40, 3, 6}, {40, 30, 12, 16, 3, 8}, {300, 20, 80, 4, 3, 10}, {2000, 12, 400, 1, 2, 12}}
	} else {
		specs = []spec{{6, 30, 4, 200, 4, 6}, {12, 30, 6, 150, 4, 8}, {40, 40, 12, 80, 4, 10}, {300, 30, 80, 24, 4, 12}, {2000, 20, 400, 4, 3, 16}}
	}
	type task struct {
		s  spec
		id string
	}
	var tasks []task
	for si, s := range specs {
		for n := 0; n < s.count; n++ {
			tasks = append(tasks, task{s, fmt.Sprintf("rand/%d/%d", si, n)})
		}
	}
	for i, j := 0, len(tasks)-1; i < j; i, j = i+1, j-1 {
		tasks[i], tasks[j] = tasks[j], tasks[i]
	}
	parallel(len(tasks), func(i int) {
		tk := tasks[i]
		r := c.Rand(tk.id)
		uni := tl.Universe(r, tk.s.nKeys)
		hist := tl.GenHistory(r, uni, tk.s.nBatches, tk.s.maxBatch)
		_, t, snaps, err := tl.Build(ck.scratch, hist, i%2 == 0)
		if err != nil {
			c.Count("scenario_build_errors", 1)
			return
		}
		fam := &family{name: fmt.Sprintf("rand-%dk/%d", tk.s.nKeys, i), models: map[string]tl.Model{}}
		for _, s := range snaps {
			fam.add(s.Root, s.Model)
		}
		ck.proveFamily(t, fam, uni, r, tk.s.nRoots, tk.s.perClass, "trie")
		c.Count("scenarios_random", 1)
		if len(snaps) > 0 {
			c.Sample(map[string]interface{}{"family": fam.name, "roots": len(fam.roots), "final_keys": len(snaps[len(snaps)-1].Model)})
		}
	})
}

func main() {
	c := vf.Start("C11", "exploration")
	ck := &checker{c: c, scratch: c.Scratch(), st: &stats{perMut: map[string]*[4]int64{}, disagree: map[string]int64{}}}
	if c.ReplayPath != "" {
		ck.replay()
		c.Finish("replay", 0)
		return
	}
	only := os.Getenv("VERIF_ONLY") // developer aid
	if only == "" || only == "raw" {
		ck.rawPart()
	}
	if only == "" || only == "sdb" {
		ck.sdbPart()
	}
	// evidence: per mutation class what the repo verifier did
	tbl := map[string]map[string]int64{}
	var panics []string
	ck.st.mu.Lock()
	for name, a := range ck.st.perMut {
		tbl[name] = map[string]int64{"tried": a[0], "accepted_claim_true": a[1], "rejected": a[2], "panicked": a[3]}
		if a[3] > 0 {
			panics = append(panics, name)
		}
	}
	dis := map[string]int64{}
	for k, v := range ck.st.disagree {
		dis[k] = v
	}
	ck.st.mu.Unlock()
	sort.Strings(panics)
	c.Set("mutation_table", tbl)
	c.Set("mutations_on_which_repo_verifier_panicked", panics)
	c.Set("repo_vs_independent_verifier_disagreements", dis)
	c.Finish("honest proofs accepted by repo and independent verifier; accepted mutated proof => claim true in the model",
		c.Pick(20000, 400000),
		"sha256 is collision-free on the inputs seen",
		"keys are 32 bytes and values are 32-byte hashes (statedb domain); out-of-domain lengths are not claims",
		"types/state.go has no proof verifier in this tree: account/variable proofs are verified by assembling the trie.Verify* call as a wallet must",
		"the empty trie (no root) is outside the statement")
}
