// C06 crash recovery: every crash point leaves a recoverable, consistent chain.
package main

import (
	"bytes"
	"fmt"
	"os"
	"path/filepath"
	"sync"

	"verif/h/rig"
	"verif/h/vf"
)

type scen struct {
	Name   string `json:"name"`
	Kind   string `json:"kind"` // linear | orphans | reorg
	Pre    int    `json:"pre_blocks"`
	LenA   int    `json:"len_a"`
	LenB   int    `json:"len_b"`
	Mode   string `json:"tx_mode"`
	Nested bool   `json:"nested"`
}

type caseDesc struct {
	Scen     scen     `json:"scenario"`
	Crash    int      `json:"crash_after_unit"`
	Units    int      `json:"units_total"`
	Unit     string   `json:"unit_in_progress"`
	Phase    string   `json:"phase"`
	Nested   int      `json:"nested_crash_after_unit"`
	Problems []string `json:"problems"`
}

func main() {
	if len(os.Args) > 1 && os.Args[1] == "node" {
		rig.ChildMain()
		return
	}
	c := vf.Start("C06", "fault_enumeration")
	var scens []scen
	if c.ReplayPath != "" {
		var cd caseDesc
		if err := c.LoadReplay(&cd); err != nil {
			fmt.Println("replay:", err)
			os.Exit(2)
		}
		replayK = cd.Crash
		scens = []scen{cd.Scen}
	} else if c.Quick() {
		scens = []scen{
			{Name: "linear", Kind: "linear", Pre: 1, LenA: 3},
			{Name: "reorg-d1", Kind: "reorg", Pre: 1, LenA: 1, LenB: 2, Mode: "mixed", Nested: true},
			{Name: "reorg-d2-orphans", Kind: "reorg-orphans", Pre: 1, LenA: 2, LenB: 3, Mode: "conflict"},
		}
	} else {
		scens = []scen{{Name: "linear", Kind: "linear", Pre: 2, LenA: 5}, {Name: "orphans", Kind: "orphans", Pre: 1, LenA: 4}}
		for d := 1; d <= 4; d++ {
			for diff := 1; diff <= 3; diff += 1 {
				mode := []string{"mixed", "conflict", "shared", "fresh"}[(d+diff)%4]
				scens = append(scens, scen{Name: fmt.Sprintf("reorg-d%d+%d", d, diff), Kind: "reorg", Pre: 1, LenA: d, LenB: d + diff, Mode: mode})
			}
		}
		scens = append(scens, scen{Name: "reorg-d2-orphans", Kind: "reorg-orphans", Pre: 1, LenA: 2, LenB: 4, Mode: "mixed"})
		scens = append(scens, scen{Name: "reorg-d2-nested", Kind: "reorg", Pre: 1, LenA: 2, LenB: 3, Mode: "mixed", Nested: true})
		scens = append(scens, scen{Name: "reorg-d3-nested", Kind: "reorg", Pre: 0, LenA: 3, LenB: 4, Mode: "conflict", Nested: true})
	}
	var wg sync.WaitGroup
	sem := make(chan struct{}, c.Pick(3, 4))
	for i, s := range scens {
		wg.Add(1)
		sem <- struct{}{}
		go func(i int, s scen) {
			defer wg.Done()
			defer func() { <-sem }()
			run(c, i, s)
		}(i, s)
	}
	wg.Wait()
	c.Finish("for each scenario (linear connection, orphan resolution, reorganisations of depth 1..4) the node runs with journaling wrappers around both stores; for EVERY prefix of the global sequence of durable write units (single sets, committed DB transactions, flushed bulks) both stores are materialised as memorydb files and the unmodified node is started on them in a fresh process; monitors: start-up and recovery succeed, coherence predicate, best block in the allowed set (old/new tip, intermediate tips of a linear extension), and after feeding all blocks again the best block, state root and coherence equal the crash-free run. The recovery run of crash points that left a reorg marker is journaled and enumerated again (one level of nesting; quick: the depth-1 reorganisation, thorough: two deeper ones). A case = one crash point; non-trivial = crash point whose store content differs from the previous one; distinct = (scenario, crash point)",
		c.Pick(40, 400),
		"crash = loss of all write units after k, units atomic, memorydb semantics; torn writes inside a unit and partial bulk flushes are not explored",
		"relaxed DPoS; the LIB status saved in the tip transaction is restored by the real boot loader")
}

// replayK >= 0: replay mode, only this crash point of the replayed scenario is run
var replayK = -1

type phase struct {
	label         string
	before, after []byte
	linear        [][]byte // tips legitimately passed through (linear extension incl. orphan chains)
}

func run(c *vf.Ctx, si int, s scen) {
	w := rig.NewWorld(fmt.Sprintf("c6s%d", si), c.Scratch(), rig.WorldOpts{Public: true, NAccts: 10, Mempool: "recorder"})
	cb := rig.NewAcct(s.Name+"/cb", 0)
	w.Tmpl.Coinbase = cb.B58()
	defer w.CloseAll()
	r := c.Rand("scen/" + s.Name)
	t := rig.NewTree(w)
	t.Kinds = []string{"xfer", "xfer", "xfer-new", "name", "stake", "votebp", "deploy", "call-inc", "call-fail", "xfer-poor"}
	t.MaxTx = 4
	build := func(p int, m string) int {
		b, err := t.Add(p, r, m)
		if err != nil {
			c.Inconclusive(fmt.Sprintf("%s: build: %v", s.Name, err))
			return -2
		}
		return b.Idx
	}
	tip := -1
	var pre, A, B []int
	for i := 0; i < s.Pre; i++ {
		if tip = build(tip, "fresh"); tip == -2 {
			return
		}
		pre = append(pre, tip)
	}
	p := tip
	for i := 0; i < s.LenA; i++ {
		m := "fresh"
		if i%2 == 1 {
			m = "empty"
		}
		if p = build(p, m); p == -2 {
			return
		}
		A = append(A, p)
	}
	p = tip
	for i := 0; i < s.LenB; i++ {
		m := "fresh"
		if i == 0 {
			m = s.Mode
		}
		if p = build(p, m); p == -2 {
			return
		}
		B = append(B, p)
	}
	t.Close()
	// delivery order of the journaled part
	var order []int
	switch s.Kind {
	case "linear":
		order = A
	case "orphans":
		order = append(order, A[1:]...) // children first (only one orphan per parent is kept: deliver them again afterwards)
		order = append(order, A[0])
		order = append(order, A...)
	case "reorg":
		order = append(append(order, A...), B...)
	case "reorg-orphans":
		order = append(order, A...)
		order = append(order, B[1:]...)
		order = append(order, B[0])
		order = append(order, B...)
	}
	// --- crash-free journaled run ---------------------------------------------------------
	ref, _, err := w.Node("ref", nil)
	if err != nil {
		c.Inconclusive("start ref: " + err.Error())
		return
	}
	for _, i := range pre {
		if e, err := ref.AddBlock(t.Blocks[i].Bytes); err != nil || e != "" {
			c.Inconclusive(fmt.Sprintf("%s: ref refused pre block: %v %s", s.Name, err, e))
			return
		}
	}
	ref.JournalStart()
	var phases []phase
	for oi, i := range order {
		lbl := fmt.Sprintf("add#%d(order %d)", i, oi)
		ref.JournalPhase(lbl)
		b0, _ := ref.Best()
		if _, err := ref.AddBlock(t.Blocks[i].Bytes); err != nil {
			c.Inconclusive(fmt.Sprintf("%s: ref died: %v", s.Name, err))
			return
		}
		b1, _ := ref.Best()
		ph := phase{label: lbl, before: b0.Hash, after: b1.Hash}
		// linear extension: every block from before (exclusive) to after
		cur := find(t, b1.Hash)
		for cur >= 0 && !bytes.Equal(t.Blocks[cur].Hash, b0.Hash) {
			ph.linear = append(ph.linear, t.Blocks[cur].Hash)
			cur = t.Blocks[cur].Parent
		}
		if !(cur >= 0 || (cur == -1 && b0.No == 0)) {
			ph.linear = nil // not an extension of the old tip: a reorganisation
		}
		phases = append(phases, ph)
	}
	ref.JournalStop()
	fin, _ := ref.Best()
	units, err := ref.JournalUnits()
	if err != nil {
		c.Inconclusive("journal: " + err.Error())
		return
	}
	m := len(units)
	c.Count("units/"+s.Name, m)
	expectTip := t.Blocks[A[len(A)-1]].Hash
	if len(B) > len(A) && (s.Kind == "reorg" || s.Kind == "reorg-orphans") {
		expectTip = t.Blocks[B[len(B)-1]].Hash
	}
	if !bytes.Equal(fin.Hash, expectTip) {
		c.Inconclusive(fmt.Sprintf("%s: crash-free run did not end on the expected tip", s.Name))
		return
	}
	phaseOf := map[string]*phase{}
	for i := range phases {
		phaseOf[phases[i].label] = &phases[i]
	}
	// materialise every prefix
	base := filepath.Join(c.Scratch(), "crash", s.Name)
	for k := 0; k <= m; k++ {
		if err := ref.Materialize(k, -1, filepath.Join(base, fmt.Sprint(k))); err != nil {
			c.Inconclusive("materialize: " + err.Error())
			return
		}
	}
	known := t.AllTx()
	var feed [][]byte
	for _, i := range append(append([]int(nil), pre...), order...) {
		feed = append(feed, t.Blocks[i].Bytes)
	}
	// parents-first pass at the end (what the syncer does for dropped orphans)
	for _, i := range append(append([]int(nil), A...), B...) {
		feed = append(feed, t.Blocks[i].Bytes)
	}
	var wg sync.WaitGroup
	sem := make(chan struct{}, 4)
	for k := 0; k <= m; k++ {
		if replayK >= 0 && k != replayK {
			continue
		}
		wg.Add(1)
		sem <- struct{}{}
		go func(k int) {
			defer wg.Done()
			defer func() { <-sem }()
			dir := filepath.Join(base, fmt.Sprint(k))
			defer os.RemoveAll(dir)
			cd := caseDesc{Scen: s, Crash: k, Units: m, Nested: -1}
			var ph *phase
			if k < m {
				u := units[k]
				cd.Unit = fmt.Sprintf("%s/%s %v", u.Store, u.Kind, u.Keys)
				cd.Phase = u.Phase
				ph = phaseOf[u.Phase]
			}
			ok, nestedUnits := crashPoint(c, w, t, s, cd, dir, ph, fin, known, feed, fmt.Sprintf("k%d", k), s.Nested)
			_ = ok
			changed := k == 0 || units[k-1].NOps > 0
			if changed {
				c.Nontrivial(fmt.Sprintf("%s|%d", s.Name, k))
			}
			c.Count("crash_points", 1)
			if nestedUnits > 0 {
				c.Count("nested_recovery_runs", 1)
			}
		}(k)
	}
	wg.Wait()
	c.Sample(map[string]interface{}{"scenario": s, "units": m, "first_units": firstN(units, 12)})
}

func firstN(u []rig.UnitInfo, n int) []string {
	var out []string
	for i, x := range u {
		if i >= n {
			break
		}
		out = append(out, fmt.Sprintf("%d %s/%s phase=%s %v", x.Seq, x.Store, x.Kind, x.Phase, x.Keys))
	}
	return out
}

// crashPoint starts the unmodified node on the materialised stores and applies the monitors.
// It returns the number of units journaled during the recovery run when nested enumeration is on.
func crashPoint(c *vf.Ctx, w *rig.World, t *rig.Tree, s scen, cd caseDesc, dir string, ph *phase, fin *rig.BlockInfo, known [][]byte, feed [][]byte, tag string, nested bool) (bool, int) {
	fail := func(key string, problems ...string) {
		cd.Problems = problems
		c.Violation(key, fmt.Sprintf("scenario %s, crash after durable unit %d of %d (in progress: %s, phase %s)%s:\n  %s", s.Name, cd.Crash, cd.Units, cd.Unit, cd.Phase,
			map[bool]string{true: fmt.Sprintf(", second crash after unit %d of the recovery run", cd.Nested), false: ""}[cd.Nested >= 0], join(problems)), cd)
	}
	node, bi, err := w.Node("crash-"+tag, func(cfg *rig.NodeConfig) {
		cfg.Dir = dir
		cfg.JournalFromStart = nested
	})
	c.Eval(1)
	if err != nil {
		fail("restart-failed/"+s.Kind, "node does not start on the crash state: "+short(err.Error(), 600))
		return false, 0
	}
	defer node.Kill()
	nestedUnits := 0
	if nested {
		if us, err := node.JournalUnits(); err == nil {
			nestedUnits = len(us)
		}
	}
	co, err := node.Coherent(known)
	if err != nil {
		fail("node-died-after-restart/"+s.Kind, short(err.Error(), 600))
		return false, nestedUnits
	}
	if len(co.Problems) > 0 {
		fail("incoherent-after-recovery/"+s.Kind, co.Problems...)
		return false, nestedUnits
	}
	// best in the allowed set
	if ph != nil {
		allowed := [][]byte{ph.before, ph.after}
		allowed = append(allowed, ph.linear...)
		okb := false
		for _, a := range allowed {
			if bytes.Equal(a, bi.Hash) {
				okb = true
			}
		}
		if !okb {
			fail("best-not-legitimate/"+s.Kind, fmt.Sprintf("best block after recovery is #%d (height %d), allowed: old tip #%d, new tip #%d or a tip passed on the way", find(t, bi.Hash), bi.No, find(t, ph.before), find(t, ph.after)))
			return false, nestedUnits
		}
	} else if !bytes.Equal(bi.Hash, fin.Hash) {
		fail("final-state-lost/"+s.Kind, "all units applied but the best block differs from the crash-free run")
		return false, nestedUnits
	}
	c.Count(fmt.Sprintf("recovered_best_height_%d", bi.No), 1)
	// nested: crash again inside the recovery run
	if nested && nestedUnits > 0 {
		for j := 0; j < nestedUnits; j++ {
			d2 := dir + fmt.Sprintf("-n%d", j)
			if err := node.Materialize(j, -1, d2); err != nil {
				continue
			}
			cd2 := cd
			cd2.Nested = j
			crashPoint(c, w, t, s, cd2, d2, ph, fin, known, feed, fmt.Sprintf("%s-n%d", tag, j), false)
			os.RemoveAll(d2)
			c.Count("nested_crash_points", 1)
		}
	}
	// feeding the same blocks again converges to the crash-free state
	for _, b := range feed {
		if _, err := node.AddBlock(b); err != nil {
			fail("node-died-on-refeed/"+s.Kind, short(err.Error(), 600))
			return false, nestedUnits
		}
	}
	nb, err := node.Best()
	if err != nil {
		fail("node-died-on-refeed/"+s.Kind, short(err.Error(), 600))
		return false, nestedUnits
	}
	if !bytes.Equal(nb.Hash, fin.Hash) || !bytes.Equal(nb.SdbRoot, fin.SdbRoot) {
		fail("no-convergence-after-refeed/"+s.Kind, fmt.Sprintf("after feeding the same blocks again: best #%d (height %d) state root %x; crash-free run: #%d (height %d) root %x", find(t, nb.Hash), nb.No, nb.SdbRoot[:6], find(t, fin.Hash), fin.No, fin.SdbRoot[:6]))
		return false, nestedUnits
	}
	if co2, err := node.Coherent(known); err == nil && len(co2.Problems) > 0 {
		fail("incoherent-after-refeed/"+s.Kind, co2.Problems...)
		return false, nestedUnits
	}
	return true, nestedUnits
}

func find(t *rig.Tree, h []byte) int {
	for _, b := range t.Blocks {
		if bytes.Equal(b.Hash, h) {
			return b.Idx
		}
	}
	return -1
}

func short(s string, n int) string {
	if len(s) > n {
		return s[len(s)-n:]
	}
	return s
}

func join(p []string) string {
	out := ""
	for i, x := range p {
		if i > 0 {
			out += "\n  "
		}
		out += x
	}
	return out
}
