// C14 admission totality: untrusted transactions never crash a node.
package main

import (
	"bytes"
	"github.com/mr-tron/base58"
	"encoding/json"
	"fmt"
	"math/big"
	"math/rand"
	"os"
	"regexp"
	"strings"
	"sync"
	"time"

	"github.com/aergoio/aergo/v2/types"

	"verif/h/rig"
	"verif/h/vf"
)

type input struct {
	Desc    string `json:"desc"`
	Type    int32  `json:"type"`
	To      string `json:"recipient"`
	Payload string `json:"payload"`
	Sender  string `json:"sender_state"`
	Amount  string `json:"amount_hex"`
	TxHex   string `json:"tx_hex"`
}

var reFrame = regexp.MustCompile(`github\.com/aergoio/aergo/v2/([\w/]+)\.([\w\.\(\)\*]+)\(`)

// site extracts the innermost aergo frame below the panic from a stack dump.
func site(stack string) string {
	lines := strings.Split(stack, "\n")
	start := 0
	for i, l := range lines {
		if strings.Contains(l, "panic(") || strings.HasPrefix(l, "panic:") {
			start = i
		}
	}
	for _, l := range lines[start:] {
		if m := reFrame.FindStringSubmatch(l); m != nil && !strings.Contains(l, "verif/h") && !strings.Contains(m[1], "pkg/component") {
			return m[1] + "." + strings.Trim(m[2], "()*")
		}
	}
	return "unknown"
}

func panicMsg(s string) string {
	for _, l := range strings.Split(s, "\n") {
		if strings.HasPrefix(l, "PANIC:") || strings.HasPrefix(l, "panic:") {
			if len(l) > 160 {
				l = l[:160]
			}
			return l
		}
	}
	if len(s) > 160 {
		return s[:160]
	}
	return s
}

func main() {
	if len(os.Args) > 1 && os.Args[1] == "node" {
		rig.ChildMain()
		return
	}
	c := vf.Start("C14", "exploration")
	type cfg struct {
		name   string
		public bool
		ver    int
	}
	var cfgs []cfg
	if c.Quick() {
		cfgs = []cfg{{"pub-v5", true, 5}, {"priv-v4", false, 4}, {"pub-v0", true, 0}}
	} else {
		for _, v := range []int{0, 2, 3, 4, 5} {
			cfgs = append(cfgs, cfg{fmt.Sprintf("pub-v%d", v), true, v}, cfg{fmt.Sprintf("priv-v%d", v), false, v})
		}
	}
	var wg sync.WaitGroup
	sem := make(chan struct{}, c.Pick(3, 5))
	for i, cf := range cfgs {
		for part := 0; part < c.Pick(1, 3); part++ {
			wg.Add(1)
			sem <- struct{}{}
			go func(i int, cf cfg, part int) {
				defer wg.Done()
				defer func() { <-sem }()
				run(c, fmt.Sprintf("%s-p%d", cf.name, part), cf.public, cf.ver, part)
			}(i, cf, part)
		}
	}
	wg.Wait()
	c.Finish("structure-aware generation of untrusted transactions: every tx type x every governance command (system, name, enterprise, unknown) x argument shapes (missing, [], null, wrong JSON type per position, extra, huge numbers, negative, non-UTF8, long strings, wrong-length base58) x payload shapes (not JSON, truncated, deeply nested) x field lengths (account, recipient, amount, price 0..40 bytes) x sender states (new, rich, staked, voter, name owner, admin); each input is logged before it is sent to a node process. Monitors: (a) stateless validation returns accept/reject without panic; (b) pool admission through the hub answers (no panic/hang in the verifier actors); (c) every admitted tx is executed by the producer (no panic in block generation) and by a fresh validator (process survives). Thorough tier: a governance history with two voters on one system parameter (stake, vote, full unstake of one, re-vote of the other, coming back, voting again) in which the chain is moved past the 86400-block delays whenever an operation is refused for time. A case = one input; non-trivial = input that passed (a) and reached admission; distinct = hash of the input",
		c.Pick(600, 6000),
		"contracts execute on the PUC-Lua shim; crashes inside LuaJIT itself are out of reach",
		"a pool admission call that does not answer within the watchdog is attributed to a panic only if the node log shows one; otherwise the run is inconclusive")
}

// argument shapes
func mh(code byte, n int) string {
	b := append([]byte{code, byte(n)}, make([]byte, n)...)
	for i := range b[2:] {
		b[2+i] = byte(i*7 + 1)
	}
	return base58.Encode(b)
}

func argShapes(r *rand.Rand, bps []string, addr string) [][]interface{} {
	big1 := strings.Repeat("9", 400)
	return [][]interface{}{
		{"RPCPERMISSIONS", "dGVzdA==:RW", "x\\y:R"}, {"RPCPERMISSIONS", "dGVzdA==:R\\x"}, {"ACCOUNTWHITE", addr + "\\" + addr}, {"P2PWHITE", "{\"peerid\":\"" + bps[0] + "\"}\\x"},
		{"RPCPERMISSIONS", true}, {"ACCOUNTWHITE", true}, {"P2PWHITE", true}, {"RPCPERMISSIONS", false}, {"RPCPERMISSIONS", "true"},
		{"GASPRICE", "0"}, {"NAMEPRICE", "0"}, {"STAKINGMIN", "0"}, {"GASPRICE", "00"}, {"GASPRICE", "+0"},
		{mh(0x00, 64)}, {mh(0x00, 70), bps[0]}, {mh(0x00, 1)}, {mh(0x12, 32)}, {bps[0], mh(0x00, 64)}, {mh(0x00, 37)}, {mh(0x00, 120)},
		nil, {}, {nil}, {1}, {true}, {map[string]interface{}{"a": 1}}, {[]interface{}{1, 2}}, {""}, {"x"},
		{addr}, {addr, addr}, {addr, 1}, {addr, nil}, {1, addr}, {nil, nil}, {"name12345678"}, {"name12345678", addr}, {"name12345678", 1}, {"name12345678", nil},
		{"name12345678", "notanaddress"}, {"name12345678", addr, addr}, {"toolongname_______"}, {"short"}, {"name1234567\xff"},
		{"GASPRICE"}, {"GASPRICE", "1"}, {"GASPRICE", 1}, {"GASPRICE", nil}, {"GASPRICE", "-1"}, {"GASPRICE", big1}, {"BPCOUNT", "3"}, {"BPCOUNT", "101"}, {"BPCOUNT", "0"},
		{"NOSUCH", "1"}, {"gasprice", "5"}, {"STAKINGMIN", "1", "2", "3"}, {bps[0]}, {bps[0], bps[0]}, {bps[0], 1}, {"16Uiu2HAm"}, {strings.Repeat("a", 5000)},
		{big1}, {-1}, {1.5}, {1e300}, {"ADMINS"}, {"ADMINS", addr}, {"P2PWHITE", "x"}, {"RPCPERMISSIONS", "a:b"}, {"ACCOUNTWHITE", addr}, {"ACCOUNTWHITE", 1},
		{map[string]interface{}{"command": "add", "name": "n", "address": "/ip4/1.1.1.1/tcp/1", "peerid": bps[0]}}, {map[string]interface{}{"command": 1}},
		{map[string]interface{}{"command": "remove", "id": "1"}}, {map[string]interface{}{"command": "remove", "id": 1}},
	}
}

var cmdNames = []string{"v1stake", "v1unstake", "v1voteBP", "v1voteDAO", "v1createName", "v1updateName", "v1setOwner",
	"appendAdmin", "removeAdmin", "setConf", "appendConf", "removeConf", "enableConf", "disableConf", "changeCluster", "v1nosuch", "", "V1STAKE"}

// rawPayloads: depth = nesting of the "deeply nested" payload. Governance payloads are parsed by Go code only
// (depth 2000). Payloads that may reach a contract as call arguments are capped at 12 levels: the host pushes
// nested arguments onto the Lua stack one slot per level, which LuaJIT grows on every push while the PUC Lua
// under the shim does not (20 free slots) - deeper nesting crashes the shim, not the code under test.
func rawPayloads() [][]byte { return rawPayloadsDepth(2000) }

func rawPayloadsDepth(depth int) [][]byte {
	deep := strings.Repeat("[", depth) + strings.Repeat("]", depth)
	return [][]byte{nil, {}, []byte("x"), []byte("{"), []byte(`{"Name":"v1stake"`), []byte(`{"Name":1}`), []byte(`{"Name":null,"Args":null}`), []byte(`[]`), []byte(`null`), []byte(`"v1stake"`),
		[]byte(`{"Name":"v1voteBP","Args":` + deep + `}`), []byte(`{"Name":"v1stake","Args":{}}`), []byte(`{"Name":"v1createName","Args":"name12345678"}`),
		[]byte(`{"name":"v1stake"}`), []byte("{\"Name\":\"v1stake\",\"Args\":[\"\xff\xfe\"]}"), []byte(`{"Name":"v1voteDAO","Args":[{"a":[1,{"b":null}]}]}`)}
}

func run(c *vf.Ctx, name string, public bool, ver int, part int) {
	hf := map[string]uint64{}
	for v := 2; v <= 5; v++ {
		if v <= ver {
			hf[fmt.Sprintf("V%d", v)] = 1
		} else {
			hf[fmt.Sprintf("V%d", v)] = 1 << 40
		}
	}
	w := rig.NewWorld(name, c.Scratch(), rig.WorldOpts{Public: public, NAccts: 10, Mempool: "real", HF: hf})
	cb := rig.NewAcct(name+"/cb", 0)
	w.Tmpl.Coinbase = cb.B58()
	defer w.CloseAll()
	r := c.Rand("run/" + name)
	var chain [][]byte // blocks connected so far (to resync restarted nodes)
	startNode := func(nm string) *rig.Client {
		n, _, err := w.Node(nm, nil)
		if err != nil {
			c.Inconclusive("start node: " + err.Error())
			return nil
		}
		n.Timeout = 90 * time.Second
		for _, b := range chain {
			if e, err := n.AddBlock(b); err != nil || e != "" {
				c.Inconclusive(fmt.Sprintf("%s: resync refused: %v %s", name, err, e))
				return nil
			}
		}
		return n
	}
	nut := startNode("nut0")
	val := startNode("val0")
	if nut == nil || val == nil {
		return
	}
	gp := big.NewInt(50000000000)
	if !public {
		gp = big.NewInt(0)
	}
	accts := w.Accts
	rich, staker, owner, admin := accts[0], accts[1], accts[2], accts[3]
	fresh := rig.NewAcct(name+"/fresh", 1)
	nonce := map[string]uint64{}
	cid := func() []byte { b, _ := nut.Best(); return w.CIDHash(b.No + 1) }
	// --- set up sender states with honest txs -----------------------------------------------
	setup := []*types.Tx{
		rig.TxSpec{Type: types.TxType_GOVERNANCE, From: staker, To: []byte(types.AergoSystem), Nonce: 1, Amount: new(big.Int).Mul(big.NewInt(20000), rig.Aergo), Payload: rig.GovPayload("v1stake"), GasPrice: gp, ChainID: cid()}.Build(),
		rig.TxSpec{Type: types.TxType_GOVERNANCE, From: owner, To: []byte(types.AergoName), Nonce: 1, Amount: rig.Aergo, Payload: rig.GovPayload("v1createName", "name12345678"), GasPrice: gp, ChainID: cid()}.Build(),
	}
	if !public {
		setup = append(setup, rig.TxSpec{Type: types.TxType_GOVERNANCE, From: admin, To: []byte(types.AergoEnterprise), Nonce: 1, Amount: big.NewInt(0), Payload: rig.GovPayload("appendAdmin", admin.B58()), GasPrice: gp, ChainID: cid()}.Build())
	}
	var enc [][]byte
	for _, tx := range setup {
		enc = append(enc, rig.EncTx(tx))
	}
	rsp, err := nut.Produce(&rig.ProduceReq{Txs: enc, Connect: true, Confirms: -1, SignKey: 0})
	if err != nil || rsp.Panic != "" || rsp.GenErr != "" || rsp.AddErr != "" {
		c.Inconclusive(fmt.Sprintf("%s: setup block failed: %v", name, err))
		return
	}
	chain = append(chain, rsp.Block)
	val.AddBlock(rsp.Block)
	for _, a := range accts {
		if st, err := nut.GetState(a.Addr); err == nil {
			nonce[a.B58()] = st.Nonce
		}
	}
	senders := map[string]*rig.Acct{"rich": rich, "staked": staker, "name-owner": owner, "admin": admin, "new": fresh}
	sNames := []string{"rich", "staked", "name-owner", "admin", "new"}
	// --- generate inputs ---------------------------------------------------------------------
	type gen struct {
		desc  string
		sp    rig.TxSpec
		snd   string
		flush bool // execute right away (ordered multi-step sequences)
	}
	var inputs []gen
	// ordered sequence first (while the only stake is the "staked" account's, so its parameter votes win):
	// degenerate parameter values, each followed by ordinary transactions that use the parameter
	if ver >= 2 {
		for _, pv := range [][2]string{{"GASPRICE", "0"}, {"NAMEPRICE", "0"}, {"STAKINGMIN", "0"}, {"BPCOUNT", "0"}, {"GASPRICE", "1"}} {
			inputs = append(inputs,
				gen{fmt.Sprintf("gov-seq v1voteDAO %v", pv), rig.TxSpec{Type: types.TxType_GOVERNANCE, To: []byte(types.AergoSystem), Amount: big.NewInt(0), Payload: rig.GovPayload("v1voteDAO", pv[0], pv[1]), GasPrice: gp}, "staked", true},
				gen{"seq transfer after parameter vote", rig.TxSpec{Type: types.TxType_TRANSFER, To: rich.Addr, Amount: big.NewInt(1), GasPrice: gp}, "name-owner", true},
				gen{"seq transfer gaslimit after parameter vote", rig.TxSpec{Type: types.TxType_TRANSFER, To: rich.Addr, Amount: big.NewInt(1), GasPrice: gp, GasLimit: 100000}, "rich", true},
				gen{"seq create name after parameter vote", rig.TxSpec{Type: types.TxType_GOVERNANCE, To: []byte(types.AergoName), Amount: rig.Aergo, Payload: rig.GovPayload("v1createName", fmt.Sprintf("p%s%08d", strings.ToLower(pv[0][:3]), len(inputs))), GasPrice: gp}, "rich", true})
		}
	}
	shapes := argShapes(r, w.BPIDs, rich.B58())
	recips := [][]byte{[]byte(types.AergoSystem), []byte(types.AergoName), []byte(types.AergoEnterprise), []byte("aergo.vault"), []byte("aergo.nosuch"), rich.Addr, nil, {}}
	for _, cmd := range cmdNames {
		for si, sh := range shapes {
			if false {
				continue
			}
			var to []byte
			switch {
			case strings.HasPrefix(cmd, "v1stake"), strings.HasPrefix(cmd, "v1unstake"), strings.HasPrefix(cmd, "v1vote"):
				to = recips[0]
			case cmd == "v1createName" || cmd == "v1updateName" || cmd == "v1setOwner":
				to = recips[1]
			case cmd == "v1nosuch" || cmd == "" || cmd == "V1STAKE":
				to = recips[r.Intn(3)]
			default:
				to = recips[2]
			}
			if r.Intn(12) == 0 {
				to = recips[r.Intn(len(recips))]
			}
			pl := rig.GovPayload(cmd, sh...)
			if sh == nil {
				pl, _ = json.Marshal(map[string]interface{}{"Name": cmd})
			}
			first := "staked"
			if bytes.Equal(to, recips[2]) {
				first = "admin" // enterprise commands need an administrator to get past the permission check
			}
			for _, snd := range []string{first, sNames[r.Intn(len(sNames))]} {
				amt := []*big.Int{big.NewInt(0), rig.Aergo, new(big.Int).Mul(big.NewInt(10000), rig.Aergo), big.NewInt(1)}[r.Intn(4)]
				inputs = append(inputs, gen{fmt.Sprintf("gov %s args#%d to=%q", cmd, si, to), rig.TxSpec{Type: types.TxType_GOVERNANCE, To: to, Amount: amt, Payload: pl, GasPrice: gp}, snd, false})
			}
		}
	}
	for pi, pl := range rawPayloads() {
		for _, to := range recips[:3] {
			inputs = append(inputs, gen{fmt.Sprintf("gov raw-payload#%d to=%q", pi, to), rig.TxSpec{Type: types.TxType_GOVERNANCE, To: to, Amount: big.NewInt(0), Payload: pl, GasPrice: gp}, sNames[r.Intn(len(sNames))], false})
		}
	}
	// all tx types with odd field lengths
	types_ := []types.TxType{types.TxType_NORMAL, types.TxType_GOVERNANCE, types.TxType_REDEPLOY, types.TxType_FEEDELEGATION, types.TxType_TRANSFER, types.TxType_CALL, types.TxType_DEPLOY, types.TxType_MULTICALL, 99, -1}
	lens := []int{0, 1, 12, 32, 33, 34, 40}
	for _, tt := range types_ {
		for k := 0; k < c.Pick(25, 120); k++ {
			to := make([]byte, lens[r.Intn(len(lens))])
			r.Read(to)
			if r.Intn(3) == 0 {
				to = recips[r.Intn(len(recips))]
			}
			amt := make([]byte, []int{0, 1, 8, 16, 17, 32, 40}[r.Intn(7)])
			r.Read(amt)
			var pl []byte
			switch r.Intn(5) {
			case 0:
				if tt == types.TxType_GOVERNANCE {
					pl = rawPayloads()[r.Intn(len(rawPayloads()))]
				} else {
					pl = rawPayloadsDepth(12)[r.Intn(len(rawPayloads()))]
				}
			case 1:
				pl = []byte(`{"Name":"inc","Args":["k"]}`)
			case 2:
				pl = make([]byte, r.Intn(300))
				r.Read(pl)
			case 3:
				pl = []byte(`[["let","x",1],["return","%x%"]]`)
			}
			sp := rig.TxSpec{Type: tt, To: to, Amount: new(big.Int).SetBytes(amt), Payload: pl, GasPrice: gp, GasLimit: []uint64{0, 1, 1 << 62}[r.Intn(3)]}
			inputs = append(inputs, gen{fmt.Sprintf("type=%d to-len=%d amount-len=%d payload-len=%d", tt, len(to), len(amt), len(pl)), sp, sNames[r.Intn(len(sNames))], false})
		}
	}
	// DEPLOY / REDEPLOY payload framings: 4-byte little-endian head length followed by code and args
	for hl := 0; hl <= 8; hl++ {
		for _, body := range [][]byte{nil, {1}, []byte("function f() end abi.register(f)"), make([]byte, 40)} {
			pl := append([]byte{byte(hl), 0, 0, 0}, body...)
			for _, tt := range []types.TxType{types.TxType_DEPLOY, types.TxType_NORMAL} {
				inputs = append(inputs, gen{fmt.Sprintf("deploy head-len=%d body-len=%d type=%d", hl, len(body), tt), rig.TxSpec{Type: tt, Amount: big.NewInt(0), Payload: pl, GasPrice: gp}, "rich", false})
			}
		}
	}
	for _, hl := range []uint32{0xffffffff, 0x80000000, 1 << 20} {
		pl := []byte{byte(hl), byte(hl >> 8), byte(hl >> 16), byte(hl >> 24), 1, 2, 3}
		inputs = append(inputs, gen{fmt.Sprintf("deploy head-len=%d", hl), rig.TxSpec{Type: types.TxType_DEPLOY, Amount: big.NewInt(0), Payload: pl, GasPrice: gp}, "rich", false})
	}
	// account field lengths (unsigned / signed by rich)
	for _, l := range lens {
		acc := make([]byte, l)
		r.Read(acc)
		inputs = append(inputs, gen{fmt.Sprintf("account-len=%d", l), rig.TxSpec{Type: types.TxType_TRANSFER, Account: acc, To: rich.Addr, Amount: big.NewInt(1), GasPrice: gp}, "rich", false})
	}
	// ordered enterprise sequences (private chains): a hostile configuration value is stored, then the
	// configuration is switched on, extended and switched off - every step is admitted and executed at once
	if !public {
		ent := func(cmd string, args ...interface{}) gen {
			return gen{desc: fmt.Sprintf("gov-seq %s %v", cmd, args), sp: rig.TxSpec{Type: types.TxType_GOVERNANCE, To: []byte(types.AergoEnterprise), Amount: big.NewInt(0), Payload: rig.GovPayload(cmd, args...), GasPrice: gp}, snd: "admin", flush: true}
		}
		for _, key := range []string{"RPCPERMISSIONS", "ACCOUNTWHITE", "P2PWHITE", "P2PBLACK"} {
			for _, v := range []string{"dGVzdA==:R\\x", "a\\b:W", "x", ":", "dGVzdA==:", "\\", "dGVzdA==:W\\", "dGVzdA==:RW", admin.B58(), admin.B58() + "\\" + rich.B58(), "{\"peerid\":\"" + w.BPIDs[0] + "\"}", "{\"cidr\":\"1.1.1.1/24\"}\\{"} {
				inputs = append(inputs, ent("setConf", key, v), ent("enableConf", key, true), ent("appendConf", key, "dGVzdA==:W"), ent("appendConf", key, rich.B58()),
					ent("enableConf", key, true), ent("removeConf", key, v), ent("enableConf", key, false), ent("appendAdmin", rich.B58()), ent("removeAdmin", rich.B58()))
			}
		}
	}
	c.Count("inputs_generated", len(inputs))
	// --- drive -----------------------------------------------------------------------------------
	admittedSince := 0
	restarts := 0
	noVal := false // history phase: the chain is moved 86400 blocks at a time, the validator does not follow
	flush := func() bool {
		if admittedSince == 0 {
			return true
		}
		admittedSince = 0
		nut.MempoolSync()
		offered, _ := nut.MempoolGet()
		rsp, err := nut.Produce(&rig.ProduceReq{FromMempool: true, Connect: true, Confirms: -1, SignKey: 0})
		if err == nil && rsp.Panic == "" {
			// a tx the producer skips stays in the pool and blocks every later nonce of its sender: take it out
			inc := map[string]bool{}
			for _, h := range rsp.Included {
				inc[string(h)] = true
			}
			for _, tb := range offered {
				if tx := rig.DecTx(tb); tx != nil && !inc[string(tx.Hash)] {
					nut.MempoolDelTx(tb)
					c.Count("admitted_but_skipped_by_producer", 1)
				}
			}
		}
		if err != nil {
			c.Violation("node-died-producing-admitted-txs", fmt.Sprintf("%s: %v", name, err), map[string]string{"config": name})
			return false
		}
		if rsp.Panic != "" {
			st := site(rsp.Panic)
			c.Violation("panic-in-block-production@"+st, fmt.Sprintf("%s: block production over admitted transactions panicked (the real block factory swallows this every slot): %s\n%.1500s", name, panicMsg(rsp.Panic), rsp.Panic), map[string]interface{}{"config": name, "panic": panicMsg(rsp.Panic)})
			// the poisonous tx stays in the pool: restart the producer with a clean pool
			nut.Kill()
			restarts++
			if nut = startNode(fmt.Sprintf("nut%d", restarts)); nut == nil {
				return false
			}
			return true
		}
		if rsp.GenErr != "" || rsp.AddErr != "" {
			c.Inconclusive(fmt.Sprintf("%s: production failed: %s %s", name, rsp.GenErr, rsp.AddErr))
			return false
		}
		c.Count("executed_in_blocks", len(rsp.Included))
		for _, rc := range rsp.Receipts {
			c.Count("receipt_"+rc.Status, 1)
		}
		chain = append(chain, rsp.Block)
		if noVal {
			return true
		}
		ve, err := val.AddBlock(rsp.Block)
		if err != nil {
			st := site(err.Error())
			c.Violation("validator-crashed@"+st, fmt.Sprintf("%s: a validator process died executing a block of admitted transactions (%d txs): %.2500s", name, len(rsp.Included), err.Error()), map[string]interface{}{"config": name})
			restarts++
			// the block cannot be validated: drop it from the chain to resync (producer keeps it; start both anew)
			chain = chain[:len(chain)-1]
			nut.Kill()
			if nut = startNode(fmt.Sprintf("nut%d", restarts)); nut == nil {
				return false
			}
			if val = startNode(fmt.Sprintf("val%d", restarts)); val == nil {
				return false
			}
			return true
		}
		if ve != "" {
			c.Count("validator_rejected_blocks", 1)
		}
		for _, a := range accts {
			if st, err := nut.GetState(a.Addr); err == nil {
				nonce[a.B58()] = st.Nonce
			}
		}
		return true
	}
	pend := map[string]uint64{}
	for ii, g := range inputs {
		if restarts > 12 {
			c.Count("configs_abandoned_after_many_crashes", 1)
			return // the node keeps crashing: the violations are reported, more restarts add nothing
		}
		a := senders[g.snd]
		sp := g.sp
		sp.From = a
		sp.ChainID = cid()
		// next usable nonce as the node sees it: after the account's pooled txs, else state nonce + 1
		sp.Nonce = nonce[a.B58()] + pend[a.B58()] + 1
		if st, err := nut.GetState(a.Addr); err == nil && st.Err == "" {
			sp.Nonce = st.Nonce + 1
			if snap, err := nut.MempoolSnapshot(); err == nil {
				for _, l := range snap.Accounts {
					if bytes.Equal(l.Account, a.Addr) {
						for _, nn := range l.Nonces {
							if nn >= sp.Nonce {
								sp.Nonce = nn + 1
							}
						}
					}
				}
			}
		}
		tx := sp.Build()
		enc := rig.EncTx(tx)
		in := input{Desc: g.desc, Type: int32(sp.Type), To: string(sp.To), Payload: string(sp.Payload), Sender: g.snd, Amount: fmt.Sprintf("%x", rig.BigBytes(sp.Amount)), TxHex: fmt.Sprintf("%x", enc)}
		c.Eval(1)
		// (a) stateless validation
		res, err := nut.ValidateTx(enc)
		if err != nil {
			c.Violation("node-died-in-validate", fmt.Sprintf("%s input %q: %v", name, g.desc, err), in)
			return
		}
		if strings.HasPrefix(res, "PANIC") {
			c.Violation("panic-in-validate@"+site(res), fmt.Sprintf("%s: tx.Validate panicked on input %q payload %q: %s\n%.1200s", name, g.desc, sp.Payload, panicMsg(res), res), in)
			c.Count("validate_panics", 1)
			continue
		}
		if res != "" {
			c.Count("validate_rejected", 1)
			continue
		}
		c.Count("validate_accepted", 1)
		c.Nontrivial(fmt.Sprintf("%s|%d|%s", name, ii, g.desc))
		// (b) admission through the hub
		nut.Timeout = 8 * time.Second
		pr, err := nut.MempoolPut(enc)
		nut.Timeout = 90 * time.Second
		if err != nil {
			if _, hung := err.(*rig.ErrHung); hung {
				// the verifier actor did not answer: a panic inside an actor is recovered by the actor library
				tail := tailOf(nut)
				if strings.Contains(tail, "panic") || strings.Contains(tail, "Recovering") {
					c.Violation("panic-in-pool-admission@"+site(tail), fmt.Sprintf("%s: pool admission of %q payload %q never answered; node log: %.1500s", name, g.desc, sp.Payload, tail), in)
				} else {
					c.Violation("pool-admission-no-answer", fmt.Sprintf("%s: pool admission of %q payload %q did not answer within the watchdog; node log: %.600s", name, g.desc, sp.Payload, tail), in)
				}
			} else {
				c.Violation("node-died-in-admission@"+site(err.Error()), fmt.Sprintf("%s: node died on pool admission of %q payload %q: %.2000s", name, g.desc, sp.Payload, err.Error()), in)
			}
			restarts++
			nut.Kill()
			if nut = startNode(fmt.Sprintf("nut%d", restarts)); nut == nil {
				return
			}
			pend = map[string]uint64{}
			continue
		}
		if strings.HasPrefix(pr, "PANIC") {
			c.Violation("panic-in-pool-admission@"+site(pr), fmt.Sprintf("%s: %q: %s", name, g.desc, panicMsg(pr)), in)
			continue
		}
		if pr != "" {
			c.Count("pool_rejected", 1)
			if string(sp.To) == types.AergoEnterprise {
				rs := pr
				if len(rs) > 60 {
					rs = rs[:60]
				}
				c.Count("enterprise_rejected/"+strings.SplitN(g.desc, " args", 2)[0]+"/"+rs, 1)
			}
			continue
		}
		c.Count("pool_admitted", 1)
		c.Count("pool_admitted/"+strings.SplitN(g.desc, " args", 2)[0], 1)
		pend[a.B58()]++
		admittedSince++
		if len(c_samples) < 4 {
			c_samples = append(c_samples, in)
			c.Sample(in)
		}
		// (c) execute admitted txs in small blocks
		if admittedSince >= 4 || g.flush {
			if !flush() {
				return
			}
			pend = map[string]uint64{}
		}
	}
	flush()
	// --- governance history across the staking/voting delays (thorough tier): two voters on one parameter,
	// one of them leaves completely and comes back. Every tx goes through pool admission and block production.
	if c.Quick() || ver < 2 || part != 0 || restarts > 0 {
		return
	}
	noVal = true
	c.Count("history_runs", 1)
	hr := c.Rand("history/" + name)
	A, B := accts[5], accts[6]
	steps := 0
	// put submits one governance tx; returns 1 executed, 0 not executed, -1 stop
	put := func(a *rig.Acct, to string, amt *big.Int, payload []byte, desc string) int {
		st, err := nut.GetState(a.Addr)
		if err != nil {
			c.Violation("node-died-in-admission@history", fmt.Sprintf("%s history %s: %v", name, desc, err), map[string]string{"config": name, "step": desc})
			return -1
		}
		tx := rig.TxSpec{Type: types.TxType_GOVERNANCE, From: a, To: []byte(to), Nonce: st.Nonce + 1, Amount: amt, Payload: payload, GasPrice: gp, ChainID: cid()}.Build()
		c.Eval(1)
		steps++
		pr, err := nut.MempoolPut(rig.EncTx(tx))
		if err != nil {
			c.Violation("node-died-in-admission@"+site(err.Error()), fmt.Sprintf("%s history step %q: %.1500s", name, desc, err.Error()), map[string]string{"config": name, "step": desc})
			return -1
		}
		if strings.HasPrefix(pr, "PANIC") {
			c.Violation("panic-in-pool-admission@"+site(pr), fmt.Sprintf("%s history step %q: %s", name, desc, panicMsg(pr)), map[string]string{"config": name, "step": desc})
			return -1
		}
		c.Count("history/"+strings.SplitN(desc, " ", 2)[0]+"/"+map[bool]string{true: "admitted", false: "refused"}[pr == ""], 1)
		if pr != "" {
			return 0
		}
		c.Nontrivial(fmt.Sprintf("%s|history|%d|%s", name, steps, desc))
		admittedSince++
		r0 := restarts
		if !flush() || restarts != r0 {
			return -1
		}
		if st2, err := nut.GetState(a.Addr); err == nil && st2.Nonce > st.Nonce {
			return 1
		}
		return 0
	}
	ff := func() bool {
		nut.Timeout = 20 * time.Minute
		e, err := nut.ProduceEmpty(86400)
		nut.Timeout = 90 * time.Second
		if err != nil || e != "" {
			c.Inconclusive(fmt.Sprintf("%s history: fast-forward failed: %v %s", name, err, e))
			return false
		}
		c.Count("history/fast_forwards", 1)
		return true
	}
	// try runs an operation; when it is not executed (normally: "less time has passed") the chain is moved past
	// the delay once and the operation is tried again
	try := func(f func() int) bool {
		switch f() {
		case -1:
			return false
		case 0:
			if !ff() || f() == -1 {
				return false
			}
		}
		return true
	}
	sys := types.AergoSystem
	stakeAmt := new(big.Int).Mul(big.NewInt(20000), rig.Aergo)
	param := []string{"BPCOUNT", "GASPRICE", "NAMEPRICE", "STAKINGMIN"}[hr.Intn(4)]
	vals := map[string][]string{"BPCOUNT": {"13", "17", "5"}, "GASPRICE": {"50000000000", "60000000000", "70000000000"}, "NAMEPRICE": {"1000000000000000000", "2000000000000000000", "3000000000000000000"},
		"STAKINGMIN": {"10000000000000000000000", "9000000000000000000000", "8000000000000000000000"}}[param]
	vote := func(a *rig.Acct, who, v string) func() int {
		return func() int { return put(a, sys, big.NewInt(0), rig.GovPayload("v1voteDAO", param, v), "voteDAO "+who+" "+param+"="+v) }
	}
	seq := []func() int{
		func() int { return put(A, sys, stakeAmt, rig.GovPayload("v1stake"), "stake A") },
		func() int { return put(B, sys, stakeAmt, rig.GovPayload("v1stake"), "stake B") },
		vote(A, "A", vals[0]), vote(B, "B", vals[0]),
		func() int { return put(A, sys, stakeAmt, rig.GovPayload("v1unstake"), "unstake A (all)") },
		vote(B, "B", vals[1]),
		func() int { return put(A, sys, stakeAmt, rig.GovPayload("v1stake"), "stake A (again)") },
		vote(A, "A", vals[2]), vote(A, "A", vals[1]),
		func() int { return put(B, sys, stakeAmt, rig.GovPayload("v1unstake"), "unstake B (all)") },
		vote(A, "A", vals[0]),
		func() int { return put(B, sys, stakeAmt, rig.GovPayload("v1stake"), "stake B (again)") },
		vote(B, "B", vals[2]),
	}
	for _, f := range seq {
		if !try(f) {
			return
		}
	}
	c.Count("history_runs_completed", 1)
}

var c_samples []input

func tailOf(n *rig.Client) string {
	b, _ := os.ReadFile(n.ErrLog)
	if len(b) > 4000 {
		b = b[len(b)-4000:]
	}
	return string(b)
}
