module verif/h

go 1.23.0

require (
	github.com/aergoio/aergo-actor v0.0.0-20190219030625-562037d5fec7
	github.com/aergoio/aergo-lib v1.3.0
	github.com/aergoio/aergo/v2 v2.0.0
	github.com/aergoio/etcd v0.0.0-20190429013412-e8b3f96f6399
	github.com/anishathalye/porcupine v1.3.0
	github.com/btcsuite/btcd/btcec/v2 v2.3.4
	github.com/golang/protobuf v1.5.3
	github.com/libp2p/go-libp2p v0.38.1
	github.com/mr-tron/base58 v1.2.0
	github.com/rs/zerolog v1.31.0
	github.com/willf/bloom v2.0.3+incompatible
	google.golang.org/protobuf v1.36.0
)

require (
	github.com/Workiva/go-datastructures v1.0.50 // indirect
	github.com/anaskhan96/base58check v0.0.0-20181220122047-b05365d494c4 // indirect
	github.com/beorn7/perks v1.0.1 // indirect
	github.com/bluele/gcache v0.0.0-20190518031135-bc40bd653833 // indirect
	github.com/cespare/xxhash v1.1.0 // indirect
	github.com/cespare/xxhash/v2 v2.3.0 // indirect
	github.com/coreos/go-semver v0.3.0 // indirect
	github.com/coreos/go-systemd v0.0.0-20190321100706-95778dfbb74e // indirect
	github.com/coreos/pkg v0.0.0-20180928190104-399ea9e2e55f // indirect
	github.com/davecgh/go-spew v1.1.2-0.20180830191138-d8f796af33cc // indirect
	github.com/decred/dcrd/dcrec/secp256k1/v4 v4.3.0 // indirect
	github.com/derekparker/trie v0.0.0-20190322172448-1ce4922c7ad9 // indirect
	github.com/dgraph-io/badger/v3 v3.2104.5 // indirect
	github.com/dgraph-io/ristretto v0.1.1 // indirect
	github.com/dustin/go-humanize v1.0.1 // indirect
	github.com/emirpasic/gods v1.12.0 // indirect
	github.com/fsnotify/fsnotify v1.6.0 // indirect
	github.com/gabriel-vasile/mimetype v1.4.3 // indirect
	github.com/gin-contrib/sse v0.1.0 // indirect
	github.com/gin-gonic/gin v1.10.1 // indirect
	github.com/go-playground/locales v0.14.1 // indirect
	github.com/go-playground/universal-translator v0.18.1 // indirect
	github.com/go-playground/validator/v10 v10.20.0 // indirect
	github.com/gofrs/uuid v3.2.0+incompatible // indirect
	github.com/gogo/protobuf v1.3.2 // indirect
	github.com/golang/glog v1.2.4 // indirect
	github.com/golang/groupcache v0.0.0-20210331224755-41bb18bfe9da // indirect
	github.com/golang/snappy v0.0.4 // indirect
	github.com/google/flatbuffers v23.5.26+incompatible // indirect
	github.com/hashicorp/golang-lru v0.5.4 // indirect
	github.com/hashicorp/hcl v1.0.1-vault-5 // indirect
	github.com/ipfs/go-cid v0.4.1 // indirect
	github.com/json-iterator/go v1.1.12 // indirect
	github.com/klauspost/compress v1.17.11 // indirect
	github.com/klauspost/cpuid/v2 v2.2.9 // indirect
	github.com/leodido/go-urn v1.4.0 // indirect
	github.com/libp2p/go-buffer-pool v0.1.0 // indirect
	github.com/magiconair/properties v1.8.7 // indirect
	github.com/mattn/go-colorable v0.1.13 // indirect
	github.com/mattn/go-isatty v0.0.20 // indirect
	github.com/miekg/dns v1.1.62 // indirect
	github.com/minio/sha256-simd v1.0.1 // indirect
	github.com/mitchellh/mapstructure v1.5.0 // indirect
	github.com/modern-go/concurrent v0.0.0-20180306012644-bacd9c7ef1dd // indirect
	github.com/modern-go/reflect2 v1.0.2 // indirect
	github.com/multiformats/go-base32 v0.1.0 // indirect
	github.com/multiformats/go-base36 v0.2.0 // indirect
	github.com/multiformats/go-multiaddr v0.14.0 // indirect
	github.com/multiformats/go-multiaddr-dns v0.4.1 // indirect
	github.com/multiformats/go-multibase v0.2.0 // indirect
	github.com/multiformats/go-multicodec v0.9.0 // indirect
	github.com/multiformats/go-multihash v0.2.3 // indirect
	github.com/multiformats/go-multistream v0.6.0 // indirect
	github.com/multiformats/go-varint v0.0.7 // indirect
	github.com/munnerz/goautoneg v0.0.0-20191010083416-a7dc8b61c822 // indirect
	github.com/opentracing/opentracing-go v1.2.0 // indirect
	github.com/orcaman/concurrent-map v0.0.0-20190314100340-2693aad1ed75 // indirect
	github.com/pelletier/go-toml/v2 v2.2.2 // indirect
	github.com/pkg/errors v0.9.1 // indirect
	github.com/pmezard/go-difflib v1.0.1-0.20181226105442-5d4384ee4fb2 // indirect
	github.com/prometheus/client_golang v1.20.5 // indirect
	github.com/prometheus/client_model v0.6.1 // indirect
	github.com/prometheus/common v0.61.0 // indirect
	github.com/prometheus/procfs v0.15.1 // indirect
	github.com/sagikazarmark/slog-shim v0.1.0 // indirect
	github.com/sanity-io/litter v1.5.5 // indirect
	github.com/serialx/hashring v0.0.0-20190515033939-7706f26af194 // indirect
	github.com/spaolacci/murmur3 v1.1.0 // indirect
	github.com/spf13/afero v1.10.0 // indirect
	github.com/spf13/cast v1.5.1 // indirect
	github.com/spf13/pflag v1.0.5 // indirect
	github.com/spf13/viper v1.17.0 // indirect
	github.com/stretchr/testify v1.10.0 // indirect
	github.com/subosito/gotenv v1.6.0 // indirect
	github.com/syndtr/goleveldb v1.0.0 // indirect
	github.com/ugorji/go/codec v1.3.0 // indirect
	github.com/willf/bitset v1.1.10 // indirect
	github.com/xiang90/probing v0.0.0-20190116061207-43a291ad63a2 // indirect
	go.opencensus.io v0.24.0 // indirect
	golang.org/x/crypto v0.31.0 // indirect
	golang.org/x/exp v0.0.0-20241217172543-b2144cdd0a67 // indirect
	golang.org/x/net v0.33.0 // indirect
	golang.org/x/sys v0.30.0 // indirect
	golang.org/x/text v0.22.0 // indirect
	golang.org/x/time v0.5.0 // indirect
	google.golang.org/genproto/googleapis/rpc v0.0.0-20230920204549-e6e6cdab5c13 // indirect
	google.golang.org/grpc v1.59.0 // indirect
	gopkg.in/ini.v1 v1.67.0 // indirect
	gopkg.in/yaml.v3 v3.0.1 // indirect
	lukechampine.com/blake3 v1.3.0 // indirect
)

replace github.com/aergoio/aergo/v2 => /repo

replace github.com/Sirupsen/logrus => github.com/sirupsen/logrus v1.8.1

replace sourcegraph.com/sourcegraph/go-diff => github.com/sourcegraph/go-diff v0.6.0

replace sourcegraph.com/sourcegraph/appdash => github.com/sourcegraph/appdash v0.0.0-20211028080628-e2786a622600

replace github.com/dgraph-io/badger/v3 => github.com/shepelt/badger/v3 v3.2104.5
