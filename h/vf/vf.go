// Package vf is the small shared runtime of every check: seed/tier handling, evidence
// accounting (what the monitors actually observed), violation / known-finding reporting,
// replay files, scratch directories and the three-valued verdict.
package vf

import (
	"crypto/sha256"
	"encoding/hex"
	"encoding/json"
	"fmt"
	"hash/fnv"
	"math/rand"
	"os"
	"path/filepath"
	"sort"
	"strconv"
	"strings"
	"sync"
	"time"
)

const Root = "/verif"

type finding struct {
	Property string `json:"property"`
	Key      string `json:"key"`
	What     string `json:"what"`
}

type knownFile struct {
	Findings []finding `json:"findings"`
	Fixed    []string  `json:"fixed"`
}

type Ctx struct {
	Prop, Tier, Level string
	Seed              int64
	ReplayPath        string // non-empty: replay mode
	start             time.Time
	mu                sync.Mutex
	evals             int64
	distinct          map[[8]byte]struct{}
	samples           []interface{}
	maxSamples        int
	counters          map[string]int64
	extra             map[string]interface{}
	violations        int
	known             map[string]finding
	knownSeen         map[string]bool
	inconclusive      []string
	scratch           string
	violKeys          map[string]bool
}

// Start parses "<tier>" or "replay <path>" from os.Args and VERIF_SEED from the environment.
func Start(prop, level string) *Ctx {
	c := &Ctx{Prop: prop, Level: level, Tier: "quick", Seed: 1, start: time.Now(),
		distinct: map[[8]byte]struct{}{}, counters: map[string]int64{}, extra: map[string]interface{}{},
		known: map[string]finding{}, knownSeen: map[string]bool{}, maxSamples: 5, violKeys: map[string]bool{}}
	args := os.Args[1:]
	if len(args) > 0 {
		switch args[0] {
		case "quick", "thorough":
			c.Tier = args[0]
		case "replay":
			c.Tier = "quick"
			if len(args) > 1 {
				c.ReplayPath = args[1]
			}
		}
	} else if t := os.Getenv("VERIF_TIER"); t == "thorough" || t == "quick" {
		c.Tier = t
	}
	if s := os.Getenv("VERIF_SEED"); s != "" {
		if v, err := strconv.ParseInt(s, 10, 64); err == nil {
			c.Seed = v
		}
	}
	if b, err := os.ReadFile(filepath.Join(Root, "known_findings.json")); err == nil {
		var kf knownFile
		if json.Unmarshal(b, &kf) == nil {
			for _, f := range kf.Findings {
				if f.Property == prop {
					c.known[f.Key] = f
				}
			}
		}
	}
	return c
}

func (c *Ctx) Quick() bool    { return c.Tier == "quick" }
func (c *Ctx) Thorough() bool { return c.Tier == "thorough" }

// Pick returns q in the quick tier and t in the thorough tier.
func (c *Ctx) Pick(q, t int) int {
	if c.Quick() {
		return q
	}
	return t
}

// Rand returns a PRNG determined only by (seed, stream).
func (c *Ctx) Rand(stream string) *rand.Rand {
	h := fnv.New64a()
	fmt.Fprintf(h, "%d/%s/%s", c.Seed, c.Prop, stream)
	return rand.New(rand.NewSource(int64(h.Sum64())))
}

// Scratch returns a private scratch directory outside /repo, /verif and /tmp-dependence.
func (c *Ctx) Scratch() string {
	c.mu.Lock()
	defer c.mu.Unlock()
	if c.scratch == "" {
		base := os.Getenv("VERIF_SCRATCH")
		if base == "" {
			base = "/var/tmp"
		}
		c.scratch = filepath.Join(base, fmt.Sprintf("verif-%s-%d", c.Prop, os.Getpid()))
		os.RemoveAll(c.scratch)
		os.MkdirAll(c.scratch, 0o755)
	}
	return c.scratch
}

func (c *Ctx) Eval(n int) {
	c.mu.Lock()
	c.evals += int64(n)
	c.mu.Unlock()
}

// Nontrivial records one case in which the deciding monitor saw a non-vacuous event;
// key is the canonical description of the case (distinct keys are counted).
func (c *Ctx) Nontrivial(key string) {
	s := sha256.Sum256([]byte(key))
	var k [8]byte
	copy(k[:], s[:8])
	c.mu.Lock()
	c.distinct[k] = struct{}{}
	c.mu.Unlock()
}

func (c *Ctx) Sample(v interface{}) {
	c.mu.Lock()
	if len(c.samples) < c.maxSamples {
		c.samples = append(c.samples, v)
	}
	c.mu.Unlock()
}

func (c *Ctx) Count(name string, n int) {
	c.mu.Lock()
	c.counters[name] += int64(n)
	c.mu.Unlock()
}

func (c *Ctx) Counter(name string) int64 {
	c.mu.Lock()
	defer c.mu.Unlock()
	return c.counters[name]
}

func (c *Ctx) Set(name string, v interface{}) {
	switch name { // keys the evidence schema types itself
	case "evaluations", "distinct_nontrivial", "rule", "samples", "states", "transitions", "traces_validated_against_impl",
		"obligations", "discharged", "checker_cmd", "trusted_base", "programs", "disagreements_checked", "explanation", "exhaustive":
		name += "_info"
	}
	c.mu.Lock()
	c.extra[name] = v
	c.mu.Unlock()
}

// Inconclusive marks the run as not deciding (watchdog fired, hook never reached, ...).
func (c *Ctx) Inconclusive(why string) {
	c.mu.Lock()
	c.inconclusive = append(c.inconclusive, why)
	c.mu.Unlock()
	fmt.Printf("INCONCLUSIVE property=%s %s\n", c.Prop, why)
}

// Violation reports a refuting observation. key identifies the specific failing input class /
// call site / function pair; if it is listed in known_findings.json the line printed is
// KNOWN-FINDING and the exit status is unaffected.  replay is written to a file.
func (c *Ctx) Violation(key, desc string, replay interface{}) {
	c.mu.Lock()
	defer c.mu.Unlock()
	if f, ok := c.known[key]; ok {
		if !c.knownSeen[key] {
			c.knownSeen[key] = true
			fmt.Printf("KNOWN-FINDING: property=%s %s [%s]\n", c.Prop, f.What, key)
		}
		return
	}
	c.violations++
	if c.violKeys[key] {
		return // one replay + line per distinct key
	}
	c.violKeys[key] = true
	dir := filepath.Join(Root, "replays", c.Prop)
	os.MkdirAll(dir, 0o755)
	s := sha256.Sum256([]byte(key + desc))
	path := filepath.Join(dir, fmt.Sprintf("%s-seed%d-%s.json", c.Tier, c.Seed, hex.EncodeToString(s[:6])))
	b, _ := json.MarshalIndent(map[string]interface{}{"property": c.Prop, "key": key, "description": desc,
		"seed": c.Seed, "tier": c.Tier, "case": replay}, "", " ")
	os.WriteFile(path, b, 0o644)
	fmt.Printf("VIOLATION property=%s replay=%s\n", c.Prop, path)
	fmt.Printf("  key=%s\n  %s\n", key, strings.ReplaceAll(desc, "\n", "\n  "))
}

func (c *Ctx) Violations() int {
	c.mu.Lock()
	defer c.mu.Unlock()
	return c.violations
}

// LoadReplay reads the "case" member of a replay file into v.
func (c *Ctx) LoadReplay(v interface{}) error {
	b, err := os.ReadFile(c.ReplayPath)
	if err != nil {
		return err
	}
	var w struct {
		Case json.RawMessage `json:"case"`
		Seed int64           `json:"seed"`
	}
	if err := json.Unmarshal(b, &w); err != nil {
		return err
	}
	c.Seed = w.Seed
	return json.Unmarshal(w.Case, v)
}

// Finish writes the evidence file and exits: 0 held, 1 violated, 2 inconclusive.
// floor is the minimum number of distinct non-trivial cases below which the run decides nothing.
func (c *Ctx) Finish(rule string, floor int, assumptions ...string) {
	c.mu.Lock()
	cov := map[string]interface{}{
		"evaluations":         c.evals,
		"distinct_nontrivial": len(c.distinct),
		"rule":                rule,
		"samples":             c.samples,
	}
	names := make([]string, 0, len(c.counters))
	for k := range c.counters {
		names = append(names, k)
	}
	sort.Strings(names)
	obs := map[string]int64{}
	for _, k := range names {
		obs[k] = c.counters[k]
	}
	cov["observed"] = obs
	for k, v := range c.extra {
		cov[k] = v
	}
	kf := []string{}
	for k := range c.knownSeen {
		kf = append(kf, k)
	}
	sort.Strings(kf)
	cov["known_findings_seen"] = kf
	if len(c.inconclusive) > 0 {
		cov["inconclusive"] = c.inconclusive
	}
	if c.samples == nil {
		cov["samples"] = []interface{}{}
	}
	ev := map[string]interface{}{
		"property_id": c.Prop, "tier": c.Tier, "seed": c.Seed, "level": c.Level,
		"coverage": cov, "assumptions": assumptions,
		"wall_s":     time.Since(c.start).Seconds(),
		"violations": c.violations,
	}
	viol, inc, nd, scratch := c.violations, len(c.inconclusive), len(c.distinct), c.scratch
	c.mu.Unlock()
	if c.ReplayPath == "" {
		b, _ := json.MarshalIndent(ev, "", " ")
		dir := filepath.Join(Root, "evidence")
		if RepoDir() != "/repo" {
			// development run against a scratch worktree (seeded change): never overwrite the evidence of /repo
			dir = "/var/tmp/verif-evidence-scratch"
		}
		os.MkdirAll(dir, 0o755)
		os.WriteFile(filepath.Join(dir, c.Prop+".json"), append(b, '\n'), 0o644)
	}
	if scratch != "" && os.Getenv("VERIF_KEEP") == "" {
		os.RemoveAll(scratch)
	}
	fmt.Printf("SUMMARY property=%s tier=%s seed=%d evaluations=%d distinct_nontrivial=%d violations=%d wall=%.1fs\n",
		c.Prop, c.Tier, c.Seed, c.evals, nd, viol, time.Since(c.start).Seconds())
	for _, k := range names {
		fmt.Printf("  observed %s=%d\n", k, obs[k])
	}
	switch {
	case viol > 0:
		os.Exit(1)
	case c.ReplayPath != "":
		fmt.Println("REPLAY: no violation reproduced")
		os.Exit(0)
	case inc > 0:
		os.Exit(2)
	case nd < floor:
		fmt.Printf("INCONCLUSIVE property=%s observed only %d distinct non-trivial cases (floor %d)\n", c.Prop, nd, floor)
		os.Exit(2)
	}
	os.Exit(0)
}

// Hex is a tiny helper for evidence samples.
func Hex(b []byte) string { return hex.EncodeToString(b) }

// RepoDir is the aergo checkout the driver was built from (/repo unless VERIF_REPO is set
// by a developer testing a scratch worktree).
func RepoDir() string {
	if d := os.Getenv("VERIF_REPO"); d != "" {
		return d
	}
	return "/repo"
}
