// Package trielib holds what the C10 (state trie) and C11 (Merkle proof) drivers share:
// the plain map model, adversarial key families, batch/history generators and an
// independent reference implementation of the sparse-Merkle-trie root.
package trielib

import (
	"bytes"
	"crypto/sha256"
	"encoding/hex"
	"fmt"
	"math/rand"
	"sort"
	"sync"
	"sync/atomic"

	"github.com/aergoio/aergo-lib/db"
	"github.com/aergoio/aergo/v2/pkg/trie"
)

type Key = [32]byte
type Val = [32]byte

// Hasher is the node's trie hash function (sha256 over the concatenation), re-implemented
// on crypto/sha256 because /repo/internal/common is not importable.
func Hasher(data ...[]byte) []byte {
	h := sha256.New()
	for _, d := range data {
		h.Write(d)
	}
	return h.Sum(nil)
}

var storeSeq int64
var newDBMu sync.Mutex // aergo-lib's db.NewDB assigns a package-level logger: not safe to call concurrently

// NewStore returns a fresh, empty memorydb.  dir is only a name (nothing is written unless
// Close is called).
func NewStore(scratch string) db.DB {
	n := atomic.AddInt64(&storeSeq, 1)
	newDBMu.Lock()
	defer newDBMu.Unlock()
	return db.NewDB(db.MemoryImpl, fmt.Sprintf("%s/s%d", scratch, n))
}

// NewStoreAt opens (or re-loads, if a dump exists) a memorydb in dir.
func NewStoreAt(dir string) db.DB {
	newDBMu.Lock()
	defer newDBMu.Unlock()
	return db.NewDB(db.MemoryImpl, dir)
}

func NewTrie(root []byte, store db.DB) *trie.Trie { return trie.NewTrie(root, Hasher, store) }

// ---------------------------------------------------------------- model

type Model map[Key]Val

func (m Model) Clone() Model {
	n := make(Model, len(m))
	for k, v := range m {
		n[k] = v
	}
	return n
}

func SortKeys(ks []Key) {
	sort.Slice(ks, func(i, j int) bool { return bytes.Compare(ks[i][:], ks[j][:]) < 0 })
}

func (m Model) Sorted() []Key {
	ks := make([]Key, 0, len(m))
	for k := range m {
		ks = append(ks, k)
	}
	SortKeys(ks)
	return ks
}

// Digest is a canonical hash of the content (not of the trie).
func (m Model) Digest() [32]byte {
	h := sha256.New()
	for _, k := range m.Sorted() {
		v := m[k]
		h.Write(k[:])
		h.Write(v[:])
	}
	var d [32]byte
	copy(d[:], h.Sum(nil))
	return d
}

// ---------------------------------------------------------------- batches

type Op struct {
	K   Key
	V   Val
	Del bool
}

// Batch is one block's worth of writes: unique keys, sorted.
type Batch []Op

func (b Batch) Sort() {
	sort.Slice(b, func(i, j int) bool { return bytes.Compare(b[i].K[:], b[j].K[:]) < 0 })
}

// KV renders the batch the way statedb's buffer export does: freshly allocated 32-byte key
// slices, 32-byte value hashes, and trie.DefaultLeaf ([]byte{0}) for deletions.
func (b Batch) KV() (keys, vals [][]byte) {
	keys = make([][]byte, len(b))
	vals = make([][]byte, len(b))
	for i, op := range b {
		keys[i] = append([]byte(nil), op.K[:]...)
		if op.Del {
			vals[i] = append([]byte(nil), trie.DefaultLeaf...)
		} else {
			vals[i] = append([]byte(nil), op.V[:]...)
		}
	}
	return
}

func (b Batch) ApplyTo(m Model) {
	for _, op := range b {
		if op.Del {
			delete(m, op.K)
		} else {
			m[op.K] = op.V
		}
	}
}

// OnlyAbsentDeletes reports whether every op deletes a key that m does not contain.
func (b Batch) OnlyAbsentDeletes(m Model) bool {
	if len(b) == 0 {
		return false
	}
	for _, op := range b {
		if !op.Del {
			return false
		}
		if _, ok := m[op.K]; ok {
			return false
		}
	}
	return true
}

// JSON-friendly form for replay files.
type OpJ struct {
	K string `json:"k"`
	V string `json:"v,omitempty"`
	D bool   `json:"del,omitempty"`
}

func (b Batch) J() []OpJ {
	out := make([]OpJ, len(b))
	for i, op := range b {
		out[i] = OpJ{K: hex.EncodeToString(op.K[:]), D: op.Del}
		if !op.Del {
			out[i].V = hex.EncodeToString(op.V[:])
		}
	}
	return out
}

func HistoryJ(h []Batch) [][]OpJ {
	out := make([][]OpJ, len(h))
	for i, b := range h {
		out[i] = b.J()
	}
	return out
}

func HistoryFromJ(j [][]OpJ) ([]Batch, error) {
	out := make([]Batch, len(j))
	for i, bj := range j {
		b := make(Batch, len(bj))
		for n, o := range bj {
			kb, err := hex.DecodeString(o.K)
			if err != nil || len(kb) != 32 {
				return nil, fmt.Errorf("bad key %q", o.K)
			}
			copy(b[n].K[:], kb)
			b[n].Del = o.D
			if !o.D {
				vb, err := hex.DecodeString(o.V)
				if err != nil || len(vb) != 32 {
					return nil, fmt.Errorf("bad value %q", o.V)
				}
				copy(b[n].V[:], vb)
			}
		}
		b.Sort()
		out[i] = b
	}
	return out, nil
}

// ---------------------------------------------------------------- key engineering

func Bit(k Key, i int) bool { return k[i/8]&(1<<uint(7-i%8)) != 0 }

func FlipBit(k Key, i int) Key {
	k[i/8] ^= 1 << uint(7-i%8)
	return k
}

func SetBit(k Key, i int, on bool) Key {
	if on {
		k[i/8] |= 1 << uint(7-i%8)
	} else {
		k[i/8] &^= 1 << uint(7-i%8)
	}
	return k
}

// CommonPrefix returns the number of leading bits a and b share (256 when equal).
func CommonPrefix(a, b Key) int {
	for i := 0; i < 256; i++ {
		if Bit(a, i) != Bit(b, i) {
			return i
		}
	}
	return 256
}

func RandKey(r *rand.Rand) Key {
	var k Key
	r.Read(k[:])
	return k
}

func RandVal(r *rand.Rand) Val {
	var v Val
	r.Read(v[:])
	return v
}

// Sibling differs from base in bit L only: common prefix exactly L, identical tail.
func Sibling(base Key, L int) Key { return FlipBit(base, L) }

// WithPrefix shares exactly L leading bits with base and has a random tail.
func WithPrefix(base Key, L int, r *rand.Rand) Key {
	k := RandKey(r)
	for i := 0; i < L; i++ {
		k = SetBit(k, i, Bit(base, i))
	}
	k = SetBit(k, L, !Bit(base, L))
	return k
}

// PrefixLen draws a common-prefix length with the emphasis the design asks for:
// 252..255, L = 0,1,3 (mod 4) around batch boundaries, and the uniform rest.
func PrefixLen(r *rand.Rand) int {
	switch r.Intn(10) {
	case 0, 1:
		return 252 + r.Intn(4)
	case 2, 3, 4:
		// near a 4-level batch boundary anywhere in the tree
		q := r.Intn(64)
		off := []int{0, 1, 3}[r.Intn(3)]
		return q*4 + off
	case 5:
		return 240 + r.Intn(16)
	case 6:
		return r.Intn(9)
	default:
		return r.Intn(256)
	}
}

// Universe builds n distinct keys that collide on long prefixes: every new key is derived
// from an existing one by a chosen common-prefix length, either as a one-bit sibling or
// with a random tail.  A share of plain random keys is mixed in.
func Universe(r *rand.Rand, n int) []Key {
	seen := map[Key]bool{}
	var ks []Key
	add := func(k Key) {
		if !seen[k] && k != (Key{}) {
			seen[k] = true
			ks = append(ks, k)
		}
	}
	add(RandKey(r))
	for guard := 0; len(ks) < n && guard < 50*n+100; guard++ {
		base := ks[r.Intn(len(ks))]
		switch r.Intn(10) {
		case 0:
			add(RandKey(r))
		case 1, 2, 3, 4:
			add(Sibling(base, PrefixLen(r)))
		default:
			add(WithPrefix(base, PrefixLen(r), r))
		}
	}
	return ks
}

// Neighbours returns keys close to k on both sides (one-bit siblings at deep levels and at
// batch boundaries) – used as absent probes and as "insert both sides of a deleted key".
func Neighbours(k Key) []Key {
	var out []Key
	for _, L := range []int{255, 254, 253, 252, 251, 248, 247, 128, 4, 3, 1, 0} {
		out = append(out, Sibling(k, L))
	}
	return out
}

// BothSides returns one key smaller and one key larger than k that share a long prefix with it.
func BothSides(k Key, r *rand.Rand) (lo, hi Key, ok bool) {
	var haveLo, haveHi bool
	start := 255 - r.Intn(12)
	for L := start; L >= 0 && !(haveLo && haveHi); L-- {
		s := Sibling(k, L)
		if Bit(k, L) && !haveLo { // 1 -> 0 : smaller
			lo, haveLo = s, true
		} else if !Bit(k, L) && !haveHi {
			hi, haveHi = s, true
		}
	}
	return lo, hi, haveLo && haveHi
}

// Universe4 is an adversarial 4-key universe for the exhaustive part.
type Universe4 struct {
	Name string
	Keys [4]Key
}

// Universes4 returns up to n four-key universes; the first ones are the most adversarial
// (deepest shared prefixes, batch-boundary crossings), so the quick tier gets those.
func Universes4(r *rand.Rand, n int) []Universe4 {
	type spec struct {
		kind    string // chain: k1..k3 are one-bit siblings of k0; pairs: (k0,k1) and (k2,k3) are close pairs
		a, b, c int
	}
	specs := []spec{
		{"chain", 255, 252, 251}, // deep
		{"chain", 3, 4, 5},
		{"pairs", 12, 0, 15},
		{"pairs", 255, 0, 255},   // deep
		{"chain", 255, 254, 253}, // deep
		{"pairs", 252, 251, 255}, // deep
		{"chain", 0, 1, 255},     // deep
		{"chain", 7, 8, 9},
		{"chain", 127, 128, 129},
		{"pairs", 254, 3, 253},   // deep
		{"chain", 251, 248, 247}, // deep
		{"pairs", 4, 3, 5},
		{"chain", 1, 2, 3},
		{"pairs", 0, 1, 2},
		{"chain", 63, 64, 65},
		{"chain", 253, 4, 0}, // deep
		{"pairs", 16, 15, 17},
		{"chain", 243, 244, 245}, // deep
		{"chain", 31, 32, 33},
		{"pairs", 255, 128, 252}, // deep
		{"pairs", 251, 252, 253},
		{"chain", 255, 127, 3},
		{"pairs", 248, 247, 249},
		{"chain", 252, 253, 255},
		{"pairs", 255, 255, 254},
	}
	var out []Universe4
	for i := 0; i < n && i < len(specs); i++ {
		s := specs[i]
		var u Universe4
		k0 := RandKey(r)
		u.Keys[0] = k0
		switch s.kind {
		case "chain":
			u.Keys[1] = Sibling(k0, s.a)
			u.Keys[2] = Sibling(k0, s.b)
			u.Keys[3] = Sibling(k0, s.c)
		default:
			u.Keys[1] = Sibling(k0, s.a)
			u.Keys[2] = WithPrefix(k0, s.b, r)
			u.Keys[3] = Sibling(u.Keys[2], s.c)
		}
		u.Name = fmt.Sprintf("%s-%d-%d-%d", s.kind, s.a, s.b, s.c)
		seen := map[Key]bool{}
		okU := true
		for _, k := range u.Keys {
			if seen[k] {
				okU = false
			}
			seen[k] = true
		}
		if okU {
			out = append(out, u)
		}
	}
	return out
}

// Batch4 decodes code (0..255) into a batch over a 4-key universe: two bits per key,
// 0 untouched, 1 set v1, 2 set v2, 3 delete.
func Batch4(u *Universe4, vals *[4][2]Val, code int) Batch {
	var b Batch
	for i := 0; i < 4; i++ {
		switch (code >> uint(2*i)) & 3 {
		case 1:
			b = append(b, Op{K: u.Keys[i], V: vals[i][0]})
		case 2:
			b = append(b, Op{K: u.Keys[i], V: vals[i][1]})
		case 3:
			b = append(b, Op{K: u.Keys[i], Del: true})
		}
	}
	b.Sort()
	return b
}

// ---------------------------------------------------------------- history generators

// GenHistory produces nBatches batches over universe (model-aware, so that deletions hit
// present keys, absent keys, keys with a shortcut sibling, and re-insertions follow
// deletions).  maxBatch bounds the batch size.
func GenHistory(r *rand.Rand, universe []Key, nBatches, maxBatch int) []Batch {
	m := Model{}
	var hist []Batch
	var lastDeleted []Key
	present := func() []Key { return m.Sorted() }
	for bi := 0; bi < nBatches; bi++ {
		ops := map[Key]Op{}
		put := func(k Key) { ops[k] = Op{K: k, V: RandVal(r)} }
		del := func(k Key) { ops[k] = Op{K: k, Del: true} }
		size := 1 + r.Intn(maxBatch)
		pres := present()
		shape := r.Intn(12)
		switch {
		case shape == 0 && len(pres) > 0:
			// delete everything (root must become empty), maybe but one (move-up to the top)
			keep := -1
			if r.Intn(2) == 0 {
				keep = r.Intn(len(pres))
			}
			for i, k := range pres {
				if i != keep {
					del(k)
				}
			}
		case shape == 1 && len(pres) > 1:
			// delete one key of the closest pairs: the survivor is a shortcut that must move up
			type pr struct {
				i, cp int
			}
			var prs []pr
			for i := 0; i+1 < len(pres); i++ {
				prs = append(prs, pr{i, CommonPrefix(pres[i], pres[i+1])})
			}
			sort.Slice(prs, func(a, b int) bool { return prs[a].cp > prs[b].cp })
			n := 1 + r.Intn(4)
			for j := 0; j < n && j < len(prs); j++ {
				del(pres[prs[j].i+r.Intn(2)])
			}
		case shape == 2 && len(pres) > 0:
			// delete a key and insert on both sides of it in the same batch
			for j := 0; j < 1+r.Intn(3); j++ {
				k := pres[r.Intn(len(pres))]
				lo, hi, ok := BothSides(k, r)
				del(k)
				if ok {
					put(lo)
					put(hi)
				}
			}
		case shape == 3 && len(lastDeleted) > 0:
			// delete-then-reinsert
			for _, k := range lastDeleted {
				if r.Intn(3) != 0 {
					put(k)
				}
			}
		case shape == 4:
			// only deletions of absent keys
			for j := 0; j < size; j++ {
				k := universe[r.Intn(len(universe))]
				if _, ok := m[k]; !ok {
					del(k)
				} else {
					nb := Neighbours(k)
					k2 := nb[r.Intn(len(nb))]
					if _, ok := m[k2]; !ok {
						del(k2)
					}
				}
			}
		case shape == 5:
			// big insert from the universe
			for j := 0; j < maxBatch; j++ {
				put(universe[r.Intn(len(universe))])
			}
		default:
			for j := 0; j < size; j++ {
				k := universe[r.Intn(len(universe))]
				_, has := m[k]
				switch x := r.Intn(10); {
				case has && x < 4:
					del(k)
				case !has && x < 1:
					del(k) // absent delete mixed in
				default:
					put(k)
				}
			}
		}
		b := make(Batch, 0, len(ops))
		for _, op := range ops {
			b = append(b, op)
		}
		b.Sort()
		lastDeleted = lastDeleted[:0]
		for _, op := range b {
			if _, ok := m[op.K]; ok && op.Del {
				lastDeleted = append(lastDeleted, op.K)
			}
		}
		b.ApplyTo(m)
		hist = append(hist, b)
	}
	return hist
}

// AltHistory returns a different random history (from the empty trie) whose final content
// equals target: target pairs arrive in random order over several batches, some first with
// a wrong value, interleaved with junk keys (neighbours of real keys) that are deleted again.
func AltHistory(r *rand.Rand, target Model, nBatches int) []Batch {
	if nBatches < 2 {
		nBatches = 2
	}
	keys := target.Sorted()
	r.Shuffle(len(keys), func(i, j int) { keys[i], keys[j] = keys[j], keys[i] })
	cur := Model{}
	var hist []Batch
	pos := 0
	for bi := 0; bi < nBatches; bi++ {
		ops := map[Key]Op{}
		last := bi == nBatches-1
		if !last {
			n := 0
			if rem := len(keys) - pos; rem > 0 {
				n = 1 + r.Intn(rem)
				if r.Intn(3) == 0 {
					n = rem
				}
			}
			for j := 0; j < n; j++ {
				k := keys[pos]
				pos++
				v := target[k]
				if r.Intn(4) == 0 {
					v = RandVal(r) // wrong first, fixed in the last batch
				}
				ops[k] = Op{K: k, V: v}
				if r.Intn(3) == 0 {
					nb := Neighbours(k)
					j := nb[r.Intn(len(nb))]
					if _, isT := target[j]; !isT {
						ops[j] = Op{K: j, V: RandVal(r)}
					}
				}
			}
			// delete some junk early, and some real keys (to be re-added at the end)
			for k := range cur {
				if _, touched := ops[k]; touched {
					continue
				}
				if _, isT := target[k]; !isT && r.Intn(2) == 0 {
					ops[k] = Op{K: k, Del: true}
				} else if isT && r.Intn(8) == 0 {
					ops[k] = Op{K: k, Del: true}
				}
			}
		} else {
			// final fix-up: exactly reach target
			for k := range cur {
				if _, isT := target[k]; !isT {
					ops[k] = Op{K: k, Del: true}
				}
			}
			for k, v := range target {
				if cv, ok := cur[k]; !ok || cv != v {
					ops[k] = Op{K: k, V: v}
				}
			}
		}
		b := make(Batch, 0, len(ops))
		for _, op := range ops {
			b = append(b, op)
		}
		b.Sort()
		b.ApplyTo(cur)
		hist = append(hist, b)
	}
	return hist
}

// OneBatch is the whole model as a single sorted insert batch.
func OneBatch(m Model) Batch {
	b := make(Batch, 0, len(m))
	for k, v := range m {
		b = append(b, Op{K: k, V: v})
	}
	b.Sort()
	return b
}

// ---------------------------------------------------------------- running histories on the real trie

// Snapshot is one committed state.
type Snapshot struct {
	Root  []byte
	Model Model
}

// Apply runs one batch the way the node does: a single Update with the sorted batch
// followed by Commit.  An empty batch only commits (statedb skips Update when the buffer
// is empty).
func Apply(t *trie.Trie, b Batch) ([]byte, error) {
	if len(b) > 0 {
		keys, vals := b.KV()
		if _, err := t.Update(keys, vals); err != nil {
			return nil, err
		}
	}
	if err := t.Commit(); err != nil {
		return nil, err
	}
	return t.Root, nil
}

// Build applies a history on a fresh store without any checks and returns the snapshots.
// freshPerBlock opens a new Trie instance for every block, as the node does.
func Build(scratch string, hist []Batch, freshPerBlock bool) (db.DB, *trie.Trie, []Snapshot, error) {
	store := NewStore(scratch)
	t := NewTrie(nil, store)
	m := Model{}
	var snaps []Snapshot
	for _, b := range hist {
		if freshPerBlock {
			t = NewTrie(t.Root, store)
		}
		root, err := Apply(t, b)
		if err != nil {
			return store, t, snaps, err
		}
		b.ApplyTo(m)
		snaps = append(snaps, Snapshot{Root: append([]byte(nil), root...), Model: m.Clone()})
	}
	return store, t, snaps, nil
}

// ---------------------------------------------------------------- independent reference

// RefRoot computes the root of the modified sparse Merkle tree for content m from the
// specification, independently of /repo: an empty subtree is "default", a subtree holding
// exactly one pair is the leaf sha256(key ‖ value ‖ byte(height)) stored at the highest such
// subtree, an interior node is sha256(left ‖ right) with the one-byte default {0} standing
// for an empty child.  height = 256 - depth.
func RefRoot(m Model) []byte {
	ks := m.Sorted()
	return refNode(ks, m, 0)
}

func refNode(ks []Key, m Model, depth int) []byte {
	switch len(ks) {
	case 0:
		return nil
	case 1:
		v := m[ks[0]]
		return Hasher(ks[0][:], v[:], []byte{byte(256 - depth)})
	}
	split := len(ks)
	for i, k := range ks {
		if Bit(k, depth) {
			split = i
			break
		}
	}
	l := refNode(ks[:split], m, depth+1)
	rr := refNode(ks[split:], m, depth+1)
	if l == nil {
		l = []byte{0}
	}
	if rr == nil {
		rr = []byte{0}
	}
	return Hasher(l, rr)
}

// PathKind classifies a key against content m: where the walk from the root ends.
type PathKind int

const (
	Present     PathKind = iota // key is stored
	AbsentEmpty                 // an empty subtree is on the key's path
	AbsentLeaf                  // another key's leaf is on the key's path
)

// Classify returns the kind, the depth at which the walk ends (= expected audit path
// length) and, for AbsentLeaf, the foreign key.
func Classify(m Model, sorted []Key, k Key) (PathKind, int, Key) {
	lo, hi := 0, len(sorted) // candidates sharing the first depth bits with k
	for depth := 0; ; depth++ {
		n := hi - lo
		if n == 0 {
			return AbsentEmpty, depth, Key{}
		}
		if n == 1 {
			if sorted[lo] == k {
				return Present, depth, k
			}
			return AbsentLeaf, depth, sorted[lo]
		}
		// narrow by bit depth
		split := hi
		for i := lo; i < hi; i++ {
			if Bit(sorted[i], depth) {
				split = i
				break
			}
		}
		if Bit(k, depth) {
			lo = split
		} else {
			hi = split
		}
	}
}

func Hex(b []byte) string { return hex.EncodeToString(b) }
