package trielib

import (
	"bytes"
	"fmt"
	"math/big"
	"math/rand"
	"sort"

	"github.com/aergoio/aergo-lib/db"
	"github.com/aergoio/aergo/v2/state/statedb"
	"github.com/aergoio/aergo/v2/types"
)

// ---- model of the account trie + contract storage tries -----------------------------

type AcctModel struct {
	Nonce   uint64
	Balance uint64
	// contracts only
	Storage map[string][]byte
}

type SDBModel struct {
	Accts map[types.AccountID]*AcctModel
}

func NewSDBModel() *SDBModel { return &SDBModel{Accts: map[types.AccountID]*AcctModel{}} }

func (m *SDBModel) Clone() *SDBModel {
	n := NewSDBModel()
	for id, a := range m.Accts {
		c := &AcctModel{Nonce: a.Nonce, Balance: a.Balance}
		if a.Storage != nil {
			c.Storage = make(map[string][]byte, len(a.Storage))
			for k, v := range a.Storage {
				c.Storage[k] = v
			}
		}
		n.Accts[id] = c
	}
	return n
}

// SDBWorld is the fixed cast of a scenario: plain accounts with engineered ids, contracts
// addressed by random addresses (their id is the hash of the address, as in the node).
type SDBWorld struct {
	Plain     []types.AccountID
	Contracts [][]byte // addresses
	VarKeys   [][]byte // storage keys used by contracts
}

func (w *SDBWorld) ContractID(i int) types.AccountID { return types.ToAccountID(w.Contracts[i]) }

func NewSDBWorld(r *rand.Rand, nPlain, nContracts, nVarKeys int) *SDBWorld {
	w := &SDBWorld{}
	for _, k := range Universe(r, nPlain) {
		w.Plain = append(w.Plain, types.AccountID(k))
	}
	for i := 0; i < nContracts; i++ {
		a := make([]byte, 33)
		r.Read(a)
		w.Contracts = append(w.Contracts, a)
	}
	for i := 0; i < nVarKeys; i++ {
		k := make([]byte, 4+r.Intn(20))
		r.Read(k)
		w.VarKeys = append(w.VarKeys, k)
	}
	return w
}

type AcctPut struct {
	ID      types.AccountID
	Nonce   uint64
	Balance uint64
}

type VarOp struct {
	C   int // contract index
	Key []byte
	Val []byte
	Del bool
}

// SDBBlock is one block's writes.
type SDBBlock struct {
	Puts   []AcctPut
	Vars   []VarOp
	CNonce map[int]uint64 // nonce to set on every contract touched in this block
}

func (b *SDBBlock) ApplyTo(w *SDBWorld, m *SDBModel) {
	for _, p := range b.Puts {
		a := m.Accts[p.ID]
		if a == nil {
			a = &AcctModel{}
			m.Accts[p.ID] = a
		}
		a.Nonce, a.Balance = p.Nonce, p.Balance
	}
	for c, n := range b.CNonce {
		id := w.ContractID(c)
		a := m.Accts[id]
		if a == nil {
			a = &AcctModel{}
			m.Accts[id] = a
		}
		if a.Storage == nil {
			a.Storage = map[string][]byte{}
		}
		a.Nonce = n
	}
	for _, v := range b.Vars {
		a := m.Accts[w.ContractID(v.C)]
		if v.Del {
			delete(a.Storage, string(v.Key))
		} else {
			a.Storage[string(v.Key)] = v.Val
		}
	}
}

func balBytes(b uint64) []byte {
	if b == 0 {
		return nil
	}
	return new(big.Int).SetUint64(b).Bytes()
}

// ApplySDBBlock executes one block the way the node does: a new StateDB opened at the parent
// root, PutState / contract SetData, DeleteData, StageContractState, then Update and Commit.
func ApplySDBBlock(store db.DB, root []byte, w *SDBWorld, b *SDBBlock) ([]byte, error) {
	sdb := statedb.NewStateDB(store, root, false)
	for _, p := range b.Puts {
		if err := sdb.PutState(p.ID, &types.State{Nonce: p.Nonce, Balance: balBytes(p.Balance)}); err != nil {
			return nil, err
		}
	}
	open := map[int]*statedb.ContractState{}
	var order []int
	get := func(c int) (*statedb.ContractState, error) {
		if cs, ok := open[c]; ok {
			return cs, nil
		}
		cs, err := statedb.OpenContractStateAccount(w.Contracts[c], sdb)
		if err != nil {
			return nil, err
		}
		open[c] = cs
		order = append(order, c)
		return cs, nil
	}
	for _, v := range b.Vars {
		cs, err := get(v.C)
		if err != nil {
			return nil, err
		}
		if v.Del {
			err = cs.DeleteData(v.Key)
		} else {
			err = cs.SetData(v.Key, v.Val)
		}
		if err != nil {
			return nil, err
		}
	}
	cn := make([]int, 0, len(b.CNonce))
	for c := range b.CNonce {
		cn = append(cn, c)
	}
	sort.Ints(cn)
	for _, c := range cn {
		if _, err := get(c); err != nil {
			return nil, err
		}
	}
	for _, c := range order {
		cs := open[c]
		cs.State.Nonce = b.CNonce[c]
		if err := sdb.PutState(cs.GetAccountID(), cs.State); err != nil {
			return nil, err
		}
		if err := statedb.StageContractState(cs, sdb); err != nil {
			return nil, err
		}
	}
	if err := sdb.Update(); err != nil {
		return nil, err
	}
	if err := sdb.Commit(); err != nil {
		return nil, err
	}
	return append([]byte(nil), sdb.GetRoot()...), nil
}

// GenSDBHistory generates nBlocks blocks (model-aware).
func GenSDBHistory(r *rand.Rand, w *SDBWorld, nBlocks, maxOps int) []*SDBBlock {
	m := NewSDBModel()
	var out []*SDBBlock
	for bi := 0; bi < nBlocks; bi++ {
		b := &SDBBlock{CNonce: map[int]uint64{}}
		seenPut := map[types.AccountID]bool{}
		seenVar := map[string]bool{}
		n := 1 + r.Intn(maxOps)
		for j := 0; j < n; j++ {
			if len(w.Contracts) == 0 || r.Intn(3) == 0 {
				id := w.Plain[r.Intn(len(w.Plain))]
				if seenPut[id] {
					continue
				}
				seenPut[id] = true
				var nonce uint64 = 1
				if a := m.Accts[id]; a != nil {
					nonce = a.Nonce + 1
				}
				b.Puts = append(b.Puts, AcctPut{ID: id, Nonce: nonce, Balance: uint64(r.Intn(1 << 30))})
				continue
			}
			c := r.Intn(len(w.Contracts))
			key := w.VarKeys[r.Intn(len(w.VarKeys))]
			tag := fmt.Sprintf("%d/%x", c, key)
			if seenVar[tag] {
				continue
			}
			seenVar[tag] = true
			a := m.Accts[w.ContractID(c)]
			has := false
			if a != nil {
				_, has = a.Storage[string(key)]
			}
			op := VarOp{C: c, Key: key}
			switch x := r.Intn(10); {
			case has && x < 4, !has && x < 1:
				op.Del = true
			default:
				op.Val = make([]byte, 1+r.Intn(40))
				r.Read(op.Val)
			}
			b.Vars = append(b.Vars, op)
			if _, ok := b.CNonce[c]; !ok {
				var nonce uint64 = 1
				if a != nil {
					nonce = a.Nonce + 1
				}
				b.CNonce[c] = nonce
			}
		}
		// occasionally wipe a contract's whole storage (storage root back to empty)
		if len(w.Contracts) > 0 && r.Intn(12) == 0 {
			c := r.Intn(len(w.Contracts))
			if a := m.Accts[w.ContractID(c)]; a != nil && len(a.Storage) > 0 {
				for k := range a.Storage {
					tag := fmt.Sprintf("%d/%x", c, []byte(k))
					if !seenVar[tag] {
						seenVar[tag] = true
						b.Vars = append(b.Vars, VarOp{C: c, Key: []byte(k), Del: true})
					}
				}
				if _, ok := b.CNonce[c]; !ok {
					b.CNonce[c] = a.Nonce + 1
				}
			}
		}
		sort.Slice(b.Vars, func(i, j int) bool {
			if b.Vars[i].C != b.Vars[j].C {
				return b.Vars[i].C < b.Vars[j].C
			}
			return bytes.Compare(b.Vars[i].Key, b.Vars[j].Key) < 0
		})
		b.ApplyTo(w, m)
		out = append(out, b)
	}
	return out
}

// CanonSDBBlock is the model written in one block.
func CanonSDBBlock(w *SDBWorld, m *SDBModel) *SDBBlock {
	b := &SDBBlock{CNonce: map[int]uint64{}}
	cidx := map[types.AccountID]int{}
	for i := range w.Contracts {
		cidx[w.ContractID(i)] = i
	}
	ids := make([]types.AccountID, 0, len(m.Accts))
	for id := range m.Accts {
		ids = append(ids, id)
	}
	sort.Slice(ids, func(i, j int) bool { return bytes.Compare(ids[i][:], ids[j][:]) < 0 })
	for _, id := range ids {
		a := m.Accts[id]
		if a.Storage == nil {
			b.Puts = append(b.Puts, AcctPut{ID: id, Nonce: a.Nonce, Balance: a.Balance})
			continue
		}
		c := cidx[id]
		b.CNonce[c] = a.Nonce
		ks := make([]string, 0, len(a.Storage))
		for k := range a.Storage {
			ks = append(ks, k)
		}
		sort.Strings(ks)
		for _, k := range ks {
			b.Vars = append(b.Vars, VarOp{C: c, Key: []byte(k), Val: a.Storage[k]})
		}
	}
	return b
}

// SDBSnapshot is one committed state of a StateDB scenario.
type SDBSnapshot struct {
	Root  []byte
	Model *SDBModel
}

// StorageModel returns the storage trie content (hash(key) -> hash(value)) of a contract.
func StorageModel(a *AcctModel) Model {
	m := Model{}
	if a == nil {
		return m
	}
	for k, v := range a.Storage {
		var kk Key
		var vv Val
		copy(kk[:], Hasher([]byte(k)))
		copy(vv[:], Hasher(v))
		m[kk] = vv
	}
	return m
}
