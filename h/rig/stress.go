package rig

import (
	"math/rand"
	"sync"
	"sync/atomic"
	"time"

	"github.com/aergoio/aergo/v2/types/message"
)

// StressReq drives the real mempool concurrently from inside the node process (the RPC pipe to
// the parent would serialise the calls). Every operation goes through the hub exactly like
// RPC/P2P clients do.
type StressReq struct {
	Txs       [][]byte // proto txs, submitted by the workers in a seeded shuffle each
	Workers   int
	Seed      int64
	Blocks    int   // number of blocks the producer goroutine builds from the pool meanwhile (0: none)
	Queries   bool  // concurrent exist/get/stat queries
	DelayUS   int   // max random delay between ops (microseconds)
	Dups      int   // every tx is submitted this many extra times by other workers
}

// HistOp is one recorded client operation (call/return stamps from one logical clock).
type HistOp struct {
	Client int
	Kind   string // put | exist | get
	Hash   []byte
	Call   int64
	Ret    int64
	Res    string   // put: "" ok or error text; exist: "true"/"false"
	Got    [][]byte // get: tx hashes in the order returned
}

type StressRsp struct {
	Ops       []HistOp
	Blocks    [][]byte // blocks produced meanwhile
	BlockErrs []string
}

func (n *Node) Stress(q *StressReq) *StressRsp {
	var clock int64
	tick := func() int64 { return atomic.AddInt64(&clock, 1) }
	var mu sync.Mutex
	rsp := &StressRsp{}
	rec := func(op HistOp) { mu.Lock(); rsp.Ops = append(rsp.Ops, op); mu.Unlock() }
	var wg sync.WaitGroup
	// work lists
	lists := make([][]int, q.Workers)
	for i := range q.Txs {
		for d := 0; d <= q.Dups; d++ {
			w := (i + d*7 + d) % q.Workers
			lists[w] = append(lists[w], i)
		}
	}
	stop := make(chan struct{})
	for w := 0; w < q.Workers; w++ {
		wg.Add(1)
		go func(w int) {
			defer wg.Done()
			r := rand.New(rand.NewSource(q.Seed + int64(w)*7919))
			l := lists[w]
			r.Shuffle(len(l), func(i, j int) { l[i], l[j] = l[j], l[i] })
			for _, ti := range l {
				if q.DelayUS > 0 {
					time.Sleep(time.Duration(r.Intn(q.DelayUS)) * time.Microsecond)
				}
				tx := DecTx(q.Txs[ti])
				op := HistOp{Client: w, Kind: "put", Hash: tx.Hash, Call: tick()}
				res, err := n.req(message.MemPoolSvc, &message.MemPoolPut{Tx: tx})
				op.Ret = tick()
				if err != nil {
					op.Res = "request: " + err.Error()
				} else if e := res.(*message.MemPoolPutRsp).Err; e != nil {
					op.Res = e.Error()
				}
				rec(op)
			}
		}(w)
	}
	var qwg sync.WaitGroup
	if q.Queries {
		for k := 0; k < 2; k++ {
			qwg.Add(1)
			go func(k int) {
				defer qwg.Done()
				r := rand.New(rand.NewSource(q.Seed*31 + int64(k)))
				for {
					select {
					case <-stop:
						return
					default:
					}
					switch r.Intn(3) {
					case 0:
						tx := DecTx(q.Txs[r.Intn(len(q.Txs))])
						op := HistOp{Client: 1000 + k, Kind: "exist", Hash: tx.Hash, Call: tick()}
						res, err := n.req(message.MemPoolSvc, &message.MemPoolExist{Hash: tx.Hash})
						op.Ret = tick()
						if err == nil {
							if res.(*message.MemPoolExistRsp).Tx != nil {
								op.Res = "true"
							} else {
								op.Res = "false"
							}
							rec(op)
						}
					case 1:
						op := HistOp{Client: 1000 + k, Kind: "get", Call: tick()}
						res, err := n.req(message.MemPoolSvc, &message.MemPoolGet{MaxBlockBodySize: 1 << 30})
						op.Ret = tick()
						if err == nil {
							for _, t := range res.(*message.MemPoolGetRsp).Txs {
								op.Got = append(op.Got, t.GetHash())
							}
							rec(op)
						}
					case 2:
						n.req(message.MemPoolSvc, &message.MemPoolTxStat{})
						n.req(message.MemPoolSvc, &message.MemPoolExistEx{Hashes: nil})
					}
					time.Sleep(time.Duration(50+r.Intn(300)) * time.Microsecond)
				}
			}(k)
		}
	}
	if q.Blocks > 0 {
		qwg.Add(1)
		go func() {
			defer qwg.Done()
			for b := 0; b < q.Blocks; b++ {
				select {
				case <-stop:
					return
				default:
				}
				time.Sleep(2 * time.Millisecond)
				pr := n.Produce(&ProduceReq{FromMempool: true, Connect: true, Confirms: -1, SignKey: 0})
				mu.Lock()
				if pr.Panic != "" || pr.GenErr != "" || pr.AddErr != "" {
					rsp.BlockErrs = append(rsp.BlockErrs, pr.Panic+pr.GenErr+pr.AddErr)
				} else {
					rsp.Blocks = append(rsp.Blocks, pr.Block)
				}
				mu.Unlock()
			}
		}()
	}
	wg.Wait()
	close(stop)
	qwg.Wait()
	n.MempoolSync()
	return rsp
}

// HandoffReq: every sender has exactly one pooled tx (First), which a block produced from the pool mines while the
// sender's next nonce (Second) is being submitted by concurrent clients - the moment at which the pool releases and
// re-creates the sender's list.
type HandoffReq struct {
	First   [][]byte
	Second  [][]byte
	Seed    int64
	DelayUS int
}

type HandoffRsp struct {
	FirstRes  []string // put results of First (sequential)
	SecondRes []string // put results of Second (concurrent)
	Block     []byte
	BlockErr  string
}

func (n *Node) Handoff(q *HandoffReq) *HandoffRsp {
	rsp := &HandoffRsp{FirstRes: make([]string, len(q.First)), SecondRes: make([]string, len(q.Second))}
	put := func(b []byte) string {
		tx := DecTx(b)
		res, err := n.req(message.MemPoolSvc, &message.MemPoolPut{Tx: tx})
		if err != nil {
			return "request: " + err.Error()
		}
		if e := res.(*message.MemPoolPutRsp).Err; e != nil {
			return e.Error()
		}
		return ""
	}
	for i, b := range q.First {
		rsp.FirstRes[i] = put(b)
	}
	n.MempoolSync()
	var wg sync.WaitGroup
	r := rand.New(rand.NewSource(q.Seed))
	delays := make([]int, len(q.Second))
	for i := range delays {
		delays[i] = r.Intn(q.DelayUS + 1)
	}
	bdelay := r.Intn(q.DelayUS + 1)
	for i, b := range q.Second {
		wg.Add(1)
		go func(i int, b []byte) {
			defer wg.Done()
			time.Sleep(time.Duration(delays[i]) * time.Microsecond)
			rsp.SecondRes[i] = put(b)
		}(i, b)
	}
	wg.Add(1)
	go func() {
		defer wg.Done()
		time.Sleep(time.Duration(bdelay) * time.Microsecond)
		pr := n.Produce(&ProduceReq{FromMempool: true, Connect: true, Confirms: -1, SignKey: 0})
		if pr.Panic != "" || pr.GenErr != "" || pr.AddErr != "" {
			rsp.BlockErr = pr.Panic + pr.GenErr + pr.AddErr
		} else {
			rsp.Block = pr.Block
		}
	}()
	wg.Wait()
	n.MempoolSync()
	return rsp
}
