package rig

import (
	"crypto/sha256"
	"encoding/binary"
	"encoding/json"
	"math/big"

	"github.com/aergoio/aergo/v2/account/key"
	keycrypto "github.com/aergoio/aergo/v2/account/key/crypto"
	"github.com/aergoio/aergo/v2/types"
	"github.com/btcsuite/btcd/btcec/v2"
	"github.com/golang/protobuf/proto"
)

// Acct is a deterministic key pair.
type Acct struct {
	Priv *btcec.PrivateKey
	Addr []byte // 33-byte address
}

// NewAcct derives account #i of a named family deterministically.
func NewAcct(family string, i int) *Acct {
	h := sha256.Sum256([]byte("verif-acct/" + family + "/" + itoa(i)))
	priv, pub := btcec.PrivKeyFromBytes(h[:])
	return &Acct{Priv: priv, Addr: keycrypto.GenerateAddress(pub.ToECDSA())}
}

func itoa(i int) string { b, _ := json.Marshal(i); return string(b) }

func (a *Acct) B58() string { return types.EncodeAddress(a.Addr) }

// TxSpec describes a transaction to build.
type TxSpec struct {
	Type      types.TxType
	From      *Acct
	Account   []byte // override of Body.Account (e.g. a name); default From.Addr
	To        []byte
	Nonce     uint64
	Amount    *big.Int
	Payload   []byte
	GasLimit  uint64
	GasPrice  *big.Int
	ChainID   []byte // chain id hash
	NoSign    bool
	SignWith  *Acct // sign with another key
}

func BigBytes(v *big.Int) []byte {
	if v == nil {
		return nil
	}
	return v.Bytes()
}

// Build constructs, signs and hashes the tx.
func (s TxSpec) Build() *types.Tx {
	acc := s.Account
	if acc == nil && s.From != nil {
		acc = s.From.Addr
	}
	gp := s.GasPrice
	tx := &types.Tx{Body: &types.TxBody{
		Nonce: s.Nonce, Account: acc, Recipient: s.To, Amount: BigBytes(s.Amount), Payload: s.Payload,
		GasLimit: s.GasLimit, GasPrice: BigBytes(gp), Type: s.Type, ChainIdHash: s.ChainID,
	}}
	signer := s.From
	if s.SignWith != nil {
		signer = s.SignWith
	}
	if !s.NoSign && signer != nil {
		key.SignTx(tx, signer.Priv)
	} else {
		tx.Hash = tx.CalculateTxHash()
	}
	return tx
}

// Resign re-signs tx (after a body mutation) and recomputes the hash.
func Resign(tx *types.Tx, a *Acct) { key.SignTx(tx, a.Priv) }

// Rehash recomputes only the hash (signature left as is).
func Rehash(tx *types.Tx) { tx.Hash = tx.CalculateTxHash() }

func EncTx(tx *types.Tx) []byte   { b, _ := proto.Marshal(tx); return b }
func DecTx(b []byte) *types.Tx    { tx := &types.Tx{}; if proto.Unmarshal(b, tx) != nil { return nil }; return tx }
func EncBlock(b *types.Block) []byte { x, _ := proto.Marshal(b); return x }
func DecBlock(b []byte) *types.Block {
	blk := &types.Block{}
	if proto.Unmarshal(b, blk) != nil {
		return nil
	}
	return blk
}
func CloneTx(tx *types.Tx) *types.Tx       { return proto.Clone(tx).(*types.Tx) }
func CloneBlock(b *types.Block) *types.Block { return proto.Clone(b).(*types.Block) }

// GovPayload builds a governance call payload {"Name":name,"Args":[...]}.
func GovPayload(name string, args ...interface{}) []byte {
	if args == nil {
		args = []interface{}{}
	}
	b, _ := json.Marshal(map[string]interface{}{"Name": name, "Args": args})
	return b
}

// IndependentSigningDigest recomputes the tx signing digest without using /repo's key package
// (used by the C04 executed-tx ledger as an independent check).
func IndependentSigningDigest(b *types.TxBody) []byte {
	h := sha256.New()
	var u8 [8]byte
	binary.LittleEndian.PutUint64(u8[:], b.Nonce)
	h.Write(u8[:])
	h.Write(b.Account)
	h.Write(b.Recipient)
	h.Write(b.Amount)
	h.Write(b.Payload)
	binary.LittleEndian.PutUint64(u8[:], b.GasLimit)
	h.Write(u8[:])
	h.Write(b.GasPrice)
	var u4 [4]byte
	binary.LittleEndian.PutUint32(u4[:], uint32(b.Type))
	h.Write(u4[:])
	h.Write(b.ChainIdHash)
	return h.Sum(nil)
}

// ContractID is the address of the contract created by (account, nonce).
func ContractID(account []byte, nonce uint64) []byte {
	h := sha256.New()
	h.Write(account)
	h.Write([]byte(itoa(int(nonce))))
	return append([]byte{0x0C}, h.Sum(nil)...)
}
