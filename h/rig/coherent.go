package rig

import (
	"bytes"
	"encoding/binary"
	"encoding/hex"
	"fmt"

	"github.com/aergoio/aergo/v2/types"
	"github.com/aergoio/aergo/v2/types/message"
)

// CoherentRsp is the outcome of the O-coherent predicate (C05) evaluated through the node's
// query surface plus the raw chain store.
type CoherentRsp struct {
	Problems []string
	BestNo   uint64
	BestHash []byte
	MainTxs  int
	Blocks   int
	WithRcpt int
	OffMainChecked int
}

func (n *Node) getBlock(hash []byte) (*types.Block, error) {
	r, err := n.req(message.ChainSvc, &message.GetBlock{BlockHash: hash})
	if err != nil {
		return nil, err
	}
	rsp := r.(message.GetBlockRsp)
	return rsp.Block, rsp.Err
}

func (n *Node) getBlockByNo(no uint64) (*types.Block, error) {
	r, err := n.req(message.ChainSvc, &message.GetBlockByNo{BlockNo: no})
	if err != nil {
		return nil, err
	}
	rsp := r.(message.GetBlockByNoRsp)
	return rsp.Block, rsp.Err
}

// Coherent evaluates the predicate. known is the set of tx hashes the driver has ever put in any
// block of any branch; those not on the main chain must not be reported as confirmed.
func (n *Node) Coherent(known [][]byte) *CoherentRsp {
	out := &CoherentRsp{}
	bad := func(f string, a ...interface{}) { out.Problems = append(out.Problems, fmt.Sprintf(f, a...)) }
	best, err := n.best()
	if err != nil || best == nil {
		bad("no best block: %v", err)
		return out
	}
	out.BestNo, out.BestHash = best.BlockNo(), best.BlockHash()
	raw := n.chainDB()
	// persisted best == in-memory best
	lb := raw.Get([]byte("chain.latest"))
	if len(lb) != 8 || binary.LittleEndian.Uint64(lb) != best.BlockNo() {
		bad("persisted latest %x != in-memory best no %d", lb, best.BlockNo())
	}
	main := map[string]bool{}
	// 1+2: linked path to genesis, height index agrees
	cur := best
	for {
		out.Blocks++
		no := cur.BlockNo()
		byNo, err := n.getBlockByNo(no)
		if err != nil || byNo == nil {
			bad("height %d: GetBlockByNo failed: %v", no, err)
		} else if !bytes.Equal(byNo.BlockHash(), cur.BlockHash()) {
			bad("height %d: index has %x, path has %x", no, byNo.BlockHash(), cur.BlockHash())
		}
		var k [8]byte
		binary.LittleEndian.PutUint64(k[:], no)
		if h := raw.Get(k[:]); !bytes.Equal(h, cur.BlockHash()) {
			bad("height %d: raw index %x != path %x", no, h, cur.BlockHash())
		}
		// 3: txs found by hash at block and position
		txs := cur.GetBody().GetTxs()
		for i, tx := range txs {
			main[string(tx.GetHash())] = true
			out.MainTxs++
			r, err := n.req(message.ChainSvc, &message.GetTx{TxHash: tx.GetHash()})
			if err != nil {
				bad("GetTx request: %v", err)
				continue
			}
			rsp := r.(message.GetTxRsp)
			if rsp.Err != nil || rsp.TxIds == nil {
				bad("height %d tx %d %x: not found by hash: %v", no, i, tx.GetHash(), rsp.Err)
			} else if !bytes.Equal(rsp.TxIds.BlockHash, cur.BlockHash()) || int(rsp.TxIds.Idx) != i {
				bad("height %d tx %d %x: index says block %x idx %d", no, i, tx.GetHash(), rsp.TxIds.BlockHash, rsp.TxIds.Idx)
			}
		}
		// 4: receipts
		if len(txs) > 0 {
			out.WithRcpt++
			r, err := n.req(message.ChainSvc, &message.GetReceipts{BlockHash: cur.BlockHash()})
			if err != nil {
				bad("GetReceipts request: %v", err)
			} else {
				rsp := r.(message.GetReceiptsRsp)
				if rsp.Err != nil || rsp.Receipts == nil {
					bad("height %d: no receipts: %v", no, rsp.Err)
				} else {
					rs := rsp.Receipts.Get()
					if len(rs) != len(txs) {
						bad("height %d: %d receipts for %d txs", no, len(rs), len(txs))
					} else {
						for i := range rs {
							if !bytes.Equal(rs[i].TxHash, txs[i].GetHash()) {
								bad("height %d: receipt %d is for tx %x, block has %x", no, i, rs[i].TxHash, txs[i].GetHash())
							}
						}
					}
					// the merkle root is recomputed from the stored receipts themselves: the query
					// surface rewrites ContractAddress (AddressOrigin) for display
					if sr := n.StoredReceipts(cur.BlockHash(), no); sr.Err != "" {
						bad("height %d: stored receipts unreadable: %s", no, sr.Err)
					} else if !bytes.Equal(sr.Root, cur.GetHeader().GetReceiptsRootHash()) {
						bad("height %d: receipts merkle root %x != header %x", no, sr.Root, cur.GetHeader().GetReceiptsRootHash())
					}
				}
			}
			// single receipt lookup for the first tx
			r2, err := n.req(message.ChainSvc, &message.GetReceipt{TxHash: txs[0].GetHash()})
			if err == nil {
				if rr := r2.(message.GetReceiptRsp); rr.Err != nil || rr.Receipt == nil {
					bad("height %d: GetReceipt(first tx) failed: %v", no, rr.Err)
				}
			}
		}
		if no == 0 {
			break
		}
		prev, err := n.getBlock(cur.GetHeader().GetPrevBlockHash())
		if err != nil || prev == nil {
			bad("height %d: parent %x missing: %v", no, cur.GetHeader().GetPrevBlockHash(), err)
			break
		}
		if prev.BlockNo()+1 != no {
			bad("height %d: parent has height %d", no, prev.BlockNo())
			break
		}
		cur = prev
	}
	// no index above best
	for h := best.BlockNo() + 1; h <= best.BlockNo()+32; h++ {
		var k [8]byte
		binary.LittleEndian.PutUint64(k[:], h)
		if v := raw.Get(k[:]); len(v) != 0 {
			bad("height index entry above best: %d -> %x", h, v)
		}
		if b, err := n.getBlockByNo(h); err == nil && b != nil {
			bad("GetBlockByNo(%d) above best returns %x", h, b.BlockHash())
		}
	}
	// off-main txs not reported as confirmed
	for _, h := range known {
		if main[string(h)] {
			continue
		}
		out.OffMainChecked++
		r, err := n.req(message.ChainSvc, &message.GetTx{TxHash: h})
		if err != nil {
			continue
		}
		rsp := r.(message.GetTxRsp)
		if rsp.Err == nil && rsp.TxIds != nil {
			bad("tx %x is only on an abandoned/side branch but reported confirmed in block %x", h, rsp.TxIds.BlockHash)
		}
		r2, err := n.req(message.ChainSvc, &message.GetReceipt{TxHash: h})
		if err == nil {
			if rr := r2.(message.GetReceiptRsp); rr.Err == nil && rr.Receipt != nil {
				bad("tx %x is only on an abandoned/side branch but a receipt is reported", h)
			}
		}
	}
	// 5: state root
	sroot := n.cs.SDB().GetRoot()
	if !bytes.Equal(sroot, best.GetHeader().GetBlocksRootHash()) {
		bad("state DB root %s != best block state root %s", hex.EncodeToString(sroot), hex.EncodeToString(best.GetHeader().GetBlocksRootHash()))
	}
	if _, err := DumpAt(n.stateDB(), best.GetHeader().GetBlocksRootHash()); err != nil {
		bad("state at best block root does not open: %v", err)
	}
	return out
}
