package rig

import (
	"sort"
	"sync"

	"github.com/aergoio/aergo-lib/db"
)

// Unit is one durable write unit: a single Set/Delete, a committed DB transaction or a
// flushed bulk, with its write set in issue order.
type Unit struct {
	Seq   int    `json:"seq"`
	Store string `json:"store"` // "chain" | "state"
	Kind  string `json:"kind"`  // set | del | tx | bulk
	Ops   []KV   `json:"ops"`
	Phase string `json:"phase,omitempty"` // logical phase label set by the driver
}

type KV struct {
	Del bool   `json:"del,omitempty"`
	K   []byte `json:"k"`
	V   []byte `json:"v,omitempty"`
}

// Journal is shared by the two store wrappers so units are globally ordered.
type Journal struct {
	mu      sync.Mutex
	on      bool
	units   []Unit
	phase   string
	snap0   map[string]map[string][]byte // store -> content at journal start
	stores  map[string]db.DB
	PreUnit func(u *Unit) // optional: called before a unit is applied (delay/fault injection)
}

func NewJournal() *Journal {
	return &Journal{stores: map[string]db.DB{}, snap0: map[string]map[string][]byte{}}
}

func (j *Journal) Wrap(name string) func(db.DB) db.DB {
	return func(inner db.DB) db.DB {
		j.mu.Lock()
		j.stores[name] = inner
		if j.on {
			// recording already: a store that joins now starts from its current content; a store that is
			// re-opened under the same name keeps its snapshot zero (its writes so far are in the journal)
			if _, seen := j.snap0[name]; !seen {
				j.snap0[name] = scanDB(inner)
			}
		}
		j.mu.Unlock()
		return &jdb{DB: inner, j: j, name: name}
	}
}

// Inner returns the unwrapped store.
func (j *Journal) Inner(name string) db.DB {
	j.mu.Lock()
	defer j.mu.Unlock()
	return j.stores[name]
}

// Scan returns the full content of a store.
func (j *Journal) Scan(name string) map[string][]byte {
	j.mu.Lock()
	inner := j.stores[name]
	j.mu.Unlock()
	return scanDB(inner)
}

func scanDB(inner db.DB) map[string][]byte {
	out := map[string][]byte{}
	if inner == nil {
		return out
	}
	it := inner.Iterator(nil, nil)
	for ; it.Valid(); it.Next() {
		out[string(it.Key())] = append([]byte(nil), it.Value()...)
	}
	return out
}

// Start begins recording; the current store contents become snapshot zero.
func (j *Journal) Start() {
	j.mu.Lock()
	defer j.mu.Unlock()
	j.units = nil
	for n, s := range j.stores {
		j.snap0[n] = scanDB(s)
	}
	j.on = true
}

// On reports whether the journal is recording.
func (j *Journal) On() bool { j.mu.Lock(); defer j.mu.Unlock(); return j.on }

func (j *Journal) Stop() { j.mu.Lock(); j.on = false; j.mu.Unlock() }

func (j *Journal) SetPhase(p string) { j.mu.Lock(); j.phase = p; j.mu.Unlock() }

func (j *Journal) Len() int { j.mu.Lock(); defer j.mu.Unlock(); return len(j.units) }

func (j *Journal) Units() []Unit {
	j.mu.Lock()
	defer j.mu.Unlock()
	return append([]Unit(nil), j.units...)
}

// Materialize returns the content of both stores after snapshot zero + the first k units.
// If partial >= 0 the (k+1)-th unit is applied only up to its first `partial` operations
// (partial bulk flush; informational class).
func (j *Journal) Materialize(k int, partial int) map[string]map[string][]byte {
	j.mu.Lock()
	defer j.mu.Unlock()
	out := map[string]map[string][]byte{}
	for n, m := range j.snap0 {
		c := make(map[string][]byte, len(m))
		for k, v := range m {
			c[k] = v
		}
		out[n] = c
	}
	apply := func(u Unit, n int) {
		m := out[u.Store]
		if m == nil {
			m = map[string][]byte{}
			out[u.Store] = m
		}
		for i, op := range u.Ops {
			if n >= 0 && i >= n {
				break
			}
			if op.Del {
				delete(m, string(op.K))
			} else {
				m[string(op.K)] = op.V
			}
		}
	}
	for i := 0; i < k && i < len(j.units); i++ {
		apply(j.units[i], -1)
	}
	if partial >= 0 && k < len(j.units) {
		apply(j.units[k], partial)
	}
	return out
}

func (j *Journal) record(store, kind string, ops []KV) {
	j.mu.Lock()
	if !j.on {
		j.mu.Unlock()
		return
	}
	u := Unit{Seq: len(j.units), Store: store, Kind: kind, Ops: ops, Phase: j.phase}
	j.units = append(j.units, u)
	pre := j.PreUnit
	j.mu.Unlock()
	if pre != nil {
		pre(&u)
	}
}

func cp(b []byte) []byte {
	if b == nil {
		return []byte{}
	}
	return append([]byte(nil), b...)
}

type jdb struct {
	db.DB
	j    *Journal
	name string
}

func (d *jdb) Set(k, v []byte) {
	d.j.record(d.name, "set", []KV{{K: cp(k), V: cp(v)}})
	d.DB.Set(k, v)
}
func (d *jdb) Delete(k []byte) {
	d.j.record(d.name, "del", []KV{{Del: true, K: cp(k)}})
	d.DB.Delete(k)
}
func (d *jdb) NewTx() db.Transaction {
	return &jtx{Transaction: d.DB.NewTx(), d: d}
}
func (d *jdb) NewBulk() db.Bulk {
	return &jbulk{Bulk: d.DB.NewBulk(), d: d}
}

type jtx struct {
	db.Transaction
	d   *jdb
	ops []KV
}

func (t *jtx) Set(k, v []byte) { t.ops = append(t.ops, KV{K: cp(k), V: cp(v)}); t.Transaction.Set(k, v) }
func (t *jtx) Delete(k []byte) { t.ops = append(t.ops, KV{Del: true, K: cp(k)}); t.Transaction.Delete(k) }
func (t *jtx) Commit() {
	t.d.j.record(t.d.name, "tx", t.ops)
	t.Transaction.Commit()
}

type jbulk struct {
	db.Bulk
	d   *jdb
	ops []KV
}

func (t *jbulk) Set(k, v []byte) { t.ops = append(t.ops, KV{K: cp(k), V: cp(v)}); t.Bulk.Set(k, v) }
func (t *jbulk) Delete(k []byte) { t.ops = append(t.ops, KV{Del: true, K: cp(k)}); t.Bulk.Delete(k) }
func (t *jbulk) Flush() {
	t.d.j.record(t.d.name, "bulk", t.ops)
	t.Bulk.Flush()
}

// SortedKeys is a helper for canonical output.
func SortedKeys(m map[string][]byte) []string {
	ks := make([]string, 0, len(m))
	for k := range m {
		ks = append(ks, k)
	}
	sort.Strings(ks)
	return ks
}
