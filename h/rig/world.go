package rig

import (
	"crypto/sha256"
	"fmt"
	"math/big"
	"path/filepath"
	"sync"

	"github.com/aergoio/aergo/v2/config"
	"github.com/aergoio/aergo/v2/types"
)

// World is a chain configuration shared by the nodes of one case (same genesis, keys, hardforks).
type World struct {
	Name    string
	Scratch string
	Tmpl    NodeConfig
	Accts   []*Acct
	HF      config.HardforkConfig
	ChainID []byte // genesis header chain id bytes
	NBP     int
	BPIDs   []string

	NodeEnv map[string][]string // extra environment per node name (e.g. GOMAXPROCS=1)

	mu    sync.Mutex
	nodes map[string]*Client
	seq   int
}

type WorldOpts struct {
	Public    bool
	Coinbase  *Acct // nil: no coinbase
	NAccts    int
	Balance   string // per account
	Extra     map[string]string // extra genesis balances (base58 or special names such as aergo.vault are not allowed by genesis; use addresses)
	HF        map[string]uint64
	NBP       int
	Strict    bool
	Mempool   string
	GenesisTS int64
}

var Aergo = new(big.Int).Exp(big.NewInt(10), big.NewInt(18), nil)

func NewWorld(name, scratch string, o WorldOpts) *World {
	w := &World{Name: name, Scratch: scratch, nodes: map[string]*Client{}}
	if o.NAccts == 0 {
		o.NAccts = 8
	}
	if o.Balance == "" {
		o.Balance = new(big.Int).Mul(big.NewInt(1000000), Aergo).String()
	}
	if o.NBP == 0 {
		o.NBP = 3
	}
	if o.HF == nil {
		o.HF = map[string]uint64{"V2": 3, "V3": 6, "V4": 9, "V5": 12}
	}
	if o.GenesisTS == 0 {
		o.GenesisTS = 1600000000000000000
	}
	bal := map[string]string{}
	for i := 0; i < o.NAccts; i++ {
		a := NewAcct(name, i)
		w.Accts = append(w.Accts, a)
		bal[a.B58()] = o.Balance
	}
	for k, v := range o.Extra {
		bal[k] = v
	}
	var keys [][]byte
	for i := 0; i < o.NBP; i++ {
		k, id := DetBPKey(i)
		keys = append(keys, k)
		w.BPIDs = append(w.BPIDs, id)
	}
	w.NBP = o.NBP
	cb := ""
	if o.Coinbase != nil {
		cb = o.Coinbase.B58()
	}
	w.Tmpl = NodeConfig{Magic: "verif." + name, Public: o.Public, Strict: o.Strict, Coinbase: cb, Hardfork: o.HF, Balances: bal,
		GenesisTS: o.GenesisTS, BPKeys: keys, Mempool: o.Mempool, EnableBP: true}
	w.HF = config.HardforkConfig{V2: get(o.HF, "V2"), V3: get(o.HF, "V3"), V4: get(o.HF, "V4"), V5: get(o.HF, "V5")}
	return w
}

func get(m map[string]uint64, k string) uint64 {
	if v, ok := m[k]; ok {
		return v
	}
	return 1 << 62
}

// Node spawns a child process and starts a node on a fresh (or existing) data dir.
func (w *World) Node(name string, mod func(*NodeConfig)) (*Client, *BlockInfo, error) {
	w.mu.Lock()
	w.seq++
	pname := fmt.Sprintf("%s-%s-%d", w.Name, name, w.seq)
	w.mu.Unlock()
	c, err := Spawn(pname, filepath.Join(w.Scratch, "proc"), w.NodeEnv[name]...)
	if err != nil {
		return nil, nil, err
	}
	cfg := w.Tmpl
	cfg.Dir = filepath.Join(w.Scratch, "data", w.Name+"-"+name)
	if mod != nil {
		mod(&cfg)
	}
	bi, err := c.Init(cfg)
	if err != nil {
		c.Kill()
		return nil, nil, err
	}
	if w.ChainID == nil {
		gb, err := c.GetBlockByNo(0)
		if err == nil {
			w.ChainID = DecBlock(gb).GetHeader().GetChainID()
		}
	}
	w.mu.Lock()
	w.nodes[pname] = c
	w.mu.Unlock()
	return c, bi, nil
}

// CloseAll kills every node process of the world.
func (w *World) CloseAll() {
	w.mu.Lock()
	defer w.mu.Unlock()
	for k, c := range w.nodes {
		c.Kill()
		delete(w.nodes, k)
	}
}

// Version is the hardfork version of block no.
func (w *World) Version(no uint64) int32 { return w.HF.Version(no) }

// CIDHash is the chain id hash a tx must carry to be included in block no.
func (w *World) CIDHash(no uint64) []byte {
	cid := types.MakeChainId(w.ChainID, w.Version(no))
	h := sha256.Sum256(cid)
	return h[:]
}
