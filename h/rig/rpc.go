package rig

import (
	"encoding/json"
	"fmt"
	"io"
	"net/rpc"
	"os"
	"os/exec"
	"path/filepath"
	"sync"
	"time"

	"github.com/aergoio/aergo/v2/mempool"
)

// ---- child side -----------------------------------------------------------------------------

type Svc struct {
	mu sync.Mutex
	n  *Node
}

type Empty struct{}

func (s *Svc) node() (*Node, error) {
	if s.n == nil {
		return nil, fmt.Errorf("node not started")
	}
	return s.n, nil
}

func (s *Svc) Init(c *NodeConfig, r *BlockInfo) error {
	n, err := StartNode(*c)
	if err != nil {
		return err
	}
	s.n = n
	b, err := n.Best()
	if err != nil {
		return err
	}
	*r = *b
	return nil
}
func (s *Svc) Stop(_ *Empty, _ *Empty) error { s.n.Stop(); return nil }
func (s *Svc) Best(_ *Empty, r *BlockInfo) error {
	b, err := s.n.Best()
	if err != nil {
		return err
	}
	*r = *b
	return nil
}
func (s *Svc) Produce(q *ProduceReq, r *ProduceRsp) error { *r = *s.n.Produce(q); return nil }
func (s *Svc) AddBlock(b *[]byte, r *string) error        { *r = s.n.AddBlock(*b); return nil }
func (s *Svc) AddBlockSync(b *[]byte, r *string) error    { *r = s.n.addBlock(*b, true); return nil }
func (s *Svc) Dump(root *[]byte, r *Dump) error {
	var rt []byte
	if len(*root) > 0 {
		rt = *root
	}
	d, err := s.n.Dump(rt)
	if err != nil {
		return err
	}
	*r = *d
	return nil
}
func (s *Svc) Scan(store *string, r *map[string][]byte) error { *r = s.n.jr.Scan(*store); return nil }
func (s *Svc) Coherent(known *[][]byte, r *CoherentRsp) error { *r = *s.n.Coherent(*known); return nil }
func (s *Svc) Info(_ *Empty, r *NodeInfo) error               { *r = *s.n.Info(); return nil }
func (s *Svc) SetLib(l *int64, _ *Empty) error                { s.n.SetLib(*l); return nil }
func (s *Svc) Recorded(_ *Empty, r *[]recMsg) error           { *r = s.n.Recorded(); return nil }
func (s *Svc) GetBlock(h *[]byte, r *[]byte) error {
	b, err := s.n.getBlock(*h)
	if err != nil {
		return err
	}
	*r = EncBlock(b)
	return nil
}
func (s *Svc) GetBlockByNo(no *uint64, r *[]byte) error {
	b, err := s.n.getBlockByNo(*no)
	if err != nil {
		return err
	}
	*r = EncBlock(b)
	return nil
}
func (s *Svc) MempoolPut(tx *[]byte, r *string) error { *r = s.n.MempoolPut(*tx); return nil }
func (s *Svc) MempoolGet(_ *Empty, r *[][]byte) error {
	t, err := s.n.MempoolGet()
	*r = t
	return err
}
func (s *Svc) MempoolExist(h *[]byte, r *bool) error {
	b, err := s.n.MempoolExist(*h)
	*r = b
	return err
}
func (s *Svc) MempoolDelTx(tx *[]byte, r *string) error { *r = s.n.MempoolDelTx(*tx); return nil }
func (s *Svc) MempoolSnapshot(_ *Empty, r *mempool.VerifSnap) error {
	if sn := s.n.MempoolSnapshot(); sn != nil {
		*r = *sn
	}
	return nil
}
func (s *Svc) MempoolSync(_ *Empty, _ *Empty) error { return s.n.MempoolSync() }
func (s *Svc) MempoolStat(_ *Empty, r *MPStat) error {
	st, err := s.n.MempoolStat()
	if err != nil {
		return err
	}
	*r = *st
	return nil
}
func (s *Svc) GetState(a *[]byte, r *AcctState) error     { *r = *s.n.GetState(*a); return nil }
func (s *Svc) GetStaking(a *[]byte, r *StakingInfo) error { *r = *s.n.GetStaking(*a); return nil }

type ElectedReq struct {
	ID string
	N  uint32
}
type ElectedRsp struct {
	Votes []VoteEntry
	Err   string
}

func (s *Svc) GetElected(q *ElectedReq, r *ElectedRsp) error {
	r.Votes, r.Err = s.n.GetElected(q.ID, q.N)
	return nil
}

type AccountVotesRsp struct {
	Votes   []AccountVote
	Staking *StakingInfo
	Err     string
}

func (s *Svc) GetAccountVotes(a *[]byte, r *AccountVotesRsp) error {
	r.Votes, r.Staking, r.Err = s.n.GetAccountVotes(*a)
	return nil
}
func (s *Svc) GetNameInfo(nm *string, r *NameInfo) error { *r = *s.n.GetNameInfo(*nm); return nil }
func (s *Svc) SysValues(_ *Empty, r *SysValues) error     { *r = *s.n.SysValues(); return nil }
func (s *Svc) PickWinners(seeds *[]int64, r *[]string) error {
	*r = s.n.PickWinners(*seeds)
	return nil
}

type QueryReq struct{ Contract, Info []byte }
type QueryRsp struct {
	Result []byte
	Err    string
}

func (s *Svc) Query(q *QueryReq, r *QueryRsp) error {
	r.Result, r.Err = s.n.Query(q.Contract, q.Info)
	return nil
}

type FDReq struct{ Contract, Payload, Sender, TxHash, Amount []byte }

func (s *Svc) CheckFeeDelegation(q *FDReq, r *string) error {
	*r = s.n.CheckFeeDelegation(q.Contract, q.Payload, q.Sender, q.TxHash, q.Amount)
	return nil
}

// journal
func (s *Svc) JournalStart(_ *Empty, _ *Empty) error { s.n.jr.Start(); return nil }
func (s *Svc) JournalStop(_ *Empty, _ *Empty) error  { s.n.jr.Stop(); return nil }
func (s *Svc) JournalPhase(p *string, _ *Empty) error { s.n.jr.SetPhase(*p); return nil }
func (s *Svc) JournalLen(_ *Empty, r *int) error     { *r = s.n.jr.Len(); return nil }

type UnitInfo struct {
	Seq         int
	Store, Kind string
	NOps        int
	Phase       string
	Keys        []string
}

func (s *Svc) JournalUnits(_ *Empty, r *[]UnitInfo) error {
	for _, u := range s.n.jr.Units() {
		ui := UnitInfo{Seq: u.Seq, Store: u.Store, Kind: u.Kind, NOps: len(u.Ops), Phase: u.Phase}
		for i, op := range u.Ops {
			if i >= 6 {
				break
			}
			k := fmt.Sprintf("%q", op.K)
			if len(k) > 40 {
				k = fmt.Sprintf("%x", op.K)
			}
			if op.Del {
				k = "del " + k
			}
			ui.Keys = append(ui.Keys, k)
		}
		*r = append(*r, ui)
	}
	return nil
}

type MaterializeReq struct {
	K       int
	Partial int // -1: none
	Dir     string
}

func (s *Svc) Materialize(q *MaterializeReq, _ *Empty) error {
	return WriteStores(q.Dir, s.n.jr.Materialize(q.K, q.Partial))
}

type pipeRW struct {
	io.Reader
	io.Writer
}

func (p pipeRW) Close() error { return nil }

// ChildMain serves the node RPC on fds 3 (requests) and 4 (responses) and never returns.
func ChildMain() {
	in := os.NewFile(3, "req")
	out := os.NewFile(4, "rsp")
	srv := rpc.NewServer()
	if err := srv.RegisterName("N", &Svc{}); err != nil {
		fmt.Fprintln(os.Stderr, "register:", err)
		os.Exit(3)
	}
	srv.ServeConn(pipeRW{in, out})
	os.Exit(0)
}

// ---- parent side ----------------------------------------------------------------------------

// Client drives one child node process.
type Client struct {
	Name   string
	cmd    *exec.Cmd
	rc     *rpc.Client
	log    *os.File // command log: every call is written before it is sent
	ErrLog string   // path of the child's stdout/stderr
	dead   error
	mu     sync.Mutex
	exited chan struct{}
	Timeout time.Duration
}

// Spawn starts a child node process (same binary, argument "node").
func Spawn(name, scratch string, extraEnv ...string) (*Client, error) {
	self := os.Getenv("VERIF_SELF")
	if self == "" {
		self, _ = os.Executable()
	}
	os.MkdirAll(scratch, 0o755)
	reqR, reqW, err := os.Pipe()
	if err != nil {
		return nil, err
	}
	rspR, rspW, err := os.Pipe()
	if err != nil {
		return nil, err
	}
	errPath := filepath.Join(scratch, name+".out")
	ef, err := os.Create(errPath)
	if err != nil {
		return nil, err
	}
	cmd := exec.Command(self, "node", name)
	cmd.ExtraFiles = []*os.File{reqR, rspW}
	cmd.Stdout, cmd.Stderr = ef, ef
	cmd.Env = append(append(os.Environ(), "ARGLIB_LEVEL=error", "GOTRACEBACK=all"), extraEnv...)
	if err := cmd.Start(); err != nil {
		return nil, err
	}
	reqR.Close()
	rspW.Close()
	ef.Close()
	lf, _ := os.Create(filepath.Join(scratch, name+".cmdlog"))
	c := &Client{Name: name, cmd: cmd, rc: rpc.NewClient(pipeRW2{rspR, reqW}), log: lf, ErrLog: errPath, exited: make(chan struct{}), Timeout: 5 * time.Minute}
	go func() { cmd.Wait(); close(c.exited) }()
	return c, nil
}

type pipeRW2 struct {
	r *os.File
	w *os.File
}

func (p pipeRW2) Read(b []byte) (int, error)  { return p.r.Read(b) }
func (p pipeRW2) Write(b []byte) (int, error) { return p.w.Write(b) }
func (p pipeRW2) Close() error                { p.r.Close(); return p.w.Close() }

// ErrDead is returned (wrapped) when the child process died; Tail has the end of its output.
type ErrDead struct {
	Method string
	Tail   string
	Cause  error
}

func (e *ErrDead) Error() string {
	return fmt.Sprintf("node process died during %s: %v\n%s", e.Method, e.Cause, e.Tail)
}

// ErrHung is returned when a call exceeded the watchdog (inconclusive, not a violation).
type ErrHung struct{ Method string }

func (e *ErrHung) Error() string { return "watchdog: node call " + e.Method + " did not return" }

func (c *Client) tail() string {
	b, _ := os.ReadFile(c.ErrLog)
	if len(b) > 6000 {
		b = b[len(b)-6000:]
	}
	return string(b)
}

// Call logs the command, then performs it.
func (c *Client) Call(method string, args, reply interface{}) error {
	c.mu.Lock()
	defer c.mu.Unlock()
	if c.dead != nil {
		return c.dead
	}
	if c.log != nil {
		jb, _ := json.Marshal(args)
		if len(jb) > 4000 {
			jb = append(jb[:4000], []byte("...")...)
		}
		fmt.Fprintf(c.log, "%s %s\n", method, jb)
	}
	call := c.rc.Go("N."+method, args, reply, make(chan *rpc.Call, 1))
	select {
	case <-call.Done:
		if call.Error != nil {
			if _, ok := call.Error.(rpc.ServerError); ok {
				return call.Error
			}
			// transport error: the child is gone
			<-c.exited
			c.dead = &ErrDead{Method: method, Tail: c.tail(), Cause: call.Error}
			return c.dead
		}
		return nil
	case <-c.exited:
		// child died: wait briefly for the rpc client to notice
		select {
		case <-call.Done:
			if call.Error == nil {
				return nil
			}
		case <-time.After(2 * time.Second):
		}
		c.dead = &ErrDead{Method: method, Tail: c.tail(), Cause: fmt.Errorf("process exited: %v", c.cmd.ProcessState)}
		return c.dead
	case <-time.After(c.Timeout):
		c.cmd.Process.Signal(os.Interrupt)
		c.dead = &ErrHung{Method: method}
		c.cmd.Process.Kill()
		return c.dead
	}
}

// Kill terminates the child (crash).
func (c *Client) Kill() {
	c.cmd.Process.Kill()
	<-c.exited
	c.rc.Close()
	if c.log != nil {
		c.log.Close()
	}
}

// Close stops the node gracefully and ends the process.
func (c *Client) Close() {
	var e Empty
	c.Call("Stop", &e, &e)
	c.Kill()
}

func (c *Client) Dead() error { c.mu.Lock(); defer c.mu.Unlock(); return c.dead }

// ---- typed helpers --------------------------------------------------------------------------

var empty Empty

func (c *Client) Init(cfg NodeConfig) (*BlockInfo, error) {
	var r BlockInfo
	err := c.Call("Init", &cfg, &r)
	return &r, err
}
func (c *Client) Best() (*BlockInfo, error) { var r BlockInfo; err := c.Call("Best", &empty, &r); return &r, err }
func (c *Client) Produce(q *ProduceReq) (*ProduceRsp, error) {
	var r ProduceRsp
	err := c.Call("Produce", q, &r)
	return &r, err
}
func (c *Client) AddBlock(b []byte) (string, error) { var r string; err := c.Call("AddBlock", &b, &r); return r, err }

// AddBlockSync delivers the block the way the syncer does (message.AddBlock with IsSync set).
func (c *Client) AddBlockSync(b []byte) (string, error) {
	var r string
	err := c.Call("AddBlockSync", &b, &r)
	return r, err
}
func (c *Client) Dump(root []byte) (*Dump, error) {
	var r Dump
	if root == nil {
		root = []byte{}
	}
	err := c.Call("Dump", &root, &r)
	return &r, err
}
func (c *Client) Scan(store string) (map[string][]byte, error) {
	var r map[string][]byte
	err := c.Call("Scan", &store, &r)
	return r, err
}
func (c *Client) Coherent(known [][]byte) (*CoherentRsp, error) {
	var r CoherentRsp
	if known == nil {
		known = [][]byte{}
	}
	err := c.Call("Coherent", &known, &r)
	return &r, err
}
func (c *Client) Info() (*NodeInfo, error) { var r NodeInfo; err := c.Call("Info", &empty, &r); return &r, err }
func (c *Client) SetLib(l int64) error     { return c.Call("SetLib", &l, &empty) }
func (c *Client) Recorded() ([]recMsg, error) {
	var r []recMsg
	err := c.Call("Recorded", &empty, &r)
	return r, err
}
func (c *Client) GetBlock(h []byte) ([]byte, error) { var r []byte; err := c.Call("GetBlock", &h, &r); return r, err }
func (c *Client) GetBlockByNo(no uint64) ([]byte, error) {
	var r []byte
	err := c.Call("GetBlockByNo", &no, &r)
	return r, err
}
func (c *Client) MempoolPut(tx []byte) (string, error) { var r string; err := c.Call("MempoolPut", &tx, &r); return r, err }
func (c *Client) MempoolGet() ([][]byte, error)      { var r [][]byte; err := c.Call("MempoolGet", &empty, &r); return r, err }
func (c *Client) MempoolExist(h []byte) (bool, error) { var r bool; err := c.Call("MempoolExist", &h, &r); return r, err }
func (c *Client) MempoolDelTx(tx []byte) (string, error) {
	var r string
	err := c.Call("MempoolDelTx", &tx, &r)
	return r, err
}
func (c *Client) MempoolSnapshot() (*mempool.VerifSnap, error) {
	var r mempool.VerifSnap
	err := c.Call("MempoolSnapshot", &empty, &r)
	return &r, err
}
func (c *Client) MempoolSync() error { return c.Call("MempoolSync", &empty, &empty) }
func (c *Client) MempoolStat() (*MPStat, error) {
	var r MPStat
	err := c.Call("MempoolStat", &empty, &r)
	return &r, err
}
func (c *Client) GetState(a []byte) (*AcctState, error) { var r AcctState; err := c.Call("GetState", &a, &r); return &r, err }
func (c *Client) GetStaking(a []byte) (*StakingInfo, error) {
	var r StakingInfo
	err := c.Call("GetStaking", &a, &r)
	return &r, err
}
func (c *Client) GetElected(id string, n uint32) (*ElectedRsp, error) {
	var r ElectedRsp
	err := c.Call("GetElected", &ElectedReq{id, n}, &r)
	return &r, err
}
func (c *Client) GetAccountVotes(a []byte) (*AccountVotesRsp, error) {
	var r AccountVotesRsp
	err := c.Call("GetAccountVotes", &a, &r)
	return &r, err
}
func (c *Client) GetNameInfo(n string) (*NameInfo, error) { var r NameInfo; err := c.Call("GetNameInfo", &n, &r); return &r, err }
func (c *Client) SysValues() (*SysValues, error)        { var r SysValues; err := c.Call("SysValues", &empty, &r); return &r, err }
func (c *Client) PickWinners(seeds []int64) ([]string, error) {
	var r []string
	err := c.Call("PickWinners", &seeds, &r)
	return r, err
}
func (c *Client) Query(contract, info []byte) (*QueryRsp, error) {
	var r QueryRsp
	err := c.Call("Query", &QueryReq{contract, info}, &r)
	return &r, err
}
func (c *Client) CheckFeeDelegation(q *FDReq) (string, error) {
	var r string
	err := c.Call("CheckFeeDelegation", q, &r)
	return r, err
}
func (c *Client) JournalStart() error        { return c.Call("JournalStart", &empty, &empty) }
func (c *Client) JournalStop() error         { return c.Call("JournalStop", &empty, &empty) }
func (c *Client) JournalPhase(p string) error { return c.Call("JournalPhase", &p, &empty) }
func (c *Client) JournalLen() (int, error)   { var r int; err := c.Call("JournalLen", &empty, &r); return r, err }
func (c *Client) JournalUnits() ([]UnitInfo, error) {
	var r []UnitInfo
	err := c.Call("JournalUnits", &empty, &r)
	return r, err
}
func (c *Client) Materialize(k, partial int, dir string) error {
	return c.Call("Materialize", &MaterializeReq{k, partial, dir}, &empty)
}

type RawGetReq struct {
	Store string
	Key   []byte
}

func (s *Svc) RawGet(q *RawGetReq, r *[]byte) error {
	*r = s.n.jr.Inner(q.Store).Get(q.Key)
	return nil
}
func (c *Client) RawGet(store string, key []byte) ([]byte, error) {
	var r []byte
	err := c.Call("RawGet", &RawGetReq{store, key}, &r)
	return r, err
}

type StoredRcptReq struct {
	Hash []byte
	No   uint64
}
type StoredRcptRsp struct {
	Bytes []byte // Receipts.MarshalBinary of the receipts decoded from the chain DB
	Root  []byte // their merkle root
	N     int
	Err   string
}

func (s *Svc) StoredReceipts(q *StoredRcptReq, r *StoredRcptRsp) error {
	*r = *s.n.StoredReceipts(q.Hash, q.No)
	return nil
}
func (c *Client) StoredReceipts(hash []byte, no uint64) (*StoredRcptRsp, error) {
	var r StoredRcptRsp
	err := c.Call("StoredReceipts", &StoredRcptReq{hash, no}, &r)
	return &r, err
}

// ResyncConsensus calls the consensus object's Update with the current best block, the same call
// the chain service makes after a failed block execution (reloads the in-memory voting-power rank
// and discards uncommitted parameter changes). Used by the harness after a discarded production.
func (s *Svc) ResyncConsensus(_ *Empty, _ *Empty) error {
	b, err := s.n.cs.GetBestBlock()
	if err != nil {
		return err
	}
	s.n.cons.Update(b)
	return nil
}
func (c *Client) ResyncConsensus() error { return c.Call("ResyncConsensus", &empty, &empty) }

// ValidateTx runs the stateless validation a node applies to a tx received from a client or peer
// (types.Transaction.Validate with the chain id hash of the next block), recovering panics.
func (s *Svc) ValidateTx(txb *[]byte, r *string) error {
	*r = s.n.ValidateTx(*txb)
	return nil
}
func (c *Client) ValidateTx(tx []byte) (string, error) {
	var r string
	err := c.Call("ValidateTx", &tx, &r)
	return r, err
}

func (s *Svc) Stress(q *StressReq, r *StressRsp) error { *r = *s.n.Stress(q); return nil }
func (c *Client) Stress(q *StressReq) (*StressRsp, error) {
	var r StressRsp
	err := c.Call("Stress", q, &r)
	return &r, err
}

// ProduceEmpty builds and connects n empty blocks on the best block (to move the chain past
// block-number based lock periods).
func (s *Svc) ProduceEmpty(n *int, r *string) error {
	for i := 0; i < *n; i++ {
		rsp := s.n.Produce(&ProduceReq{Connect: true, Confirms: -1, SignKey: -1})
		if rsp.Panic != "" || rsp.GenErr != "" || rsp.AddErr != "" {
			*r = rsp.Panic + rsp.GenErr + rsp.AddErr
			return nil
		}
	}
	return nil
}
func (c *Client) ProduceEmpty(n int) (string, error) {
	var r string
	err := c.Call("ProduceEmpty", &n, &r)
	return r, err
}

func (s *Svc) OwnerAt(ts *int64, r *int) error { *r = s.n.OwnerAt(*ts); return nil }
func (c *Client) OwnerAt(ts int64) (int, error) {
	var r int
	err := c.Call("OwnerAt", &ts, &r)
	return r, err
}

// AnchorsRsp is the chain service's answer to message.GetAnchors (what the syncer's finder starts from).
type AnchorsRsp struct {
	Hashes [][]byte
	LastNo uint64
	Err    string
}

func (s *Svc) Anchors(_ *Empty, r *AnchorsRsp) error { *r = *s.n.Anchors(); return nil }
func (c *Client) Anchors() (*AnchorsRsp, error) {
	var r AnchorsRsp
	err := c.Call("Anchors", &empty, &r)
	return &r, err
}

// AncestorRsp is the chain service's answer to message.GetAncestor (served to a synchronising peer).
type AncestorRsp struct {
	Hash []byte
	No   uint64
	Err  string
}

func (s *Svc) Ancestor(hashes *[][]byte, r *AncestorRsp) error { *r = *s.n.Ancestor(*hashes); return nil }
func (c *Client) Ancestor(hashes [][]byte) (*AncestorRsp, error) {
	var r AncestorRsp
	err := c.Call("Ancestor", &hashes, &r)
	return &r, err
}

func (s *Svc) Handoff(q *HandoffReq, r *HandoffRsp) error { *r = *s.n.Handoff(q); return nil }
func (c *Client) Handoff(q *HandoffReq) (*HandoffRsp, error) {
	var r HandoffRsp
	err := c.Call("Handoff", q, &r)
	return &r, err
}
