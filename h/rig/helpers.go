package rig

import (
	"crypto/sha256"
	"encoding/hex"
	"fmt"
	"sort"

	"github.com/aergoio/aergo/v2/types/dbkey"
)

// ReceiptsKey is the chain-DB key under which the receipts of (hash, no) are stored.
func ReceiptsKey(hash []byte, no uint64) []byte { return dbkey.Receipts(hash, no) }

// Step is one produced block of a linear scenario.
type Step struct {
	No     uint64
	Cands  []*GTx
	Descs  []string
	Rsp    *ProduceRsp
	Status []string
}

// ProduceNext generates a tx mix for block no and produces it on prod (real producer path, connected).
func ProduceNext(prod *Client, g *Gen, no uint64, ntx int, probe [][]byte) (*Step, error) {
	st := &Step{No: no, Cands: g.Block(no, ntx)}
	var txs [][]byte
	for _, x := range st.Cands {
		txs = append(txs, EncTx(x.Tx))
		st.Descs = append(st.Descs, x.Desc)
	}
	rsp, err := prod.Produce(&ProduceReq{Txs: txs, Connect: true, Confirms: -1, SignKey: 0, Probe: probe})
	if err != nil {
		return st, err
	}
	st.Rsp = rsp
	for _, rc := range rsp.Receipts {
		st.Status = append(st.Status, rc.Status)
	}
	if rsp.Panic == "" && rsp.GenErr == "" && rsp.AddErr == "" {
		g.Applied(st.Cands, rsp.Included, st.Status)
	}
	return st, nil
}

// TxBytes encodes the candidate list.
func (s *Step) TxBytes() [][]byte {
	var txs [][]byte
	for _, x := range s.Cands {
		txs = append(txs, EncTx(x.Tx))
	}
	return txs
}

// IncludedIdx maps candidate index -> position in block (or -1).
func (s *Step) IncludedIdx() []int {
	pos := map[string]int{}
	for i, h := range s.Rsp.Included {
		pos[string(h)] = i
	}
	out := make([]int, len(s.Cands))
	for i, c := range s.Cands {
		if p, ok := pos[string(c.Tx.Hash)]; ok {
			out[i] = p
		} else {
			out[i] = -1
		}
	}
	return out
}

func (s *Step) Bad() string {
	switch {
	case s.Rsp == nil:
		return "no response"
	case s.Rsp.Panic != "":
		return "producer panic: " + s.Rsp.Panic
	case s.Rsp.GenErr != "":
		return "generate: " + s.Rsp.GenErr
	case s.Rsp.AddErr != "":
		return "connect: " + s.Rsp.AddErr
	}
	return ""
}

// HashMap returns a canonical digest of a raw store scan.
func HashMap(m map[string][]byte) string {
	ks := make([]string, 0, len(m))
	for k := range m {
		ks = append(ks, k)
	}
	sort.Strings(ks)
	h := sha256.New()
	for _, k := range ks {
		fmt.Fprintf(h, "%d:%s=%d:", len(k), k, len(m[k]))
		h.Write(m[k])
	}
	return hex.EncodeToString(h.Sum(nil))
}

// DiffMaps lists keys that differ between two raw scans.
func DiffMaps(a, b map[string][]byte) []string {
	var out []string
	for k, v := range a {
		w, ok := b[k]
		if !ok {
			out = append(out, fmt.Sprintf("-%q", k))
		} else if string(v) != string(w) {
			out = append(out, fmt.Sprintf("~%q", k))
		}
	}
	for k := range b {
		if _, ok := a[k]; !ok {
			out = append(out, fmt.Sprintf("+%q", k))
		}
	}
	sort.Strings(out)
	return out
}

func Hx(b []byte) string { return hex.EncodeToString(b) }
