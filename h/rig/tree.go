package rig

import (
	"fmt"
	"math/rand"

	"github.com/aergoio/aergo/v2/types"
)

// TBlock is one block of a block tree built by really executing every branch.
type TBlock struct {
	Idx     int
	Parent  int // index of the parent block, -1 = genesis
	Height  uint64
	Bytes   []byte
	Hash    []byte
	Root    []byte
	TxHash  [][]byte
	Descs   []string
	Status  []string
	Invalid string // "" = valid, otherwise the class of invalidity (the block and all its descendants must be refused)
	Mode    string // how its candidate list relates to its elder sibling: fresh | shared | conflict | mixed | empty
	gen     *Gen
	cands   []*GTx
}

// Tree is a rooted block tree on top of the genesis block of a World.
type Tree struct {
	W       *World
	Blocks  []*TBlock
	Genesis *BlockInfo
	builders map[int]*Client // tip index -> builder whose best block is that tip (-1 = genesis)
	nb      int
	Kinds   []string
	MaxTx   int
	MaxAcct int // accounts the generator may use
}

func NewTree(w *World) *Tree { return &Tree{W: w, builders: map[int]*Client{}, MaxTx: 6} }

// Path returns the indices from the first block above genesis down to idx.
func (t *Tree) Path(idx int) []int {
	var p []int
	for i := idx; i >= 0; i = t.Blocks[i].Parent {
		p = append([]int{i}, p...)
	}
	return p
}

func (t *Tree) height(idx int) uint64 {
	if idx < 0 {
		return 0
	}
	return t.Blocks[idx].Height
}

// builderAt returns a builder process whose best block is block idx.
func (t *Tree) builderAt(idx int) (*Client, error) {
	if b, ok := t.builders[idx]; ok {
		delete(t.builders, idx)
		return b, nil
	}
	t.nb++
	b, bi, err := t.W.Node(fmt.Sprintf("builder%d", t.nb), func(c *NodeConfig) { c.Mempool = "recorder" })
	if err != nil {
		return nil, err
	}
	if t.Genesis == nil {
		t.Genesis = bi
	}
	for _, i := range t.Path(idx) {
		if e, err := b.AddBlock(t.Blocks[i].Bytes); err != nil || e != "" {
			return nil, fmt.Errorf("builder refused block %d of its own tree: %v %s", i, err, e)
		}
	}
	return b, nil
}

// Add builds a new valid block on parent (index or -1) by producing it on a builder that follows
// that branch (real producer path, connected). mode selects the candidate list relative to the
// elder sibling.
func (t *Tree) Add(parent int, r *rand.Rand, mode string) (*TBlock, error) {
	b, err := t.builderAt(parent)
	if err != nil {
		return nil, err
	}
	var pg *Gen
	if parent >= 0 {
		pg = t.Blocks[parent].gen
	} else {
		pg = NewGen(t.W, r)
	}
	g := pg.Clone(rand.New(rand.NewSource(r.Int63())))
	g.Kinds = t.Kinds
	g.MaxAcct = t.MaxAcct
	no := t.height(parent) + 1
	// elder sibling
	var sib *TBlock
	rank := 0
	for _, x := range t.Blocks {
		if x.Parent == parent && x.Invalid == "" {
			if sib == nil {
				sib = x
			}
			rank++
		}
	}
	var cands []*GTx
	switch {
	case mode == "empty":
	case sib != nil && mode == "shared":
		cands = sib.cands
	case sib != nil && mode == "mixed":
		half := sib.cands[:len(sib.cands)/2]
		cands = append(cands, half...)
		// continue the same nonces after the shared half
		g2 := pg.Clone(rand.New(rand.NewSource(r.Int63())))
		g2.Kinds = t.Kinds
		g2.MaxAcct = t.MaxAcct
		st := make([]string, len(half))
		var inc [][]byte
		for i, h := range half {
			inc = append(inc, h.Tx.Hash)
			st[i] = "SUCCESS"
		}
		g2.Applied(half, inc, st)
		cands = append(cands, g2.Block(no, 1+r.Intn(t.MaxTx))...)
	default: // fresh, or conflict (fresh generation from the same parent state re-uses the same nonces)
		cands = g.Block(no, 1+r.Intn(t.MaxTx))
	}
	var txs [][]byte
	var descs []string
	for _, x := range cands {
		txs = append(txs, EncTx(x.Tx))
		descs = append(descs, x.Desc)
	}
	pts := t.W.Tmpl.GenesisTS
	if parent >= 0 {
		pts = DecBlock(t.Blocks[parent].Bytes).GetHeader().GetTimestamp()
	}
	ts := pts + 1e9 + int64(rank)*1e6
	rsp, err := b.Produce(&ProduceReq{Txs: txs, TS: ts, Connect: true, Confirms: -1, SignKey: 0})
	if err != nil {
		return nil, err
	}
	if rsp.Panic != "" || rsp.GenErr != "" || rsp.AddErr != "" {
		return nil, fmt.Errorf("builder production failed: %.200s %s %s", rsp.Panic, rsp.GenErr, rsp.AddErr)
	}
	var status []string
	for _, rc := range rsp.Receipts {
		status = append(status, rc.Status)
	}
	g.Applied(cands, rsp.Included, status)
	tb := &TBlock{Idx: len(t.Blocks), Parent: parent, Height: no, Bytes: rsp.Block, Hash: rsp.Hash, Root: rsp.Root, TxHash: rsp.Included,
		Descs: descs, Status: status, Mode: mode, gen: g, cands: cands}
	t.Blocks = append(t.Blocks, tb)
	t.builders[tb.Idx] = b
	return tb, nil
}

// AddInvalid derives an invalid sibling of the valid block v (same parent) without executing it.
func (t *Tree) AddInvalid(v int, class string, mut func(b *types.Block) bool) *TBlock {
	src := t.Blocks[v]
	b := CloneBlock(DecBlock(src.Bytes))
	if !mut(b) {
		return nil
	}
	b.Hash = nil
	b.BlockHash()
	tb := &TBlock{Idx: len(t.Blocks), Parent: src.Parent, Height: src.Height, Bytes: EncBlock(b), Hash: b.BlockHash(), Root: b.GetHeader().GetBlocksRootHash(),
		Descs: src.Descs, Invalid: class, Mode: "invalid-sibling-of-" + fmt.Sprint(v)}
	for _, tx := range b.GetBody().GetTxs() {
		tb.TxHash = append(tb.TxHash, tx.GetHash())
	}
	t.Blocks = append(t.Blocks, tb)
	return tb
}

// AddReparented copies valid block v under a different (invalid) parent: the copy is executable
// only if the invalid parent were accepted, so it must be refused together with it.
func (t *Tree) AddReparented(v int, newParent int) *TBlock {
	src := t.Blocks[v]
	b := CloneBlock(DecBlock(src.Bytes))
	b.Header.PrevBlockHash = t.Blocks[newParent].Hash
	b.Hash = nil
	b.BlockHash()
	tb := &TBlock{Idx: len(t.Blocks), Parent: newParent, Height: src.Height, Bytes: EncBlock(b), Hash: b.BlockHash(), Root: src.Root,
		Descs: src.Descs, Invalid: "descendant-of-invalid", Mode: "reparented-copy-of-" + fmt.Sprint(v)}
	for _, tx := range b.GetBody().GetTxs() {
		tb.TxHash = append(tb.TxHash, tx.GetHash())
	}
	t.Blocks = append(t.Blocks, tb)
	return tb
}

// Valid reports whether block idx and all its ancestors are valid.
func (t *Tree) Valid(idx int) bool {
	for i := idx; i >= 0; i = t.Blocks[i].Parent {
		if t.Blocks[i].Invalid != "" {
			return false
		}
	}
	return true
}

// AllTx returns every tx hash that occurs in any block of the tree.
func (t *Tree) AllTx() [][]byte {
	seen := map[string]bool{}
	var out [][]byte
	for _, b := range t.Blocks {
		for _, h := range b.TxHash {
			if !seen[string(h)] {
				seen[string(h)] = true
				out = append(out, h)
			}
		}
	}
	return out
}

// Close ends all builder processes (the World's CloseAll does too).
func (t *Tree) Close() {
	for k, b := range t.builders {
		b.Kill()
		delete(t.builders, k)
	}
}

// FlipBytes returns a copy with one byte changed.
func FlipBytes(b []byte) []byte {
	o := append([]byte(nil), b...)
	if len(o) == 0 {
		return []byte{1}
	}
	o[len(o)/2] ^= 0x5a
	return o
}
