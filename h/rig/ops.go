package rig

import (
	"time"

	"bytes"
	"encoding/gob"
	"encoding/hex"
	"fmt"
	"math/big"
	"runtime/debug"

	"github.com/aergoio/aergo/v2/contract/system"
	"github.com/aergoio/aergo/v2/mempool"
	"github.com/aergoio/aergo/v2/types"
	"github.com/aergoio/aergo/v2/types/message"
)

// ---- mempool (through the hub, exactly like RPC/P2P clients) ------------------------------

func (n *Node) MempoolPut(txb []byte) (res string) {
	defer func() {
		if r := recover(); r != nil {
			res = fmt.Sprintf("PANIC: %v\n%s", r, debug.Stack())
		}
	}()
	tx := DecTx(txb)
	if tx == nil {
		return "harness: undecodable tx"
	}
	r, err := n.req(message.MemPoolSvc, &message.MemPoolPut{Tx: tx})
	if err != nil {
		return "request: " + err.Error()
	}
	if e := r.(*message.MemPoolPutRsp).Err; e != nil {
		return e.Error()
	}
	return ""
}

func (n *Node) MempoolGet() ([][]byte, error) {
	r, err := n.req(message.MemPoolSvc, &message.MemPoolGet{MaxBlockBodySize: 1 << 30})
	if err != nil {
		return nil, err
	}
	var out [][]byte
	for _, t := range r.(*message.MemPoolGetRsp).Txs {
		out = append(out, EncTx(t.GetTx()))
	}
	return out, nil
}

func (n *Node) MempoolExist(hash []byte) (bool, error) {
	r, err := n.req(message.MemPoolSvc, &message.MemPoolExist{Hash: hash})
	if err != nil {
		return false, err
	}
	return r.(*message.MemPoolExistRsp).Tx != nil, nil
}

func (n *Node) MempoolDelTx(txb []byte) string {
	tx := DecTx(txb)
	r, err := n.req(message.MemPoolSvc, &message.MemPoolDelTx{Tx: tx})
	if err != nil {
		return "request: " + err.Error()
	}
	if e := r.(*message.MemPoolDelTxRsp).Err; e != nil {
		return e.Error()
	}
	return ""
}

func (n *Node) MempoolSnapshot() *mempool.VerifSnap {
	if n.mp == nil {
		return nil
	}
	return n.mp.VerifSnapshot()
}

// MempoolSync waits until the pool has processed everything sent before (a request/response
// round trip through its mailbox).
func (n *Node) MempoolSync() error {
	_, err := n.req(message.MemPoolSvc, &message.MemPoolExist{Hash: make([]byte, 32)})
	return err
}

type MPStat struct {
	Total, Orphan int
	StatJSON      []byte
}

func (n *Node) MempoolStat() (*MPStat, error) {
	r, err := n.req(message.MemPoolSvc, &message.MemPoolTxStat{})
	if err != nil {
		return nil, err
	}
	t, o := n.mp.Size()
	return &MPStat{Total: t, Orphan: o, StatJSON: r.(*message.MemPoolTxStatRsp).Data}, nil
}

// ---- account / governance query surface ----------------------------------------------------

type AcctState struct {
	Nonce   uint64
	Balance string
	Err     string
}

func (n *Node) GetState(addr []byte) *AcctState {
	r, err := n.req(message.ChainSvc, &message.GetState{Account: addr})
	if err != nil {
		return &AcctState{Err: err.Error()}
	}
	rsp := r.(message.GetStateRsp)
	if rsp.Err != nil || rsp.State == nil {
		return &AcctState{Err: fmt.Sprint(rsp.Err)}
	}
	return &AcctState{Nonce: rsp.State.Nonce, Balance: new(big.Int).SetBytes(rsp.State.Balance).String()}
}

type StakingInfo struct {
	Amount string
	When   uint64
	Err    string
}

func (n *Node) GetStaking(addr []byte) *StakingInfo {
	r, err := n.req(message.ChainSvc, &message.GetStaking{Addr: addr})
	if err != nil {
		return &StakingInfo{Err: err.Error()}
	}
	rsp := r.(*message.GetStakingRsp)
	if rsp.Err != nil || rsp.Staking == nil {
		return &StakingInfo{Err: fmt.Sprint(rsp.Err)}
	}
	return &StakingInfo{Amount: new(big.Int).SetBytes(rsp.Staking.Amount).String(), When: rsp.Staking.When}
}

type VoteEntry struct {
	Candidate string // hex
	Amount    string
}

func (n *Node) GetElected(id string, cnt uint32) ([]VoteEntry, string) {
	r, err := n.req(message.ChainSvc, &message.GetElected{Id: id, N: cnt})
	if err != nil {
		return nil, err.Error()
	}
	rsp := r.(*message.GetVoteRsp)
	if rsp.Err != nil || rsp.Top == nil {
		return nil, fmt.Sprint(rsp.Err)
	}
	var out []VoteEntry
	for _, v := range rsp.Top.Votes {
		out = append(out, VoteEntry{Candidate: hex.EncodeToString(v.Candidate), Amount: new(big.Int).SetBytes(v.Amount).String()})
	}
	return out, ""
}

type AccountVote struct {
	ID         string
	Candidates []string // hex
	Amount     string
}

func (n *Node) GetAccountVotes(addr []byte) ([]AccountVote, *StakingInfo, string) {
	r, err := n.req(message.ChainSvc, &message.GetVote{Addr: addr})
	if err != nil {
		return nil, nil, err.Error()
	}
	rsp := r.(*message.GetAccountVoteRsp)
	if rsp.Err != nil || rsp.Info == nil {
		return nil, nil, fmt.Sprint(rsp.Err)
	}
	var out []AccountVote
	for _, v := range rsp.Info.Voting {
		av := AccountVote{ID: v.Id, Amount: v.Amount}
		for _, c := range v.Candidates {
			av.Candidates = append(av.Candidates, c)
		}
		out = append(out, av)
	}
	var st *StakingInfo
	if rsp.Info.Staking != nil {
		st = &StakingInfo{Amount: new(big.Int).SetBytes(rsp.Info.Staking.Amount).String(), When: rsp.Info.Staking.When}
	}
	return out, st, ""
}

type NameInfo struct {
	Owner, Dest []byte
	Err         string
}

func (n *Node) GetNameInfo(name string) *NameInfo {
	r, err := n.req(message.ChainSvc, &message.GetNameInfo{Name: name, BlockNo: 0})
	if err != nil {
		return &NameInfo{Err: err.Error()}
	}
	rsp := r.(*message.GetNameInfoRsp)
	if rsp.Err != nil || rsp.Owner == nil {
		return &NameInfo{Err: fmt.Sprint(rsp.Err)}
	}
	return &NameInfo{Owner: rsp.Owner.Owner, Dest: rsp.Owner.Destination}
}

type SysValues struct {
	StakingTotal, StakingMin, GasPrice, NamePrice, TotalVP, RewardAmount string
	BpCount                                                              int
}

func (n *Node) SysValues() *SysValues {
	s := &SysValues{BpCount: system.GetBpCount()}
	if v, err := n.cs.GetSystemValue(types.StakingTotal); err == nil && v != nil {
		s.StakingTotal = v.String()
	}
	if v := system.GetStakingMinimum(); v != nil {
		s.StakingMin = v.String()
	}
	if v := system.GetGasPrice(); v != nil {
		s.GasPrice = v.String()
	}
	if v := system.GetNamePrice(); v != nil {
		s.NamePrice = v.String()
	}
	if v := system.GetTotalVotingPower(); v != nil {
		s.TotalVP = v.String()
	}
	if v := system.GetVotingRewardAmount(); v != nil {
		s.RewardAmount = v.String()
	}
	return s
}

// PickWinners evaluates the in-memory voting-power ranking observationally.
func (n *Node) PickWinners(seeds []int64) []string {
	out := make([]string, len(seeds))
	for i, s := range seeds {
		a, err := system.PickVotingRewardWinner(s)
		if err != nil {
			out[i] = "err:" + err.Error()
		} else {
			out[i] = hex.EncodeToString(a)
		}
	}
	return out
}

// ---- contracts -----------------------------------------------------------------------------

func (n *Node) Query(contract, queryInfo []byte) ([]byte, string) {
	r, err := n.req(message.ChainSvc, &message.GetQuery{Contract: contract, Queryinfo: queryInfo})
	if err != nil {
		return nil, "request: " + err.Error()
	}
	rsp := r.(message.GetQueryRsp)
	if rsp.Err != nil {
		return rsp.Result, rsp.Err.Error()
	}
	return rsp.Result, ""
}

func (n *Node) CheckFeeDelegation(contract, payload, sender, txHash, amount []byte) string {
	r, err := n.req(message.ChainSvc, &message.CheckFeeDelegation{Contract: contract, Payload: payload, Sender: sender, TxHash: txHash, Amount: amount})
	if err != nil {
		return "request: " + err.Error()
	}
	if e := r.(message.CheckFeeDelegationRsp).Err; e != nil {
		return e.Error()
	}
	return ""
}

// StoredReceipts decodes what the chain DB holds for (hash, no) and re-encodes it canonically
// (the stored gob stream carries process-dependent type ids, so raw bytes are not comparable).
func (n *Node) StoredReceipts(hash []byte, no uint64) *StoredRcptRsp {
	raw := n.chainDB().Get(ReceiptsKey(hash, no))
	if len(raw) == 0 {
		return &StoredRcptRsp{Err: "absent"}
	}
	var rs types.Receipts
	rs.SetHardFork(n.cfg.Hardfork, no)
	if err := gob.NewDecoder(bytes.NewReader(raw)).Decode(&rs); err != nil {
		return &StoredRcptRsp{Err: "decode: " + err.Error()}
	}
	b, err := rs.MarshalBinary()
	if err != nil {
		return &StoredRcptRsp{Err: "marshal: " + err.Error()}
	}
	return &StoredRcptRsp{Bytes: b, Root: rs.MerkleRoot(), N: len(rs.Get())}
}

// ValidateTx: "" = accepted, "PANIC: ..." = panicked, anything else = the rejection.
func (n *Node) ValidateTx(txb []byte) (res string) {
	defer func() {
		if r := recover(); r != nil {
			res = fmt.Sprintf("PANIC: %v\n%s", r, debug.Stack())
		}
	}()
	tx := DecTx(txb)
	if tx == nil {
		return "harness: undecodable"
	}
	best, err := n.cs.GetBestBlock()
	if err != nil {
		return "harness: " + err.Error()
	}
	bi := types.NewBlockHeaderInfoFromPrevBlock(best, best.GetHeader().GetTimestamp()+1, n.cfg.Hardfork)
	if err := types.NewTransaction(tx).Validate(bi.ChainIdHash(), n.Cfg.Public); err != nil {
		return err.Error()
	}
	return ""
}

// OwnerAt returns the index (into BPKeys) of the producer whose slot contains ts according to the
// real DPoS object of this node, or -1.
func (n *Node) OwnerAt(ts int64) int {
	best, err := n.cs.GetBestBlock()
	if err != nil {
		return -1
	}
	for i, k := range n.keys {
		probe := types.NewBlock(types.NewBlockHeaderInfoFromPrevBlock(best, ts, n.cfg.Hardfork), nil, nil, nil, nil, nil)
		if probe.Sign(k) != nil {
			continue
		}
		if n.d.IsBlockValid(probe, best) == nil {
			return i
		}
	}
	return -1
}

func (n *Node) Anchors() *AnchorsRsp {
	r, err := n.hub.RequestFuture(message.ChainSvc, &message.GetAnchors{Seq: 1}, 60*time.Second, "rig").Result()
	if err != nil {
		return &AnchorsRsp{Err: "request: " + err.Error()}
	}
	rsp := r.(message.GetAnchorsRsp)
	out := &AnchorsRsp{Hashes: rsp.Hashes, LastNo: rsp.LastNo}
	if rsp.Err != nil {
		out.Err = rsp.Err.Error()
	}
	return out
}

func (n *Node) Ancestor(hashes [][]byte) *AncestorRsp {
	r, err := n.hub.RequestFuture(message.ChainSvc, &message.GetAncestor{Hashes: hashes}, 60*time.Second, "rig").Result()
	if err != nil {
		return &AncestorRsp{Err: "request: " + err.Error()}
	}
	rsp := r.(message.GetAncestorRsp)
	out := &AncestorRsp{}
	if rsp.Ancestor != nil {
		out.Hash, out.No = rsp.Ancestor.Hash, rsp.Ancestor.No
	}
	if rsp.Err != nil {
		out.Err = rsp.Err.Error()
	}
	return out
}
