package rig

import (
	"bytes"
	"crypto/sha256"
	"encoding/hex"
	"fmt"
	"math/big"
	"sort"

	"github.com/aergoio/aergo-lib/db"
	"github.com/aergoio/aergo/v2/pkg/trie"
	"github.com/aergoio/aergo/v2/types"
	"github.com/golang/protobuf/proto"
)

func sha(b ...[]byte) []byte {
	h := sha256.New()
	for _, x := range b {
		h.Write(x)
	}
	return h.Sum(nil)
}

// DumpAcct is one account in a full state dump. Storage maps trie key (hex) to the hash (hex)
// of the stored value, which identifies the value.
type DumpAcct struct {
	Nonce       uint64            `json:"nonce"`
	Balance     string            `json:"balance"`
	CodeHash    string            `json:"codeHash,omitempty"`
	StorageRoot string            `json:"storageRoot,omitempty"`
	SqlRP       uint64            `json:"sqlRP,omitempty"`
	Storage     map[string]string `json:"storage,omitempty"`
}

// Dump is a full walk of the account trie and of every storage trie at a state root,
// done by the harness itself on the raw store (independent of statedb.RawDump, which omits
// the storage of code-less system accounts).
type Dump struct {
	Root     string               `json:"root"`
	Accounts map[string]*DumpAcct `json:"accounts"` // account id (hex) -> account
}

// DumpAt walks the state at root.
func DumpAt(store db.DB, root []byte) (*Dump, error) {
	d := &Dump{Root: hex.EncodeToString(root), Accounts: map[string]*DumpAcct{}}
	if len(root) == 0 {
		return d, nil
	}
	t := trie.NewTrie(root, func(data ...[]byte) []byte { return sha(data...) }, store)
	for _, k := range t.GetKeys() {
		vh, err := t.Get(k)
		if err != nil {
			return nil, fmt.Errorf("account trie get: %v", err)
		}
		raw := store.Get(vh)
		if len(raw) == 0 && !bytes.Equal(vh, sha()) {
			// (the all-zero account state encodes to zero bytes, stored under the hash of the empty string)
			return nil, fmt.Errorf("account %x: state value %x missing in store", k, vh)
		}
		st := &types.State{}
		if err := proto.Unmarshal(raw, st); err != nil {
			return nil, fmt.Errorf("account %x: %v", k, err)
		}
		a := &DumpAcct{Nonce: st.Nonce, Balance: new(big.Int).SetBytes(st.Balance).String(),
			CodeHash: hex.EncodeToString(st.CodeHash), StorageRoot: hex.EncodeToString(st.StorageRoot), SqlRP: st.SqlRecoveryPoint}
		if len(st.StorageRoot) > 0 {
			a.Storage = map[string]string{}
			stt := trie.NewTrie(st.StorageRoot, func(data ...[]byte) []byte { return sha(data...) }, store)
			for _, sk := range stt.GetKeys() {
				sv, err := stt.Get(sk)
				if err != nil {
					return nil, fmt.Errorf("storage trie get: %v", err)
				}
				a.Storage[hex.EncodeToString(sk)] = hex.EncodeToString(sv)
			}
		}
		d.Accounts[hex.EncodeToString(k)] = a
	}
	return d, nil
}

// Sum is the O-sum oracle: total of all balances.
func (d *Dump) Sum() *big.Int {
	s := new(big.Int)
	for _, a := range d.Accounts {
		b, _ := new(big.Int).SetString(a.Balance, 10)
		s.Add(s, b)
	}
	return s
}

// AcctID returns the dump key of an address.
func AcctID(addr []byte) string {
	id := types.ToAccountID(addr)
	return hex.EncodeToString(id[:])
}

// Diff lists the differences between two dumps as "account/field" strings with before->after.
func Diff(a, b *Dump) []string {
	var out []string
	ids := map[string]bool{}
	for k := range a.Accounts {
		ids[k] = true
	}
	for k := range b.Accounts {
		ids[k] = true
	}
	for id := range ids {
		x, y := a.Accounts[id], b.Accounts[id]
		n0 := len(out)
		switch {
		case x == nil:
			out = append(out, fmt.Sprintf("%s/+account(balance=%s,nonce=%d,code=%s,sroot=%s)", id, y.Balance, y.Nonce, y.CodeHash, y.StorageRoot))
			continue
		case y == nil:
			out = append(out, fmt.Sprintf("%s/-account", id))
			continue
		}
		if x.Nonce != y.Nonce {
			out = append(out, fmt.Sprintf("%s/nonce:%d->%d", id, x.Nonce, y.Nonce))
		}
		if x.Balance != y.Balance {
			out = append(out, fmt.Sprintf("%s/balance:%s->%s", id, x.Balance, y.Balance))
		}
		if x.CodeHash != y.CodeHash {
			out = append(out, fmt.Sprintf("%s/codeHash:%s->%s", id, x.CodeHash, y.CodeHash))
		}
		if x.SqlRP != y.SqlRP {
			out = append(out, fmt.Sprintf("%s/sqlRP:%d->%d", id, x.SqlRP, y.SqlRP))
		}
		keys := map[string]bool{}
		for k := range x.Storage {
			keys[k] = true
		}
		for k := range y.Storage {
			keys[k] = true
		}
		for k := range keys {
			if x.Storage[k] != y.Storage[k] {
				out = append(out, fmt.Sprintf("%s/storage[%s]:%s->%s", id, k, x.Storage[k], y.Storage[k]))
			}
		}
		if x.StorageRoot != y.StorageRoot && len(out) == n0 {
			out = append(out, fmt.Sprintf("%s/storageRoot:%s->%s", id, x.StorageRoot, y.StorageRoot))
		}
	}
	sort.Strings(out)
	return out
}

// DiffEntry is a parsed difference used by the atomicity oracles.
type DiffEntry struct {
	Acct, Field string // Field: nonce | balance | codeHash | sqlRP | storage | +account | -account | storageRoot
	Raw         string
}

func ParseDiff(lines []string) []DiffEntry {
	var out []DiffEntry
	for _, l := range lines {
		var acct, rest string
		for i := 0; i < len(l); i++ {
			if l[i] == '/' {
				acct, rest = l[:i], l[i+1:]
				break
			}
		}
		f := rest
		for i := 0; i < len(rest); i++ {
			if rest[i] == ':' || rest[i] == '[' || rest[i] == '(' {
				f = rest[:i]
				break
			}
		}
		out = append(out, DiffEntry{Acct: acct, Field: f, Raw: l})
	}
	return out
}
