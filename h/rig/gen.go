package rig

import (
	"strings"
	"fmt"
	"math/big"
	"math/rand"

	luacutil "github.com/aergoio/aergo/v2/cmd/aergoluac/util"
	"github.com/aergoio/aergo/v2/contract"
	"github.com/aergoio/aergo/v2/types"
)

// GTx is a generated transaction with its description (for samples and replays).
type GTx struct {
	Desc string
	Kind string
	From int
	Tx   *types.Tx
	Aux  string // kind-specific (name created/updated, ...)
	AuxI int
	// Expect is the generator's intent, never used as an oracle by itself:
	// "ok" | "fail" (runtime error expected) | "reject" (should be skipped by the producer)
	Expect string
}

// Gen produces adversarial transaction mixes against a World, tracking per-account nonces as
// included on ONE chain (the builder's).
type Gen struct {
	W       *World
	R       *rand.Rand
	Nonce   map[int]uint64 // next nonce - 1 (last included) per account index
	Names   []string       // names created (12 chars)
	NameOwner map[string]int
	Contracts []Contract
	Staked  map[int]bool
	Balance func(i int) *big.Int // optional: current balance of account i (for kinds that depend on it)
	nameSeq int
	Kinds   []string // enabled kinds
	MaxAcct int      // the generator only uses accounts [0,MaxAcct) (0 = all)
	Ties    bool     // equal stakes and two-candidate parameter votes, so that tallies tie
}

type Contract struct {
	Addr []byte
	Kind string
	Owner int
}

func NewGen(w *World, r *rand.Rand) *Gen {
	return &Gen{W: w, R: r, Nonce: map[int]uint64{}, NameOwner: map[string]int{}, Staked: map[int]bool{}}
}

func (g *Gen) acct(i int) *Acct { return g.W.Accts[i] }

func (g *Gen) pick() int {
	n := len(g.W.Accts)
	if g.MaxAcct > 0 && g.MaxAcct < n {
		n = g.MaxAcct
	}
	return g.R.Intn(n)
}

func aergo(n int64) *big.Int { return new(big.Int).Mul(big.NewInt(n), Aergo) }

// DeployPayload builds the payload of a DEPLOY tx for the hardfork version of the target block.
func DeployPayload(src string, args []byte, version int32) ([]byte, error) {
	if version >= 4 {
		return luacutil.NewLuaCodePayload(luacutil.LuaCode(src), args), nil
	}
	code, err := contract.Compile(src, nil)
	if err != nil {
		return nil, err
	}
	return luacutil.NewLuaCodePayload(code, args), nil
}

// Lua contracts used by the generated mixes (run on the shim VM through the real host layer).
// LuaBank is the general purpose contract of the generated mixes.
const LuaBank = `
state.var { cnt = state.value(), m = state.map() }
function constructor() cnt:set(0) end
function inc(k) cnt:set((cnt:get() or 0) + 1); m[k] = (m[k] or 0) + 1; contract.event("inc", k) end
function pay(to, amt) contract.send(to, amt) end
function payfail(to, amt) contract.send(to, amt); m["x"] = 1; error("boom after send") end
function fail() m["y"] = 2; error("boom") end
function guarded(to, amt) local ok = pcall(function() contract.send(to, amt); error("inner") end); m["g"] = (m["g"] or 0) + 1; return ok end
function nested(other, to, amt) contract.call.value(amt)(other, "pay", to, amt) end
function nestfail(other, k) contract.call(other, "inc", k); m["z"] = 3; error("boom after nested call") end
function get() return cnt:get() end
function default() end
function check_delegation(fname, ...) return true end
function fd(k) m[k] = 7 end
function fdfail(k) m[k] = 8; error("fee delegated call fails") end
abi.register(inc, pay, payfail, fail, guarded, nested, nestfail, fd, fdfail)
abi.register_view(get)
abi.payable(default, pay, nested, constructor)
abi.fee_delegation(fd, fdfail)
`

// LuaBankV2 / LuaBankV2Fail: code a creator redeploys over LuaBank (private chains). inc counts in hundreds, so
// that running this code where the old one should run is visible in storage; the second one's constructor fails.
var LuaBankV2 = LuaBankStep(100, false)
var LuaBankV2Fail = LuaBankStep(100, true)

// LuaBankStep is LuaBank with inc counting in steps of n (so that it is visible in storage which version ran);
// fail: the constructor raises an error.
func LuaBankStep(n int, fail bool) string {
	s := strings.Replace(LuaBank, "(cnt:get() or 0) + 1", fmt.Sprintf("(cnt:get() or 0) + %d", n), 1)
	ctor := "function constructor() end"
	if fail {
		ctor = "function constructor() m[\"rd\"] = 1; error(\"redeploy refused by constructor\") end"
	}
	return strings.Replace(s, "function constructor() cnt:set(0) end", ctor, 1)
}

// Next returns the next nonce to use for account i assuming all earlier generated txs of this
// block are included (pending counts within the block are tracked in p).
func (g *Gen) next(i int, pend map[int]uint64) uint64 {
	pend[i]++
	return g.Nonce[i] + pend[i]
}

// DefaultKinds is the mix used when Gen.Kinds is empty.
var DefaultKinds = []string{"xfer", "xfer", "xfer", "xfer-new", "xfer-self", "xfer-zero", "xfer-poor", "xfer-all", "badnonce-low", "badnonce-gap",
	"stake", "stake-small", "unstake", "votebp", "votebp-nostake", "votedao", "name", "name-dup", "name-update", "xfer-name",
	"deploy", "call-inc", "call-pay", "call-payfail", "call-fail", "call-guarded", "call-nested", "call-nestfail", "call-default", "feedeleg", "feedeleg-fail", "gov-bad", "setowner"}

// Block generates a candidate list of n transactions for block number no.
func (g *Gen) Block(no uint64, n int) []*GTx {
	var out []*GTx
	pend := map[int]uint64{}
	ver := g.W.Version(no)
	cid := g.W.CIDHash(no)
	kinds := g.Kinds
	if len(kinds) == 0 {
		kinds = DefaultKinds
	}
	blocked := map[int]bool{}
	tries := 0
	for len(out) < n && tries < 50*n {
		tries++
		k := kinds[g.R.Intn(len(kinds))]
		i := g.pick()
		if blocked[i] {
			continue
		}
		a := g.acct(i)
		sp := TxSpec{From: a, ChainID: cid, GasPrice: big.NewInt(0)}
		if g.W.Tmpl.Public {
			sp.GasPrice = big.NewInt(50000000000)
		}
		exp := "ok"
		desc := ""
		useNonce := true
		switch k {
		case "xfer", "xfer-new", "xfer-self", "xfer-zero", "xfer-poor", "xfer-all":
			sp.Type = types.TxType_TRANSFER
			to := g.acct(g.pick()).Addr
			amt := big.NewInt(int64(1 + g.R.Intn(1000000)))
			switch k {
			case "xfer-new":
				to = NewAcct(g.W.Name+"/fresh", g.R.Intn(1<<20)).Addr
			case "xfer-self":
				to = a.Addr
			case "xfer-zero":
				amt = big.NewInt(0)
			case "xfer-poor":
				amt = new(big.Int).Mul(aergo(1000000), big.NewInt(1000))
				exp = "reject"
				useNonce = false
			case "xfer-all":
				// balance unknown to the generator: a large amount that may or may not be affordable
				amt = aergo(int64(900000 + g.R.Intn(200000)))
				exp = "maybe"
			}
			sp.To, sp.Amount = to, amt
			desc = fmt.Sprintf("%s a%d->%x amt=%s", k, i, to[:4], amt)
		case "badnonce-low":
			sp.Type, sp.To, sp.Amount = types.TxType_TRANSFER, g.acct(g.pick()).Addr, big.NewInt(5)
			sp.Nonce = g.Nonce[i] // already used (or 0)
			exp, useNonce = "reject", false
			desc = fmt.Sprintf("badnonce-low a%d nonce=%d", i, sp.Nonce)
		case "badnonce-gap":
			sp.Type, sp.To, sp.Amount = types.TxType_TRANSFER, g.acct(g.pick()).Addr, big.NewInt(5)
			sp.Nonce = g.Nonce[i] + pend[i] + 2 + uint64(g.R.Intn(3))
			exp, useNonce = "reject", false
			desc = fmt.Sprintf("badnonce-gap a%d nonce=%d", i, sp.Nonce)
		case "multicall", "multicall-fail":
			// a MULTICALL script that calls a contract (writing its storage) and, in the failing variant, then
			// runs into an error; the receiver of such a tx is the sender's own plain account
			if ver < 4 || len(g.Contracts) == 0 {
				continue
			}
			ct := g.Contracts[g.R.Intn(len(g.Contracts))]
			ca := types.EncodeAddress(ct.Addr)
			script := fmt.Sprintf(`[["call","%s","inc","k%d"],["call","%s","inc","k%d"]`, ca, g.R.Intn(4), ca, g.R.Intn(4))
			if k == "multicall-fail" {
				script += fmt.Sprintf(`,["call","%s","fail"]`, ca)
				exp = "fail"
			}
			script += "]"
			sp.Type, sp.Payload, sp.Amount = types.TxType_MULTICALL, []byte(script), big.NewInt(0)
			desc = fmt.Sprintf("%s a%d c=%x", k, i, ct.Addr[:4])
		case "xfer-sweep":
			// empties the account down to a remainder around the base fee (needs the current balance)
			if g.Balance == nil || pend[i] > 0 {
				continue
			}
			bal := g.Balance(i)
			if bal == nil || bal.Sign() <= 0 {
				continue
			}
			base := new(big.Int).Mul(sp.GasPrice, big.NewInt(100000))
			left := []*big.Int{big.NewInt(0), big.NewInt(1), new(big.Int).Sub(base, big.NewInt(1)), new(big.Int).Rsh(base, 1), new(big.Int).Set(base), new(big.Int).Add(base, big.NewInt(1)),
				new(big.Int).Mul(base, big.NewInt(2))}[g.R.Intn(7)]
			amt := new(big.Int).Sub(bal, left)
			if amt.Sign() <= 0 {
				continue
			}
			sp.Type, sp.To, sp.Amount = types.TxType_TRANSFER, g.acct(g.pick()).Addr, amt
			if g.R.Intn(4) == 0 {
				sp.Type = types.TxType_NORMAL
			}
			exp = "maybe"
			desc = fmt.Sprintf("xfer-sweep a%d leaves %s", i, left)
		case "stake", "stake-small":
			sp.Type, sp.To = types.TxType_GOVERNANCE, []byte(types.AergoSystem)
			sp.Payload = GovPayload("v1stake")
			// a few fixed amounts so that equal stakes (and therefore tied tallies) are common
			sp.Amount = aergo([]int64{10000, 10000, 12000, int64(10000 + g.R.Intn(5000))}[g.R.Intn(4)])
			if g.Ties {
				sp.Amount = aergo(10000)
			}
			if k == "stake-small" {
				sp.Amount = aergo(int64(1 + g.R.Intn(9000)))
				exp = "fail"
			} else if g.Staked[i] {
				exp = "fail" // inside lock period
			}
			desc = fmt.Sprintf("%s a%d amt=%s", k, i, sp.Amount)
		case "unstake":
			sp.Type, sp.To = types.TxType_GOVERNANCE, []byte(types.AergoSystem)
			sp.Payload = GovPayload("v1unstake")
			// full unstakes of the common stake amounts, small partial ones, and arbitrary ones
			sp.Amount = aergo([]int64{10000, 12000, int64(1 + g.R.Intn(2000)), int64(1 + g.R.Intn(12000))}[g.R.Intn(4)])
			exp = "maybe"
			desc = fmt.Sprintf("unstake a%d amt=%s", i, sp.Amount)
		case "votebp", "votebp-nostake":
			sp.Type, sp.To = types.TxType_GOVERNANCE, []byte(types.AergoSystem)
			nc := 1 + g.R.Intn(len(g.W.BPIDs))
			perm := g.R.Perm(len(g.W.BPIDs))
			var args []interface{}
			for _, p := range perm[:nc] {
				args = append(args, g.W.BPIDs[p])
			}
			sp.Payload = GovPayload("v1voteBP", args...)
			sp.Amount = big.NewInt(0)
			if !g.Staked[i] {
				exp = "fail"
			}
			desc = fmt.Sprintf("votebp a%d %v", i, perm[:nc])
		case "votedao":
			sp.Type, sp.To = types.TxType_GOVERNANCE, []byte(types.AergoSystem)
			ids := []string{"GASPRICE", "STAKINGMIN", "NAMEPRICE", "BPCOUNT", "NOSUCH"}
			id := ids[g.R.Intn(len(ids))]
			if g.Ties {
				id = []string{"STAKINGMIN", "NAMEPRICE"}[g.R.Intn(2)]
			}
			vals := map[string][]string{"GASPRICE": {"50000000000", "60000000000"}, "STAKINGMIN": {"10000000000000000000000", "9000000000000000000000"},
				"NAMEPRICE": {"1000000000000000000", "2000000000000000000", "20000000000000000000", "30000000000000000000"}, "BPCOUNT": {"3", "4", "2"}, "NOSUCH": {"1"}}
			v := vals[id][g.R.Intn(len(vals[id]))]
			if g.Ties && id == "NAMEPRICE" {
				v = vals[id][2+g.R.Intn(2)] // the two candidates >= 2^64
			}
			sp.Payload = GovPayload("v1voteDAO", id, v)
			sp.Amount = big.NewInt(0)
			exp = "maybe"
			desc = fmt.Sprintf("votedao a%d %s=%s", i, id, v)
		case "name", "name-dup":
			sp.Type, sp.To = types.TxType_GOVERNANCE, []byte(types.AergoName)
			nm := fmt.Sprintf("n%011d", g.nameSeq)
			if k == "name-dup" && len(g.Names) > 0 {
				nm = g.Names[g.R.Intn(len(g.Names))]
				exp = "fail"
			} else {
				k = "name"
				g.nameSeq++
			}
			sp.Payload = GovPayload("v1createName", nm)
			sp.Amount = aergo(1)
			desc = fmt.Sprintf("%s a%d %s", k, i, nm)
			if exp == "ok" {
				sp.Nonce = g.next(i, pend)
				out = append(out, &GTx{Desc: desc, Kind: k, From: i, Expect: exp, Aux: nm, Tx: sp.Build()})
				continue
			}
		case "name-update":
			if len(g.Names) == 0 {
				continue
			}
			nm := g.Names[g.R.Intn(len(g.Names))]
			owner := g.NameOwner[nm]
			signer := owner
			if g.R.Intn(3) == 0 {
				signer = g.pick() // maybe not the owner
			}
			if blocked[signer] {
				continue
			}
			i, a = signer, g.acct(signer)
			sp.From = a
			toI := g.pick()
			to := g.acct(toI)
			sp.Type, sp.To = types.TxType_GOVERNANCE, []byte(types.AergoName)
			sp.Payload = GovPayload("v1updateName", nm, to.B58())
			sp.Amount = aergo(1)
			if signer != owner {
				exp = "fail"
			}
			desc = fmt.Sprintf("name-update a%d %s -> a%d (owner a%d)", signer, nm, toI, owner)
			if useNonce {
				sp.Nonce = g.next(i, pend)
			}
			if exp != "ok" {
				blocked[i] = true
			}
			out = append(out, &GTx{Desc: desc, Kind: k, From: i, Tx: sp.Build(), Expect: exp, Aux: nm, AuxI: toI})
			continue
		case "xfer-name":
			if len(g.Names) == 0 {
				continue
			}
			nm := g.Names[g.R.Intn(len(g.Names))]
			sp.Type, sp.To, sp.Amount = types.TxType_TRANSFER, []byte(nm), big.NewInt(int64(1+g.R.Intn(1000)))
			desc = fmt.Sprintf("xfer-name a%d -> %s", i, nm)
		case "setowner":
			sp.Type, sp.To = types.TxType_GOVERNANCE, []byte(types.AergoName)
			oi := g.pick()
			sp.Payload = GovPayload("v1setOwner", g.acct(oi).B58())
			sp.Amount = big.NewInt(0)
			exp = "maybe"
			desc = fmt.Sprintf("setowner a%d owner=a%d", i, oi)
		case "gov-bad":
			sp.Type, sp.To = types.TxType_GOVERNANCE, []byte(types.AergoSystem)
			sp.Payload = GovPayload("v1nosuch")
			sp.Amount = big.NewInt(0)
			exp, useNonce = "reject", false
			desc = fmt.Sprintf("gov-bad a%d", i)
		case "deploy":
			if ver < 2 {
				continue
			}
			pl, err := DeployPayload(LuaBank, nil, ver)
			if err != nil {
				continue
			}
			sp.Type, sp.Payload, sp.Amount = types.TxType_DEPLOY, pl, big.NewInt(int64(g.R.Intn(2)*1000))
			desc = fmt.Sprintf("deploy a%d", i)
			sp.Nonce = g.next(i, pend)
			tx := sp.Build()
			out = append(out, &GTx{Desc: desc, Kind: k, From: i, Expect: exp, Tx: tx})
			continue
		case "deploy-fail":
			// a deployment whose constructor fails; somebody calls the address it would have got (below)
			if ver < 2 {
				continue
			}
			pl, err := DeployPayload(LuaBankV2Fail, nil, ver)
			if err != nil {
				continue
			}
			sp.Type, sp.Payload, sp.Amount = types.TxType_DEPLOY, pl, big.NewInt(0)
			exp = "fail"
			desc = fmt.Sprintf("deploy-fail a%d", i)
		case "redeploy", "redeploy-fail":
			// only the creator may replace the code; only non-public chains know the tx type
			if len(g.Contracts) == 0 || ver < 2 {
				continue
			}
			ct := g.Contracts[g.R.Intn(len(g.Contracts))]
			// every version counts in its own step: a wrong version at work is always visible
			src := LuaBankStep(100+g.R.Intn(800), k == "redeploy-fail")
			pl, err := DeployPayload(src, nil, ver)
			if err != nil {
				continue
			}
			i = ct.Owner
			if blocked[i] {
				continue
			}
			sp.From = g.acct(i)
			sp.Type, sp.To, sp.Payload, sp.Amount = types.TxType_REDEPLOY, ct.Addr, pl, big.NewInt(0)
			if g.W.Tmpl.Public {
				exp = "reject"
			} else if k == "redeploy-fail" {
				exp = "fail"
			}
			desc = fmt.Sprintf("%s a%d contract %x", k, i, ct.Addr[:4])
		case "call-inc", "call-pay", "call-payfail", "call-fail", "call-guarded", "call-nested", "call-nestfail", "call-default", "feedeleg", "feedeleg-fail":
			if len(g.Contracts) == 0 {
				continue
			}
			c := g.Contracts[g.R.Intn(len(g.Contracts))]
			sp.Type, sp.To, sp.Amount = types.TxType_CALL, c.Addr, big.NewInt(0)
			to := g.acct(g.pick()).B58()
			amt := fmt.Sprintf("%d", 1+g.R.Intn(500))
			switch k {
			case "call-inc":
				sp.Payload = []byte(fmt.Sprintf(`{"Name":"inc","Args":["k%d"]}`, g.R.Intn(4)))
			case "call-pay":
				sp.Payload = []byte(fmt.Sprintf(`{"Name":"pay","Args":[%q,%q]}`, to, amt))
				sp.Amount = big.NewInt(int64(g.R.Intn(1000)))
				exp = "maybe"
			case "call-payfail":
				sp.Payload = []byte(fmt.Sprintf(`{"Name":"payfail","Args":[%q,%q]}`, to, amt))
				exp = "fail"
			case "call-fail":
				sp.Payload = []byte(`{"Name":"fail","Args":[]}`)
				exp = "fail"
			case "call-guarded":
				sp.Payload = []byte(fmt.Sprintf(`{"Name":"guarded","Args":[%q,%q]}`, to, amt))
			case "call-nested":
				o := g.Contracts[g.R.Intn(len(g.Contracts))]
				sp.Payload = []byte(fmt.Sprintf(`{"Name":"nested","Args":[%q,%q,%q]}`, types.EncodeAddress(o.Addr), to, amt))
				sp.Amount = big.NewInt(int64(g.R.Intn(1000)))
				exp = "maybe"
			case "call-nestfail":
				o := g.Contracts[g.R.Intn(len(g.Contracts))]
				sp.Payload = []byte(fmt.Sprintf(`{"Name":"nestfail","Args":[%q,"k%d"]}`, types.EncodeAddress(o.Addr), g.R.Intn(4)))
				exp = "fail"
			case "call-default":
				sp.Type, sp.Amount, sp.Payload = types.TxType_TRANSFER, big.NewInt(int64(1+g.R.Intn(5000))), nil
			case "feedeleg-fail":
				if ver < 2 {
					continue
				}
				sp.Type = types.TxType_FEEDELEGATION
				sp.Payload = []byte(fmt.Sprintf(`{"Name":"fdfail","Args":["f%d"]}`, g.R.Intn(3)))
				exp = "maybe"
			case "feedeleg":
				if ver < 2 {
					continue
				}
				sp.Type = types.TxType_FEEDELEGATION
				sp.Payload = []byte(fmt.Sprintf(`{"Name":"fd","Args":["f%d"]}`, g.R.Intn(3)))
				exp = "maybe"
			}
			desc = fmt.Sprintf("%s a%d c=%x", k, i, c.Addr[:4])
		default:
			continue
		}
		if useNonce {
			sp.Nonce = g.next(i, pend)
		}
		if exp != "ok" && useNonce {
			blocked[i] = true // outcome uncertain: no later tx of this account in the block
		}
		tx := sp.Build()
		out = append(out, &GTx{Desc: desc, Kind: k, From: i, Tx: tx, Expect: exp})
		if k == "redeploy" || k == "redeploy-fail" || k == "deploy-fail" {
			// somebody else calls the same contract right afterwards in the same block
			if k == "deploy-fail" {
				sp.To = contract.CreateContractID(tx.Body.Account, tx.Body.Nonce)
			}
			for tr := 0; tr < 20; tr++ {
				j := g.pick()
				if j == i || blocked[j] {
					continue
				}
				cs := TxSpec{From: g.acct(j), ChainID: cid, GasPrice: sp.GasPrice, Type: types.TxType_CALL, To: sp.To, Amount: big.NewInt(0),
					Payload: []byte(fmt.Sprintf(`{"Name":"inc","Args":["k%d"]}`, g.R.Intn(4)))}
				cs.Nonce = g.next(j, pend)
				out = append(out, &GTx{Desc: fmt.Sprintf("call-inc a%d c=%x (after %s)", j, sp.To[:4], k), Kind: "call-inc", From: j, Tx: cs.Build(), Expect: "ok"})
				break
			}
		}
	}
	return out
}

// Applied updates the generator's view after a block was produced: included lists the hashes
// that made it into the block, statuses the receipt statuses in the same order.
func (g *Gen) Applied(cands []*GTx, included [][]byte, statuses []string) {
	inc := map[string]int{}
	for i, h := range included {
		inc[string(h)] = i
	}
	for _, c := range cands {
		idx, ok := inc[string(c.Tx.Hash)]
		if !ok {
			continue
		}
		if c.Tx.Body.Nonce > g.Nonce[c.From] {
			g.Nonce[c.From] = c.Tx.Body.Nonce
		}
		st := ""
		if idx < len(statuses) {
			st = statuses[idx]
		}
		if st == "ERROR" {
			continue
		}
		switch c.Kind {
		case "stake":
			g.Staked[c.From] = true
		case "name":
			g.Names = append(g.Names, c.Aux)
			g.NameOwner[c.Aux] = c.From
		case "name-update":
			g.NameOwner[c.Aux] = c.AuxI
		case "deploy":
			g.Contracts = append(g.Contracts, Contract{Addr: contract.CreateContractID(c.Tx.Body.Account, c.Tx.Body.Nonce), Kind: "bank", Owner: c.From})
		}
	}
}

// Clone copies the generator state (for a branch forking off) with a new PRNG.
func (g *Gen) Clone(r *rand.Rand) *Gen {
	n := &Gen{W: g.W, R: r, Nonce: map[int]uint64{}, NameOwner: map[string]int{}, Staked: map[int]bool{}, nameSeq: g.nameSeq, Kinds: g.Kinds, MaxAcct: g.MaxAcct, Ties: g.Ties}
	for k, v := range g.Nonce {
		n.Nonce[k] = v
	}
	for k, v := range g.NameOwner {
		n.NameOwner[k] = v
	}
	for k, v := range g.Staked {
		n.Staked[k] = v
	}
	n.Names = append([]string(nil), g.Names...)
	n.Contracts = append([]Contract(nil), g.Contracts...)
	return n
}
