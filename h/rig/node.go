package rig

import (
	"context"
	"crypto/sha256"
	"encoding/gob"
	"encoding/hex"
	"encoding/json"
	"errors"
	"fmt"
	"math/big"
	"os"
	"path/filepath"
	"runtime/debug"
	"sync"
	"time"

	"github.com/aergoio/aergo-actor/actor"
	"github.com/aergoio/aergo-lib/db"
	"github.com/aergoio/aergo-lib/log"
	"github.com/aergoio/aergo/v2/chain"
	"github.com/aergoio/aergo/v2/config"
	"github.com/aergoio/aergo/v2/consensus"
	cchain "github.com/aergoio/aergo/v2/consensus/chain"
	"github.com/aergoio/aergo/v2/consensus/impl/dpos"
	"github.com/aergoio/aergo/v2/contract"
	"github.com/aergoio/aergo/v2/contract/system"
	"github.com/aergoio/aergo/v2/mempool"
	"github.com/aergoio/aergo/v2/p2p/p2pkey"
	"github.com/aergoio/aergo/v2/pkg/component"
	"github.com/aergoio/aergo/v2/state"
	"github.com/aergoio/aergo/v2/types"
	"github.com/aergoio/aergo/v2/types/message"
	"github.com/libp2p/go-libp2p/core/crypto"
	"github.com/libp2p/go-libp2p/core/peer"
)

// NodeConfig describes one node under test (one per process: the node has package globals).
type NodeConfig struct {
	Dir        string            // data directory (memorydb files live here)
	Magic      string            // chain magic
	Public     bool              // public net (fees) vs private (zero fee)
	Strict     bool              // true: unmodified DPoS decides signatures/slots/timestamps; false: relaxed (accept all, real status/LIB bookkeeping)
	Coinbase   string            // base58 address or "" (no coinbase)
	Hardfork   map[string]uint64 // "V2".."V5" -> height
	Balances   map[string]string // base58 address -> amount
	GenesisTS  int64
	BPKeys     [][]byte // marshalled libp2p private keys of all block producers (genesis BP set = their ids)
	NodeKey    int      // index into BPKeys of this node's own key
	Mempool    string   // "real" | "recorder"
	Journal    bool     // wrap both stores with the journaling KV
	NumWorkers int
	VerifierCount int
	EnableBP   bool
	JournalFromStart bool // start journaling before the first message (so that ChainService.Recover is journaled)
}

// DetBPKey returns a deterministic marshalled secp256k1 libp2p private key and its peer id string.
func DetBPKey(i int) ([]byte, string) {
	h := sha256.Sum256([]byte(fmt.Sprintf("verif-bp/%d", i)))
	priv, err := crypto.UnmarshalSecp256k1PrivateKey(h[:])
	if err != nil {
		panic(err)
	}
	b, _ := crypto.MarshalPrivateKey(priv)
	id, _ := peer.IDFromPublicKey(priv.GetPublic())
	return b, id.String()
}

type recMsg struct {
	Seq  int    `json:"seq"`
	Svc  string `json:"svc"`
	Type string `json:"type"`
	Hash string `json:"hash,omitempty"` // tx or block hash (hex)
	No   uint64 `json:"no,omitempty"`
}

type recorder struct {
	*component.BaseComponent
	n   *Node
	svc string
}

func newRecorder(n *Node, name string) *recorder {
	r := &recorder{n: n, svc: name}
	r.BaseComponent = component.NewBaseComponent(name, r, log.NewLogger("rec"+name))
	return r
}
func (r *recorder) BeforeStart()                        {}
func (r *recorder) AfterStart()                         {}
func (r *recorder) BeforeStop()                         {}
func (r *recorder) Statistics() *map[string]interface{} { return nil }
func (r *recorder) Receive(c actor.Context) {
	switch m := c.Message().(type) {
	case *message.NotifyNewBlock:
		r.n.record(r.svc, "NotifyNewBlock", m.Block.BlockHash(), m.BlockNo)
	case *message.NotifyNewTransactions:
		for _, t := range m.Txs {
			r.n.record(r.svc, "NotifyNewTransactions", t.GetHash(), 0)
		}
	case *message.SyncStart:
		r.n.record(r.svc, "SyncStart", nil, m.TargetNo)
	case *message.MemPoolPut:
		r.n.record(r.svc, "MemPoolPut", m.Tx.GetHash(), 0)
		c.Respond(&message.MemPoolPutRsp{})
	case *message.MemPoolDel:
		r.n.record(r.svc, "MemPoolDel", m.Block.BlockHash(), m.Block.BlockNo())
		c.Respond(&message.MemPoolDelRsp{})
	case *message.MemPoolDelTx:
		r.n.record(r.svc, "MemPoolDelTx", m.Tx.GetHash(), 0)
		c.Respond(&message.MemPoolDelTxRsp{})
	case *message.MemPoolExist:
		c.Respond(&message.MemPoolExistRsp{})
	case *message.MemPoolExistEx:
		c.Respond(&message.MemPoolExistExRsp{})
	case *message.MemPoolGet:
		c.Respond(&message.MemPoolGetRsp{})
	case *types.Block:
		r.n.record(r.svc, "Block", m.BlockHash(), m.BlockNo())
	}
}

// Node is the in-process node rig.
type Node struct {
	Cfg  NodeConfig
	cfg  *config.Config
	cs   *chain.ChainService
	mp   *mempool.MemPool
	hub  *component.ComponentHub
	d    *dpos.DPoS
	cons consensus.ChainConsensus
	jr   *Journal
	keys []crypto.PrivKey

	mu        sync.Mutex
	recs      []recMsg
	scriptLib int64 // -1: use the real status

	chainStore, stateStore func() map[string][]byte
}

func (n *Node) record(svc, typ string, hash []byte, no uint64) {
	n.mu.Lock()
	n.recs = append(n.recs, recMsg{Seq: len(n.recs), Svc: svc, Type: typ, Hash: hex.EncodeToString(hash), No: no})
	n.mu.Unlock()
}

// relaxed wraps the real DPoS object: all status/LIB/VPR/param bookkeeping (Update, Save, Info,
// IsConnectedBlock ...) is the real one; only the producer-legitimacy decisions are accept-all
// and the reorg veto may be scripted.
type relaxed struct {
	*dpos.DPoS
	n *Node
}

func (r *relaxed) VerifySign(b *types.Block) error                  { return nil }
func (r *relaxed) IsBlockValid(b *types.Block, best *types.Block) error { return nil }
func (r *relaxed) VerifyTimestamp(b *types.Block) bool              { return true }
func (r *relaxed) NeedReorganization(rootNo types.BlockNo) bool {
	r.n.mu.Lock()
	l := r.n.scriptLib
	r.n.mu.Unlock()
	if l >= 0 {
		return uint64(rootNo) >= uint64(l)
	}
	return r.DPoS.NeedReorganization(rootNo)
}

var nodeInfoOnce sync.Once

// StartNode creates (or re-opens) the node.
func StartNode(nc NodeConfig) (*Node, error) {
	n := &Node{Cfg: nc, scriptLib: -1}
	serverCtx := config.NewServerContext("", "")
	cfg := serverCtx.GetDefaultConfig().(*config.Config)
	cfg.DbType = "memorydb"
	cfg.DataDir = nc.Dir
	hf := &config.HardforkConfig{}
	hfj, _ := json.Marshal(nc.Hardfork)
	json.Unmarshal(hfj, hf)
	cfg.Hardfork = hf
	cfg.Blockchain.CoinbaseAccount = nc.Coinbase
	cfg.Consensus.EnableBp = nc.EnableBP
	if nc.NumWorkers > 0 {
		cfg.Blockchain.NumWorkers = nc.NumWorkers
	}
	if nc.VerifierCount > 0 {
		cfg.Blockchain.VerifierCount = nc.VerifierCount
	}
	cfg.Mempool.EnableFadeout = false
	cfg.Mempool.DumpFilePath = filepath.Join(nc.Dir, "mempool.dump")
	n.cfg = cfg

	os.MkdirAll(nc.Dir, 0o755)
	var bpIDs []string
	for i, kb := range nc.BPKeys {
		priv, err := crypto.UnmarshalPrivateKey(kb)
		if err != nil {
			return nil, fmt.Errorf("bp key %d: %v", i, err)
		}
		n.keys = append(n.keys, priv)
		id, _ := peer.IDFromPublicKey(priv.GetPublic())
		bpIDs = append(bpIDs, id.String())
	}
	keyFile := filepath.Join(nc.Dir, "node.key")
	os.WriteFile(keyFile, nc.BPKeys[nc.NodeKey], 0o600)
	cfg.P2P.NPKey = keyFile
	nodeInfoOnce.Do(func() {
		p2pkey.InitNodeInfo(&cfg.BaseConfig, cfg.P2P, "v2.0.0", log.NewLogger("p2pkey"))
	})

	if _, err := os.Stat(filepath.Join(nc.Dir, "chain", "database")); err != nil {
		gen := &types.Genesis{
			ID:        types.ChainID{Version: 0, Magic: nc.Magic, PublicNet: nc.Public, MainNet: false, Consensus: "dpos"},
			Timestamp: nc.GenesisTS,
			Balance:   nc.Balances,
			BPs:       bpIDs,
		}
		core, err := chain.NewCore("memorydb", nc.Dir, false, 0, cfg.DB)
		if err != nil {
			return nil, err
		}
		if err := core.InitGenesisBlock(gen, false); err != nil {
			return nil, err
		}
		core.Close()
	}

	n.jr = NewJournal()
	if nc.JournalFromStart {
		// ChainDB.Init repairs the height index from a reorg marker before any wrapper can be installed on
		// the service's store: run exactly that step first on a journaled store (the service's own Init
		// then finds it done), so that its write units are crash points too.
		wrap := n.jr.Wrap("chain")
		if err := chain.VerifRecoverChainDB(cfg.DbType, cfg.DataDir, func(d db.DB) db.DB {
			w := wrap(d)
			n.jr.Start()
			return w
		}); err != nil {
			return nil, fmt.Errorf("start-up recovery of the chain DB: %v", err)
		}
	}
	n.cs = chain.NewChainService(cfg)
	// store wrappers go in before anything captures cs.SDB()/cs.CDB()
	n.cs.VerifWrapStore(n.jr.Wrap("chain"))
	n.cs.SDB().VerifWrapStore(n.jr.Wrap("state"))

	n.hub = component.NewComponentHub()
	c, err := dpos.New(cfg, n.hub, n.cs.CDB(), n.cs.SDB())
	if err != nil {
		return nil, err
	}
	n.d = c.(*dpos.DPoS)
	if nc.Strict {
		n.cons = n.d
	} else {
		n.cons = &relaxed{DPoS: n.d, n: n}
	}
	n.cs.SetChainConsensus(n.cons)

	comps := []component.IComponent{n.cs, newRecorder(n, message.P2PSvc), newRecorder(n, message.RPCSvc), newRecorder(n, message.SyncerSvc)}
	if nc.Mempool == "recorder" {
		comps = append(comps, newRecorder(n, message.MemPoolSvc))
	} else {
		n.mp = mempool.NewMemPoolService(cfg, n.cs)
		comps = append(comps, n.mp)
	}
	n.hub.Register(comps...)
	n.hub.Start()
	if nc.JournalFromStart && !n.jr.On() {
		n.jr.Start()
	}
	// first message: makes ChainService.Receive run Recover()
	if _, err := n.best(); err != nil {
		return nil, err
	}
	return n, nil
}

// Stop closes the node gracefully (memorydb writes its files).
func (n *Node) Stop() {
	n.hub.Stop()
}

func (n *Node) best() (*types.Block, error) {
	r, err := n.hub.RequestFuture(message.ChainSvc, &message.GetBestBlock{}, 20*time.Second, "rig").Result()
	if err != nil {
		return nil, err
	}
	rsp := r.(message.GetBestBlockRsp)
	return rsp.Block, rsp.Err
}

type BlockInfo struct {
	No     uint64
	Hash   []byte
	Prev   []byte
	Root   []byte
	TS     int64
	NTx    int
	SdbRoot []byte // root of the live state DB
}

func (n *Node) Best() (*BlockInfo, error) {
	b, err := n.best()
	if err != nil {
		return nil, err
	}
	return &BlockInfo{No: b.BlockNo(), Hash: b.BlockHash(), Prev: b.GetHeader().GetPrevBlockHash(), Root: b.GetHeader().GetBlocksRootHash(),
		TS: b.GetHeader().GetTimestamp(), NTx: len(b.GetBody().GetTxs()), SdbRoot: n.cs.SDB().GetRoot()}, nil
}

// ---- production -------------------------------------------------------------------------

type ProduceReq struct {
	Parent      []byte   // nil: best block (real producer path, Connect allowed); else any stored block
	Txs         [][]byte // candidate list (proto types.Tx), in order
	FromMempool bool     // ask the real mempool instead (MemPoolGet), as production does
	TS          int64    // block timestamp (ns); 0: parent + 1s
	Connect     bool     // submit message.AddBlock{Block,Bstate} (commit-only path)
	CommitState bool     // when not connecting: commit the block state to the state store so children can be built
	Confirms    int64    // -1: leave 0
	SignKey     int      // index into BPKeys; -1 unsigned
	Probe       [][]byte // addresses U for the per-tx conservation probe
	MarkVerified bool    // mark candidates as verified the way the mempool does (account resolved)
	DeadlineAtTx int     // k>0: the block-generation deadline passes while the k-th candidate is being executed
}

type RcptInfo struct {
	Status  string
	Fee     []byte
	TxHash  []byte
	NEvents int
	Ret     string
	Contract []byte
	GasUsed uint64
}

type ProduceRsp struct {
	Block    []byte
	Hash     []byte
	Root     []byte
	Included [][]byte // hashes of included txs, in block order
	Receipts []RcptInfo
	RcptBytes []byte // Receipts.MarshalBinary of the producer's receipts
	RcptRoot []byte
	ProbeSums []string // after every applied tx: sum_U balance + BpReward ; last entry: after reward
	ProbeBefore string
	GenErr   string
	AddErr   string
	Panic    string
	Consensus []byte
	SkipErrs []string // why candidates were skipped by the producer
}

func rcptInfos(rs *types.Receipts) []RcptInfo {
	var out []RcptInfo
	for _, r := range rs.Get() {
		out = append(out, RcptInfo{Status: r.Status, Fee: r.FeeUsed, TxHash: r.TxHash, NEvents: len(r.Events), Ret: r.Ret, Contract: r.ContractAddress, GasUsed: r.GasUsed})
	}
	return out
}

func sumU(bs *state.BlockState, u [][]byte) *big.Int {
	s := new(big.Int)
	seen := map[string]bool{}
	for _, a := range u {
		id := types.ToAccountID(a)
		if seen[string(id[:])] {
			continue
		}
		seen[string(id[:])] = true
		st, err := bs.StateDB.GetAccountState(id)
		if err != nil || st == nil {
			continue
		}
		s.Add(s, st.GetBalanceBigInt())
	}
	return s
}

func (n *Node) Produce(req *ProduceReq) (rsp *ProduceRsp) {
	rsp = &ProduceRsp{}
	defer func() {
		if r := recover(); r != nil {
			rsp.Panic = fmt.Sprintf("%v\n%s", r, debug.Stack())
		}
	}()
	var parent *types.Block
	var err error
	if req.Parent == nil {
		parent, err = n.best()
	} else {
		parent, err = n.cs.GetBlock(req.Parent)
	}
	if err != nil {
		rsp.GenErr = "parent: " + err.Error()
		return
	}
	ts := req.TS
	if ts == 0 {
		ts = parent.GetHeader().GetTimestamp() + int64(time.Second)
	}
	bi := types.NewBlockHeaderInfoFromPrevBlock(parent, ts, n.cfg.Hardfork)
	bs := n.cs.SDB().NewBlockState(parent.GetHeader().GetBlocksRootHash(), state.SetPrevBlockHash(parent.BlockHash()))
	bs.SetGasPrice(system.GetGasPrice())
	bs.Receipts().SetHardFork(n.cfg.Hardfork, bi.No)
	var ctx context.Context = context.Background()
	var dl *deadlineCtx
	if req.DeadlineAtTx > 0 {
		dl = &deadlineCtx{Context: context.Background(), done: make(chan struct{})}
		ctx = dl
	}
	exec := chain.NewTxExecutor(ctx, nil, n.cs.CDB().(contract.ChainAccessor), bi, contract.BlockFactory)
	var ops []cchain.TxOp
	nexec := 0
	ops = append(ops, cchain.TxOpFn(func(b *state.BlockState, tx types.Transaction) error {
		nexec++
		if dl != nil && nexec == req.DeadlineAtTx {
			dl.expire() // the slot runs out while this transaction is being executed
		}
		err := exec(b, tx)
		if err != nil {
			rsp.SkipErrs = append(rsp.SkipErrs, fmt.Sprintf("%x: %s", tx.GetHash()[:6], err.Error()))
		}
		return err
	}))
	if len(req.Probe) > 0 {
		rsp.ProbeBefore = sumU(bs, req.Probe).String()
		ops = append(ops, cchain.TxOpFn(func(b *state.BlockState, tx types.Transaction) error {
			s := sumU(b, req.Probe)
			s.Add(s, &b.BpReward)
			rsp.ProbeSums = append(rsp.ProbeSums, s.String())
			return nil
		}))
	}
	g := cchain.NewBlockGenerator(n.hub, ctx, bi, bs, cchain.NewCompTxOp(ops...), false)
	if !req.FromMempool {
		var cand []types.Transaction
		for _, tb := range req.Txs {
			tx := DecTx(tb)
			if tx == nil {
				rsp.GenErr = "bad tx encoding"
				return
			}
			cand = append(cand, types.NewTransaction(tx))
		}
		g = g.WithDeco(func(cchain.FetchFn) cchain.FetchFn {
			return func(component.ICompSyncRequester, uint32) []types.Transaction { return cand }
		})
	}
	blk, err := g.GenerateBlock()
	if err != nil {
		rsp.GenErr = err.Error()
		return
	}
	if len(req.Probe) > 0 {
		rsp.ProbeSums = append(rsp.ProbeSums, sumU(bs, req.Probe).String())
	}
	if req.Confirms >= 0 {
		blk.SetConfirms(uint64(req.Confirms))
	}
	if req.SignKey >= 0 && req.SignKey < len(n.keys) {
		if err := blk.Sign(n.keys[req.SignKey]); err != nil {
			rsp.GenErr = "sign: " + err.Error()
			return
		}
	}
	rsp.Hash = blk.BlockHash() // blocks travel with their identifier, as they do on the network
	rsp.Block = EncBlock(blk)
	rsp.Root = blk.GetHeader().GetBlocksRootHash()
	rsp.Consensus = blk.GetHeader().GetConsensus()
	for _, tx := range blk.GetBody().GetTxs() {
		rsp.Included = append(rsp.Included, tx.GetHash())
	}
	rsp.Receipts = rcptInfos(bs.Receipts())
	rsp.RcptBytes, _ = bs.Receipts().MarshalBinary()
	rsp.RcptRoot = bs.Receipts().MerkleRoot()
	if req.Connect {
		r, err := n.hub.RequestFuture(message.ChainSvc, &message.AddBlock{Block: blk, Bstate: bs}, 60*time.Second, "rig").Result()
		if err != nil {
			rsp.AddErr = "request: " + err.Error()
			return
		}
		if e := r.(*message.AddBlockRsp).Err; e != nil {
			rsp.AddErr = e.Error()
		}
	} else if req.CommitState {
		if err := bs.Commit(); err != nil {
			rsp.GenErr = "commit: " + err.Error()
		}
	}
	return
}

// AddBlock delivers a block the way the network does (validator path).
func (n *Node) AddBlock(blk []byte) string { return n.addBlock(blk, false) }

func (n *Node) addBlock(blk []byte, isSync bool) string {
	b := DecBlock(blk)
	if b == nil {
		return "harness: undecodable block"
	}
	r, err := n.hub.RequestFuture(message.ChainSvc, &message.AddBlock{PeerID: "", Block: b, Bstate: nil, IsSync: isSync}, 120*time.Second, "rig").Result()
	if err != nil {
		return "request: " + err.Error()
	}
	if e := r.(*message.AddBlockRsp).Err; e != nil {
		return e.Error()
	}
	return ""
}

// ---- queries ----------------------------------------------------------------------------

func (n *Node) Dump(root []byte) (*Dump, error) {
	if root == nil {
		root = n.cs.SDB().GetRoot()
	}
	return DumpAt(n.stateDB(), root)
}

type NodeInfo struct {
	Consensus  string
	LibNo      uint64
	LibHash    string
	ErrBlocks  int
	Orphans    int
	SdbRoot    []byte
	BestNo     uint64
	BestHash   []byte
	TotalVP    string
}

func (n *Node) Info() *NodeInfo {
	ni := &NodeInfo{Consensus: n.cs.GetConsensusInfo(), ErrBlocks: n.cs.VerifErrBlockCount(), Orphans: n.cs.VerifOrphanCount(), SdbRoot: n.cs.SDB().GetRoot()}
	var ci struct {
		Status *struct {
			LibHash string
			LibNo   uint64
		}
	}
	if json.Unmarshal([]byte(ni.Consensus), &ci) == nil && ci.Status != nil {
		ni.LibNo, ni.LibHash = ci.Status.LibNo, ci.Status.LibHash
	}
	if b, err := n.cs.GetBestBlock(); err == nil {
		ni.BestNo, ni.BestHash = b.BlockNo(), b.BlockHash()
	}
	if tp := system.GetTotalVotingPower(); tp != nil {
		ni.TotalVP = tp.String()
	}
	return ni
}

func (n *Node) SetLib(l int64) { n.mu.Lock(); n.scriptLib = l; n.mu.Unlock() }

func (n *Node) Recorded() []recMsg {
	// messages to the pool are sent asynchronously: a round trip through its mailbox
	// guarantees everything sent before has been recorded
	n.MempoolSync()
	n.mu.Lock()
	defer n.mu.Unlock()
	return append([]recMsg(nil), n.recs...)
}

func (n *Node) req(svc string, m interface{}) (interface{}, error) {
	return n.hub.RequestFuture(svc, m, 30*time.Second, "rig").Result()
}

// stateDB returns the raw state store for harness-side dumps.
func (n *Node) stateDB() db.DB { return n.jr.Inner("state") }
func (n *Node) chainDB() db.DB { return n.jr.Inner("chain") }

// WriteStores materialises store contents as memorydb files under dir (chain/database, state/database).
func WriteStores(dir string, content map[string]map[string][]byte) error {
	for name, m := range content {
		p := filepath.Join(dir, name)
		if err := os.MkdirAll(p, 0o755); err != nil {
			return err
		}
		f, err := os.Create(filepath.Join(p, "database"))
		if err != nil {
			return err
		}
		if m == nil {
			m = map[string][]byte{}
		}
		err = gob.NewEncoder(f).Encode(m)
		f.Close()
		if err != nil {
			return err
		}
	}
	return nil
}

var errNotFound = errors.New("not found")

// deadlineCtx is a context whose deadline "passes" when expire is called (Err: DeadlineExceeded, as for a
// block-production slot that ran out; a cancelled context would mean "node is quitting").
type deadlineCtx struct {
	context.Context
	done chan struct{}
	once sync.Once
}

func (d *deadlineCtx) expire()               { d.once.Do(func() { close(d.done) }) }
func (d *deadlineCtx) Done() <-chan struct{} { return d.done }
func (d *deadlineCtx) Err() error {
	select {
	case <-d.done:
		return context.DeadlineExceeded
	default:
		return nil
	}
}
