#!/bin/bash
# Runs the repository's own test suite the way /root/.vp/BASELINE.json does (no verif tag, no shim) and
# compares the passing set with the pinned list. Development helper, not a registered check.
export GOFLAGS=-mod=mod GOPROXY=off GOSUMDB=off GOTOOLCHAIN=local
out=${1:-/var/tmp/baseline_run.json}
(cd /repo && go test -mod=mod -json -vet=off -count=1 -timeout 25m ./... > "$out" 2>/var/tmp/baseline_run.err)
python3 - "$out" <<'P'
import json,sys
base=json.load(open('/root/.vp/BASELINE.json'))
want=set(base['stable_pass'])
got=set(); failed=set()
for l in open(sys.argv[1]):
    try: e=json.loads(l)
    except: continue
    if e.get('Test') and e.get('Action') in ('pass','fail'):
        k=e['Package']+'::'+e['Test']
        (got if e['Action']=='pass' else failed).add(k)
missing=sorted(want-got)
print('baseline tests expected %d, passing now %d of them, missing %d, failing tests overall %d' % (len(want), len(want&got), len(missing), len(failed)))
for m in missing[:40]: print('  MISSING', m, '(failed)' if m in failed else '(not run)')
P
