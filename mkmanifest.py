#!/usr/bin/env python3
"""Regenerates /verif/MANIFEST.json from the table below; a property whose driver directory
h/cmd/<id> does not exist (or which is listed in WITHDRAWN) goes to not_applicable."""
import json, os, subprocess

BASE = ("for m in $(cat /w/out/gomods.txt); do MF=$(cd /repo/$m && . /w/out/goenv.sh && gomodflag); "
        "(cd /repo/$m && go test $MF -json -vet=off -count=1 -timeout 25m ./...); done")

TRUST = ("Trusted base: Go toolchain 1.23.5 and race detector; harness code under /verif/h; for node-rig checks the "
         "LuaJIT-fork shim (/verif/shim: PUC Lua 5.1 + fork API re-implementation) and memorydb store semantics. "
         "Holds only on the executions driven; see DESIGN.md section 6 for per-property limits.")

# id -> (level, technique, text, design_ref, note)
P = {}
def add(i, level, tech, text, note=TRUST):
    P[i] = dict(level=level, tech=tech, text=text, note=note)

exec(open(os.path.join(os.path.dirname(os.path.abspath(__file__)), "manifest_table.py")).read())

def main():
    root = os.path.dirname(os.path.abspath(__file__))
    props = [json.loads(l)["id"] for l in open(os.path.join(root, "properties.jsonl"))]
    checks, na = [], []
    for i in props:
        d = os.path.join(root, "h", "cmd", i.lower())
        if i in WITHDRAWN:
            na.append({"property_id": i, "reason": WITHDRAWN[i]}); continue
        if not os.path.isdir(d) or i not in P:
            na.append({"property_id": i, "reason": "check not built yet in this revision of /verif (design in DESIGN.md section 6); not claimed until its monitor runs silent on the unchanged tree"}); continue
        p = P[i]
        checks.append({
            "property_id": i,
            "quick_cmd": "./run.sh %s quick" % i,
            "thorough_cmd": "./run.sh %s thorough" % i,
            "evidence_file": "/verif/evidence/%s.json" % i,
            "replay_cmd_template": "./run.sh %s replay {path}" % i,
            "engine": "vcheck",
            "level_claimed": {"category": p["level"], "text": p["text"], "design_ref": "DESIGN.md section 6, " + i},
            "level_note": p["note"],
            "technique": p["tech"],
        })
    try:
        commits = [l.strip() for l in open(os.path.join(root, "MANIFEST.hooks")) if l.strip() and not l.startswith("#")]
    except FileNotFoundError:
        commits = []
    m = {
        "version": 1,
        "setup_cmd": "./shim/build.sh",
        "hooks": {
            "guard": "verif",
            "enable": "go build -tags verif (run.sh builds every driver from /repo's working tree with CC=/verif/shim/cc CGO_CFLAGS=-I/verif/shim/include)",
            "baseline_off_cmd": BASE,
            "source_commits": [c.split()[0] for c in commits],
            "add_only": True,
        },
        "engines": [{"name": "vcheck", "path": "/verif/h", "serves_properties": [c["property_id"] for c in checks],
                     "kind_free_text": "Go harness module (replace => /repo): per-property drivers under h/cmd/<id>, node rig child processes running the real chain/mempool/consensus/contract code, oracles over recorded events, Go race detector"}],
        "checks": checks,
        "not_applicable": na,
        "notes": "Runtime monitoring only. Exit 0 held on what was observed / 1 VIOLATION / 2 INCONCLUSIVE (floor of non-vacuous observations not met or watchdog). known_findings.json lists genuine defects recorded or fixed.",
    }
    json.dump(m, open(os.path.join(root, "MANIFEST.json"), "w"), indent=1)
    print("checks:", [c["property_id"] for c in checks]); print("not_applicable:", [n["property_id"] for n in na])

main()
