#!/usr/bin/env python3
"""Development helper: applies small hand-written semantic breaks (the "must catch" lists of DESIGN.md
section 6) to a scratch worktree of /repo, one at a time, runs the named check against it
(VERIF_REPO) and records whether it fires.  Never touches /repo.  Results: /verif/selfmut/results.json"""
import json, subprocess, sys, os, re, time

WT = "/var/tmp/mut-self"
M = [
 # (id, check, file, old, new)
 ("C01-fee-not-debited", "C01", "chain/chainhandle.go", "contract.Execute(execCtx, bs, cdb, tx.GetTx(), sender, receiver, bi, executionMode, false)\n\t\tsender.SubBalance(txFee)", "contract.Execute(execCtx, bs, cdb, tx.GetTx(), sender, receiver, bi, executionMode, false)"),
 ("C01-reward-twice", "C01", "chain/chainhandle.go", "\tcoinbaseAccountState.AddBalance(bpReward)\n", "\tcoinbaseAccountState.AddBalance(bpReward)\n\tcoinbaseAccountState.AddBalance(bpReward)\n"),
 ("C01-voting-reward-no-vault-debit", "C01", "consensus/impl/dpos/dpos.go", "\terr = state.SendBalance(vaultAccountState, winnerAccountState, reward)", "\twinnerAccountState.AddBalance(reward)"),
 ("C01-unstake-no-system-debit", "C01", "contract/system/staking.go", "\tif err := state.SendBalance(receiver, sender, balanceAdjustment); err != nil {\n\t\treturn nil, err\n\t}", "\tsender.AddBalance(balanceAdjustment)"),
 ("C02-export-unsorted", "C02", "state/statedb/statebuffer.go", "\tsort.Slice(bufs, func(i, j int) bool {", "\tif false {\n\t\tsort.Slice(bufs, func(i, j int) bool { return false })\n\t}\n\t_ = (func(i, j int) bool {"),
 ("C03-no-rollback-on-rejected-tx", "C03", "chain/chainhandle.go", "\t\t\tif err2 := bState.Rollback(blockSnap); err2 != nil {", "\t\t\t_ = blockSnap\n\t\t\tif err2 := error(nil); err2 != nil {"),
 ("C03-no-consensus-restore-after-failed-block", "C03", "chain/chainhandle.go", "\tif err := ex.execute(); err != nil {\n\t\tcs.Update(bestBlock)\n\t\treturn err\n\t}", "\tif err := ex.execute(); err != nil {\n\t\treturn err\n\t}"),
 ("C04-signmatch-skipped", "C04", "chain/chainhandle.go", "\t\tif !bytes.Equal(txAcc, account) {\n\t\t\treturn types.ErrSignNotMatch\n\t\t}", "\t\t_ = txAcc"),
 ("C04-chainid-not-checked", "C04", "types/transaction.go", "\tif !bytes.Equal(chainidhash, tx.GetTx().GetBody().GetChainIdHash()) {\n\t\treturn ErrTxInvalidChainIdHash\n\t}", ""),
 ("C04-verify-result-ignored", "C04", "chain/blockvalidator.go", "\tif failed, _ := bv.signVerifier.WaitDone(); failed == true {", "\tif failed, _ := bv.signVerifier.WaitDone(); failed == true && false {"),
 ("C04-nonce-ge", "C04", "types/transaction.go", "\tif (senderState.GetNonce() + 1) > tx.GetBody().GetNonce() {", "\tif senderState.GetNonce() > tx.GetBody().GetNonce() {"),
 ("C05-txindex-not-written", "C05", "chain/chaindb.go", "\tfor i, txEntry := range txs {\n\t\tif err := cdb.addTx(dbTx, txEntry, blockHash, i); err != nil {", "\tfor i, txEntry := range txs {\n\t\tif i%2 == 1 {\n\t\t\tcontinue\n\t\t}\n\t\tif err := cdb.addTx(dbTx, txEntry, blockHash, i); err != nil {"),
 ("C05-abandoned-tx-index-kept", "C05", "chain/reorg.go", "\t\tbulk.Delete(oldTx.Hash)", "\t\t_ = oldTx"),
 ("C06-marker-deleted-before-mapping-swap", "C06", "chain/reorg.go", "\tif err := reorg.swapChainMapping(); err != nil {\n\t\treturn err\n\t}", "\treorg.marker.delete()\n\tif err := reorg.swapChainMapping(); err != nil {\n\t\treturn err\n\t}"),
 ("C06-recover-latest-not-restored", "C06", "chain/recover.go", "\tbulk.Set(dbkey.LatestBlock(), types.BlockNoToBytes(rm.BrBestNo))\n", "\t_ = dbkey.LatestBlock()\n"),
 ("C07-reorg-on-equal-length", "C07", "chain/reorg.go", "\tisNeed := latest < blockNo", "\tisNeed := latest <= blockNo"),
 ("C07-lib-veto-off-by-one", "C07", "h/rig", None, None),
 ("C08-majority-lowered", "C08", "consensus/impl/dpos/lib.go", "\t\treturn bpCount*2/3 + 1", "\t\treturn bpCount * 2 / 3"),
 ("C08-calclib-index", "C08", "consensus/impl/dpos/lib.go", "libInfos[(len(libInfos)-1)/3]", "libInfos[len(libInfos)/3]"),
 ("C08-lib-rejection-removed", "C08", "consensus/impl/dpos/dpos.go", "\tif dpos.Status != nil && block.BlockNo() <= dpos.libNo() {", "\tif dpos.Status != nil && block.BlockNo() <= dpos.libNo() && false {"),
 ("C08-reorg-veto-strict", "C08", "consensus/impl/dpos/status.go", "\treorganizable := rootNo >= libNo", "\treorganizable := rootNo+1 >= libNo"),
 ("C13-orphan-sign", "C13", "mempool/mempool.go", "\t// update the total number of orphan txns (nonce too high)\n\tmp.orphan -= diff", "\t// update the total number of orphan txns (nonce too high)\n\tmp.orphan += diff"),
 ("C13-filter-keeps-equal-nonce", "C13", "types/transaction.go", "\tif (senderState.GetNonce() + 1) > tx.GetBody().GetNonce() {", "\tif senderState.GetNonce() > tx.GetBody().GetNonce() && senderState.GetNonce() > 3 {"),
 ("C13-cache-not-cleaned-on-block", "C13", "mempool/mempool.go", "\t\tmp.orphan -= diff\n\t\tfor _, tx := range delTxs {\n\t\t\tmp.cache.Delete(types.ToTxID(tx.GetHash()))\n", "\t\tmp.orphan -= diff\n\t\tfor _, tx := range delTxs {\n\t\t\t_ = tx\n"),
 ("C15-total-not-reduced-on-unstake", "C15", "contract/system/staking.go", "\tif err := subTotal(scs, balanceAdjustment); err != nil {\n\t\treturn nil, err\n\t}", "\t_ = scs"),
 ("C15-votes-not-shrunk", "C15", "contract/system/vote.go", "\t\tif oldvote.Amount == nil ||\n\t\t\tnew(big.Int).SetBytes(oldvote.Amount).Cmp(stakedAmount) <= 0 {\n\t\t\tcontinue\n\t\t}", "\t\tif oldvote.Amount == nil || stakedAmount != nil {\n\t\t\tcontinue\n\t\t}"),
 ("C15-name-update-without-owner-check", "C15", "contract/name/execute.go", "\t\tif (!bytes.Equal(tx.Account, []byte(nameArg))) &&\n\t\t\t(!bytes.Equal(tx.Account, getOwner(scs, []byte(nameArg), false))) {", "\t\tif false {"),
 ("C20-send-guard", "C20", "contract/vm_callback.go", "\tif (ctx.isQuery == true || ctx.nestedView > 0) && amountBig.Cmp(zeroBig) > 0 {", "\tif false && amountBig.Cmp(zeroBig) > 0 {"),
 ("C20-nestedview-not-counted", "C20", "contract/vm_callback.go", "\tctx.nestedView++\n", "\t_ = ctx\n"),
]

def guards():
    s = open("/repo/contract/vm_callback.go").read()
    out = []
    names = {"luaSetDB":"setdb","luaDelDB":"deldb","luaCallContract":"callvalue","luaSetRecoveryPoint":"recoverypoint","luaDeployContract":"deploy","luaEvent":"event","luaGovernance":"governance"}
    for fn, short in names.items():
        i = s.index("func "+fn+"(")
        j = s.index("ctx.isQuery == true || ctx.nestedView > 0", i)
        ls = s.rfind("\n", 0, j)+1
        le = s.index("\n", j)
        line = s[ls:le]
        out.append(("C20-guard-"+short, "C20", "contract/vm_callback.go", line, line.replace("ctx.isQuery == true || ctx.nestedView > 0", "false"), i))
    return out

def sh(cmd, **kw):
    return subprocess.run(cmd, shell=True, capture_output=True, text=True, **kw)

def main():
    only = set(sys.argv[1:])
    head = sh("git -C /repo rev-parse HEAD").stdout.strip()
    if not os.path.isdir(WT):
        sh("git -C /repo worktree add --detach %s HEAD" % WT)
    res_path = "/verif/selfmut/results.json"
    results = json.load(open(res_path)) if os.path.exists(res_path) else {}
    muts = [m + (None,) for m in M if m[3] is not None] + guards()
    for mid, check, f, old, new, pos in muts:
        if only and mid not in only and check not in only:
            continue
        sh("git -C %s checkout -q -- . && git -C %s checkout -q --detach %s" % (WT, WT, head))
        p = os.path.join(WT, f)
        s = open(p).read()
        if pos is not None:
            k = s.index(old, pos)
            s2 = s[:k] + new + s[k+len(old):]
        else:
            if s.count(old) != 1:
                results[mid] = {"check": check, "result": "not-applied (%d matches)" % s.count(old)}
                print(mid, results[mid]); continue
            s2 = s.replace(old, new)
        open(p, "w").write(s2)
        t0 = time.time()
        r = sh("VERIF_REPO=%s /verif/run.sh %s quick" % (WT, check), timeout=2400)
        keys = re.findall(r"^  key=(.*)$", r.stdout, re.M)[:5]
        if "BUILD-FAILED" in r.stdout:
            verdict = "build-failed"
        elif r.returncode == 1 and "VIOLATION" in r.stdout:
            verdict = "caught"
        elif r.returncode == 0:
            verdict = "missed"
        else:
            verdict = "rc=%d" % r.returncode
        results[mid] = {"check": check, "file": f, "result": verdict, "keys": keys, "wall_s": round(time.time()-t0), "head": head[:8]}
        print(mid, verdict, keys[:2], flush=True)
        json.dump(results, open(res_path, "w"), indent=1)
    sh("git -C %s checkout -q -- ." % WT)

main()
