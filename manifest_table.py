WITHDRAWN = {}

add("C01", "exploration", "runtime monitor: supply-conservation oracle over full state dumps (producer + fresh validator child processes) on seeded adversarial tx mixes; per-tx probe inside the real block generator",
    "Held on every block of every explored configuration: the sum of all balances over a complete walk of the state trie is unchanged by the block (minus receipt fees when no coinbase is configured), observed on the real producer path and on a fresh validator that re-executes the block. Exploration, not proof: reach is the seeded tx mixes x configurations x hardfork versions listed in the evidence.")
