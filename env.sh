# source me: common environment for every build/run in /verif
export GOFLAGS=-mod=mod GOPROXY=off GOSUMDB=off GOTOOLCHAIN=local
export CC=/verif/shim/cc
export CGO_CFLAGS=-I/verif/shim/include
export ARGLIB_LEVEL=error
