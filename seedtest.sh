#!/bin/bash
# usage: seedtest.sh <Cxx> <worktree> <patch.diff> [tier]   (development helper: runs a check against a scratch
# worktree carrying one seeded change; never touches /repo)
id="$1"; wt="$2"; patch="$3"; tier="${4:-quick}"
git -C "$wt" checkout -q -- . && git -C "$wt" checkout -q --detach "$(git -C /repo rev-parse HEAD)" && git -C "$wt" apply "$patch" || { echo "APPLY-FAILED"; exit 9; }
out=$(VERIF_REPO="$wt" VERIF_SCRATCH=/var/tmp /verif/run.sh "$id" "$tier" 2>&1); rc=$?
git -C "$wt" checkout -q -- .
echo "rc=$rc"; echo "$out" | grep -E "^VIOLATION|^  key=|^KNOWN|^INCONCLUSIVE|^SUMMARY|BUILD-FAILED" | head -40
