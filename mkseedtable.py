#!/usr/bin/env python3
"""Rebuilds the seeded-changes table of DESIGN.md (between the SEEDED-TABLE markers) from
/verif/seeded/*/meta.json and /verif/selfmut/results.json."""
import json, glob, os, re
rows = []
for d in sorted(glob.glob('/verif/seeded/*/')):
    try:
        m = json.load(open(d + 'meta.json'))
    except Exception as e:
        continue
    cr = m.get('check_result') or {}
    det = m.get('detected_by', '?')
    keys = []
    for tier in ('quick', 'thorough'):
        t = cr.get(tier) or {}
        for k in (t.get('keys') or [])[:2]:
            if k not in keys:
                keys.append(k)
    what = (m.get('breaks') or m.get('summary') or '')
    what = re.sub(r'\s+', ' ', what)[:150]
    needs = re.sub(r'\s+', ' ', m.get('needs_to_manifest') or '')[:110]
    rows.append('| %s | %s | %s | %s | %s |' % (os.path.basename(d.rstrip('/')), what, needs, det, '; '.join(k[:60] for k in keys[:2])))
out = ['| seeded change | what it breaks | needs | detected by | violation keys |', '|---|---|---|---|---|'] + rows
sm = '/verif/selfmut/results.json'
if os.path.exists(sm):
    r = json.load(open(sm))
    out += ['', 'Hand-written breaks from the "must catch" lists of section 6 (`selfmut/run.py`, quick tier, applied to a scratch worktree):', '',
            '| break | check | result | violation keys |', '|---|---|---|---|']
    for k in sorted(r):
        v = r[k]
        out.append('| %s | %s | %s | %s |' % (k, v.get('check'), v.get('result'), '; '.join(x[:70] for x in (v.get('keys') or [])[:2])))
txt = '\n'.join(out)
p = '/verif/DESIGN.md'
s = open(p).read()
if 'SEEDED_TABLE_PLACEHOLDER' in s:
    s = s.replace('SEEDED_TABLE_PLACEHOLDER', '<!-- SEEDED-TABLE-BEGIN -->\n' + txt + '\n<!-- SEEDED-TABLE-END -->')
else:
    s = re.sub(r'<!-- SEEDED-TABLE-BEGIN -->.*?<!-- SEEDED-TABLE-END -->', lambda m: '<!-- SEEDED-TABLE-BEGIN -->\n' + txt + '\n<!-- SEEDED-TABLE-END -->', s, flags=re.S)
open(p, 'w').write(s)
print(len(rows), 'seeded rows')
