#!/usr/bin/env python3
"""Rebuilds the seeded-changes table of DESIGN.md (between the SEEDED-TABLE markers) from
/verif/seeded/*/meta.json and /verif/selfmut/results.json."""
import json, glob, os, re
NOTES = {
  'C20-m4': 'masked in this substrate: the scenario added for it (a `default` function registered as a view, reached by a CALL that names no function) runs, but the write is still refused with "set not permitted in query" because the view wrapper that `abi.register_view` puts around the function (shim re-implementation of the fork abi module, DESIGN 2.1) raises the same counter the executor would have raised; same masking as C20-nestedview-not-counted',
  'C06-m4': 'reorders operations inside one bulk; C06 takes a flushed bulk as atomic (stated limit of the crash model)',
 'C13-m1': 'not reachable through the component: fetch, removal and block notification all run on the single mempool actor goroutine, puts take the list lock; only direct calls of unexported methods from several goroutines (the demo) expose it',
 'C03-no-rollback-on-rejected-tx': 'no observable difference found: state is staged into the block state only on success, and run-time failures are rolled back inside executeTx (fix 6)',
 'C05-abandoned-tx-index-kept': 'outside the statement: C05 requires main-chain transactions to resolve, it does not forbid stale index entries of abandoned blocks (they resolve to a stored block)',
 'C20-nestedview-not-counted': 'masked: the executor increments the same counter when it enters a view function, so the callback-side increment is redundant for every entry point the check can reach',
 'C20-guard-recoverypoint': 'no state effect: a recovery point set in a read-only context is discarded with the context',
}
rows = []
for d in sorted(glob.glob('/verif/seeded/*/')):
    try:
        m = json.load(open(d + 'meta.json'))
    except Exception as e:
        continue
    cr = m.get('check_result') or {}
    det = m.get('detected_by', '?')
    keys = []
    for tier in ('quick', 'thorough'):
        t = cr.get(tier) or {}
        for k in (t.get('keys') or [])[:2]:
            if k not in keys:
                keys.append(k)
    what = (m.get('breaks') or m.get('summary') or '')
    what = re.sub(r'\s+', ' ', what)[:150]
    needs = re.sub(r'\s+', ' ', m.get('needs_to_manifest') or '')[:110]
    name = os.path.basename(d.rstrip('/'))
    if name in NOTES:
        det += ' (' + NOTES[name] + ')'
    rows.append('| %s | %s | %s | %s | %s |' % (name, what, needs, det, '; '.join(k[:60] for k in keys[:2])))
out = ['| seeded change | what it breaks | needs | detected by | violation keys |', '|---|---|---|---|---|'] + rows
sm = '/verif/selfmut/results.json'
if os.path.exists(sm):
    r = json.load(open(sm))
    out += ['', 'Hand-written breaks from the "must catch" lists of section 6 (`selfmut/run.py`, quick tier, applied to a scratch worktree):', '',
            '| break | check | result | violation keys |', '|---|---|---|---|']
    for k in sorted(r):
        v = r[k]
        res = v.get('result')
        if k in NOTES:
            res += ' (' + NOTES[k] + ')'
        out.append('| %s | %s | %s | %s |' % (k, v.get('check'), res, '; '.join(x[:70] for x in (v.get('keys') or [])[:2])))
txt = '\n'.join(out)
p = '/verif/DESIGN.md'
s = open(p).read()
if 'SEEDED_TABLE_PLACEHOLDER' in s:
    s = s.replace('SEEDED_TABLE_PLACEHOLDER', '<!-- SEEDED-TABLE-BEGIN -->\n' + txt + '\n<!-- SEEDED-TABLE-END -->')
else:
    s = re.sub(r'<!-- SEEDED-TABLE-BEGIN -->.*?<!-- SEEDED-TABLE-END -->', lambda m: '<!-- SEEDED-TABLE-BEGIN -->\n' + txt + '\n<!-- SEEDED-TABLE-END -->', s, flags=re.S)
open(p, 'w').write(s)
print(len(rows), 'seeded rows')
