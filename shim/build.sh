#!/bin/bash
set -e
here="$(cd "$(dirname "${BASH_SOURCE[0]}")" && pwd)"
mkdir -p "$here/lib"
gcc -O1 -g -fPIC -I"$here/include" -c "$here/shim.c" -o "$here/lib/shim.o"
ar rcs "$here/lib/libaergoshim.a" "$here/lib/shim.o"
echo "built $here/lib/libaergoshim.a"
