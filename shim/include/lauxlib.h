#ifndef AERGO_SHIM_LAUXLIB_H
#define AERGO_SHIM_LAUXLIB_H
#include "lua.h"
#define luaL_newstate luaL_newstate_puc
#include "/usr/include/lua5.1/lauxlib.h"
#undef luaL_newstate
lua_State *aergo_shim_newstate(int hardfork_version);
#define luaL_newstate(v) aergo_shim_newstate(v)

void luaL_throwerror(lua_State *L);
int  luaL_isinteger(lua_State *L, int idx);
void luaL_setuncatchablerror(lua_State *L);
int  luaL_hasuncatchablerror(lua_State *L);
void luaL_setsyserror(lua_State *L);
int  luaL_hassyserror(lua_State *L);
void *luaL_testudata(lua_State *L, int ud, const char *tname);
void luaL_enablemaxmem(lua_State *L);
void luaL_disablemaxmem(lua_State *L);
void luaL_set_service(lua_State *L, int service);
int  luaL_service(lua_State *L);
int  luaL_hardforkversion(lua_State *L);
void luaL_set_hardforkversion(lua_State *L, int v);
int  luaL_tminstlimit(lua_State *L);
void luaL_set_tminstlimit(lua_State *L, int v);
int  luaL_tminstcount(lua_State *L);
void luaL_set_tminstcount(lua_State *L, int v);
int  luaL_instcount(lua_State *L);
void luaL_setinstcount(lua_State *L, int v);
double luaL_nanosecond(lua_State *L);
int luaL_loadbufferx(lua_State *L, const char *buf, size_t sz, const char *name, const char *mode);
#define luaL_newlib(L,l) (lua_newtable(L), luaL_register(L, NULL, l))
#endif
