#ifndef AERGO_SHIM_LUAJIT_H
#define AERGO_SHIM_LUAJIT_H
#include "lua.h"
#endif
