#ifndef AERGO_SHIM_LUALIB_H
#define AERGO_SHIM_LUALIB_H
#include "lua.h"
#include "/usr/include/lua5.1/lualib.h"
int luaopen_jit(lua_State *L);
#endif
