/* shim: Aergo LuaJIT-fork API on top of stock PUC Lua 5.1 */
#ifndef AERGO_SHIM_LUA_H
#define AERGO_SHIM_LUA_H
#include "/usr/include/lua5.1/lua.h"
#include <stddef.h>
#ifndef LUA_OK
#define LUA_OK 0
#endif
/* fork's lua_dump has a strip flag */
#define lua_dump(L,w,d,strip) lua_dump(L,w,d)

/* gas (values are placeholders; the real ones live in the LuaJIT fork) */
#define GAS_ZERO 0
#define GAS_FASTEST 2
#define GAS_FAST 3
#define GAS_MID 5
#define GAS_SLOW 8
#define GAS_SDATA 50

void lua_gasuse(lua_State *L, unsigned long long sz);
void lua_gasuse_mul(lua_State *L, unsigned long long sz, unsigned long long n);
void lua_gasset(lua_State *L, unsigned long long gas);
unsigned long long lua_gasget(lua_State *L);
int  lua_usegas(lua_State *L);
void lua_enablegas(lua_State *L);
void lua_disablegas(lua_State *L);
#endif
