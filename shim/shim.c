/*
 * aergoshim: the subset of Aergo's LuaJIT-fork C API that package contract and
 * cmd/aergoluac/luac use, re-implemented over stock PUC-Rio Lua 5.1 (Debian
 * liblua5.1-0-dev).  The LuaJIT fork's sources are absent from this image, so
 * this is the only way to link and RUN the real Go/C host layer
 * (contract/*.go, contract/*_module.c).  It is NOT consensus-compatible with the
 * real VM (gas numbers, bytecode format, abi JSON details differ); harness code
 * only relies on: gas counter plumbing, service id, hardfork version, error
 * flags, and an `abi` module with register/register_view/payable/
 * fee_delegation/autoload/generate/call/register_var.
 */
#include <stdlib.h>
#include <string.h>
#include <time.h>
#include "lua.h"
#include "lauxlib.h"
#include "lualib.h"
#undef luaL_newstate
extern lua_State *(luaL_newstate)(void); /* the stock PUC one */

typedef struct shim_extra {
	unsigned long long gas;
	int usegas;      /* gas accounting configured (lua_gasset called) */
	int gas_enabled; /* between lua_enablegas / lua_disablegas */
	int service;
	int hardfork;
	int uncatchable;
	int syserror;
	int tminstlimit, tminstcount, instcount;
	int maxmem;
} shim_extra;

static const char SHIM_KEY = 'x';

void (*lj_internal_view_start)(lua_State *) = NULL;
void (*lj_internal_view_end)(lua_State *) = NULL;

static shim_extra *extra(lua_State *L) {
	shim_extra *e;
	lua_pushlightuserdata(L, (void *)&SHIM_KEY);
	lua_rawget(L, LUA_REGISTRYINDEX);
	e = (shim_extra *)lua_touserdata(L, -1);
	lua_pop(L, 1);
	return e;
}

static int shim_view_start(lua_State *L) {
	if (lj_internal_view_start) lj_internal_view_start(L);
	return 0;
}
static int shim_view_end(lua_State *L) {
	if (lj_internal_view_end) lj_internal_view_end(L);
	return 0;
}

/* abi module, in Lua */
static const char *abi_src =
"local view_start, view_end = ...\n"
"local _G, type, pairs, ipairs, error, pcall, unpack, select, tostring = _G, type, pairs, ipairs, error, pcall, unpack, select, tostring\n"
"local tinsert, tconcat, tsort, sfmt = table.insert, table.concat, table.sort, string.format\n"
"local funcs, order, vars, varorder = {}, {}, {}, {}\n"
"local function nameof(f)\n"
"  local names = {}\n"
"  for k, v in pairs(_G) do if v == f and type(k) == 'string' then tinsert(names, k) end end\n"
"  tsort(names)\n"
"  return names[1]\n"
"end\n"
"local function reg(f, view)\n"
"  if type(f) ~= 'function' then error('argument expected, got ' .. type(f), 3) end\n"
"  local n = nameof(f)\n"
"  if n == nil then error('global function expected', 3) end\n"
"  if funcs[n] == nil then tinsert(order, n) end\n"
"  local e = funcs[n] or {payable=false, view=false, fee_delegation=false}\n"
"  e.fn = f\n"
"  if view then\n"
"    e.view = true\n"
"    local inner = f\n"
"    e.fn = function(...)\n"
"      view_start()\n"
"      local r = {pcall(inner, ...)}\n"
"      view_end()\n"
"      if not r[1] then error(r[2], 0) end\n"
"      return unpack(r, 2, table.maxn(r))\n"
"    end\n"
"    _G[n] = e.fn\n"
"  end\n"
"  funcs[n] = e\n"
"  return n\n"
"end\n"
"local abi = {}\n"
"function abi.register(...) for i = 1, select('#', ...) do reg((select(i, ...)), false) end end\n"
"function abi.register_view(...) for i = 1, select('#', ...) do reg((select(i, ...)), true) end end\n"
"function abi.payable(...)\n"
"  for i = 1, select('#', ...) do local n = reg((select(i, ...)), false); funcs[n].payable = true end\n"
"end\n"
"function abi.fee_delegation(...)\n"
"  for i = 1, select('#', ...) do local n = reg((select(i, ...)), false); funcs[n].fee_delegation = true end\n"
"end\n"
"function abi.register_var(name, vt)\n"
"  if vars[name] == nil then tinsert(varorder, name) end\n"
"  vars[name] = vt\n"
"end\n"
"function abi.autoload()\n"
"  for _, n in ipairs({'constructor', 'default', 'check_delegation'}) do\n"
"    local f = _G[n]\n"
"    if type(f) == 'function' and funcs[n] == nil then reg(f, false) end\n"
"  end\n"
"end\n"
"function abi.generate()\n"
"  local fs = {}\n"
"  for _, n in ipairs(order) do\n"
"    local e = funcs[n]\n"
"    tinsert(fs, sfmt('{\"name\":%q,\"arguments\":[],\"payable\":%s,\"view\":%s,\"fee_delegation\":%s}', n, tostring(e.payable), tostring(e.view), tostring(e.fee_delegation)))\n"
"  end\n"
"  local vs = {}\n"
"  for _, n in ipairs(varorder) do\n"
"    local vt = vars[n]\n"
"    tinsert(vs, sfmt('{\"name\":%q,\"type\":%q,\"len\":%d}', n, tostring(vt._type_), vt._len_ or 0))\n"
"  end\n"
"  return '{\"version\":\"0.2\",\"language\":\"lua\",\"functions\":[' .. tconcat(fs, ',') .. '],\"state_variables\":[' .. tconcat(vs, ',') .. ']}'\n"
"end\n"
"function abi.call(fname, ...)\n"
"  local e = funcs[fname]\n"
"  if e == nil then\n"
"    if fname == 'constructor' or fname == 'default' or fname == 'check_delegation' then\n"
"      local f = _G[fname]\n"
"      if type(f) == 'function' then return f(...) end\n"
"    end\n"
"    error('undefined function: ' .. tostring(fname), 0)\n"
"  end\n"
"  return e.fn(...)\n"
"end\n"
"_G.abi = abi\n";

lua_State *aergo_shim_newstate(int hardfork_version) {
	lua_State *L = (luaL_newstate)();
	shim_extra *e;
	if (L == NULL) return NULL;
	lua_pushlightuserdata(L, (void *)&SHIM_KEY);
	e = (shim_extra *)lua_newuserdata(L, sizeof(shim_extra));
	memset(e, 0, sizeof(*e));
	e->service = -1;
	e->hardfork = hardfork_version;
	lua_rawset(L, LUA_REGISTRYINDEX);
	/* abi needs table/string: open just those two here; caller runs luaL_openlibs later */
	lua_pushcfunction(L, luaopen_base); lua_pushstring(L, ""); lua_call(L, 1, 0);
	lua_pushcfunction(L, luaopen_table); lua_pushstring(L, LUA_TABLIBNAME); lua_call(L, 1, 0);
	lua_pushcfunction(L, luaopen_string); lua_pushstring(L, LUA_STRLIBNAME); lua_call(L, 1, 0);
	if (luaL_loadbuffer(L, abi_src, strlen(abi_src), "=abi") != 0) {
		lua_close(L);
		return NULL;
	}
	lua_pushcfunction(L, shim_view_start);
	lua_pushcfunction(L, shim_view_end);
	if (lua_pcall(L, 2, 0, 0) != 0) {
		lua_close(L);
		return NULL;
	}
	return L;
}

/* ---- gas ---- */
void lua_gasset(lua_State *L, unsigned long long gas) { shim_extra *e = extra(L); e->gas = gas; e->usegas = 1; }
unsigned long long lua_gasget(lua_State *L) { return extra(L)->gas; }
int lua_usegas(lua_State *L) { return extra(L)->usegas; }
void lua_enablegas(lua_State *L) { extra(L)->gas_enabled = 1; }
void lua_disablegas(lua_State *L) { extra(L)->gas_enabled = 0; }
void lua_gasuse(lua_State *L, unsigned long long sz) {
	shim_extra *e = extra(L);
	if (!e->usegas || !e->gas_enabled) return;
	if (e->gas < sz) {
		e->gas = 0;
		e->uncatchable = 1;
		lua_pushstring(L, "not enough gas");
		lua_error(L);
	}
	e->gas -= sz;
}
void lua_gasuse_mul(lua_State *L, unsigned long long sz, unsigned long long n) { lua_gasuse(L, sz * n); }

/* ---- errors ---- */
void luaL_throwerror(lua_State *L) { lua_error(L); }
void luaL_setuncatchablerror(lua_State *L) { extra(L)->uncatchable = 1; }
int luaL_hasuncatchablerror(lua_State *L) { return extra(L)->uncatchable; }
void luaL_setsyserror(lua_State *L) { extra(L)->syserror = 1; }
int luaL_hassyserror(lua_State *L) { return extra(L)->syserror; }

/* ---- misc per-state fields ---- */
void luaL_set_service(lua_State *L, int service) { extra(L)->service = service; }
int luaL_service(lua_State *L) { return extra(L)->service; }
int luaL_hardforkversion(lua_State *L) { return extra(L)->hardfork; }
void luaL_set_hardforkversion(lua_State *L, int v) { extra(L)->hardfork = v; }
int luaL_tminstlimit(lua_State *L) { return extra(L)->tminstlimit; }
void luaL_set_tminstlimit(lua_State *L, int v) { extra(L)->tminstlimit = v; }
int luaL_tminstcount(lua_State *L) { return extra(L)->tminstcount; }
void luaL_set_tminstcount(lua_State *L, int v) { extra(L)->tminstcount = v; }
int luaL_instcount(lua_State *L) { return extra(L)->instcount; }
void luaL_setinstcount(lua_State *L, int v) { extra(L)->instcount = v; }
void luaL_enablemaxmem(lua_State *L) { extra(L)->maxmem = 1; }
void luaL_disablemaxmem(lua_State *L) { extra(L)->maxmem = 0; }
double luaL_nanosecond(lua_State *L) {
	struct timespec ts;
	(void)L;
	clock_gettime(CLOCK_MONOTONIC, &ts);
	return (double)ts.tv_sec * 1e9 + (double)ts.tv_nsec;
}

int luaL_isinteger(lua_State *L, int idx) {
	lua_Number n;
	if (lua_type(L, idx) != LUA_TNUMBER) return 0;
	n = lua_tonumber(L, idx);
	return n == (lua_Number)(long long)n;
}

void *luaL_testudata(lua_State *L, int ud, const char *tname) {
	void *p = lua_touserdata(L, ud);
	if (p != NULL && lua_getmetatable(L, ud)) {
		lua_getfield(L, LUA_REGISTRYINDEX, tname);
		if (!lua_rawequal(L, -1, -2)) p = NULL;
		lua_pop(L, 2);
		return p;
	}
	return NULL;
}

int luaL_loadbufferx(lua_State *L, const char *buf, size_t sz, const char *name, const char *mode) {
	if (mode != NULL && strchr(mode, 'b') == NULL && sz > 0 && buf[0] == LUA_SIGNATURE[0]) {
		lua_pushstring(L, "attempt to load chunk with wrong mode");
		return LUA_ERRSYNTAX;
	}
	return luaL_loadbuffer(L, buf, sz, name);
}

int luaopen_jit(lua_State *L) { (void)L; return 0; }
