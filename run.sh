#!/bin/bash
# usage: ./run.sh <Cxx> quick|thorough|replay [path]
# Rebuilds the check's driver from /repo's *current working tree* (hooks on: -tags verif),
# then runs it.  Exit 0 held / 1 VIOLATION / 2 INCONCLUSIVE.
set -u
cd /verif
. /verif/env.sh
id="$1"; shift
lc=$(echo "$id" | tr 'A-Z' 'a-z')
[ -f /verif/shim/lib/libaergoshim.a ] || /verif/shim/build.sh >/dev/null || exit 3
mkdir -p /verif/bin /verif/evidence
race=""
if [ -f "/verif/h/cmd/$lc/RACE" ]; then race="-race"; fi
( cd /verif/h && go build $race -tags verif -o "/verif/bin/$lc" "./cmd/$lc" ) || { echo "BUILD-FAILED $id"; exit 3; }
# children (node rigs) are the same binary re-executed; tell them where it is
export VERIF_SELF="/verif/bin/$lc"
exec "/verif/bin/$lc" "$@"
