#!/bin/bash
# usage: ./run.sh <Cxx> quick|thorough|replay [path]
# Rebuilds the check's driver from /repo's *current working tree* (hooks on: -tags verif),
# then runs it.  Exit 0 held / 1 VIOLATION / 2 INCONCLUSIVE / 3 build failure.
# VERIF_REPO=<dir> (development only) builds against another checkout of aergo (scratch worktree
# carrying a seeded change) instead of /repo; registered commands never set it.
set -u
cd /verif
. /verif/env.sh
id="$1"; shift
lc=$(echo "$id" | tr 'A-Z' 'a-z')
[ -f /verif/shim/lib/libaergoshim.a ] || /verif/shim/build.sh >/dev/null || exit 3
mkdir -p /verif/bin /verif/evidence
race=""
if [ -f "/verif/h/cmd/$lc/RACE" ]; then race="-race"; fi
repo="${VERIF_REPO:-/repo}"
export VERIF_REPO="$repo"
out="/verif/bin/$lc"
modflag=""
if [ "$repo" != "/repo" ]; then
  tag=$(echo "$repo" | tr -c 'A-Za-z0-9\n' '_')
  md="/verif/bin/mod$tag"; mkdir -p "$md"
  sed "s#=> /repo#=> $repo#" /verif/h/go.mod > "$md/go.mod"; cp /verif/h/go.sum "$md/go.sum"
  modflag="-modfile=$md/go.mod"; out="/verif/bin/$lc$tag"
fi
( cd /verif/h && go build $race $modflag -tags verif -o "$out" "./cmd/$lc" ) || { echo "BUILD-FAILED $id"; exit 3; }
# children (node rigs) are the same binary re-executed; tell them where it is
export VERIF_SELF="$out"
exec "$out" "$@"
